package main

import (
	"fmt"
	"go/token"
	"go/types"
	"sort"
	"strings"

	"golang.org/x/tools/go/ssa"
)

func init() {
	register(&Property{
		ID: "C02",
		Explain: "Static necessary conditions for 'playing a move produces the successor position the rules prescribe'. " +
			"R1: NewCastles clears, for each corner, the geometrically right castling right under a test of BOTH From()==corner and To()==corner, clears both rights of the mover on a king move, and returns Castles &^ affected. " +
			"R2: a non-zero en-passant square is stored only under (moved piece is a pawn) AND (|from-to| == 16) AND CanEnPassant(to), is (from+to)/2, and CanEnPassant is evaluated on the pre-move placement. " +
			"R3: the halfmove clock is zeroed exactly when the moved piece is a pawn or something is captured (captured piece read at the capture square before any piece moves) and incremented by one otherwise; the fullmove number grows by the mover's colour read before the flip. " +
			"R4: the captured piece is removed from the capture square, the promotion piece is placed iff the move carries one, the four castling rook relocations are geometrically right and only under a king move. " +
			"R5: UCI move lists reach MakeMove only through parseUCIMove's IsPseudoLegal gate on the driver's persistent board. " +
			"R6: increments of struct fields narrower than int are bounded (fires on the int8 halfmove clock: known finding F-2). " +
			"Not decided: CanEnPassant's pin logic, equality with FIDE successor for concrete positions.",
		Assume: []string{"go/ssa models the program faithfully", "chess.ShortWhite/LongWhite/ShortBlack/LongBlack name the rights their identifiers say"},
		Run:    runC02,
	})
}

func runC02(c *Ctx) {
	p := c.need("default")
	if p == nil {
		return
	}
	c02R1(c, p)
	c02R2(c, p, "C02.R2")
	c02R3(c, p)
	c02R4(c, p)
	c02R5(c, p, "C02.R5")
	c02R6(c, p)
	c02R7(c, p, "C02.R7")
	c02R8(c, p)
	// a `position … moves` list reaches the board only through IsPseudoLegal: a legal move the gate rejects
	// (or an illegal one it lets through) makes the position command produce a different successor
	c.As("C05.R", "C02.R9.gate:R", func() { c05R1R4(c, p); c05R2(c, p) })
	epNullRule(c, p, "C02.R10.ep-null")
}

// atom is a normalised atomic condition.
type atom struct {
	Kind string // e.g. "from==", "to==", "moved==", "captured==", "dbl", "canEP", "promo=="
	Arg  int64
	Pol  bool
	Val  ssa.Value
}

// classifyAtom recognises the atomic conditions the C02/C05 rules talk about inside fn.
func classifyAtom(v ssa.Value, pol bool) (atom, bool) {
	v = stripConv(v)
	if u, ok := v.(*ssa.UnOp); ok && u.Op == token.NOT {
		return classifyAtom(u.X, !pol)
	}
	if call, ok := v.(*ssa.Call); ok {
		if objName(calleeObj(call)) == "board.(*Board).CanEnPassant" {
			return atom{Kind: "canEP", Pol: pol, Val: v}, true
		}
		return atom{}, false
	}
	bo, ok := v.(*ssa.BinOp)
	if !ok || (bo.Op != token.EQL && bo.Op != token.NEQ) {
		return atom{}, false
	}
	x, y := stripConv(bo.X), stripConv(bo.Y)
	k, isc := constOf(y)
	if !isc {
		if k2, isc2 := constOf(x); isc2 {
			x, k, isc = y, k2, true
		}
	}
	if !isc {
		return atom{}, false
	}
	if bo.Op == token.NEQ {
		pol = !pol
	}
	a := atom{Arg: k, Pol: pol, Val: v}
	switch {
	case isFromToElem(x):
		a.Kind = "fromto=="
	case isCallValueTo(x, "move.(Move).From"):
		a.Kind = "from=="
	case isCallValueTo(x, "move.(Move).To"):
		a.Kind = "to=="
	case isCallValueTo(x, "move.(Move).Promo"):
		a.Kind = "promo=="
	case isFieldLoad(x, "Board.STM"):
		a.Kind = "stm=="
	case isPieceAt(x, "move.(Move).From"):
		a.Kind = "moved=="
	case pieceAtCaptureSq(x) != nil:
		a.Kind = "captured=="
	case isAbsFromMinusTo(x):
		a.Kind = "absdiff=="
	default:
		return atom{}, false
	}
	return a, true
}

// isPieceAt: v == load SquaresToPiece[m.<acc>()]
func isPieceAt(v ssa.Value, acc string) bool {
	u, ok := v.(*ssa.UnOp)
	if !ok || u.Op != token.MUL {
		return false
	}
	ia, ok := u.X.(*ssa.IndexAddr)
	if !ok {
		return false
	}
	fr, ok := asFieldAddr(ia.X)
	return ok && fr.Name() == "Board.SquaresToPiece" && isCallValueTo(stripConv(ia.Index), acc)
}

func isAbsFromMinusTo(v ssa.Value) bool {
	call, ok := v.(*ssa.Call)
	if !ok || objName(calleeObj(call)) != "chess.Abs" || len(call.Call.Args) != 1 {
		return false
	}
	bo, ok := stripConv(call.Call.Args[0]).(*ssa.BinOp)
	if !ok || bo.Op != token.SUB {
		return false
	}
	a, b := stripConv(bo.X), stripConv(bo.Y)
	return (isCallValueTo(a, "move.(Move).From") && isCallValueTo(b, "move.(Move).To")) || (isCallValueTo(a, "move.(Move).To") && isCallValueTo(b, "move.(Move).From"))
}

// entryEdges lists, for every predecessor edge of b, the If condition taken (nil cond for unconditional jumps).
type predEdge struct {
	Pred *ssa.BasicBlock
	Cond ssa.Value
	True bool
}

func entryEdges(b *ssa.BasicBlock) []predEdge {
	var out []predEdge
	for _, p := range b.Preds {
		e := predEdge{Pred: p}
		if ce := edgeCond(p, b); len(ce) == 1 {
			e.Cond, e.True = ce[0].Cond, ce[0].True
		}
		out = append(out, e)
	}
	return out
}

// mustHold returns the atoms that necessarily hold whenever control is in block b
// (conjunction over dominating edges; a bool phi built by && is expanded).
func mustHold(b *ssa.BasicBlock) []atom {
	var out []atom
	for _, ce := range controllingConds(b) {
		out = append(out, conjuncts(ce.Cond, ce.True, 0)...)
	}
	return out
}

// conjuncts: atoms that necessarily hold when v evaluates to pol.
func conjuncts(v ssa.Value, pol bool, depth int) []atom {
	if depth > 8 {
		return nil
	}
	if a, ok := classifyAtom(v, pol); ok {
		return []atom{a}
	}
	if u, ok := v.(*ssa.UnOp); ok && u.Op == token.NOT {
		return conjuncts(u.X, !pol, depth+1)
	}
	ph, ok := v.(*ssa.Phi)
	if !ok {
		return nil
	}
	// edges able to deliver `pol`
	var sets [][]atom
	for i, e := range ph.Edges {
		if k, isc := constOf(e); isc {
			if (k != 0) != pol {
				continue // this edge delivers the opposite constant
			}
			// constant edge delivering pol: only the path facts hold
			pred := ph.Block().Preds[i]
			s := mustHold(pred)
			for _, ec := range edgeCond(pred, ph.Block()) {
				s = append(s, conjuncts(ec.Cond, ec.True, depth+1)...)
			}
			sets = append(sets, s)
			continue
		}
		pred := ph.Block().Preds[i]
		s := append([]atom{}, conjuncts(e, pol, depth+1)...)
		s = append(s, mustHold(pred)...)
		for _, ec := range edgeCond(pred, ph.Block()) {
			s = append(s, conjuncts(ec.Cond, ec.True, depth+1)...)
		}
		sets = append(sets, s)
	}
	if len(sets) == 0 {
		return nil
	}
	// intersection
	var out []atom
	for _, a := range sets[0] {
		inAll := true
		for _, s := range sets[1:] {
			found := false
			for _, b := range s {
				if a.Kind == b.Kind && a.Arg == b.Arg && a.Pol == b.Pol {
					found = true
				}
			}
			if !found {
				inAll = false
			}
		}
		if inAll {
			out = append(out, a)
		}
	}
	return out
}

func hasAtom(as []atom, kind string, arg int64, pol bool) bool {
	for _, a := range as {
		if a.Kind == kind && a.Arg == arg && a.Pol == pol {
			return true
		}
	}
	return false
}

func sqName(s int64) string {
	if s < 0 || s > 63 {
		return fmt.Sprint(s)
	}
	return fmt.Sprintf("%c%c", 'a'+byte(s%8), '1'+byte(s/8))
}

// ---- R1 ----

func c02R1(c *Ctx, p *Prog) {
	const rule = "C02.R1"
	fn := p.Func("board.(*Board).NewCastles")
	if fn == nil {
		c.Anchor(rule, "board.(*Board).NewCastles")
		return
	}
	rights := map[int64]string{}
	for _, n := range []string{"ShortWhite", "LongWhite", "ShortBlack", "LongBlack"} {
		v, ok := p.pkgConstInt("chess." + n)
		if !ok {
			c.Anchor(rule, "chess."+n)
			return
		}
		rights[v] = n
	}
	king, _ := p.pkgConstInt("chess.King")
	// expected right for a corner square
	expect := func(sq int64) string {
		side := map[int64]string{0: "Long", 7: "Short"}[sq%8]
		col := map[int64]string{0: "White", 7: "Black"}[sq/8]
		if side == "" || col == "" {
			return ""
		}
		return side + col
	}
	seen := map[string]bool{}
	kingOK := false
	allInstrs(fn, func(in ssa.Instruction) {
		bo, ok := in.(*ssa.BinOp)
		if !ok || bo.Op != token.OR {
			return
		}
		k, isc := constOf(bo.Y)
		if !isc {
			if k2, ok := constOf(bo.X); ok {
				k, isc = k2, true
			}
		}
		if isc {
			name, isRight := rights[k]
			if !isRight {
				return
			}
			// entry edges of this block: must be exactly {from==sq, to==sq} (true) for one corner sq
			var froms, tos []int64
			other := 0
			for _, e := range entryEdges(bo.Block()) {
				if e.Cond == nil {
					other++
					continue
				}
				a, ok := classifyAtom(e.Cond, e.True)
				switch {
				case ok && a.Kind == "fromto==" && a.Pol:
					// the tested value ranges over {From(), To()}: counts as both tests
					froms = append(froms, a.Arg)
					tos = append(tos, a.Arg)
				case ok && a.Kind == "from==" && a.Pol:
					froms = append(froms, a.Arg)
				case ok && a.Kind == "to==" && a.Pol:
					tos = append(tos, a.Arg)
				default:
					other++
				}
			}
			key := "corner:" + name
			seen[name] = true
			switch {
			case len(froms) != 1:
				c.Fail(rule, key+"#from", bo.Pos(), "%s is cleared without a test of m.From() against its rook's home square: a rook move away keeps the right", name)
			case len(tos) != 1:
				c.Fail(rule, key+"#to", bo.Pos(), "%s is cleared only when a piece moves FROM %s; a capture ON %s (m.To()) leaves the right alive after the rook is gone", name, sqName(froms[0]), sqName(froms[0]))
			case froms[0] != tos[0]:
				c.Fail(rule, key+"#same-square", bo.Pos(), "%s is guarded by From()==%s but To()==%s", name, sqName(froms[0]), sqName(tos[0]))
			case other != 0:
				c.Undec(rule, key+"#extra", bo.Pos(), "clearing of %s has %d additional entry conditions the rule does not understand", name, other)
			case expect(froms[0]) != name:
				c.Fail(rule, key+"#geometry", bo.Pos(), "square %s guards %s, geometry dictates %s", sqName(froms[0]), name, expect(froms[0]))
			default:
				c.Ok(rule, key, bo.Pos(), "%s cleared iff From()==%s or To()==%s", name, sqName(froms[0]), sqName(froms[0]))
			}
			return
		}
		// king: affected |= Castle(STM, Short) | Castle(STM, Long)
		sl := backSlice(bo, sliceOpts{Stop: func(v ssa.Value) bool { _, isPhi := v.(*ssa.Phi); return isPhi }})
		sides := map[int64]bool{}
		for v := range sl {
			if call, ok := v.(*ssa.Call); ok && objName(calleeObj(call)) == "chess.Castle" && len(call.Call.Args) == 2 {
				if isFieldLoad(stripConv(call.Call.Args[0]), "Board.STM") {
					if s, ok := constOf(call.Call.Args[1]); ok {
						sides[s] = true
					}
				}
			}
		}
		if len(sides) == 0 {
			return
		}
		guard := hasAtom(mustHold(bo.Block()), "moved==", king, true)
		// (also accept: sole entry edge is moved==King)
		if !guard {
			for _, e := range entryEdges(bo.Block()) {
				if e.Cond != nil {
					if a, ok := classifyAtom(e.Cond, e.True); ok && a.Kind == "moved==" && a.Arg == king && a.Pol {
						guard = true
					}
				}
			}
		}
		short, _ := p.pkgConstInt("chess.Short")
		long, _ := p.pkgConstInt("chess.Long")
		kingOK = c.Check(guard && sides[short] && sides[long] && len(sides) == 2, rule, "king", bo.Pos(), "a king move clears exactly Castle(STM,Short)|Castle(STM,Long) (guarded by moved piece == King: %v, sides: %d)", guard, len(sides)) || kingOK
	})
	// rights lost as a function of a square: a table lookup T[m.From()] / T[m.To()] or a helper h(m.From()) / h(m.To())
	accessor := func(v ssa.Value) string {
		v = stripConv(v)
		switch {
		case isCallValueTo(v, "move.(Move).From"):
			return "from"
		case isCallValueTo(v, "move.(Move).To"):
			return "to"
		}
		return ""
	}
	var squareMap func(v ssa.Value) (map[int64]int64, string, bool)
	squareMap = func(v ssa.Value) (map[int64]int64, string, bool) {
		v = stripConv(v)
		// table lookup
		if l, ok := v.(*ssa.UnOp); ok && l.Op == token.MUL {
			if ia, ok := l.X.(*ssa.IndexAddr); ok {
				if g, ok := ia.X.(*ssa.Global); ok {
					if acc := accessor(ia.Index); acc != "" {
						if tab, ok := p.globalArrayInts(g); ok {
							return tab, acc, true
						}
					}
				}
			}
		}
		// helper of one square
		if call, ok := v.(*ssa.Call); ok {
			h := call.Call.StaticCallee()
			if h != nil && isOwn(h) && h.Blocks != nil && len(call.Call.Args) >= 1 {
				argIx, acc := -1, ""
				for i, a := range call.Call.Args {
					if ac := accessor(a); ac != "" {
						argIx, acc = i, ac
					}
				}
				if argIx < 0 || argIx >= len(h.Params) {
					return nil, "", false
				}
				par := h.Params[argIx]
				tab := map[int64]int64{}
				for _, as := range resultAssignments(h, 0) {
					k, isc := constOf(as.Val)
					if !isc {
						return nil, "", false
					}
					if k == 0 {
						continue
					}
					// the squares under which this value is returned
					found := false
					conds := controllingConds(as.Block)
					for _, ce := range conds {
						bo, ok := ce.Cond.(*ssa.BinOp)
						if !ok || bo.Op != token.EQL || !ce.True {
							continue
						}
						if stripConv(bo.X) == ssa.Value(par) {
							if s, isc := constOf(bo.Y); isc {
								tab[s] |= k
								found = true
							}
						}
					}
					if !found {
						return nil, "", false
					}
				}
				return tab, acc, true
			}
		}
		return nil, "", false
	}
	lostFrom, lostTo := map[string]map[int64]bool{}, map[string]map[int64]bool{}
	tableForm := false
	var tablePos token.Pos
	allInstrs(fn, func(in ssa.Instruction) {
		bo, ok := in.(*ssa.BinOp)
		if !ok || bo.Op != token.OR {
			return
		}
		for _, opnd := range []ssa.Value{bo.X, bo.Y} {
			tab, acc, ok := squareMap(opnd)
			if !ok {
				continue
			}
			tableForm, tablePos = true, bo.Pos()
			for sq, mask := range tab {
				for bit, name := range rights {
					if mask&bit != 0 {
						dst := lostFrom
						if acc == "to" {
							dst = lostTo
						}
						if dst[name] == nil {
							dst[name] = map[int64]bool{}
						}
						dst[name][sq] = true
					}
				}
			}
		}
	})
	// rights lost row by row: a loop over a table of (square, right) records, `if from == row.sq || to == row.sq { affected |= row.right }`
	if rows, fFrom, fTo, ok := structTableRows(p, fn, -1); ok && !tableForm {
		rowField := func(v ssa.Value) (int, ssa.Value) {
			v = stripConv(v)
			switch x := v.(type) {
			case *ssa.Field:
				return x.Field, x.X
			case *ssa.UnOp:
				if fa, ok := x.X.(*ssa.FieldAddr); ok && x.Op == token.MUL {
					return fa.Field, fa.X
				}
			}
			return -1, nil
		}
		allInstrs(fn, func(in ssa.Instruction) {
			bo, ok := in.(*ssa.BinOp)
			if !ok || bo.Op != token.OR {
				return
			}
			for _, opnd := range []ssa.Value{bo.X, bo.Y} {
				fRight, base := rowField(opnd)
				if fRight < 0 || traceToGlobal(base, 0) == nil {
					continue
				}
				// every row is visited
				ix := tableRowIndex(base, 0)
				n, full := int64(0), false
				if ix != nil {
					n, full = fullRangeIndexAny(ix)
				}
				if !full || n != int64(len(rows)) {
					c.Undec(rule, "corner-table#all-rows", bo.Pos(), "the loop over the corner table is not recognised as visiting all %d rows", len(rows))
					seen["ShortWhite"], seen["LongWhite"], seen["ShortBlack"], seen["LongBlack"] = true, true, true, true
					return
				}
				// the or-ing is entered exactly on `from == row.sq` / `to == row.sq`
				nf, nt, other := 0, 0, 0
				for _, e := range entryEdges(bo.Block()) {
					cmp, isCmp := e.Cond.(*ssa.BinOp)
					if e.Cond == nil || !isCmp || cmp.Op != token.EQL || !e.True {
						other++
						continue
					}
					hit := false
					for _, pr := range [][2]ssa.Value{{cmp.X, cmp.Y}, {cmp.Y, cmp.X}} {
						fi, b2 := rowField(pr[0])
						if fi < 0 || traceToGlobal(b2, 0) == nil {
							continue
						}
						switch accessor(pr[1]) {
						case "from":
							if fi == fFrom {
								nf++
								hit = true
							}
						case "to":
							if fi == fTo {
								nt++
								hit = true
							}
						}
					}
					if !hit {
						other++
					}
				}
				if other > 0 {
					c.Undec(rule, "corner-table#entry", bo.Pos(), "the or-ing of the table's right has %d entry conditions the rule does not understand", other)
					seen["ShortWhite"], seen["LongWhite"], seen["ShortBlack"], seen["LongBlack"] = true, true, true, true
					return
				}
				tableForm, tablePos = true, bo.Pos()
				for _, row := range rows {
					for bit, name := range rights {
						if row[fRight]&bit == 0 {
							continue
						}
						if nf > 0 {
							if lostFrom[name] == nil {
								lostFrom[name] = map[int64]bool{}
							}
							lostFrom[name][row[fFrom]] = true
						}
						if nt > 0 {
							if lostTo[name] == nil {
								lostTo[name] = map[int64]bool{}
							}
							lostTo[name][row[fTo]] = true
						}
					}
				}
			}
		})
	}
	if tableForm {
		for _, name := range []string{"ShortWhite", "LongWhite", "ShortBlack", "LongBlack"} {
			if seen[name] {
				continue
			}
			seen[name] = true
			key := "corner:" + name
			f, t := lostFrom[name], lostTo[name]
			one := func(m map[int64]bool) (int64, bool) {
				if len(m) != 1 {
					return 0, false
				}
				for s := range m {
					return s, true
				}
				return 0, false
			}
			fs, okF := one(f)
			ts, okT := one(t)
			switch {
			case len(f) == 0 && len(t) == 0:
				c.Fail(rule, key, tablePos, "NewCastles never clears %s", name)
			case !okF:
				c.Fail(rule, key+"#from", tablePos, "%s is lost for a move FROM %d squares (expected exactly its rook's home square)", name, len(f))
			case !okT:
				c.Fail(rule, key+"#to", tablePos, "%s is lost when a piece moves FROM %s but for a move TO %d squares: a capture on the rook's home square must clear it too", name, sqName(fs), len(t))
			case fs != ts:
				c.Fail(rule, key+"#same-square", tablePos, "%s is lost for From()==%s but To()==%s", name, sqName(fs), sqName(ts))
			case expect(fs) != name:
				c.Fail(rule, key+"#geometry", tablePos, "square %s loses %s, geometry dictates %s", sqName(fs), name, expect(fs))
			default:
				c.Ok(rule, key, tablePos, "%s lost iff From()==%s or To()==%s (read from the square table/helper)", name, sqName(fs), sqName(fs))
			}
		}
	}
	// rights or-ed in from some table the forms above do not read
	opaqueTable := false
	allInstrs(fn, func(in ssa.Instruction) {
		if bo, ok := in.(*ssa.BinOp); ok && bo.Op == token.OR {
			for x := range backSlice(bo, sliceOpts{Stop: func(v ssa.Value) bool { _, isPhi := v.(*ssa.Phi); return isPhi }}) {
				if _, isG := x.(*ssa.Global); isG {
					opaqueTable = true
				}
			}
		}
	})
	for _, n := range []string{"ShortWhite", "LongWhite", "ShortBlack", "LongBlack"} {
		if !seen[n] {
			if opaqueTable {
				c.Undec(rule, "corner:"+n, fn.Pos(), "no recognised clearing of %s; rights are taken from a table in a form the rule does not read", n)
			} else {
				c.Fail(rule, "corner:"+n, fn.Pos(), "NewCastles never clears %s", n)
			}
		}
	}
	if !kingOK {
		c.Fail(rule, "king#present", fn.Pos(), "NewCastles has no recognised clearing of the mover's rights on a king move")
	}
	// result = Castles &^ affected
	allInstrs(fn, func(in ssa.Instruction) {
		ret, ok := in.(*ssa.Return)
		if !ok || len(ret.Results) != 1 {
			return
		}
		okRet := false
		if bo, ok := ret.Results[0].(*ssa.BinOp); ok {
			switch bo.Op {
			case token.AND_NOT:
				okRet = isFieldLoad(bo.X, "Board.Castles")
			case token.AND:
				for _, pr := range [][2]ssa.Value{{bo.X, bo.Y}, {bo.Y, bo.X}} {
					if u, ok := pr[1].(*ssa.UnOp); ok && u.Op == token.XOR && isFieldLoad(pr[0], "Board.Castles") {
						okRet = true
					}
				}
			}
		}
		c.Check(okRet, rule, "result", ret.Pos(), "NewCastles returns Castles with the affected rights removed (never adds a right)")
	})
}

// ---- R2 ----

func c02R2(c *Ctx, p *Prog, rule string) {
	fn := p.Func("board.(*Board).MakeMove")
	if fn == nil {
		c.Anchor(rule, "board.(*Board).MakeMove")
		return
	}
	pawn, _ := p.pkgConstInt("chess.Pawn")
	n := 0
	for _, st := range fieldStores(fn, "Board.EnPassant") {
		if v, ok := constOf(st.Val); ok && v == 0 {
			c.Ok(rule, "MakeMove#ep-store-zero", st.Pos(), "stores 0")
			continue
		}
		ph, ok := st.Val.(*ssa.Phi)
		if !ok {
			c.Undec(rule, "MakeMove#ep-store", st.Pos(), "stored en-passant value is not a choice between 0 and a square")
			continue
		}
		for i, e := range ph.Edges {
			if v, ok := constOf(e); ok && v == 0 {
				continue
			}
			n++
			pred := ph.Block().Preds[i]
			facts := mustHold(pred)
			for _, ec := range edgeCond(pred, ph.Block()) {
				facts = append(facts, conjuncts(ec.Cond, ec.True, 0)...)
			}
			c.Check(hasAtom(facts, "moved==", pawn, true), rule, "MakeMove#ep-flag#pawn", st.Pos(), "en-passant square recorded only when the moved piece is a pawn")
			c.Check(hasAtom(facts, "absdiff==", 16, true), rule, "MakeMove#ep-flag#double-step", st.Pos(), "en-passant square recorded only when |from-to| == 16")
			canEP := false
			var epCall *ssa.Call
			for _, a := range facts {
				if a.Kind == "canEP" && a.Pol {
					canEP = true
					epCall = a.Val.(*ssa.Call)
				}
			}
			c.Check(canEP, rule, "MakeMove#ep-flag#capturable", st.Pos(), "en-passant square recorded only when CanEnPassant reports a legal capture (needed for correct repetition hashing)")
			if epCall != nil {
				okArg := len(epCall.Call.Args) == 2 && isCallValueTo(stripConv(epCall.Call.Args[1]), "move.(Move).To")
				c.Check(okArg, rule, "MakeMove#ep-flag#capturable-arg", epCall.Pos(), "CanEnPassant is asked about the pawn's destination m.To()")
				// evaluated on the pre-move placement, side to move and en-passant state
				late := ""
				allInstrs(fn, func(w ssa.Instruction) {
					if late != "" {
						return
					}
					mod := isCallTo(w, "board.(*Board).addPiece") || isCallTo(w, "board.(*Board).removePiece")
					if s, ok := w.(*ssa.Store); ok {
						if fr, ok := asFieldAddr(s.Addr); ok && fr.Name() == "Board.STM" {
							mod = true
						}
					}
					if mod {
						if r, _ := reachAvoiding(w, epCall, nil); r {
							late = p.Rel(w.Pos())
						}
					}
				})
				c.Check(late == "", rule, "MakeMove#ep-flag#pre-move", epCall.Pos(), "CanEnPassant runs before any piece is moved or the side flipped (it reasons about the pre-move position) %s", late)
			}
			// value == (from+to)/2
			okVal := false
			if d, ok := stripConv(e).(*ssa.BinOp); ok && (d.Op == token.QUO || d.Op == token.SHR) {
				if k, isc := constOf(d.Y); isc && ((d.Op == token.QUO && k == 2) || (d.Op == token.SHR && k == 1)) {
					if s, ok := stripConv(d.X).(*ssa.BinOp); ok && s.Op == token.ADD {
						a, b := stripConv(s.X), stripConv(s.Y)
						okVal = (isCallValueTo(a, "move.(Move).From") && isCallValueTo(b, "move.(Move).To")) || (isCallValueTo(b, "move.(Move).From") && isCallValueTo(a, "move.(Move).To"))
					}
				}
			}
			c.Check(okVal, rule, "MakeMove#ep-flag#square", st.Pos(), "recorded square is (from+to)/2, the square the pawn skipped")
		}
	}
	c.Floor(rule, n, 1, "non-zero en-passant stores in MakeMove")
}

// ---- R3 ----

func c02R3(c *Ctx, p *Prog) {
	const rule = "C02.R3"
	fn := p.Func("board.(*Board).MakeMove")
	if fn == nil {
		c.Anchor(rule, "board.(*Board).MakeMove")
		return
	}
	pawn, _ := p.pkgConstInt("chess.Pawn")
	var zero, inc []*ssa.Store
	for _, st := range fieldStores(fn, "Board.FiftyCnt") {
		if v, ok := constOf(st.Val); ok && v == 0 {
			zero = append(zero, st)
			continue
		}
		if bo, ok := stripConv(st.Val).(*ssa.BinOp); ok && bo.Op == token.ADD {
			if k, isc := constOf(bo.Y); isc && k == 1 && isFieldLoad(stripConv(bo.X), "Board.FiftyCnt") {
				inc = append(inc, st)
				continue
			}
		}
		c.Undec(rule, "MakeMove#fifty-store", st.Pos(), "store to FiftyCnt is neither a reset to 0 nor an increment by one")
	}
	if len(zero) < 1 || len(inc) != 1 {
		c.Undec(rule, "MakeMove#fifty-shape", fn.Pos(), "expected one reset and one increment of FiftyCnt, found %d and %d", len(zero), len(inc))
	} else {
		// the increment runs iff moved != Pawn && captured == NoPiece
		facts := mustHold(inc[0].Block())
		okInc := hasAtom(facts, "moved==", pawn, false) && hasAtom(facts, "captured==", 0, true)
		extra := 0
		for _, a := range facts {
			if !(a.Kind == "moved==" && a.Arg == pawn) && !(a.Kind == "captured==" && a.Arg == 0) {
				extra++
			}
		}
		nconds := len(controllingConds(inc[0].Block()))
		c.Check(okInc, rule, "MakeMove#fifty-increment", inc[0].Pos(), "halfmove clock is incremented only when the moved piece is not a pawn AND nothing is captured (both conjuncts present)")
		c.Check(extra == 0 && nconds == 2, rule, "MakeMove#fifty-increment-only", inc[0].Pos(), "no further condition gates the increment (conditions: %d, unrelated atoms: %d): every quiet non-pawn move counts", nconds, extra)
		// one of the two stores on every path
		r, _ := reachAvoiding(fn.Blocks[0].Instrs[0], nil, func(in ssa.Instruction) bool {
			for _, z := range zero {
				if in == ssa.Instruction(z) {
					return true
				}
			}
			return in == ssa.Instruction(inc[0])
		})
		c.Check(!r, rule, "MakeMove#fifty-total", zero[0].Pos(), "every path through MakeMove either resets or increments the halfmove clock")
		// reset block entered only via pawn / capture edges
		okZero := true
		for _, z := range zero {
			for _, e := range entryEdges(z.Block()) {
				if e.Cond == nil {
					okZero = false
					continue
				}
				a, ok := classifyAtom(e.Cond, e.True)
				if !ok || !((a.Kind == "moved==" && a.Arg == pawn && a.Pol) || (a.Kind == "captured==" && a.Arg == 0 && !a.Pol)) {
					okZero = false
				}
			}
		}
		c.Check(okZero, rule, "MakeMove#fifty-reset", zero[0].Pos(), "the reset is entered only through (moved piece == Pawn) or (captured piece != NoPiece)")
	}
	// captured piece read before any placement change
	var capLoads []*ssa.UnOp
	allInstrs(fn, func(in ssa.Instruction) {
		if u, ok := in.(*ssa.UnOp); ok && pieceAtCaptureSq(u) != nil {
			capLoads = append(capLoads, u)
		}
	})
	if len(capLoads) == 0 {
		c.Undec(rule, "MakeMove#captured-piece", fn.Pos(), "MakeMove does not read SquaresToPiece[CaptureSq(m)]")
	}
	for _, ld := range capLoads {
		late := ""
		allInstrs(fn, func(w ssa.Instruction) {
			if late == "" && (isCallTo(w, "board.(*Board).addPiece") || isCallTo(w, "board.(*Board).removePiece")) {
				if r, _ := reachAvoiding(w, ld, nil); r {
					late = p.Rel(w.Pos())
				}
			}
		})
		c.Check(late == "", rule, "MakeMove#captured-piece", ld.Pos(), "the captured piece is read at CaptureSq(m) before any piece is moved %s", late)
		// and CaptureSq itself before EnPassant is overwritten
		cs := stripConv(ld.X.(*ssa.IndexAddr).Index).(*ssa.Call)
		lateEP := ""
		for _, st := range fieldStores(fn, "Board.EnPassant") {
			if r, _ := reachAvoiding(st, cs, nil); r {
				lateEP = p.Rel(st.Pos())
			}
		}
		c.Check(lateEP == "", rule, "MakeMove#capture-square-pre-move", cs.Pos(), "CaptureSq(m) is evaluated while EnPassant still holds the pre-move target %s", lateEP)
	}
	// fullMoves += int(STM) with STM denoting the mover: read before the flip (or the flipped colour read after it);
	// also `if STM == Black { fullMoves++ }` and a pass-through helper around the conversion
	verdict, why := "undec", "no store to the fullmove counter in MakeMove of a recognised form (fullMoves += int(STM) or an increment under a test of STM)"
	var fpos token.Pos = fn.Pos()
	black, _ := p.pkgConstInt("chess.Black")
	for _, st := range fieldStores(fn, "Board.fullMoves") {
		fpos = st.Pos()
		bo, ok := stripConv(st.Val).(*ssa.BinOp)
		if !ok || bo.Op != token.ADD {
			continue
		}
		for _, pr := range [][2]ssa.Value{{bo.X, bo.Y}, {bo.Y, bo.X}} {
			if !isFieldLoad(pr[0], "Board.fullMoves") {
				continue
			}
			if ld, flipped, ok := stmOperand(pr[1], 0); ok {
				ph := fieldPhase(p, fn, "Board.STM", ld, false)
				switch {
				case ph == "?":
					why = "the side to move added to the fullmove counter is read at a point where it may or may not have been flipped"
				case (ph == "orig" && !flipped) || (ph == "made" && flipped):
					verdict, why = "ok", "fullmove number grows by the mover's colour (0 for White, 1 for Black)"
				case ph == "same":
					why = "MakeMove adds the side to move to the fullmove counter but the flip of the side to move is not found"
				default:
					verdict, why = "fail", "the fullmove counter grows by the colour of the side to move AFTER the move (the opponent's): it advances after White's moves instead of Black's"
				}
				continue
			}
			if k, isc := constOf(pr[1]); isc && k == 1 {
				// increment under a test of the side to move
				conds := controllingConds(st.Block())
				if len(conds) != 1 {
					continue
				}
				cmp, isCmp := conds[0].Cond.(*ssa.BinOp)
				if !isCmp || (cmp.Op != token.EQL && cmp.Op != token.NEQ) {
					continue
				}
				for _, q := range [][2]ssa.Value{{cmp.X, cmp.Y}, {cmp.Y, cmp.X}} {
					kk, isK := constOf(q[1])
					ld, flipped, okS := stmOperand(q[0], 0)
					if !isK || !okS {
						continue
					}
					// the colour for which the increment runs, in terms of the loaded STM
					eq := (cmp.Op == token.EQL) == conds[0].True
					col := kk
					if !eq {
						col = kk ^ 1
					}
					if flipped {
						col ^= 1
					}
					ph := fieldPhase(p, fn, "Board.STM", ld, false)
					switch {
					case ph == "?" || ph == "same":
						why = "the test of the side to move that guards the fullmove increment is read in a state that is not decided"
					case (ph == "orig") == (col == black):
						verdict, why = "ok", "fullmove number is incremented exactly when Black has moved"
					default:
						verdict, why = "fail", "the fullmove counter is incremented after White's moves instead of Black's"
					}
				}
			}
		}
	}
	switch verdict {
	case "ok":
		c.Ok(rule, "MakeMove#fullmoves", fpos, "%s", why)
	case "fail":
		c.Fail(rule, "MakeMove#fullmoves", fpos, "%s", why)
	default:
		c.Undec(rule, "MakeMove#fullmoves", fpos, "%s", why)
	}
}

// ---- R4 ----

func c02R4(c *Ctx, p *Prog) {
	const rule = "C02.R4"
	fn := p.Func("board.(*Board).MakeMove")
	if fn == nil {
		c.Anchor(rule, "board.(*Board).MakeMove")
		return
	}
	king, _ := p.pkgConstInt("chess.King")
	rook, _ := p.pkgConstInt("chess.Rook")
	isSTM := func(v ssa.Value) bool { return isFieldLoad(stripConv(v), "Board.STM") }
	isOpp := func(v ssa.Value) bool {
		call, ok := stripConv(v).(*ssa.Call)
		return ok && objName(calleeObj(call)) == "chess.(Color).Flip" && isSTM(call.Call.Args[0])
	}
	var capRemoved, moverRemoved, moverPlaced bool
	for _, ci := range callsIn(fn, "board.(*Board).removePiece") {
		a := ci.Common().Args
		if len(a) != 4 {
			continue
		}
		if pieceAtCaptureSq(stripConv(a[2])) != nil {
			ok := isOpp(a[1]) && isCallValueTo(stripConv(a[3]), "board.(*Board).CaptureSq")
			if ok {
				// same CaptureSq value as the one the piece was read at
				ok = stripConv(a[3]) == stripConv(pieceAtCaptureSq(stripConv(a[2])).X.(*ssa.IndexAddr).Index)
			}
			capRemoved = c.Check(ok, rule, "MakeMove#remove-captured", ci.Pos(), "the piece read at CaptureSq(m) is removed from the opponent at that same square (en passant: the pawn's square, not To())") || capRemoved
		}
		if isPieceAt(stripConv(a[2]), "move.(Move).From") && isCallValueTo(stripConv(a[3]), "move.(Move).From") {
			moverRemoved = c.Check(isSTM(a[1]), rule, "MakeMove#remove-mover", ci.Pos(), "the moved piece is removed from From() for the side to move") || moverRemoved
		}
	}
	for _, ci := range callsIn(fn, "board.(*Board).addPiece") {
		a := ci.Common().Args
		if len(a) != 4 || !isCallValueTo(stripConv(a[3]), "move.(Move).To") {
			continue
		}
		// piece = phi[moved, Promo()] with the Promo edge under Promo() != NoPiece
		ok := false
		if ph, isPhi := a[2].(*ssa.Phi); isPhi && len(ph.Edges) == 2 {
			var sawMoved, sawPromo bool
			for i, e := range ph.Edges {
				pred := ph.Block().Preds[i]
				facts := mustHold(pred)
				for _, ec := range edgeCond(pred, ph.Block()) {
					facts = append(facts, conjuncts(ec.Cond, ec.True, 0)...)
				}
				switch {
				case isPieceAt(stripConv(e), "move.(Move).From"):
					sawMoved = hasAtom(facts, "promo==", 0, true)
				case isCallValueTo(stripConv(e), "move.(Move).Promo"):
					sawPromo = hasAtom(facts, "promo==", 0, false)
				}
			}
			ok = sawMoved && sawPromo
		}
		moverPlaced = c.Check(ok && isSTM(a[1]), rule, "MakeMove#place-mover", ci.Pos(), "the piece placed on To() is the promotion piece iff Promo() != NoPiece, else the moved piece, for the side to move") || moverPlaced
	}
	if !capRemoved {
		c.Fail(rule, "MakeMove#remove-captured#present", fn.Pos(), "no removal of the captured piece at CaptureSq(m) found")
	}
	if !moverRemoved {
		c.Fail(rule, "MakeMove#remove-mover#present", fn.Pos(), "no removal of the moved piece from From() found")
	}
	if !moverPlaced {
		c.Fail(rule, "MakeMove#place-mover#present", fn.Pos(), "no placement of the moved/promoted piece on To() found")
	}
	// castling rook relocations
	ops := rookOps(p, fn, rook)
	type km struct{ from, to int64 }
	byMove := map[km][]rookOp{}
	for _, o := range ops {
		byMove[km{o.From, o.To}] = append(byMove[km{o.From, o.To}], o)
	}
	var keys []km
	for k := range byMove {
		keys = append(keys, k)
	}
	sort.Slice(keys, func(i, j int) bool { return keys[i].from*64+keys[i].to < keys[j].from*64+keys[j].to })
	for _, k := range keys {
		name := fmt.Sprintf("castle:%s%s", sqName(k.from), sqName(k.to))
		os := byMove[k]
		if k.from < 0 || k.to < 0 {
			c.Undec(rule, "castle#unrecognised", os[0].Pos, "a rook relocation in MakeMove is not guarded by constant From()/To() tests nor taken from a recognised table of castling cases: the castling geometry cannot be read")
			continue
		}
		okGeom := k.from%8 == 4 && (k.from/8 == 0 || k.from/8 == 7) && (k.to == k.from+2 || k.to == k.from-2)
		var rem, add int64 = -1, -1
		for _, o := range os {
			if o.Op == "remove" {
				rem = o.Sq
			} else {
				add = o.Sq
			}
		}
		rank := k.from / 8 * 8
		if k.to > k.from {
			okGeom = okGeom && rem == rank+7 && add == rank+5
		} else {
			okGeom = okGeom && rem == rank+0 && add == rank+3
		}
		okGeom = okGeom && len(os) == 2
		c.Check(okGeom, rule, name+"#geometry", os[0].Pos, "king %s->%s moves the rook %s->%s (expected corner rook to the square the king crossed)", sqName(k.from), sqName(k.to), sqName(rem), sqName(add))
		// guarded by moved == King, colour = STM
		guard := true
		for _, ci := range append(callsIn(fn, "board.(*Board).addPiece"), callsIn(fn, "board.(*Board).removePiece")...) {
			a := ci.Common().Args
			if pc, ok := constOf(a[2]); !ok || pc != rook {
				continue
			}
			if !hasAtom(mustHold(ci.Block()), "moved==", king, true) || !isSTM(a[1]) {
				guard = false
			}
		}
		c.Check(guard, rule, name+"#king-only", os[0].Pos, "rook relocation happens only when the moved piece is a king, for the side to move")
	}
	c.Floor(rule+".castle", len(keys), 4, "castling cases in MakeMove")
}

// ---- R5 ----

func c02R5(c *Ctx, p *Prog, rule string) {
	// callee gate: a parser whose nil-error returns hand out a move only on the true edge of IsPseudoLegal(that move)
	gatedParser := func(h *ssa.Function) (bool, int) {
		if h == nil || h.Blocks == nil || h.Signature.Results().Len() != 2 {
			return false, 0
		}
		n, ok := 0, true
		allInstrs(h, func(in ssa.Instruction) {
			ret, isRet := in.(*ssa.Return)
			if !isRet || len(ret.Results) != 2 {
				return
			}
			if k, isC := returnedValue(ret, 1).(*ssa.Const); !isC || k.Value != nil {
				return // error return
			}
			n++
			okGate := false
			for _, ce := range controllingConds(ret.Block()) {
				v, pol := ce.Cond, ce.True
				if u, isNot := v.(*ssa.UnOp); isNot && u.Op == token.NOT {
					v, pol = u.X, !pol
				}
				if call, isCall := v.(*ssa.Call); isCall && pol && objName(calleeObj(call)) == "board.(*Board).IsPseudoLegal" {
					if sameValue(call.Call.Args[1], returnedValue(ret, 0), 0) {
						okGate = true
					}
				}
			}
			if !okGate {
				ok = false
			}
		})
		return ok && n > 0, n
	}
	isErrCtor := func(v ssa.Value) bool {
		call, ok := v.(*ssa.Call)
		if !ok {
			return false
		}
		switch objName(calleeObj(call)) {
		case "errors.New", "fmt.Errorf":
			return true
		}
		return false
	}
	nMk, nGateFn := 0, 0
	for _, fn := range p.OwnFuncs() {
		if relPkg(fnPkgPath(fn)) != "uci" {
			continue
		}
		for _, mk := range callsIn(fn, "board.(*Board).MakeMove") {
			nMk++
			mkI := mk.(ssa.Instruction)
			brd, mv := mk.Common().Args[0], mk.Common().Args[1]
			key := fnName(fn) + "#gate"
			// persistent board
			c.Check(isFieldLoad(stripConv(brd), "Driver.board"), rule, "applyMoves#persistent-board", mk.Pos(), "the move is played on the driver's persistent board (history is kept across the move list)")
			// the parser call the move comes from (if any)
			var pcall *ssa.Call
			if ext, ok := stripConv(mv).(*ssa.Extract); ok && ext.Index == 0 {
				pcall, _ = ext.Tuple.(*ssa.Call)
			}
			parserGated := false
			if pcall != nil {
				parserGated, _ = gatedParser(pcall.Call.StaticCallee())
				if parserGated {
					nGateFn++
				}
			}
			bad := ""
			complete := enumBlockPaths(fn.Blocks[0], func(from, to *ssa.BasicBlock) bool { return to == mkI.Block() }, 100000, func(bp *bpath) {
				if bp.End != "arrive" || bp.Arrive != mkI.Block() || bad != "" {
					return
				}
				direct, errNil, infeasible := false, false, false
				for _, pc := range bp.Conds {
					if call, ok := pc.V.(*ssa.Call); ok && objName(calleeObj(call)) == "board.(*Board).IsPseudoLegal" {
						if pc.True && sameValue(call.Call.Args[1], mv, 0) && sameValue(call.Call.Args[0], brd, 0) {
							direct = true
						}
					}
					if bo, ok := pc.V.(*ssa.BinOp); ok && (bo.Op == token.EQL || bo.Op == token.NEQ) {
						if k, isNil := bo.Y.(*ssa.Const); isNil && k.Value == nil {
							x := bp.resolveAt(bo.X, pc.At)
							isNilBranch := pc.True == (bo.Op == token.EQL)
							if isErrCtor(x) && isNilBranch {
								infeasible = true // a freshly made error is not nil
							}
							if ext, ok := x.(*ssa.Extract); ok && pcall != nil && ext.Tuple == ssa.Value(pcall) && ext.Index == 1 && isNilBranch {
								errNil = true
							}
						}
					}
				}
				if infeasible || direct || (parserGated && errNil) {
					return
				}
				bad = "a path reaches MakeMove on which neither IsPseudoLegal(board, move) was answered true nor the move came from a gated parser with a nil error"
			})
			switch {
			case !complete:
				c.Undec(rule, key, mk.Pos(), "path enumeration exceeded its budget")
			case bad != "":
				c.Fail(rule, "applyMoves#err-nil", mk.Pos(), "%s: a GUI move that is not pseudo-legal is played on the board", bad)
			default:
				c.Ok(rule, "applyMoves#err-nil", mk.Pos(), "every path to MakeMove passes the pseudo-legality gate for that move on that board (directly or inside the parser, with its error tested)")
			}
		}
	}
	c.Floor(rule+".make", nMk, 1, "MakeMove sites in package uci")
}

// ---- R6 ----

var narrowIncAllowed = map[string]string{
	"search.Search.gen": "generation counter: wrap-around is intended (table ageing compares for equality only)",
}

func c02R6(c *Ctx, p *Prog) {
	const rule = "C02.R6"
	n := 0
	for _, fn := range p.OwnFuncs() {
		allInstrs(fn, func(in ssa.Instruction) {
			st, ok := in.(*ssa.Store)
			if !ok {
				return
			}
			fa, ok := st.Addr.(*ssa.FieldAddr)
			if !ok {
				return
			}
			fr, ok := asFieldAddr(fa)
			if !ok {
				return
			}
			bt, ok := fr.Field.Type().Underlying().(*types.Basic)
			if !ok || bt.Info()&types.IsInteger == 0 {
				return
			}
			sz := types.SizesFor("gc", "amd64").Sizeof(bt)
			if sz >= 4 {
				return
			}
			bo, ok := stripConv(st.Val).(*ssa.BinOp)
			if !ok || bo.Op != token.ADD {
				return
			}
			k, isc := constOf(bo.Y)
			if !isc || k != 1 || !sameValue(stripConv(bo.X), mustLoadOf(fa), 0) {
				return
			}
			n++
			key := fnName(fn) + "#" + fr.Field.Name() + "++"
			if why, ok := narrowIncAllowed[fr.QName()]; ok {
				c.OkTrivial(rule, key, st.Pos(), "allowed: %s", why)
				return
			}
			// bounded: a dominating comparison field < const (or <=, >=-return) within the type's max
			max := int64(1)<<(uint(sz)*8-1) - 1
			if bt.Info()&types.IsUnsigned != 0 {
				max = int64(1)<<(uint(sz)*8) - 1
			}
			bounded := false
			for _, ce := range controllingConds(st.Block()) {
				if cb, ok := ce.Cond.(*ssa.BinOp); ok {
					if lim, isc := constOf(cb.Y); isc && sameValue(stripConv(cb.X), mustLoadOf(fa), 0) {
						switch {
						case cb.Op == token.LSS && ce.True && lim <= max:
							bounded = true
						case cb.Op == token.LEQ && ce.True && lim < max:
							bounded = true
						case cb.Op == token.GEQ && !ce.True && lim <= max:
							bounded = true
						case cb.Op == token.GTR && !ce.True && lim < max:
							bounded = true
						}
					}
				}
			}
			if bounded {
				c.Ok(rule, key, st.Pos(), "increment of %s (%s) is guarded by a dominating bound below %d", fr.QName(), bt.Name(), max)
			} else {
				c.Fail(rule, key, st.Pos(), "%s is a %s incremented without a bound: after %d increments it wraps negative (halfmove clock: printed FEN shows a negative clock, the >= 100 draw test stops firing, and the sign-extended value corrupts the undo token)", fr.QName(), bt.Name(), max+1)
			}
		})
	}
	c.Floor(rule, n, 2, "increments of narrow integer fields")
}

// mustLoadOf builds a pattern value: a load of the same field address (for sameValue).
func mustLoadOf(fa *ssa.FieldAddr) ssa.Value {
	if fa.Referrers() != nil {
		for _, r := range *fa.Referrers() {
			if u, ok := r.(*ssa.UnOp); ok && u.Op == token.MUL {
				return u
			}
		}
	}
	// find any load of an equivalent address in the function
	var found ssa.Value
	allInstrs(fa.Parent(), func(in ssa.Instruction) {
		if u, ok := in.(*ssa.UnOp); ok && u.Op == token.MUL && found == nil {
			if f2, ok := u.X.(*ssa.FieldAddr); ok && f2.Field == fa.Field && sameValue(f2.X, fa.X, 0) {
				found = u
			}
		}
	})
	if found != nil {
		return found
	}
	return fa
}

var _ = strings.HasPrefix

func init() {
	addMutants(
		Mutant{Name: "C02.R1-rook-capture-keeps-right", Prop: "C02", File: "board/board.go", Quick: true,
			Old: "if m.From() == H8 || m.To() == H8 {", New: "if m.From() == H8 {",
			Expect: "C02.R1/corner:ShortBlack#to"},
		Mutant{Name: "C02.R1-a1-clears-wrong-side", Prop: "C02", File: "board/board.go",
			Old: "if m.From() == A1 || m.To() == A1 {\n\t\taffected |= LongWhite", New: "if m.From() == A1 || m.To() == A1 {\n\t\taffected |= ShortWhite",
			Expect: "C02.R1/corner:"},
		Mutant{Name: "C02.R1-king-keeps-long", Prop: "C02", File: "board/board.go",
			Old: "affected |= Castle(b.STM, Short) | Castle(b.STM, Long)", New: "affected |= Castle(b.STM, Short)",
			Expect: "C02.R1/king"},
		Mutant{Name: "C02.R1-from-to-different-squares", Prop: "C02", File: "board/board.go",
			Old: "if m.From() == A8 || m.To() == A8 {", New: "if m.From() == A8 || m.To() == B8 {",
			Expect: "C02.R1/corner:LongBlack#same-square"},
		Mutant{Name: "C02.R2-ep-flag-without-capturability", Prop: "C02", File: "board/board.go", Quick: true,
			Old: "canEnPassant := piece == Pawn && Abs(m.From()-m.To()) == 16 && b.CanEnPassant(m.To())", New: "canEnPassant := piece == Pawn && Abs(m.From()-m.To()) == 16",
			Expect: "C02.R2/MakeMove#ep-flag#capturable"},
		Mutant{Name: "C02.R2-ep-flag-any-piece", Prop: "C02", File: "board/board.go",
			Old: "canEnPassant := piece == Pawn && Abs(m.From()-m.To()) == 16 && b.CanEnPassant(m.To())", New: "canEnPassant := Abs(m.From()-m.To()) == 16 && b.CanEnPassant(m.To())",
			Expect: "C02.R2/MakeMove#ep-flag#pawn"},
		Mutant{Name: "C02.R2-ep-square-is-destination", Prop: "C02", File: "board/board.go",
			Old: "newEnPassant = (m.From() + m.To()) / 2", New: "newEnPassant = m.To()",
			Expect: "C02.R2/MakeMove#ep-flag#square"},
		Mutant{Name: "C02.R2-capturability-after-move", Prop: "C02", File: "board/board.go",
			Old: "\tnewEnPassant := Square(0)\n\tif canEnPassant {", New: "\tnewEnPassant := Square(0)\n\tcanEnPassant = canEnPassant && b.CanEnPassant(m.To())\n\tif canEnPassant {",
			File2: "board/board.go", Old2: "canEnPassant := piece == Pawn && Abs(m.From()-m.To()) == 16 && b.CanEnPassant(m.To())", New2: "canEnPassant := piece == Pawn && Abs(m.From()-m.To()) == 16",
			Expect: "C02.R2/MakeMove#ep-flag#pre-move"},
		Mutant{Name: "C02.R3-clock-ignores-captures", Prop: "C02", File: "board/board.go", Quick: true,
			Old: "if piece == Pawn || capture != NoPiece {", New: "if piece == Pawn {",
			Expect: "C02.R3/MakeMove#fifty-increment"},
		Mutant{Name: "C02.R3-fullmoves-after-flip", Prop: "C02", File: "board/board.go",
			Old: "\tb.fullMoves += int(b.STM)\n\n\thash := b.Hash()\n", New: "\thash := b.Hash()\n",
			File2: "board/board.go", Old2: "\tb.STM = b.STM.Flip()\n\thash ^= stmRand\n\n\tb.hashes = append(b.hashes, hash)\n\n\t// b.consistencyCheck()\n\n\treturn r", New2: "\tb.STM = b.STM.Flip()\n\thash ^= stmRand\n\tb.fullMoves += int(b.STM)\n\n\tb.hashes = append(b.hashes, hash)\n\n\t// b.consistencyCheck()\n\n\treturn r",
			Expect: "C02.R3/MakeMove#fullmoves"},
		Mutant{Name: "C02.R3-increment-skipped-in-check-evasions", Prop: "C02", File: "board/board.go",
			Old: "\t} else {\n\t\tb.FiftyCnt++\n\t}\n", New: "\t} else if piece != King {\n\t\tb.FiftyCnt++\n\t}\n",
			Expect: "C02.R3/MakeMove#fifty-"},
		Mutant{Name: "C02.R4-captured-removed-at-destination", Prop: "C02", File: "board/board.go", Quick: true,
			Old: "hash ^= b.removePiece(b.STM.Flip(), capture, captureSq)", New: "hash ^= b.removePiece(b.STM.Flip(), capture, m.To())",
			Expect: "C02.R4/MakeMove#remove-captured"},
		Mutant{Name: "C02.R4-long-castle-rook-to-c-file", Prop: "C02", File: "board/board.go",
			Old: "\t\t\thash ^= b.addPiece(b.STM, Rook, D8)\n", New: "\t\t\thash ^= b.addPiece(b.STM, Rook, C8)\n",
			Expect: "C02.R4/castle:e8c8#geometry"},
		Mutant{Name: "C02.R4-promotion-piece-ignored", Prop: "C02", File: "board/board.go",
			Old: "\tif m.Promo() != NoPiece {\n\t\tputPiece = m.Promo()\n\t}\n\n\thash ^= b.removePiece", New: "\tif m.Promo() > Knight {\n\t\tputPiece = m.Promo()\n\t}\n\n\thash ^= b.removePiece",
			Expect: "C02.R4/MakeMove#place-mover"},
		Mutant{Name: "C02.R5-applymoves-continues-after-error", Prop: "C02", File: "uci/uci.go", Quick: true,
			Old: "\t\tif err != nil {\n\t\t\tfmt.Fprintln(d.err, err)\n\t\t\treturn\n\t\t}\n\n\t\tb.MakeMove(m)", New: "\t\tif err != nil {\n\t\t\tfmt.Fprintln(d.err, err)\n\t\t}\n\n\t\tb.MakeMove(m)",
			Expect: "C02.R5/applyMoves#err-nil"},
		Mutant{Name: "C02.R5-gate-removed", Prop: "C02", File: "uci/uci.go",
			Old: "\tif !b.IsPseudoLegal(m) {\n\t\treturn 0, errors.New(\"uci move not pseudo-legal\")\n\t}\n", New: "",
			Expect: "C02.R5/applyMoves#err-nil"},
		Mutant{Name: "C02.R5-moves-played-on-copy", Prop: "C02", File: "uci/uci.go",
			Old: "\tb := d.board\n\tfor _, ms := range moves {", New: "\tcp := *d.board\n\tb := &cp\n\tfor _, ms := range moves {",
			Expect: "C02.R5/applyMoves#persistent-board"},
	)
}

// C02.R7: CanEnPassant decides "some enemy pawn can capture en passant without
// exposing its king": (a) existential shape — `true` is returned exactly when,
// for one candidate capturer, the king is not attacked after the capture, and
// `false` only after all candidates failed; (b) the occupancy simulated for that
// test has the capturer on the en-passant square and neither the capturer's
// old square, nor the pushed pawn's destination, nor (the move has not been
// played yet) the pushed pawn's ORIGIN square.
func c02R7(c *Ctx, p *Prog, rule string) {
	fn := p.Func("board.(*Board).CanEnPassant")
	if fn == nil {
		c.Anchor(rule, "board.(*Board).CanEnPassant")
		return
	}
	if len(fn.Params) != 2 {
		c.Undec(rule, "CanEnPassant#params", fn.Pos(), "expected (b, to)")
		return
	}
	// the candidate capturers stand on the files next to the pushed pawn: the one-file shifts must not wrap
	pa4(c, p, rule+".neighbours", inFuncs("board.(*Board).CanEnPassant"))
	if n := pa5(c, p, rule+".neighbours", inFuncs("board.(*Board).CanEnPassant")); n == 0 {
		c.OkTrivial(rule+".neighbours", "none", fn.Pos(), "CanEnPassant contains no one-file bitboard shift (the candidate capturers come from an attack pattern)")
	}
	to := fn.Params[1]
	atts := callsIn(fn, "board.(*Board).IsAttacked")
	if len(atts) != 1 {
		c.Undec(rule, "CanEnPassant#test", fn.Pos(), "expected one IsAttacked test per candidate capturer, found %d", len(atts))
		return
	}
	att := atts[0].(*ssa.Call)
	// (a) existential shape
	okTrue, okFalse := true, true
	nTrue := 0
	allInstrs(fn, func(in ssa.Instruction) {
		ret, ok := in.(*ssa.Return)
		if !ok || len(ret.Results) != 1 {
			return
		}
		k, isc := constOf(ret.Results[0])
		if !isc {
			okTrue, okFalse = false, false
			return
		}
		underNotAttacked, underAttacked := false, false
		for _, ce := range append(controllingConds(ret.Block()), entryEdgesAsConds(ret.Block())...) {
			v, pol := ce.Cond, ce.True
			if u, ok := v.(*ssa.UnOp); ok && u.Op == token.NOT {
				v, pol = u.X, !pol
			}
			if v == ssa.Value(att) {
				if pol {
					underAttacked = true
				} else {
					underNotAttacked = true
				}
			}
		}
		if k == 1 {
			nTrue++
			if !underNotAttacked {
				okTrue = false
			}
		} else if underAttacked || underNotAttacked {
			okFalse = false // false decided from a single candidate
		}
	})
	c.Check(okTrue && nTrue >= 1, rule, "CanEnPassant#exists-capturer", att.Pos(), "true is returned exactly when one candidate capturer can take without exposing its king (existential over the candidates)")
	c.Check(okFalse, rule, "CanEnPassant#false-only-after-all", att.Pos(), "false is returned only after every candidate capturer failed, never from a single pinned candidate")
	// (b) simulated occupancy
	occ := stripConv(att.Call.Args[2])
	var incl, excl []ssa.Value
	okShape := true
	var decompose func(v ssa.Value, neg bool)
	decompose = func(v ssa.Value, neg bool) {
		v = stripConv(v)
		switch x := v.(type) {
		case *ssa.BinOp:
			switch {
			case x.Op == token.OR:
				decompose(x.X, neg)
				decompose(x.Y, neg)
				return
			case x.Op == token.AND_NOT && !neg:
				decompose(x.X, false)
				decompose(x.Y, true)
				return
			case x.Op == token.AND && !neg:
				// a & ^b
				for _, pr := range [][2]ssa.Value{{x.X, x.Y}, {x.Y, x.X}} {
					if u, ok := pr[1].(*ssa.UnOp); ok && u.Op == token.XOR {
						decompose(pr[0], false)
						decompose(u.X, true)
						return
					}
				}
			}
		case *ssa.Phi:
			okShape = false // occupancy carried across candidates: not the per-candidate simulation the rule understands
			return
		}
		if neg {
			excl = append(excl, v)
		} else {
			incl = append(incl, v)
		}
	}
	decompose(occ, false)
	if !okShape {
		c.Undec(rule, "CanEnPassant#occupancy", att.Pos(), "the simulated occupancy is carried from one candidate capturer to the next (loop-carried value): each candidate must be tested on its own board")
		return
	}
	// square offsets relative to `to` of 1<<(to - k*shift) terms; shift = shifts[STM]
	offsetOf := func(v ssa.Value) (int64, bool) {
		x, ok := oneShlOf(v)
		if !ok {
			return 0, false
		}
		if x == ssa.Value(to) {
			return 0, true
		}
		bo, ok := x.(*ssa.BinOp)
		if !ok || bo.Op != token.SUB || stripConv(bo.X) != ssa.Value(to) {
			return 0, false
		}
		y := stripConv(bo.Y)
		if isShiftLoad(y) {
			return 1, true
		}
		if m, ok := y.(*ssa.BinOp); ok && m.Op == token.MUL {
			for _, pr := range [][2]ssa.Value{{m.X, m.Y}, {m.Y, m.X}} {
				if k, isc := constOf(pr[0]); isc && isShiftLoad(stripConv(pr[1])) {
					return k, true
				}
			}
		}
		return 0, false
	}
	hasIncl := map[int64]bool{}
	for _, v := range incl {
		if k, ok := offsetOf(v); ok {
			hasIncl[k] = true
		}
	}
	hasExcl := map[int64]bool{}
	capturerRemoved := false
	for _, v := range excl {
		if k, ok := offsetOf(v); ok {
			hasExcl[k] = true
			continue
		}
		// the candidate capturer: x & -x of the candidate set
		capturerRemoved = true
	}
	c.Check(hasIncl[1], rule, "CanEnPassant#occupancy#capturer-lands", att.Pos(), "the capturing pawn is placed on the en-passant square (to - shift)")
	c.Check(hasExcl[0], rule, "CanEnPassant#occupancy#pushed-pawn-captured", att.Pos(), "the pushed pawn's destination square is emptied (it is captured)")
	c.Check(capturerRemoved, rule, "CanEnPassant#occupancy#capturer-leaves", att.Pos(), "the capturing pawn leaves its square")
	c.Check(hasExcl[2], rule, "CanEnPassant#occupancy#origin-vacated", att.Pos(), "the pushed pawn's ORIGIN square (to - 2*shift) is emptied: CanEnPassant runs before the move is played, so the pawn still stands there and would shield a line the push opens (e.g. 8/8/8/8/3pk3/8/2P5/1B2K3 w: after c2c4 Black is in check from b1 and dxc3 e.p. is illegal)")
}

// isShiftLoad: v is the mover's push direction: +8 for White, -8 for Black, chosen by the side to move —
// read from a two-element table indexed by STM, or a choice between the two constants under a test of STM.
func isShiftLoad(v ssa.Value) bool { return isShiftVal(nil, v) }

func isShiftVal(p *Prog, v ssa.Value) bool {
	v = stripConv(v)
	if l, ok := v.(*ssa.UnOp); ok && l.Op == token.MUL {
		ia, ok := l.X.(*ssa.IndexAddr)
		if !ok {
			return false
		}
		g, ok := ia.X.(*ssa.Global)
		if !ok || !isFieldLoad(stripConv(ia.Index), "Board.STM") {
			return false
		}
		if g.Name() == "shifts" {
			return true
		}
		if p != nil {
			if tab, ok := p.globalArrayInts(g); ok && len(tab) == 2 && tab[0] == 8 && tab[1] == -8 {
				return true
			}
		}
		return false
	}
	if ph, ok := v.(*ssa.Phi); ok && len(ph.Edges) == 2 {
		a, oka := constOf(ph.Edges[0])
		b, okb := constOf(ph.Edges[1])
		if !oka || !okb || !((a == 8 && b == -8) || (a == -8 && b == 8)) {
			return false
		}
		// selected by the side to move
		for i, pred := range ph.Block().Preds {
			_ = i
			for _, ce := range append(controllingConds(pred), edgeCond(pred, ph.Block())...) {
				if bo, ok := ce.Cond.(*ssa.BinOp); ok && (isFieldLoad(stripConv(bo.X), "Board.STM") || isFieldLoad(stripConv(bo.Y), "Board.STM")) {
					return true
				}
			}
		}
	}
	return false
}

func flattenOr(v ssa.Value, out *[]ssa.Value) {
	if bo, ok := stripConv(v).(*ssa.BinOp); ok && bo.Op == token.OR {
		flattenOr(bo.X, out)
		flattenOr(bo.Y, out)
		return
	}
	*out = append(*out, stripConv(v))
}

func entryEdgesAsConds(b *ssa.BasicBlock) []condEdge {
	var out []condEdge
	if len(b.Preds) == 1 {
		out = append(out, edgeCond(b.Preds[0], b)...)
	}
	return out
}

// C02.R8: every UCI `position` command installs a fresh board before its move
// list is applied: each applyMoves call in handlePosition is dominated by a
// store to Driver.board (StartPos() / the accepted FEN board) of that command.
func c02R8(c *Ctx, p *Prog) {
	const rule = "C02.R8"
	fn := p.Func("uci.(*Driver).handlePosition")
	if fn == nil {
		c.Anchor(rule, "uci.(*Driver).handlePosition")
		return
	}
	// the functions of package uci that play moves on the board for good (applyMoves, under whatever name)
	appliers := map[*ssa.Function]bool{}
	for _, f := range p.OwnFuncs() {
		if relPkg(fnPkgPath(f)) == "uci" && len(callsIn(f, "board.(*Board).MakeMove")) > 0 && len(callsIn(f, "board.(*Board).UndoMove")) == 0 {
			appliers[f] = true
		}
	}
	// wrappers: functions of package uci that hand the move list on to an applier without installing a board themselves
	for changed := true; changed; {
		changed = false
		for _, f := range p.OwnFuncs() {
			if f == fn || appliers[f] || relPkg(fnPkgPath(f)) != "uci" || len(fieldStores(f, "Driver.board")) > 0 {
				continue
			}
			allInstrs(f, func(in ssa.Instruction) {
				if ci, ok := in.(ssa.CallInstruction); ok && !appliers[f] {
					if callee := ci.Common().StaticCallee(); callee != nil && appliers[callee] {
						// only a wrapper if handlePosition is among its callers
						for _, hc := range callsInFn(fn, f) {
							_ = hc
							appliers[f] = true
							changed = true
							break
						}
					}
				}
			})
		}
	}
	var calls []ssa.CallInstruction
	allInstrs(fn, func(in ssa.Instruction) {
		if ci, ok := in.(ssa.CallInstruction); ok {
			if callee := ci.Common().StaticCallee(); callee != nil && appliers[callee] {
				calls = append(calls, ci)
			}
		}
	})
	if appliers[fn] {
		// the moves are applied inline
		for _, mk := range callsIn(fn, "board.(*Board).MakeMove") {
			calls = append(calls, mk)
		}
	}
	// a board created by this command: StartPos(), the result of FromFEN, or a helper returning only such boards (or nil)
	var freshBoard func(v ssa.Value, depth int) bool
	freshBoard = func(v ssa.Value, depth int) bool {
		v = stripConv(v)
		if depth > 6 {
			return false
		}
		switch x := v.(type) {
		case *ssa.Phi:
			for _, e := range x.Edges {
				if !freshBoard(e, depth+1) {
					return false
				}
			}
			return true
		case *ssa.Const:
			return x.Value == nil // nil board: not a stale one
		case *ssa.Extract:
			return freshBoard(x.Tuple, depth+1)
		case *ssa.Call:
			switch objName(calleeObj(x)) {
			case "board.StartPos", "board.FromFEN":
				return true
			}
			h := x.Call.StaticCallee()
			if h == nil || !isOwn(h) || h.Blocks == nil {
				return false
			}
			// which result? the first *Board-typed one
			for i := 0; i < h.Signature.Results().Len(); i++ {
				if !isBoardValue(derefType(h.Signature.Results().At(i).Type())) {
					continue
				}
				for _, as := range resultAssignments(h, i) {
					if !freshBoard(as.Val, depth+1) {
						return false
					}
				}
				return true
			}
			return false
		}
		return false
	}
	var freshStores []ssa.Instruction
	for _, st := range fieldStores(fn, "Driver.board") {
		if freshBoard(st.Val, 0) {
			freshStores = append(freshStores, st)
		}
	}
	// installers: helpers of package uci that store a fresh board into the driver. With a bool result the board is
	// installed when the helper reports success (every return that is not `false` is dominated by the store): the
	// barrier is then the branch taken on success. Without a result the call itself is the barrier.
	opaqueInstall := false
	var freshBlocks []*ssa.BasicBlock
	allInstrs(fn, func(in ssa.Instruction) {
		call, ok := in.(*ssa.Call)
		if !ok {
			return
		}
		h := call.Call.StaticCallee()
		if h == nil || !isOwn(h) || h.Blocks == nil || appliers[h] || relPkg(fnPkgPath(h)) != "uci" {
			return
		}
		sts := fieldStores(h, "Driver.board")
		if len(sts) == 0 {
			return
		}
		allFresh := true
		for _, st := range sts {
			if !freshBoard(st.Val, 0) {
				allFresh = false
			}
		}
		nres := h.Signature.Results().Len()
		boolRes := nres == 1 && isBoolType(call)
		okRets := allFresh
		allInstrs(h, func(x ssa.Instruction) {
			ret, isRet := x.(*ssa.Return)
			if !isRet {
				return
			}
			if boolRes {
				if k, isc := returnedValue(ret, 0).(*ssa.Const); isc {
					if kv, _ := constOf(k); kv == 0 {
						return // reports failure: nothing installed, nothing promised
					}
				}
			}
			dominated := false
			for _, st := range sts {
				if instrDominates(st, ret) {
					dominated = true
				}
			}
			if !dominated {
				okRets = false
			}
		})
		if !okRets || (nres > 0 && !boolRes) {
			opaqueInstall = true
			return
		}
		if !boolRes {
			freshStores = append(freshStores, call)
			return
		}
		found := false
		for _, blk := range fn.Blocks {
			if len(blk.Instrs) == 0 {
				continue
			}
			iff, isIf := blk.Instrs[len(blk.Instrs)-1].(*ssa.If)
			if !isIf {
				continue
			}
			v, neg := ssa.Value(iff.Cond), false
			for {
				if u, ok := v.(*ssa.UnOp); ok && u.Op == token.NOT {
					v, neg = u.X, !neg
					continue
				}
				break
			}
			if v != ssa.Value(call) {
				continue
			}
			tb := blk.Succs[0]
			if neg {
				tb = blk.Succs[1]
			}
			if len(tb.Preds) == 1 && len(tb.Instrs) > 0 {
				freshStores = append(freshStores, tb.Instrs[0])
				freshBlocks = append(freshBlocks, tb)
				found = true
			}
		}
		if !found {
			opaqueInstall = true
		}
	})
	for i, ci := range calls {
		stale, _ := reachAvoidingTo(fn.Blocks[0].Instrs[0], ci.(ssa.Instruction), func(x ssa.Instruction) bool {
			for _, st := range freshStores {
				if x == st {
					return true
				}
			}
			return false
		})
		for _, fb := range freshBlocks {
			if blockDomOrSame(fb, ci.Block()) {
				stale = false
			}
		}
		if stale && opaqueInstall {
			c.Undec(rule, fmt.Sprintf("handlePosition#applyMoves@%d", i+1), ci.Pos(), "the board is installed through a helper whose success/failure protocol is not recognised")
			continue
		}
		c.Check(!stale, rule, fmt.Sprintf("handlePosition#applyMoves@%d", i+1), ci.Pos(), "the move list is applied to a board installed by this very command (StartPos() or the accepted FEN) on every path: the resulting position does not depend on earlier commands")
	}
	c.Floor(rule, len(calls), 1, "applyMoves calls in handlePosition")
	// and nothing else in the driver plays moves for good
	for _, f := range p.OwnFuncs() {
		if f == fn || appliers[f] || relPkg(fnPkgPath(f)) != "uci" {
			continue
		}
		allInstrs(f, func(in ssa.Instruction) {
			if ci, ok := in.(ssa.CallInstruction); ok {
				if callee := ci.Common().StaticCallee(); callee != nil && appliers[callee] {
					c.Fail(rule, fnName(f)+"#applyMoves", ci.Pos(), "%s is called outside handlePosition", callee.Name())
				}
			}
		})
	}
}

func init() {
	addMutants(
		Mutant{Name: "C02.R7-F5-reverted-origin-not-vacated", Prop: "C02", File: "board/attacks.go", Quick: true,
			Old: "occ := (b.Colors[White] | b.Colors[Black] | dest) &^ (target | able | orig)", New: "occ := (b.Colors[White] | b.Colors[Black] | dest) &^ (target | able)\n\t\t_ = orig",
			Expect: "C02.R7/CanEnPassant#occupancy#origin-vacated"},
		Mutant{Name: "C02.R7-universal-instead-of-existential", Prop: "C02", File: "board/attacks.go",
			Old: "\t\tif !b.IsAttacked(b.STM, occ, king) {\n\t\t\treturn true\n\t\t}\n\t}\n\treturn false\n}", New: "\t\tif b.IsAttacked(b.STM, occ, king) {\n\t\t\treturn false\n\t\t}\n\t}\n\treturn them != 0\n}",
			Expect: "C02.R7/CanEnPassant#"},
		Mutant{Name: "C02.R7-capturer-not-placed", Prop: "C02", File: "board/attacks.go",
			Old: "occ := (b.Colors[White] | b.Colors[Black] | dest) &^ (target | able | orig)", New: "occ := (b.Colors[White] | b.Colors[Black]) &^ (target | able | orig)\n\t\t_ = dest",
			Expect: "C02.R7/CanEnPassant#occupancy#capturer-lands"},
		Mutant{Name: "C02.R8-incremental-replay-keeps-old-board", Prop: "C02", File: "uci/uci.go", Quick: true,
			Old: "\t\td.board = board.StartPos()\n\t\tif len(args) > 2 && args[1] == \"moves\" {", New: "\t\tif len(args) <= 2 || d.board == nil {\n\t\t\td.board = board.StartPos()\n\t\t}\n\t\tif len(args) > 2 && args[1] == \"moves\" {",
			Expect: "C02.R8/handlePosition#applyMoves@1"},
	)
}

// isFromToElem: v is an element (at a non-constant index) of a two-element
// array literal {m.From(), m.To()} — the loop form `for _, sq := range [...]Square{m.From(), m.To()}`.
func isFromToElem(v ssa.Value) bool {
	var arr ssa.Value
	switch x := v.(type) {
	case *ssa.Index:
		if _, isc := constOf(x.Index); isc {
			return false
		}
		if l, ok := x.X.(*ssa.UnOp); ok && l.Op == token.MUL {
			arr = l.X
		}
	case *ssa.UnOp:
		if x.Op != token.MUL {
			return false
		}
		if ia, ok := x.X.(*ssa.IndexAddr); ok {
			if _, isc := constOf(ia.Index); isc {
				return false
			}
			arr = ia.X
		}
	}
	al, ok := arr.(*ssa.Alloc)
	if !ok || al.Referrers() == nil {
		return false
	}
	at, ok := al.Type().Underlying().(*types.Pointer).Elem().Underlying().(*types.Array)
	if !ok || at.Len() != 2 {
		return false
	}
	var from, to, other int
	for _, r := range *al.Referrers() {
		ia, ok := r.(*ssa.IndexAddr)
		if !ok || ia.Referrers() == nil {
			continue
		}
		for _, rr := range *ia.Referrers() {
			if st, ok := rr.(*ssa.Store); ok && st.Addr == ssa.Value(ia) {
				switch {
				case isCallValueTo(stripConv(st.Val), "move.(Move).From"):
					from++
				case isCallValueTo(stripConv(st.Val), "move.(Move).To"):
					to++
				default:
					other++
				}
			}
		}
	}
	return from == 1 && to == 1 && other == 0
}

func derefType(t types.Type) types.Type {
	if p, ok := t.Underlying().(*types.Pointer); ok {
		return p.Elem()
	}
	return t
}

// tableRowIndex: the index with which the row that v belongs to is taken out of its package-level table.
func tableRowIndex(v ssa.Value, depth int) ssa.Value {
	if depth > 8 || v == nil {
		return nil
	}
	switch x := v.(type) {
	case *ssa.UnOp:
		if x.Op == token.MUL {
			return tableRowIndex(x.X, depth+1)
		}
	case *ssa.IndexAddr:
		if traceToGlobal(x.X, 0) != nil {
			return x.Index
		}
	case *ssa.Index:
		if traceToGlobal(x.X, 0) != nil {
			return x.Index
		}
	case *ssa.FieldAddr:
		return tableRowIndex(x.X, depth+1)
	case *ssa.Field:
		return tableRowIndex(x.X, depth+1)
	case *ssa.Alloc:
		if x.Referrers() != nil {
			var val ssa.Value
			n := 0
			for _, r := range *x.Referrers() {
				if st, ok := r.(*ssa.Store); ok && st.Addr == ssa.Value(x) {
					n++
					val = st.Val
				}
			}
			if n == 1 {
				return tableRowIndex(val, depth+1)
			}
		}
	}
	return nil
}

// callsInFn: the calls in fn whose static callee is h.
func callsInFn(fn, h *ssa.Function) []ssa.CallInstruction {
	var out []ssa.CallInstruction
	allInstrs(fn, func(in ssa.Instruction) {
		if ci, ok := in.(ssa.CallInstruction); ok && ci.Common().StaticCallee() == h {
			out = append(out, ci)
		}
	})
	return out
}
