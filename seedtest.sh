#!/bin/sh
# usage: seedtest.sh <patch.diff> <ID> [more IDs...]
# applies a seeded change to /repo, runs the given checks (quick), reverts. Prints one line per check.
P="$1"; shift
cd /repo || exit 2
if ! git diff --quiet; then echo "/repo not clean"; exit 2; fi
git apply "$P" || { echo "patch does not apply"; exit 2; }
for id in "$@"; do
  out=$(/verif/bin/chesslint check "$id" 2>&1); rc=$?
  echo "$id rc=$rc $(echo "$out" | grep -c '^VIOLATION') violations"
  echo "$out" | grep -v '^VIOLATION' | grep -v '^KNOWN' | head -${SEEDLINES:-4} | cut -c1-400
done
git checkout -- . ; git status --short | head -3
