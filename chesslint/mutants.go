package main

// Self-validation: every rule has mutants — small source substitutions that
// still compile — applied to the CURRENT tree through a go/packages overlay
// (no scratch copy on disk, nothing executed). The rule must report the
// mutated construct. A mutant whose old text is no longer present is skipped
// (the tree drifted), never a violation. A mutant that applies but is not
// reported means the rule has gone blind: the check fails.

import (
	"bytes"
	"fmt"
	"os"
	"os/exec"
	"path/filepath"
	"sort"
	"strings"
	"sync"
)

type Mutant struct {
	Name   string // unique, "<rule>-<what>"
	Prop   string
	File   string // relative to the repository root
	Old    string
	New    string
	Expect string // prefix of the obligation key (rule/construct) that must be reported
	Quick  bool   // eligible as a quick-tier positive control
	Tier   string // tier whose rules must be run to catch it ("" = quick)
	// second substitution (same or other file) for two-site mutants
	File2, Old2, New2 string
}

var mutants []Mutant

func addMutants(ms ...Mutant) { mutants = append(mutants, ms...) }

func mutantsFor(prop string) []Mutant {
	var out []Mutant
	for _, m := range mutants {
		if m.Prop == prop {
			out = append(out, m)
		}
	}
	sort.Slice(out, func(i, j int) bool { return out[i].Name < out[j].Name })
	return out
}

func listMutants(id string) int {
	for _, m := range mutants {
		if id == "" || m.Prop == id {
			fmt.Printf("%s\t%s\t%s\texpect %s\n", m.Prop, m.Name, m.File, m.Expect)
		}
	}
	return 0
}

// overlayFor builds the overlay; ok=false when the patch does not apply.
func overlayFor(m Mutant) (map[string][]byte, bool) {
	ov := map[string][]byte{}
	apply := func(file, old, new string) bool {
		abs := filepath.Join(RepoDir(), file)
		src, ok := ov[abs]
		if !ok {
			b, err := os.ReadFile(abs)
			if err != nil {
				return false
			}
			src = b
		}
		if bytes.Count(src, []byte(old)) != 1 {
			return false
		}
		ov[abs] = bytes.Replace(src, []byte(old), []byte(new), 1)
		return true
	}
	if !apply(m.File, m.Old, m.New) {
		return nil, false
	}
	if m.File2 != "" && !apply(m.File2, m.Old2, m.New2) {
		return nil, false
	}
	return ov, true
}

const (
	mutFired   = 0
	mutBlind   = 3
	mutSkipped = 4
	mutBroken  = 5 // mutant does not compile: the mutant is wrong, not the rule
)

// evalMutant runs the property's rules on the mutated tree in this process.
func evalMutant(p *Property, m Mutant) (int, string) {
	ov, ok := overlayFor(m)
	if !ok {
		return mutSkipped, "patch does not apply to the current tree"
	}
	progs := NewProgs()
	progs.Overlay = ov
	tier := "quick"
	if m.Tier != "" {
		tier = m.Tier
	}
	c := runProperty(p, tier, progs)
	var hits []string
	for _, o := range c.Obs {
		if o.Verdict == OK {
			continue
		}
		if o.Rule == "load" {
			return mutBroken, o.Detail
		}
		if strings.HasPrefix(o.Key(), m.Expect) {
			hits = append(hits, fmt.Sprintf("%s at %s", o.Key(), o.Pos))
		}
	}
	if len(hits) == 0 {
		var others []string
		for _, o := range c.Obs {
			if o.Verdict != OK {
				others = append(others, o.Key())
			}
		}
		return mutBlind, fmt.Sprintf("expected a report with key prefix %q; reported instead: %v", m.Expect, others)
	}
	if len(hits) > 3 {
		hits = append(hits[:3], fmt.Sprintf("... %d more", len(hits)-3))
	}
	return mutFired, strings.Join(hits, "; ")
}

func runOneMutant(p *Property, name string) int {
	for _, m := range mutantsFor(p.ID) {
		if m.Name == name {
			rc, msg := evalMutant(p, m)
			fmt.Println(msg)
			return rc
		}
	}
	fmt.Fprintf(os.Stderr, "unknown mutant %q\n", name)
	return 2
}

// runControls evaluates positive controls: quick = up to two seed-rotated
// Quick mutants in-process; thorough = all mutants, each in its own process.
func runControls(c *Ctx, p *Property) {
	all := mutantsFor(p.ID)
	if len(all) == 0 {
		return
	}
	c.cur = nil
	record := func(m Mutant, rc int, msg string) {
		key := "control/" + m.Name
		switch rc {
		case mutFired:
			c.add("control", m.Name, 0, OK, true, "mutant %s (%s) reported: %s", m.Name, m.File, msg)
		case mutSkipped:
			c.add("control", m.Name, 0, OK, false, "control-skipped: %s", msg)
		case mutBroken:
			c.add("control", m.Name, 0, OK, false, "control-skipped: mutated tree does not type-check (%s)", firstLine(msg))
		default:
			c.add("control", m.Name, 0, Undecided, true, "rule is blind: mutant applied to %s but was not reported: %s", m.File, msg)
		}
		_ = key
	}
	if c.Tier != "thorough" {
		var q []Mutant
		for _, m := range all {
			if m.Quick {
				q = append(q, m)
			}
		}
		if len(q) == 0 {
			return
		}
		n := 2
		if len(q) < n {
			n = len(q)
		}
		off := int(c.Seed % int64(len(q)))
		if off < 0 {
			off = -off
		}
		type res struct {
			rc  int
			msg string
		}
		out := make([]res, n)
		var wg sync.WaitGroup
		for i := 0; i < n; i++ {
			wg.Add(1)
			go func(i int) {
				defer wg.Done()
				rc, msg := evalMutant(p, q[(off+i)%len(q)])
				out[i] = res{rc, msg}
			}(i)
		}
		wg.Wait()
		for i := 0; i < n; i++ {
			record(q[(off+i)%len(q)], out[i].rc, out[i].msg)
		}
		return
	}
	type res struct {
		rc  int
		msg string
	}
	out := make([]res, len(all))
	sem := make(chan struct{}, 6)
	var wg sync.WaitGroup
	for i, m := range all {
		wg.Add(1)
		go func(i int, m Mutant) {
			defer wg.Done()
			sem <- struct{}{}
			defer func() { <-sem }()
			cmd := exec.Command(os.Args[0], "check", p.ID, "--mutant", m.Name)
			cmd.Env = os.Environ()
			b, err := cmd.CombinedOutput()
			rc := 0
			if err != nil {
				if ee, ok := err.(*exec.ExitError); ok {
					rc = ee.ExitCode()
				} else {
					rc = mutBlind
				}
			}
			if rc != mutFired && rc != mutSkipped && rc != mutBroken {
				rc = mutBlind
			}
			out[i] = res{rc, strings.TrimSpace(string(b))}
		}(i, m)
	}
	wg.Wait()
	for i, m := range all {
		record(m, out[i].rc, out[i].msg)
	}
}

func firstLine(s string) string {
	if i := strings.IndexByte(s, '\n'); i >= 0 {
		return s[:i]
	}
	return s
}
