package main

import (
	"fmt"
	"go/ast"
	"go/token"
	"go/types"
	"math/bits"
	"sort"
	"strings"

	"golang.org/x/tools/go/ssa"
)

func init() {
	register(&Property{
		ID: "C01",
		Explain: "Static necessary conditions for 'playable moves are exactly the legal moves'. " +
			"R1: every MakeMove in search/debug that plays a generated move is followed by a branch on InCheck(mover) evaluated after the make; descending calls are reachable only from the not-in-check edge and the in-check edge goes straight to the matching UndoMove. " +
			"R2: every generator method is called from GenNoisy/GenNotNoisy only; methods with a target mask are called once in each half with Full as source mask and complementary target masks X / ^X of the same X = Colors[STM.Flip()]; every other method is called exactly once in exactly one half; consumers needing all moves call both halves. " +
			"R3: piece–attack pairing (PA.1–PA.4) over movegen, IsAttacked, InCheck, Attackers, Block. " +
			"R4: castling masks, emptiness tests, attack tests, destination squares and rights bits of shortCastle/longCastle are geometrically self-consistent for both colours. " +
			"R5: both promotion loops enumerate exactly Knight, Bishop, Rook, Queen. " +
			"Not decided: that each generator emits the right squares (attack tables: C12), completeness of IsAttacked, positions reached by play.",
		Assume: []string{"go/ssa models the program faithfully", "BitBoardFromSquares(c...) is the set of its arguments; Castle(c,s) = 1<<(2c+s) (shape of both checked)"},
		Run:    runC01,
	})
}

func runC01(c *Ctx) {
	p := c.need("default")
	if p == nil {
		return
	}
	c01R1(c, p, "C01.R1")
	c01R2(c, p)
	n1 := pa1(c, p, "C01.R3.PA1", inFuncs("movegen.*", "board.(*Board).IsAttacked", "board.(*Board).InCheck", "board.(*Board).Attackers", "board.(*Board).Block", "board.(*Board).CanEnPassant"))
	c.Floor("C01.R3.PA1", n1, 11, "attack-pattern ∩ piece-set sites")
	n2 := pa2(c, p, "C01.R3.PA2", inFuncs("movegen.*"))
	c.Floor("C01.R3.PA2", n2, 5, "generator sites whose origin square comes from a piece set")
	n4 := pa4(c, p, "C01.R3.PA4", inFuncs("movegen.*", "board.(*Board).IsAttacked", "board.(*Board).Attackers"))
	c.Floor("C01.R3.PA4", n4, 2, "pawn-capture colour sites")
	// (no floor: a generator that takes its pawn patterns from package attacks has no shift of its own)
	if n := pa5(c, p, "C01.R3.WRAP", inFuncs("movegen.*")); n == 0 {
		c.OkTrivial("C01.R3.WRAP", "none", 0, "the generator contains no one-file bitboard shift of a piece set")
	}
	c01R4(c, p, "C01.R4")
	c01R5(c, p)
	// en-passant captures are generated from the recorded target: the recording rule is part of C01 too
	c02R2(c, p, "C01.R6.ep-recorded")
	c02R7(c, p, "C01.R6.ep-capturable")
	// "whether the position was loaded from FEN or reached by playing moves": a re-used board must not keep state
	parseFENResetRule(c, p, "C01.R7")
	// the generator (and the acceptor) trust Board.Castles without looking for the rook: the rights must be
	// cleared whenever a king or rook leaves, or a rook is captured on, its corner
	c.As("C02.R1", "C01.R8.rights", func() { c02R1(c, p) })
	// … and an undo must hand the rights back unchanged: the undo token's fields must not clobber each other
	c.As("C03.R8", "C01.R8.undo-token", func() { c03R8(c, p) })
	// moves that enter through the acceptor (table move, GUI move list) are playable too: the acceptor must agree
	// with the generator
	c.As("C05.R", "C01.R9.acceptor:R", func() { c05R1R4(c, p); c05R2(c, p) })
	// the en-passant target 0 is "none", not a1
	epNullRule(c, p, "C01.R10.ep-null")
}

// descends: own functions from which board.MakeMove is reachable (they play moves on the board).
func descendingFuncs(p *Prog) map[*ssa.Function]bool {
	mk := p.Func("board.(*Board).MakeMove")
	out := map[*ssa.Function]bool{}
	if mk == nil {
		return out
	}
	cg := p.CallGraph()
	var visit func(fn *ssa.Function)
	visit = func(fn *ssa.Function) {
		if out[fn] {
			return
		}
		out[fn] = true
		if n := cg.Nodes[fn]; n != nil {
			for _, e := range n.In {
				if isOwn(e.Caller.Func) {
					visit(e.Caller.Func)
				}
			}
		}
	}
	visit(mk)
	delete(out, mk)
	return out
}

// legalityBranch describes the InCheck filter found after a MakeMove.
type legalityBranch struct {
	If        *ssa.If
	InCheck   *ssa.Call
	LegalTo   *ssa.BasicBlock // successor taken when NOT in check
	IllegalTo *ssa.BasicBlock
}

// findLegalityBranch locates, after make site mk, the If on InCheck(mover).
func findLegalityBranch(fn *ssa.Function, mk ssa.CallInstruction) (*legalityBranch, string) {
	mkI := mk.(ssa.Instruction)
	var best *legalityBranch
	why := "no branch on Board.InCheck after the make"
	for _, ic := range callsIn(fn, "board.(*Board).InCheck") {
		icI := ic.(ssa.Instruction)
		if !instrDominates(mkI, icI) {
			continue
		}
		// not separated from the make by its undo
		if r, _ := reachAvoiding(mkI, icI, func(in ssa.Instruction) bool { return isCallTo(in, "board.(*Board).UndoMove") }); !r {
			continue
		}
		// same board
		if !sameValue(ic.Common().Args[0], mk.Common().Args[0], 0) {
			continue
		}
		// mover argument
		arg := stripConv(ic.Common().Args[1])
		okMover := false
		if call, ok := arg.(*ssa.Call); ok && objName(calleeObj(call)) == "chess.(Color).Flip" {
			if ld, ok := stripConv(call.Call.Args[0]).(*ssa.UnOp); ok && isFieldLoad(ld, "Board.STM") && instrDominates(mkI, ld) {
				okMover = true // side to move after the make, flipped = the mover
			}
		}
		if ld, ok := arg.(*ssa.UnOp); ok && isFieldLoad(ld, "Board.STM") {
			if instrDominates(ld, mkI) {
				if r, _ := reachAvoiding(mkI, ld, nil); !r {
					okMover = true // colour saved before the make
				}
			}
		}
		if !okMover {
			why = "InCheck is asked about a colour that is not the mover (must be STM.Flip() read after the make, or STM read before it)"
			continue
		}
		// the If consuming it
		v := ssa.Value(ic.(*ssa.Call))
		neg := false
		for {
			refs := v.Referrers()
			if refs == nil || len(*refs) == 0 {
				break
			}
			var iff *ssa.If
			var not *ssa.UnOp
			for _, r := range *refs {
				switch x := r.(type) {
				case *ssa.If:
					// several tests of the same answer (`if illegal || futile {undo; if illegal {continue}; break}`):
					// the one that decides first is the one that dominates the others
					if iff == nil || x.Block().Dominates(iff.Block()) {
						iff = x
					}
				case *ssa.UnOp:
					if x.Op == token.NOT {
						not = x
					}
				}
			}
			if iff != nil {
				lb := &legalityBranch{If: iff, InCheck: ic.(*ssa.Call)}
				t, f := iff.Block().Succs[0], iff.Block().Succs[1]
				if neg {
					lb.LegalTo, lb.IllegalTo = t, f
				} else {
					lb.LegalTo, lb.IllegalTo = f, t
				}
				best = lb
				break
			}
			if not != nil {
				v = not
				neg = !neg
				continue
			}
			break
		}
		if best != nil {
			return best, ""
		}
		why = "the result of InCheck is not branched on"
	}
	return nil, why
}

func c01R1(c *Ctx, p *Prog, rule string) {
	desc := descendingFuncs(p)
	sites := 0
	for _, fn := range p.OwnFuncs() {
		pkg := relPkg(fnPkgPath(fn))
		if pkg != "search" && pkg != "debug" {
			continue
		}
		mks := callsIn(fn, "board.(*Board).MakeMove")
		for i, mk := range mks {
			sites++
			key := fmt.Sprintf("%s#MakeMove@%d", fnName(fn), i+1)
			lb, why := findLegalityBranch(fn, mk)
			if lb == nil {
				c.Fail(rule, key+"#filter", mk.Pos(), "generated move is played without the legality filter: %s — a pinned-piece or king-into-check move becomes playable", why)
				continue
			}
			c.Ok(rule, key+"#filter", lb.InCheck.Pos(), "make is followed by a branch on InCheck(mover)")
			// descending calls reachable from the make (before its undo) must be dominated by the legal edge
			legalDominates := func(b *ssa.BasicBlock) bool {
				return len(lb.LegalTo.Preds) == 1 && (lb.LegalTo == b || lb.LegalTo.Dominates(b))
			}
			bad := ""
			nDesc := 0
			allInstrs(fn, func(in ssa.Instruction) {
				ci, ok := in.(ssa.CallInstruction)
				if !ok {
					return
				}
				callee := ci.Common().StaticCallee()
				if callee == nil || !desc[callee] {
					return
				}
				if r, _ := reachAvoiding(mk.(ssa.Instruction), in, func(x ssa.Instruction) bool { return isCallTo(x, "board.(*Board).UndoMove") }); !r {
					return
				}
				nDesc++
				if !legalDominates(in.Block()) {
					bad = fmt.Sprintf("call to %s at %s", fnName(callee), p.Rel(in.Pos()))
				}
			})
			c.Check(bad == "", rule, key+"#descend-only-if-legal", mk.Pos(), "all %d descending calls between make and undo are reachable only through the not-in-check edge %s", nDesc, bad)
			// the in-check edge goes straight to UndoMove
			effect := ""
			seen := map[int]bool{}
			var walk func(b *ssa.BasicBlock)
			walk = func(b *ssa.BasicBlock) {
				if seen[b.Index] || effect != "" {
					return
				}
				seen[b.Index] = true
				for _, in := range b.Instrs {
					if isCallTo(in, "board.(*Board).UndoMove") {
						return
					}
					switch x := in.(type) {
					case *ssa.Call:
						if _, isBuiltin := x.Call.Value.(*ssa.Builtin); !isBuiltin {
							effect = fmt.Sprintf("call at %s", p.Rel(x.Pos()))
						}
					case *ssa.Store:
						if _, local := x.Addr.(*ssa.Alloc); !local {
							effect = fmt.Sprintf("store at %s", p.Rel(x.Pos()))
						}
					case *ssa.Return:
						effect = fmt.Sprintf("return at %s", p.Rel(x.Pos()))
					}
				}
				for _, s := range b.Succs {
					walk(s)
				}
			}
			// if the matching undo already ran between the in-check test and the branch (the test's
			// result is kept in a local), both edges continue on the restored board
			undoneBefore := false
			for _, u := range callsIn(fn, "board.(*Board).UndoMove") {
				if instrDominates(lb.InCheck, u.(ssa.Instruction)) && instrDominates(u.(ssa.Instruction), lb.If) {
					undoneBefore = true
				}
			}
			if undoneBefore {
				// nothing to check
			} else if lb.IllegalTo == lb.LegalTo {
				effect = "both edges lead to the same block"
			} else if len(lb.IllegalTo.Preds) == 1 {
				walk(lb.IllegalTo)
			} else {
				// join block (perft shape: illegal edge falls through to the undo): the
				// undo must be the first effect there as well
				walk(lb.IllegalTo)
			}
			c.Check(effect == "", rule, key+"#illegal-just-undone", lb.If.Pos(), "on the in-check edge nothing happens before the matching UndoMove %s", effect)
		}
	}
	c.Floor(rule, sites, 4, "MakeMove sites in search/debug")
}

// ---- R2 generator wiring ----

func c01R2(c *Ctx, p *Prog) {
	const rule = "C01.R2"
	pk := p.Pkg("movegen")
	if pk == nil {
		c.Anchor(rule, "package movegen")
		return
	}
	gt, _ := pk.Types.Scope().Lookup("generator").(*types.TypeName)
	if gt == nil {
		c.Anchor(rule, "movegen.generator")
		return
	}
	named := gt.Type().(*types.Named)
	noisy, quiet := p.Func("movegen.GenNoisy"), p.Func("movegen.GenNotNoisy")
	if noisy == nil || quiet == nil {
		c.Anchor(rule, "movegen.GenNoisy/GenNotNoisy")
		return
	}
	bbType := func(t types.Type) bool {
		n, ok := types.Unalias(t).(*types.Named)
		return ok && n.Obj().Name() == "BitBoard"
	}
	type use struct {
		half string
		call ssa.CallInstruction
	}
	nMethods, nCalls := 0, 0
	for i := 0; i < named.NumMethods(); i++ {
		m := named.Method(i)
		spec := objName(m)
		// pure helpers of the generator (no move is emitted in their closure) are not generator methods
		if mf := p.Func(spec); mf != nil {
			emits := false
			for _, f := range p.closure([]*ssa.Function{mf}, func(f *ssa.Function) bool { return relPkg(fnPkgPath(f)) != "movegen" }) {
				if len(callsIn(f, "move.(*Store).Alloc")) > 0 {
					emits = true
				}
			}
			if !emits {
				c.OkTrivial(rule, spec+"#helper", m.Pos(), "emits no move: a helper, not a generator method")
				continue
			}
		}
		sig := m.Type().(*types.Signature)
		nbb := 0
		for j := 0; j < sig.Params().Len(); j++ {
			if bbType(sig.Params().At(j).Type()) {
				nbb++
			}
		}
		nMethods++
		var uses []use
		var elsewhere []string
		for _, fn := range p.OwnFuncs() {
			for _, ci := range callsIn(fn, spec) {
				switch fn {
				case noisy:
					uses = append(uses, use{"noisy", ci})
				case quiet:
					uses = append(uses, use{"quiet", ci})
				default:
					elsewhere = append(elsewhere, fnName(fn))
				}
			}
		}
		nCalls += len(uses)
		if len(elsewhere) > 0 {
			c.Fail(rule, spec+"#callers", m.Pos(), "generator method is also called from %v: moves are emitted outside the noisy/quiet split", elsewhere)
		}
		bbArgs := func(ci ssa.CallInstruction) []ssa.Value {
			var out []ssa.Value
			for _, a := range ci.Common().Args[1:] {
				if bbType(a.Type()) {
					out = append(out, a)
				}
			}
			return out
		}
		isFull := func(v ssa.Value) bool {
			k, ok := v.(*ssa.Const)
			if !ok || k.Value == nil {
				return false
			}
			u, ok := constOfU(v)
			return ok && u == ^uint64(0)
		}
		switch {
		case nbb >= 2:
			var nz, qt []ssa.CallInstruction
			for _, u := range uses {
				if u.half == "noisy" {
					nz = append(nz, u.call)
				} else {
					qt = append(qt, u.call)
				}
			}
			if len(nz) != 1 || len(qt) != 1 {
				c.Fail(rule, spec+"#once-per-half", m.Pos(), "method with a target mask must be called exactly once in GenNoisy and once in GenNotNoisy (found %d and %d): a move class is lost or generated twice", len(nz), len(qt))
				continue
			}
			na, qa := bbArgs(nz[0]), bbArgs(qt[0])
			okFrom := isFull(na[0]) && isFull(qa[0])
			c.Check(okFrom, rule, spec+"#from-mask", nz[0].Pos(), "source mask is Full in both halves")
			// target masks complementary: quiet = ^noisy, noisy = Colors[STM.Flip()]
			// (the halves are different functions: compare by normalised colour expression)
			A, B := stripConv(na[1]), stripConv(qa[1])
			compl := false
			ca, okA := coloursLoad(A)
			if u, ok := B.(*ssa.UnOp); ok && u.Op == token.XOR && okA {
				if cb, okB := coloursLoad(stripConv(u.X)); okB && cb == ca {
					compl = true
				}
			}
			c.Check(compl, rule, spec+"#complementary", qt[0].Pos(), "target masks of the two halves are X and ^X of the same X: every target square belongs to exactly one half")
			ce, ok := coloursLoad(stripConv(na[1]))
			c.Check(ok && ce == colourExpr{"STM", true}, rule, spec+"#noisy-targets", nz[0].Pos(), "noisy target mask is Colors[STM.Flip()] (captures)")
		default:
			if len(uses) != 1 {
				c.Fail(rule, spec+"#exactly-once", m.Pos(), "generator method must be called exactly once, in exactly one half (found %d calls): a move class is lost or duplicated", len(uses))
				continue
			}
			okFrom := true
			for _, a := range bbArgs(uses[0].call) {
				if !isFull(a) {
					okFrom = false
				}
			}
			c.Check(okFrom, rule, spec+"#exactly-once", uses[0].call.Pos(), "called exactly once (in the %s half) with Full masks", uses[0].half)
		}
	}
	c.Floor(rule+".methods", nMethods, 10, "generator methods")
	c.Floor(rule+".calls", nCalls, 14, "generator calls in the two halves")
	// generator literal: self = Colors[STM], them = Colors[STM.Flip()], occ = Colors[White]|Colors[Black]
	for _, half := range []*ssa.Function{noisy, quiet} {
		genFieldInit(c, rule, half)
	}
	// consumers needing all moves call both halves with the same store: every chess-3 function
	// outside movegen and the staged picker that calls one half must call the other with it
	nCons := 0
	for _, fn := range p.OwnFuncs() {
		pkg := relPkg(fnPkgPath(fn))
		if pkg == "movegen" || pkg == "picker" {
			continue
		}
		if len(callsIn(fn, "movegen.GenNoisy"))+len(callsIn(fn, "movegen.GenNotNoisy")) == 0 {
			continue
		}
		// quiescence deliberately searches the noisy half only
		if fnName(fn) == "search.(*Search).quiescence" {
			c.OkTrivial(rule, fnName(fn)+"#noisy-only", fn.Pos(), "quiescence generates the noisy half only, by design")
			continue
		}
		nCons++
		c.Check(bothHalvesTogether(fn), rule, fnName(fn)+"#both-halves", fn.Pos(), "consumer that needs every move calls GenNoisy and GenNotNoisy, on the same store and board, together on every path")
	}
	c.Floor(rule+".consumers", nCons, 2, "consumers of the full move list")
	// picker: GenNoisy and GenNotNoisy each called exactly once in Next
	if fn := p.Func("picker.(*Picker).Next"); fn != nil {
		a, b := callsIn(fn, "movegen.GenNoisy"), callsIn(fn, "movegen.GenNotNoisy")
		c.Check(len(a) == 1 && len(b) == 1, rule, "picker.(*Picker).Next#both-halves", fn.Pos(), "the staged picker calls each half exactly once (%d, %d)", len(a), len(b))
	} else {
		c.Anchor(rule, "picker.(*Picker).Next")
	}
}

func constOfU(v ssa.Value) (uint64, bool) {
	k, ok := stripConv(v).(*ssa.Const)
	if !ok || k.Value == nil {
		return 0, false
	}
	return k.Uint64(), true
}

// genFieldInit checks the generator{self, them, occ} construction in a half.
func genFieldInit(c *Ctx, rule string, fn *ssa.Function) {
	want := map[string]func(v ssa.Value) bool{
		"self": func(v ssa.Value) bool { ce, ok := coloursLoad(v); return ok && ce == colourExpr{"STM", false} },
		"them": func(v ssa.Value) bool { ce, ok := coloursLoad(v); return ok && ce == colourExpr{"STM", true} },
		"occ": func(v ssa.Value) bool {
			bo, ok := stripConv(v).(*ssa.BinOp)
			if !ok || bo.Op != token.OR {
				return false
			}
			a, ok1 := coloursLoad(bo.X)
			b, ok2 := coloursLoad(bo.Y)
			return ok1 && ok2 && ((a.Base == "const0" && b.Base == "const1") || (a.Base == "const1" && b.Base == "const0"))
		},
	}
	got := map[string]bool{}
	allInstrs(fn, func(in ssa.Instruction) {
		st, ok := in.(*ssa.Store)
		if !ok {
			return
		}
		fa, ok := st.Addr.(*ssa.FieldAddr)
		if !ok {
			return
		}
		fr, ok := asFieldAddr(fa)
		if !ok || fr.Struct == nil || fr.Struct.Obj().Name() != "generator" {
			return
		}
		if f, ok := want[fr.Field.Name()]; ok {
			got[fr.Field.Name()] = c.Check(f(st.Val), rule, fnName(fn)+"#generator."+fr.Field.Name(), st.Pos(), "generator.%s is initialised to the bitboard its name says (self=Colors[STM], them=Colors[STM.Flip()], occ=both)", fr.Field.Name())
		}
	})
	for _, f := range []string{"self", "them", "occ"} {
		if !got[f] {
			if _, done := got[f]; !done {
				c.Undec(rule, fnName(fn)+"#generator."+f, fn.Pos(), "initialisation of generator.%s not found", f)
			}
		}
	}
}

// ---- R4 castling geometry ----

type castleFacts struct {
	Side      int64 // chess.Short / chess.Long constant
	SideName  string
	Mask      map[string]uint64 // "White"/"Black" -> castleMask
	EmptyExpr string            // "mask-minus-king" | "mask>>1"
	Delta     int64             // to = from + Delta
	AttackArg string            // "mask" | other
	Pos       token.Pos
}

// bbFromSquaresConst evaluates a call BitBoardFromSquares(c1, c2, ...) with constant arguments.
func bbFromSquaresConst(v ssa.Value) (uint64, bool) {
	call, ok := stripConv(v).(*ssa.Call)
	if !ok || objName(calleeObj(call)) != "chess.BitBoardFromSquares" || len(call.Call.Args) != 1 {
		return 0, false
	}
	vals := varargValues(call.Call.Args[0])
	if len(vals) == 0 {
		return 0, false
	}
	var m uint64
	for _, x := range vals {
		k, isc := constOf(x)
		if !isc || k < 0 || k > 63 {
			return 0, false
		}
		m |= 1 << uint(k)
	}
	return m, true
}

// castleMaskTable: mask is a load of T[STM][side] (or T[side][STM], or T[STM]) from a package-level array literal whose
// entries are constant bitboards / BitBoardFromSquares(...) of constants; returns the mask per colour for the given side.
func castleMaskTable(p *Prog, mask ssa.Value, side int64) (map[string]uint64, bool) {
	l, ok := stripConv(mask).(*ssa.UnOp)
	if !ok || l.Op != token.MUL {
		return nil, false
	}
	var idxs []ssa.Value
	a := l.X
	for {
		ia, ok := a.(*ssa.IndexAddr)
		if !ok {
			break
		}
		idxs = append([]ssa.Value{ia.Index}, idxs...)
		a = ia.X
	}
	g, ok := a.(*ssa.Global)
	if !ok || g.Pkg == nil || len(idxs) == 0 || len(idxs) > 2 {
		return nil, false
	}
	init, pk := p.pkgVarInit(relPkg(g.Pkg.Pkg.Path()) + "." + g.Name())
	if init == nil || pk == nil || len(p.nonInitGlobalWriters(relPkg(g.Pkg.Pkg.Path())+"."+g.Name())) != 0 {
		return nil, false
	}
	// read the literal into (i[,j]) -> value
	type key struct{ i, j int64 }
	vals := map[key]uint64{}
	var read func(e ast.Expr, prefix []int64) bool
	read = func(e ast.Expr, prefix []int64) bool {
		cl, isCl := ast.Unparen(e).(*ast.CompositeLit)
		if !isCl {
			u, ok := evalBBExpr(pk.TypesInfo, e)
			if !ok {
				return false
			}
			k := key{-1, -1}
			if len(prefix) > 0 {
				k.i = prefix[0]
			}
			if len(prefix) > 1 {
				k.j = prefix[1]
			}
			vals[k] = u
			return true
		}
		next := int64(0)
		for _, el := range cl.Elts {
			v := el
			if kv, isKV := el.(*ast.KeyValueExpr); isKV {
				kk, ok := constInt(pk.TypesInfo, kv.Key)
				if !ok {
					return false
				}
				next = kk
				v = kv.Value
			}
			if !read(v, append(append([]int64(nil), prefix...), next)) {
				return false
			}
			next++
		}
		return true
	}
	if !read(init, nil) {
		return nil, false
	}
	// which index is the colour, which the side
	out := map[string]uint64{}
	for ci, cname := range []string{"White", "Black"} {
		var k key
		k.j = -1
		switch len(idxs) {
		case 1:
			if !isFieldLoad(stripConv(idxs[0]), "Board.STM") {
				return nil, false
			}
			k.i = int64(ci)
		case 2:
			s0, c0 := constOf(idxs[0])
			s1, c1 := constOf(idxs[1])
			switch {
			case isFieldLoad(stripConv(idxs[0]), "Board.STM") && c1 && s1 == side:
				k.i, k.j = int64(ci), side
			case isFieldLoad(stripConv(idxs[1]), "Board.STM") && c0 && s0 == side:
				k.i, k.j = side, int64(ci)
			default:
				return nil, false
			}
		}
		u, ok := vals[k]
		if !ok {
			return nil, false
		}
		out[cname] = u
	}
	return out, true
}

// castleMethods finds the generator methods that consult Castle(STM, side) and reads their
// castling facts from the SSA (robust against guard clauses, merged conditions, if/switch forms).
func castleMethods(c *Ctx, p *Prog, rule string) []castleFacts {
	var out []castleFacts
	for _, fn := range p.OwnFuncs() {
		if relPkg(fnPkgPath(fn)) != "movegen" || fn.Parent() != nil {
			continue
		}
		calls := callsIn(fn, "chess.Castle")
		if len(calls) == 0 {
			continue
		}
		name := fnName(fn)
		if len(calls) != 1 {
			c.Undec(rule, name+"#rights", fn.Pos(), "expected one Castle(colour, side) call")
			continue
		}
		cc := calls[0].Common()
		side, ok := constOf(cc.Args[1])
		if !ok {
			c.Undec(rule, name+"#rights", fn.Pos(), "side argument of Castle is not constant")
			continue
		}
		cf := castleFacts{Side: side, Mask: map[string]uint64{}, Pos: fn.Pos(), SideName: name}
		if isFieldLoad(stripConv(cc.Args[0]), "Board.STM") {
			c.Ok(rule, name+"#rights", calls[0].Pos(), "tests Castle(STM, side=%d)", side)
		} else {
			c.Fail(rule, name+"#rights", calls[0].Pos(), "castling right tested is not the side to move's")
		}
		// the mask: what IsAttacked is asked about
		atts := callsIn(fn, "board.(*Board).IsAttacked")
		if len(atts) != 1 {
			c.Undec(rule, name+"#mask", fn.Pos(), "expected one IsAttacked call, found %d", len(atts))
			continue
		}
		mask := stripConv(atts[0].Common().Args[3])
		cf.AttackArg = "mask"
		ph, isPhi := mask.(*ssa.Phi)
		if !isPhi {
			// a package-level table of masks indexed by the side to move (and the castling side)
			if tab, ok := castleMaskTable(p, mask, side); ok {
				cf.Mask = tab
			} else {
				c.Undec(rule, name+"#mask", fn.Pos(), "the squares tested for attack are not a per-colour choice of constant square sets")
				continue
			}
		}
		for i, e := range func() []ssa.Value {
			if isPhi {
				return ph.Edges
			}
			return nil
		}() {
			if k, isc := constOf(e); isc && k == 0 {
				continue
			}
			m, ok := bbFromSquaresConst(e)
			if !ok {
				cf.Mask = map[string]uint64{}
				break
			}
			pred := ph.Block().Preds[i]
			col := ""
			for _, ce := range append(controllingConds(pred), edgeCond(pred, ph.Block())...) {
				bo, ok := ce.Cond.(*ssa.BinOp)
				if !ok || bo.Op != token.EQL || !ce.True || !isFieldLoad(stripConv(bo.X), "Board.STM") {
					continue
				}
				if k, isc := constOf(bo.Y); isc {
					col = map[int64]string{0: "White", 1: "Black"}[k]
				}
			}
			if col != "" {
				cf.Mask[col] = m
			}
		}
		if len(cf.Mask) != 2 {
			c.Undec(rule, name+"#mask", fn.Pos(), "castle mask per colour not recognised (found %d)", len(cf.Mask))
			continue
		}
		// emptiness test: occ & mask  (==/!=)  own king   |   occ & (mask>>1)  (==/!=)  0
		allInstrs(fn, func(in ssa.Instruction) {
			cmp, ok := in.(*ssa.BinOp)
			if !ok || (cmp.Op != token.EQL && cmp.Op != token.NEQ) {
				return
			}
			for _, pr := range [][2]ssa.Value{{cmp.X, cmp.Y}, {cmp.Y, cmp.X}} {
				and, ok := stripConv(pr[0]).(*ssa.BinOp)
				if !ok || and.Op != token.AND {
					continue
				}
				for _, q := range [][2]ssa.Value{{and.X, and.Y}, {and.Y, and.X}} {
					if !isGenField(q[0], "occ") {
						continue
					}
					other := stripConv(q[1])
					if other == mask {
						// compared with the own king set
						var ls []struct {
							V   ssa.Value
							Neg bool
						}
						andLeaves(pr[1], false, &ls)
						self, king := false, false
						for _, lf := range ls {
							if isGenField(lf.V, "self") && !lf.Neg {
								self = true
							}
							if k, ok := piecesLoadKind(lf.V, pieceConsts(p)); ok && k == "King" && !lf.Neg {
								king = true
							}
						}
						if self && king && len(ls) == 2 {
							cf.EmptyExpr = "mask-minus-king"
						}
					}
					if sh, ok := other.(*ssa.BinOp); ok && sh.Op == token.SHR && stripConv(sh.X) == mask {
						if k, isc := constOf(sh.Y); isc && k == 1 {
							if z, isc := constOf(pr[1]); isc && z == 0 {
								cf.EmptyExpr = "mask>>1"
							}
						}
					}
				}
			}
		})
		// destination: move.To(from ± k)
		for _, tc := range callsIn(fn, "move.To") {
			if bo, ok := stripConv(tc.Common().Args[0]).(*ssa.BinOp); ok {
				if k, isc := constOf(bo.Y); isc {
					switch bo.Op {
					case token.ADD:
						cf.Delta = k
					case token.SUB:
						cf.Delta = -k
					}
				}
			}
		}
		out = append(out, cf)
	}
	sort.Slice(out, func(i, j int) bool { return out[i].SideName < out[j].SideName })
	return out
}

func c01R4(c *Ctx, p *Prog, rule string) {
	short, ok1 := p.pkgConstInt("chess.Short")
	long, ok2 := p.pkgConstInt("chess.Long")
	if !ok1 || !ok2 {
		c.Anchor(rule, "chess.Short/Long")
		return
	}
	cfs := castleMethods(c, p, rule)
	n := 0
	for _, cf := range cfs {
		for _, col := range []string{"White", "Black"} {
			n++
			home := uint(4) // e1
			if col == "Black" {
				home = 60
			}
			key := cf.SideName + "#" + col
			mask := cf.Mask[col]
			var wantMask, wantEmpty uint64
			var wantDelta int64
			if cf.Side == short {
				wantMask = 1<<home | 1<<(home+1) | 1<<(home+2)
				wantEmpty = 1<<(home+1) | 1<<(home+2)
				wantDelta = 2
			} else if cf.Side == long {
				wantMask = 1<<home | 1<<(home-1) | 1<<(home-2)
				wantEmpty = 1<<(home-1) | 1<<(home-2) | 1<<(home-3)
				wantDelta = -2
			} else {
				c.Undec(rule, key, cf.Pos, "unknown side constant %d", cf.Side)
				continue
			}
			c.Check(mask == wantMask, rule, key+"#mask", cf.Pos, "castle mask %#x is {king home, crossing square, destination} = %#x for %s", mask, wantMask, col)
			var empty uint64
			switch cf.EmptyExpr {
			case "mask-minus-king":
				empty = mask &^ (1 << home)
			case "mask>>1":
				empty = mask >> 1
			default:
				c.Undec(rule, key+"#empty", cf.Pos, "emptiness test not recognised")
				continue
			}
			c.Check(empty == wantEmpty, rule, key+"#empty", cf.Pos, "squares required empty %#x are exactly those strictly between king and rook %#x", empty, wantEmpty)
			c.Check(cf.Delta == wantDelta, rule, key+"#destination", cf.Pos, "king lands on from%+d (expected %+d), the far end of the mask", cf.Delta, wantDelta)
			c.Check(cf.AttackArg == "mask", rule, key+"#unattacked", cf.Pos, "IsAttacked is asked about the whole mask (king square, crossing square, destination); got %s", cf.AttackArg)
			_ = bits.Len
		}
	}
	c.Floor(rule, n, 4, "castling (method, colour) pairs")
}

// ---- R5 promotions ----

func c01R5(c *Ctx, p *Prog) {
	const rule = "C01.R5"
	pcs := pieceConsts(p)
	want := []string{"Bishop", "Knight", "Queen", "Rook"}
	n := 0
	for _, fn := range p.OwnFuncs() {
		if relPkg(fnPkgPath(fn)) != "movegen" {
			continue
		}
		for _, ci := range callsIn(fn, "move.Promo") {
			arg := stripConv(ci.Common().Args[0])
			key := fnName(fn) + "#promotion-loop"
			ph, ok := arg.(*ssa.Phi)
			if !ok || len(ph.Edges) != 2 {
				c.Undec(rule, key, ci.Pos(), "promotion piece is not a simple loop variable")
				continue
			}
			n++
			var start, step int64
			okShape := false
			for i, e := range ph.Edges {
				if k, isc := constOf(e); isc {
					start = k
					if bo, ok := stripConv(ph.Edges[1-i]).(*ssa.BinOp); ok && stripConv(bo.X) == ssa.Value(ph) {
						if d, isc := constOf(bo.Y); isc {
							if bo.Op == token.ADD {
								step, okShape = d, true
							} else if bo.Op == token.SUB {
								step, okShape = -d, true
							}
						}
					}
				}
			}
			// loop condition: If in phi's block comparing phi with a constant
			var cond *ssa.BinOp
			var bodyOnTrue bool
			if iff, ok := ph.Block().Instrs[len(ph.Block().Instrs)-1].(*ssa.If); ok {
				if bo, ok := iff.Cond.(*ssa.BinOp); ok && stripConv(bo.X) == ssa.Value(ph) {
					cond = bo
					bodyOnTrue = ph.Block().Succs[0].Dominates(ci.Block()) || ph.Block().Succs[0] == ci.Block()
				}
			}
			if !okShape || cond == nil || step == 0 {
				c.Undec(rule, key, ci.Pos(), "promotion loop shape not recognised")
				continue
			}
			lim, _ := constOf(cond.Y)
			test := func(x int64) bool {
				var r bool
				switch cond.Op {
				case token.GTR:
					r = x > lim
				case token.GEQ:
					r = x >= lim
				case token.LSS:
					r = x < lim
				case token.LEQ:
					r = x <= lim
				case token.NEQ:
					r = x != lim
				default:
					return false
				}
				return r == bodyOnTrue
			}
			var got []string
			for x, i := start, 0; i < 16 && test(x); x, i = x+step, i+1 {
				got = append(got, pcs[x])
			}
			sort.Strings(got)
			c.Check(strings.Join(got, ",") == strings.Join(want, ","), rule, key, ci.Pos(), "promotion loop enumerates {%s}; must be exactly {Knight,Bishop,Rook,Queen}", strings.Join(got, ","))
		}
	}
	c.Floor(rule, n, 2, "promotion loops")
}

func init() {
	addMutants(
		Mutant{Name: "C01.R1-fallback-adopts-pseudo-legal", Prop: "C01", File: "search/search.go", Quick: true,
			Old:    "\t\t\t\t\t\tif !b.InCheck(b.STM.Flip()) { // legal\n\t\t\t\t\t\t\tmove = pseudo.Move\n\t\t\t\t\t\t\tb.UndoMove(pseudo.Move, r)\n\t\t\t\t\t\t\tbreak\n\t\t\t\t\t\t}\n\t\t\t\t\t\tb.UndoMove(pseudo.Move, r)\n",
			New:    "\t\t\t\t\t\tmove = pseudo.Move\n\t\t\t\t\t\tb.UndoMove(pseudo.Move, r)\n\t\t\t\t\t\tbreak\n",
			Expect: "C01.R1/search.(*Search).iterativeDeepen#MakeMove@1#filter"},
		Mutant{Name: "C01.R1-qs-checks-wrong-side", Prop: "C01", File: "search/search.go", Quick: true,
			Old: "\t\tr := b.MakeMove(m.Move)\n\n\t\tif b.InCheck(b.STM.Flip()) {", New: "\t\tr := b.MakeMove(m.Move)\n\n\t\tif b.InCheck(b.STM) {",
			Expect: "C01.R1/search.(*Search).quiescence#MakeMove@1#filter"},
		Mutant{Name: "C01.R1-perft-colour-read-after-make", Prop: "C01", File: "debug/perft.go",
			Old: "\t\tr := b.MakeMove(m.Move)\n\n\t\tif !b.InCheck(me) {", New: "\t\tr := b.MakeMove(m.Move)\n\t\tme = b.STM\n\n\t\tif !b.InCheck(me) {",
			Expect: "C01.R1/debug.perft#MakeMove@1"},
		Mutant{Name: "C01.R1-ab-filter-negated", Prop: "C01", File: "search/search.go",
			Old: "\t\tr := b.MakeMove(m)\n\n\t\tif b.InCheck(b.STM.Flip()) {", New: "\t\tr := b.MakeMove(m)\n\n\t\tif !b.InCheck(b.STM.Flip()) {",
			Expect: "C01.R1/search.(*Search).alphaBeta#MakeMove@1#descend-only-if-legal"},
		Mutant{Name: "C01.R2-quiet-half-gets-all-targets", Prop: "C01", File: "movegen/movegen.go", Quick: true,
			Old: "\tgen.rookMoves(ms, b, Full, ^them)\n", New: "\tgen.rookMoves(ms, b, Full, Full)\n",
			Expect: "C01.R2/movegen.(generator).rookMoves#complementary"},
		Mutant{Name: "C01.R2-en-passant-dropped", Prop: "C01", File: "movegen/movegen.go", Quick: true,
			Old: "\tgen.pawnCapturePromoMoves(ms, b)\n\tgen.enPassant(ms, b)\n", New: "\tgen.pawnCapturePromoMoves(ms, b)\n",
			Expect: "C01.R2/movegen.(generator).enPassant#exactly-once"},
		Mutant{Name: "C01.R2-noisy-targets-own-pieces", Prop: "C01", File: "movegen/movegen.go",
			Old: "\tgen.knightMoves(ms, b, Full, them)\n", New: "\tgen.knightMoves(ms, b, Full, self)\n",
			Expect: "C01.R2/movegen.(generator).knightMoves#"},
		Mutant{Name: "C01.R2-generator-them-is-self", Prop: "C01", File: "movegen/movegen.go",
			Old: "func GenNotNoisy(ms *move.Store, b *board.Board) {\n\n\tself := b.Colors[b.STM]\n\tthem := b.Colors[b.STM.Flip()]", New: "func GenNotNoisy(ms *move.Store, b *board.Board) {\n\n\tself := b.Colors[b.STM]\n\tthem := b.Colors[b.STM]",
			Expect: "C01.R2/"},
		Mutant{Name: "C01.R3-attackers-rook-rays-with-bishops", Prop: "C01", File: "board/attacks.go", Quick: true,
			Old: "\t\tsub |= attacks.RookMoves(sq, occ) & (b.Pieces[Rook] | b.Pieces[Queen])\n\n\t\tres |= sub & opp\n", New: "\t\tsub |= attacks.RookMoves(sq, occ) & (b.Pieces[Bishop] | b.Pieces[Queen])\n\n\t\tres |= sub & opp\n",
			Expect: "C01.R3.PA1/board.(*Board).Attackers#RookMoves"},
		Mutant{Name: "C01.R3-isattacked-forgets-queen-on-diagonal", Prop: "C01", File: "board/attacks.go",
			Old: "if attacks.BishopMoves(sq, occ)&(b.Pieces[Queen]|b.Pieces[Bishop])&other != 0 {", New: "if attacks.BishopMoves(sq, occ)&b.Pieces[Bishop]&other != 0 {",
			Expect: "C01.R3.PA1/board.(*Board).IsAttacked#BishopMoves"},
		Mutant{Name: "C01.R3-rook-generator-uses-bishop-rays", Prop: "C01", File: "movegen/movegen.go",
			Old: "tSqrs := attacks.RookMoves(from, g.occ) & ^g.self & toMsk", New: "tSqrs := attacks.BishopMoves(from, g.occ) & ^g.self & toMsk",
			Expect: "C01.R3.PA2/movegen.(generator).rookMoves"},
		Mutant{Name: "C01.R3-isattacked-pawn-colour-flipped", Prop: "C01", File: "board/attacks.go",
			Old: "if attacks.PawnCaptureMoves(b.Pieces[Pawn]&other, by)&target != 0 {", New: "if attacks.PawnCaptureMoves(b.Pieces[Pawn]&other, by.Flip())&target != 0 {",
			Expect: "C01.R3.PA4/board.(*Board).IsAttacked#PawnCaptureMoves"},
		Mutant{Name: "C01.R4-long-castle-b-file-ignored", Prop: "C01", File: "movegen/movegen.go", Quick: true,
			Old: "if b.Castles&Castle(b.STM, Long) != 0 && g.occ&(castleMask>>1) == 0 {", New: "if b.Castles&Castle(b.STM, Long) != 0 && g.occ&castleMask&^(g.self&b.Pieces[King]) == 0 {",
			Expect: "C01.R4/movegen.(generator).longCastle#"},
		Mutant{Name: "C01.R4-black-short-mask-typo", Prop: "C01", File: "movegen/movegen.go",
			Old: "castleMask = BitBoardFromSquares(E8, F8, G8)", New: "castleMask = BitBoardFromSquares(E8, F8, H8)",
			Expect: "C01.R4/movegen.(generator).shortCastle#Black#mask"},
		Mutant{Name: "C01.R4-short-castle-long-right", Prop: "C01", File: "movegen/movegen.go",
			Old: "if b.Castles&Castle(b.STM, Short) != 0 && g.occ&castleMask == g.self&b.Pieces[King] {", New: "if b.Castles&Castle(b.STM, Long) != 0 && g.occ&castleMask == g.self&b.Pieces[King] {",
			Expect: "C01.R4/"},
		Mutant{Name: "C01.R5-no-knight-underpromotion", Prop: "C01", File: "movegen/movegen.go", Quick: true,
			Old: "\t\tfor promo := Queen; promo > Pawn; promo-- {\n\t\t\tms.Alloc(move.From(from) | move.To(from+shift) | move.Promo(promo))", New: "\t\tfor promo := Queen; promo > Knight; promo-- {\n\t\t\tms.Alloc(move.From(from) | move.To(from+shift) | move.Promo(promo))",
			Expect: "C01.R5/movegen.(generator).promoPushMoves#promotion-loop"},
	)
}

// bothHalvesTogether: fn calls GenNoisy and GenNotNoisy exactly once each, on the
// same store and board, and whenever one runs the other runs too.
func bothHalvesTogether(fn *ssa.Function) bool {
	a, b := callsIn(fn, "movegen.GenNoisy"), callsIn(fn, "movegen.GenNotNoisy")
	if len(a) != 1 || len(b) != 1 {
		return false
	}
	if !sameValue(a[0].Common().Args[0], b[0].Common().Args[0], 0) || !sameValue(a[0].Common().Args[1], b[0].Common().Args[1], 0) {
		return false
	}
	if a[0].Block() == b[0].Block() {
		return true
	}
	pd := newPostDom(fn)
	first, second := a[0], b[0]
	if !first.Block().Dominates(second.Block()) {
		first, second = b[0], a[0]
	}
	return first.Block().Dominates(second.Block()) && pd.PostDominates(second.Block(), first.Block())
}
