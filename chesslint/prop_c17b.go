package main

// C17.R2–R4: colour symmetry where the two colours are spelled out side by side.

import (
	"fmt"
	"go/ast"
	"go/constant"
	"go/token"
	"go/types"
	"math/bits"
	"sort"
	"strings"
	"sync"

	"golang.org/x/tools/go/packages"
	"golang.org/x/tools/go/ssa"
)

// mirrorer renders expressions in normal form, optionally mirrored
// (White<->Black, <<n <-> >>n for rank shifts, BitBoard constants byte-reversed,
// paired locals swapped).
type mirrorer struct {
	info  *types.Info
	pairs map[types.Object]types.Object // local sibling variables (wX <-> bX)
	side  map[types.Object]int          // 0 = White-side local, 1 = Black-side local
}

func isColorConst(info *types.Info, e ast.Expr) (int64, bool) {
	tv, ok := info.Types[e]
	if !ok || tv.Value == nil {
		return 0, false
	}
	n, ok := types.Unalias(tv.Type).(*types.Named)
	if !ok || n.Obj().Name() != "Color" {
		return 0, false
	}
	v, ok := constant.Int64Val(constant.ToInt(tv.Value))
	return v, ok
}

func isBitBoardType(t types.Type) bool {
	n, ok := types.Unalias(t).(*types.Named)
	return ok && n.Obj().Name() == "BitBoard"
}

var rankShift = map[int64]bool{8: true, 16: true, 32: true}

func (m *mirrorer) render(e ast.Expr, mirror bool) string {
	e = ast.Unparen(e)
	info := m.info
	if c, ok := isColorConst(info, e); ok {
		if mirror {
			c ^= 1
		}
		return fmt.Sprintf("Color(%d)", c)
	}
	if tv, ok := info.Types[e]; ok && tv.Value != nil {
		if isBitBoardType(tv.Type) || (tv.Value.Kind() == constant.Int && isUntypedBig(tv)) {
			if u, ok := constant.Uint64Val(constant.ToInt(tv.Value)); ok && isBitBoardType(tv.Type) {
				if mirror {
					u = bits.ReverseBytes64(u)
				}
				return fmt.Sprintf("bb(%#x)", u)
			}
		}
		return tv.Value.ExactString()
	}
	// a bitboard that can be computed from constants (|, &, &^, ^, BitBoardFromSquares(consts)) is a literal in disguise
	if t := info.TypeOf(e); t != nil && isBitBoardType(t) {
		if u, ok := evalBBExpr(info, e); ok {
			if mirror {
				u = bits.ReverseBytes64(u)
			}
			return fmt.Sprintf("bb(%#x)", u)
		}
	}
	switch x := e.(type) {
	case *ast.Ident:
		obj := info.ObjectOf(x)
		if mirror {
			if o2, ok := m.pairs[obj]; ok {
				return o2.Name()
			}
		}
		return x.Name
	case *ast.SelectorExpr:
		if id, ok := x.X.(*ast.Ident); ok {
			if _, isPkg := info.ObjectOf(id).(*types.PkgName); isPkg {
				return id.Name + "." + x.Sel.Name
			}
		}
		return m.render(x.X, mirror) + "." + x.Sel.Name
	case *ast.CallExpr:
		if isConversion(info, x) && len(x.Args) == 1 {
			return m.render(x.Args[0], mirror)
		}
		var args []string
		for _, a := range x.Args {
			args = append(args, m.render(a, mirror))
		}
		fn := m.render(x.Fun, mirror)
		if mirror {
			if id, ok := ast.Unparen(x.Fun).(*ast.Ident); ok {
				if fo, ok := info.ObjectOf(id).(*types.Func); ok {
					if partner, ok := mirrorFuncs.Load(fo); ok {
						fn = partner.(*types.Func).Name()
					}
				}
			}
		}
		if fn == "min" || fn == "max" {
			sort.Strings(args)
		}
		// |a-b| is symmetric in a and b
		if (fn == "Abs" || strings.HasSuffix(fn, ".Abs")) && len(x.Args) == 1 {
			if d, ok := ast.Unparen(x.Args[0]).(*ast.BinaryExpr); ok && d.Op == token.SUB {
				parts := []string{m.render(d.X, mirror), m.render(d.Y, mirror)}
				sort.Strings(parts)
				return fn + "(" + parts[0] + "~" + parts[1] + ")"
			}
		}
		return fn + "(" + strings.Join(args, ",") + ")"
	case *ast.IndexExpr:
		return m.render(x.X, mirror) + "[" + m.render(x.Index, mirror) + "]"
	case *ast.UnaryExpr:
		return x.Op.String() + "(" + m.render(x.X, mirror) + ")"
	case *ast.StarExpr:
		return "*" + m.render(x.X, mirror)
	case *ast.BinaryExpr:
		op := x.Op
		if op == token.AND_NOT {
			parts := []string{m.render(x.X, mirror), "^(" + m.render(x.Y, mirror) + ")"}
			sort.Strings(parts)
			return "(" + strings.Join(parts, "&") + ")"
		}
		if op == token.SHL || op == token.SHR {
			if k, ok := constInt(info, x.Y); ok && rankShift[k] && mirror && isBitBoardType(info.TypeOf(x.X)) {
				if op == token.SHL {
					op = token.SHR
				} else {
					op = token.SHL
				}
			}
			return "(" + m.render(x.X, mirror) + op.String() + m.render(x.Y, mirror) + ")"
		}
		if commutative[op] {
			var ops []ast.Expr
			flatten(x, op, &ops)
			var parts []string
			for _, o := range ops {
				o = ast.Unparen(o)
				if b, ok := o.(*ast.BinaryExpr); ok && b.Op == token.AND_NOT && op == token.AND {
					parts = append(parts, m.render(b.X, mirror), "^("+m.render(b.Y, mirror)+")")
					continue
				}
				parts = append(parts, m.render(o, mirror))
			}
			sort.Strings(parts)
			return "(" + strings.Join(parts, op.String()) + ")"
		}
		return "(" + m.render(x.X, mirror) + op.String() + m.render(x.Y, mirror) + ")"
	case *ast.CompositeLit:
		var els []string
		for _, el := range x.Elts {
			els = append(els, m.render(el, mirror))
		}
		return "{" + strings.Join(els, ",") + "}"
	case *ast.BasicLit:
		return x.Value
	}
	return types.ExprString(e)
}

func isUntypedBig(tv types.TypeAndValue) bool { return false }

// evalBBExpr evaluates a bitboard-typed expression built from constants, bit operators and
// BitBoardFromSquares over constant squares.
var bbVarInits sync.Map  // types.Object (package-level var) -> ast.Expr initialiser
var mirrorFuncs sync.Map // *types.Func -> *types.Func: functions whose bodies are mirror images of each other

// registerMirrorFuncs pairs top-level functions of identical signature whose bodies render, statement by
// statement, as each other's mirror image (northFill / southFill): a call of one, mirrored, is a call of the other.
func registerMirrorFuncs(pk *packages.Package) {
	type fdecl struct {
		obj *types.Func
		fd  *ast.FuncDecl
	}
	var fs []fdecl
	for _, f := range pk.Syntax {
		for _, d := range f.Decls {
			fd, ok := d.(*ast.FuncDecl)
			if !ok || fd.Body == nil || fd.Recv != nil || len(fd.Body.List) == 0 || len(fd.Body.List) > 12 {
				continue
			}
			if obj, ok := pk.TypesInfo.Defs[fd.Name].(*types.Func); ok {
				fs = append(fs, fdecl{obj, fd})
			}
		}
	}
	for i := range fs {
		for j := range fs {
			if i == j || !types.Identical(fs[i].obj.Type(), fs[j].obj.Type()) || len(fs[i].fd.Body.List) != len(fs[j].fd.Body.List) {
				continue
			}
			// parameters correspond by position
			m := &mirrorer{info: pk.TypesInfo, pairs: map[types.Object]types.Object{}, side: map[types.Object]int{}}
			pi, pj := fs[i].fd.Type.Params.List, fs[j].fd.Type.Params.List
			okP := len(pi) == len(pj)
			if okP {
				for k := range pi {
					if len(pi[k].Names) != len(pj[k].Names) {
						okP = false
						break
					}
					for l := range pi[k].Names {
						a, b := pk.TypesInfo.Defs[pi[k].Names[l]], pk.TypesInfo.Defs[pj[k].Names[l]]
						if a != nil && b != nil && a.Name() != b.Name() {
							m.pairs[a] = b
						}
					}
				}
			}
			if !okP {
				continue
			}
			same, differs := true, false
			for k := range fs[i].fd.Body.List {
				a, oka := m.stmtString(fs[i].fd.Body.List[k], true)
				b, okb := m.stmtString(fs[j].fd.Body.List[k], false)
				if !oka || !okb || a != b {
					same = false
					break
				}
				if plain, _ := m.stmtString(fs[i].fd.Body.List[k], false); plain != b {
					differs = true
				}
			}
			if same && differs {
				mirrorFuncs.Store(fs[i].obj, fs[j].obj)
			}
		}
	}
}

// registerVarInits records the initialisers of package-level variables so that evalBBExpr can see through
// `var centre = BitBoardFromSquares(D5, E5)` (C17.R1 proves nothing in the evaluation writes package variables).
func registerVarInits(pk *packages.Package) {
	for _, f := range pk.Syntax {
		for _, d := range f.Decls {
			gd, ok := d.(*ast.GenDecl)
			if !ok || gd.Tok != token.VAR {
				continue
			}
			for _, sp := range gd.Specs {
				vs, ok := sp.(*ast.ValueSpec)
				if !ok || len(vs.Values) != len(vs.Names) {
					continue
				}
				for i, n := range vs.Names {
					if obj := pk.TypesInfo.Defs[n]; obj != nil {
						bbVarInits.Store(obj, vs.Values[i])
					}
				}
			}
		}
	}
}

func evalBBExpr(info *types.Info, e ast.Expr) (uint64, bool) {
	return evalBBExprD(info, e, 0)
}

func evalBBExprD(info *types.Info, e ast.Expr, depth int) (uint64, bool) {
	e = ast.Unparen(e)
	if depth > 6 {
		return 0, false
	}
	if id, ok := e.(*ast.Ident); ok {
		if obj := info.ObjectOf(id); obj != nil {
			if v, isVar := obj.(*types.Var); isVar && v.Parent() == v.Pkg().Scope() {
				if init, ok := bbVarInits.Load(obj); ok {
					return evalBBExprD(info, init.(ast.Expr), depth+1)
				}
			}
		}
	}
	if tv, ok := info.Types[e]; ok && tv.Value != nil {
		if u, ok := constant.Uint64Val(constant.ToInt(tv.Value)); ok {
			return u, true
		}
		return 0, false
	}
	switch x := e.(type) {
	case *ast.BinaryExpr:
		a, ok1 := evalBBExprD(info, x.X, depth+1)
		b, ok2 := evalBBExprD(info, x.Y, depth+1)
		if !ok1 || !ok2 {
			return 0, false
		}
		switch x.Op {
		case token.OR:
			return a | b, true
		case token.AND:
			return a & b, true
		case token.AND_NOT:
			return a &^ b, true
		case token.XOR:
			return a ^ b, true
		}
	case *ast.UnaryExpr:
		if x.Op == token.XOR {
			a, ok := evalBBExprD(info, x.X, depth+1)
			return ^a, ok
		}
	case *ast.CallExpr:
		if isConversion(info, x) && len(x.Args) == 1 {
			return evalBBExprD(info, x.Args[0], depth+1)
		}
		var fobj types.Object
		switch f := ast.Unparen(x.Fun).(type) {
		case *ast.Ident:
			fobj = info.ObjectOf(f)
		case *ast.SelectorExpr:
			fobj = info.ObjectOf(f.Sel)
		}
		if fobj != nil && fobj.Name() == "BitBoardFromSquares" && fobj.Pkg() != nil && relPkg(fobj.Pkg().Path()) == "chess" {
			var m uint64
			for _, a := range x.Args {
				k, ok := constInt(info, a)
				if !ok || k < 0 || k > 63 {
					return 0, false
				}
				m |= 1 << uint(k)
			}
			return m, len(x.Args) > 0
		}
	}
	return 0, false
}

// colourMention: which colour constants / paired locals does n mention?
func (m *mirrorer) mentions(n ast.Node) (w, b bool) {
	ast.Inspect(n, func(x ast.Node) bool {
		e, ok := x.(ast.Expr)
		if !ok {
			return true
		}
		if c, ok := isColorConst(m.info, e); ok {
			if c == 0 {
				w = true
			} else {
				b = true
			}
			return false
		}
		if id, ok := e.(*ast.Ident); ok {
			if obj := m.info.ObjectOf(id); obj != nil {
				if side, ok := m.side[obj]; ok {
					if side == 0 {
						w = true
					} else {
						b = true
					}
				}
			}
		}
		return true
	})
	return
}

// colourIndexed: does n contain x[ColorConst] or pass a colour constant to a call, or use a paired local?
func (m *mirrorer) colourIndexed(n ast.Node) bool {
	found := false
	ast.Inspect(n, func(x ast.Node) bool {
		switch y := x.(type) {
		case *ast.IndexExpr:
			if _, ok := isColorConst(m.info, y.Index); ok {
				found = true
			}
		case *ast.CallExpr:
			for _, a := range y.Args {
				if _, ok := isColorConst(m.info, a); ok {
					found = true
				}
			}
		case *ast.Ident:
			if obj := m.info.ObjectOf(y); obj != nil {
				if _, ok := m.side[obj]; ok {
					found = true
				}
			}
		}
		return true
	})
	return found
}

func (m *mirrorer) stmtString(s ast.Stmt, mirror bool) (string, bool) {
	switch x := s.(type) {
	case *ast.AssignStmt:
		var l, r []string
		for _, e := range x.Lhs {
			l = append(l, m.render(e, mirror))
		}
		for _, e := range x.Rhs {
			r = append(r, m.render(e, mirror))
		}
		tok := x.Tok
		if tok == token.DEFINE {
			tok = token.ASSIGN
		}
		return strings.Join(l, ",") + tok.String() + strings.Join(r, ","), true
	case *ast.IncDecStmt:
		return m.render(x.X, mirror) + x.Tok.String(), true
	case *ast.ExprStmt:
		return m.render(x.X, mirror), true
	case *ast.ReturnStmt:
		var r []string
		for _, e := range x.Results {
			r = append(r, m.render(e, mirror))
		}
		return "return " + strings.Join(r, ","), true
	}
	return "", false
}

func c17R2(c *Ctx, p *Prog) {
	const rule = "C17.R2"
	pk := p.Pkg("eval")
	if pk == nil {
		c.Anchor(rule, "package eval")
		return
	}
	nPairs, nLits, nCases, nSelf := 0, 0, 0, 0
	registerVarInits(pk)
	registerMirrorFuncs(pk)
	for _, f := range pk.Syntax {
		fname := p.Fset.Position(f.Pos()).Filename
		if strings.HasSuffix(fname, "coeffs.go") {
			continue // generated coefficient data
		}
		for _, d := range f.Decls {
			switch x := d.(type) {
			case *ast.GenDecl:
				// package-level colour-indexed 2-element literals
				for _, s := range x.Specs {
					vs, ok := s.(*ast.ValueSpec)
					if !ok {
						continue
					}
					for i, nm := range vs.Names {
						if i < len(vs.Values) {
							if cl, ok := vs.Values[i].(*ast.CompositeLit); ok {
								m := &mirrorer{info: pk.TypesInfo, pairs: map[types.Object]types.Object{}, side: map[types.Object]int{}}
								if c17Lit(c, p, pk, rule, m, "eval."+nm.Name, pk.TypesInfo.ObjectOf(nm), cl) {
									nLits++
								}
							}
						}
					}
				}
			case *ast.FuncDecl:
				if x.Body == nil {
					continue
				}
				obj, _ := pk.TypesInfo.Defs[x.Name].(*types.Func)
				name := objName(obj)
				m := &mirrorer{info: pk.TypesInfo, pairs: map[types.Object]types.Object{}, side: map[types.Object]int{}}
				a, b2, cs, sf := c17Block(c, p, pk, rule, m, name, x.Body)
				nPairs += a
				nLits += b2
				nCases += cs
				nSelf += sf
			}
		}
	}
	c.Floor(rule+".pairs", nPairs, 8, "White/Black statement pairs")
	c.Floor(rule+".literals", nLits, 6, "colour-indexed two-element literals")
	_ = nCases // (a colour switch may be specialised away into two mirror-image functions: no floor)
	c.Note("C17.R2: %d statement pairs, %d literals, %d case pairs, %d self-mirror statements", nPairs, nLits, nCases, nSelf)
}

// usesColourIndex: is variable obj indexed by a Color-typed expression anywhere in the package?
func usesColourIndex(pk *packages.Package, obj types.Object) bool {
	found := false
	for _, f := range pk.Syntax {
		ast.Inspect(f, func(n ast.Node) bool {
			ix, ok := n.(*ast.IndexExpr)
			if !ok || found {
				return !found
			}
			id, ok := ast.Unparen(ix.X).(*ast.Ident)
			if !ok || pk.TypesInfo.ObjectOf(id) != obj {
				return true
			}
			if t := pk.TypesInfo.TypeOf(ix.Index); t != nil {
				if nn, ok := types.Unalias(t).(*types.Named); ok && nn.Obj().Name() == "Color" {
					found = true
				}
			}
			return true
		})
	}
	return found
}

func c17Lit(c *Ctx, p *Prog, pk *packages.Package, rule string, m *mirrorer, name string, obj types.Object, cl *ast.CompositeLit) bool {
	if len(cl.Elts) != 2 || obj == nil || !usesColourIndex(pk, obj) {
		return false
	}
	if _, kv := cl.Elts[0].(*ast.KeyValueExpr); kv {
		return false
	}
	w, b := m.render(cl.Elts[0], true), m.render(cl.Elts[1], false)
	c.Check(w == b, rule, name+"#literal", cl.Pos(), "the Black element of this colour-indexed literal is the mirror image of the White element (mirror(White) = %s ; Black = %s)", clip(w), clip(b))
	return true
}

func clip(s string) string {
	if len(s) > 110 {
		return s[:110] + "…"
	}
	return s
}

// c17Block handles one block: sibling statements, literals, colour switches; recurses.
type bothItem struct {
	key           string
	pos           token.Pos
	str, mir      string
	what          string
	isCond        bool
	body, bodyMir string
}

func c17Block(c *Ctx, p *Prog, pk *packages.Package, rule string, m *mirrorer, fn string, blk *ast.BlockStmt) (pairs, lits, cases, self int) {
	type st struct {
		s   ast.Stmt
		str string
	}
	var ws, bs []st
	var both []bothItem
	ord := 0
	for _, s := range blk.List {
		// literals assigned in this statement
		if as, ok := s.(*ast.AssignStmt); ok && len(as.Lhs) == len(as.Rhs) {
			handled := false
			for i, r := range as.Rhs {
				if cl, ok := ast.Unparen(r).(*ast.CompositeLit); ok {
					if id, ok := as.Lhs[i].(*ast.Ident); ok {
						if c17Lit(c, p, pk, rule, m, fn+"#"+id.Name, pk.TypesInfo.ObjectOf(id), cl) {
							lits++
							handled = true
						}
					}
				}
			}
			if handled {
				continue
			}
		}
		switch x := s.(type) {
		case *ast.SwitchStmt:
			// switch on a colour: case White / case Black bodies mirror each other
			if x.Tag != nil {
				if t := pk.TypesInfo.TypeOf(x.Tag); t != nil {
					if nn, ok := types.Unalias(t).(*types.Named); ok && nn.Obj().Name() == "Color" {
						var wc, bc *ast.CaseClause
						for _, cc := range x.Body.List {
							cl := cc.(*ast.CaseClause)
							if len(cl.List) == 1 {
								if v, ok := isColorConst(pk.TypesInfo, cl.List[0]); ok {
									if v == 0 {
										wc = cl
									} else {
										bc = cl
									}
								}
							}
						}
						if wc != nil && bc != nil {
							cases++
							ok := len(wc.Body) == len(bc.Body)
							if ok {
								for i := range wc.Body {
									a, oka := m.stmtString(wc.Body[i], true)
									b, okb := m.stmtString(bc.Body[i], false)
									if !oka || !okb || a != b {
										ok = false
									}
								}
							}
							c.Check(ok, rule, fn+"#switch-colour", x.Pos(), "the `case Black` body is the mirror image of the `case White` body (rank shifts reversed)")
							continue
						}
					}
				}
			}
		}
		// conditions that mention both colours must be unchanged by swapping them
		var cond ast.Expr
		switch x := s.(type) {
		case *ast.IfStmt:
			cond = x.Cond
		case *ast.ForStmt:
			cond = nil // colour loops `color <= Black` are R3's domain
		}
		if ifs, ok := s.(*ast.IfStmt); ok && ifs.Init != nil && m.colourIndexed(ifs.Init) {
			// `if v := <both colours>; v <= k`: the value the condition tests is computed in the init statement
			if w, b := m.mentions(ifs.Init); w && b {
				if str, simple := m.stmtString(ifs.Init, false); simple {
					ord++
					self++
					mir, _ := m.stmtString(ifs.Init, true)
					c.Check(mir == str, rule, fmt.Sprintf("%s#both-colours@%d", fn, ord), ifs.Init.Pos(), "a statement mentioning both colours is unchanged by swapping them (mirror: %s ; as written: %s)", clip(mir), clip(str))
				}
			}
		}
		if cond != nil && m.colourIndexed(cond) {
			if w, b := m.mentions(cond); w && b {
				ord++
				self++
				mir, str := m.render(cond, true), m.render(cond, false)
				it := bothItem{key: fmt.Sprintf("%s#both-colours@%d", fn, ord), pos: cond.Pos(), str: str, mir: mir, what: "condition", isCond: true}
				if ifs, ok := s.(*ast.IfStmt); ok && ifs.Else == nil && len(ifs.Body.List) == 1 {
					if bs, simple := m.stmtString(ifs.Body.List[0], false); simple {
						bm, _ := m.stmtString(ifs.Body.List[0], true)
						it.body, it.bodyMir = bs, bm
					}
				}
				both = append(both, it)
			}
		}
		// recurse into nested blocks
		ast.Inspect(s, func(n ast.Node) bool {
			if b, ok := n.(*ast.BlockStmt); ok && b != blk {
				a, l, cs, sf := c17Block(c, p, pk, rule, m, fn, b)
				pairs += a
				lits += l
				cases += cs
				self += sf
				return false
			}
			return true
		})
		str, simple := m.stmtString(s, false)
		if !simple || !m.colourIndexed(s) {
			continue
		}
		w, b := m.mentions(s)
		switch {
		case w && !b:
			ws = append(ws, st{s, str})
			// try to pair with an already seen Black statement? (Black-first order is unusual; handled at the end)
		case b && !w:
			bs = append(bs, st{s, str})
			// pair locals defined by mirror statements as soon as possible
			for i, cand := range ws {
				mw, _ := m.stmtStringDefineAgnostic(cand.s, true)
				mb, _ := m.stmtStringDefineAgnostic(s, false)
				if mw == mb {
					_ = i
					m.pairDefined(cand.s, s)
				}
			}
		case w && b:
			ord++
			mir, _ := m.stmtString(s, true)
			self++
			both = append(both, bothItem{key: fmt.Sprintf("%s#both-colours@%d", fn, ord), pos: s.Pos(), str: str, mir: mir, what: "statement"})
		}
	}
	// both-colour conditions and statements: each is its own mirror image, or two of them in this block are each
	// other's mirror image in a combination that is symmetric as a whole:
	//   if C { return true } … return C'          (C' = mirror of C: the result is C || C')
	//   if C { S } … if C' { S' }                 (S' = mirror of S)
	paired := make([]bool, len(both))
	for i := range both {
		a := both[i]
		if a.mir == a.str || paired[i] || !a.isCond || a.body == "" {
			continue
		}
		for j := range both {
			b := both[j]
			if j == i || paired[j] || b.mir == b.str {
				continue
			}
			if !b.isCond && a.body == "return true" && b.str == "return "+a.mir {
				paired[i], paired[j] = true, true
				break
			}
			if b.isCond && b.body != "" && b.str == a.mir && b.body == a.bodyMir {
				paired[i], paired[j] = true, true
				break
			}
		}
	}
	for i, it := range both {
		if paired[i] {
			c.Ok(rule, it.key, it.pos, "a %s mentioning both colours has a sibling in the same block that is its mirror image, the two combined symmetrically (%s)", it.what, clip(it.str))
			continue
		}
		c.Check(it.mir == it.str, rule, it.key, it.pos, "a %s mentioning both colours is unchanged by swapping them (mirror: %s ; as written: %s)", it.what, clip(it.mir), clip(it.str))
	}
	// match W statements with B statements by mirror equality
	used := make([]bool, len(bs))
	for i, wst := range ws {
		mir, _ := m.stmtString(wst.s, true)
		found := -1
		for j, bst := range bs {
			if !used[j] && bst.str == mir {
				found = j
				break
			}
		}
		key := fmt.Sprintf("%s#white-stmt@%d", fn, i+1)
		if found >= 0 {
			used[found] = true
			pairs++
			c.Ok(rule, key, wst.s.Pos(), "has a Black sibling that is its mirror image: %s", clip(bs[found].str))
		} else {
			c.Fail(rule, key, wst.s.Pos(), "White-side statement `%s` has no Black sibling equal to its mirror image `%s` in the same block: the term is not colour-symmetric", clip(wst.str), clip(mir))
		}
	}
	for j, bst := range bs {
		if !used[j] {
			c.Fail(rule, fmt.Sprintf("%s#black-stmt@%d", fn, j+1), bst.s.Pos(), "Black-side statement `%s` has no White sibling that mirrors it", clip(bst.str))
		}
	}
	return
}

// stmtStringDefineAgnostic renders `x := e` by its right-hand side only (to pair the defined locals).
func (m *mirrorer) stmtStringDefineAgnostic(s ast.Stmt, mirror bool) (string, bool) {
	if as, ok := s.(*ast.AssignStmt); ok && as.Tok == token.DEFINE && len(as.Lhs) == 1 && len(as.Rhs) == 1 {
		return "def:=" + m.render(as.Rhs[0], mirror), true
	}
	return m.stmtString(s, mirror)
}

func (m *mirrorer) pairDefined(ws, bs ast.Stmt) {
	a, ok1 := ws.(*ast.AssignStmt)
	b, ok2 := bs.(*ast.AssignStmt)
	if !ok1 || !ok2 || a.Tok != token.DEFINE || b.Tok != token.DEFINE || len(a.Lhs) != 1 || len(b.Lhs) != 1 {
		return
	}
	ia, ok1 := a.Lhs[0].(*ast.Ident)
	ib, ok2 := b.Lhs[0].(*ast.Ident)
	if !ok1 || !ok2 {
		return
	}
	oa, ob := m.info.ObjectOf(ia), m.info.ObjectOf(ib)
	if oa == nil || ob == nil {
		return
	}
	m.pairs[oa], m.pairs[ob] = ob, oa
	m.side[oa], m.side[ob] = 0, 1
}

// ---- R3: perspective flips inside colour-generic code ----

func c17R3(c *Ctx, p *Prog) {
	const rule = "C17.R3"
	pk := p.Pkg("eval")
	if pk == nil {
		return
	}
	info := pk.TypesInfo
	isColourVar := func(e ast.Expr) bool {
		id, ok := ast.Unparen(e).(*ast.Ident)
		if !ok {
			return false
		}
		v, ok := info.ObjectOf(id).(*types.Var)
		if !ok {
			return false
		}
		n, ok := types.Unalias(v.Type()).(*types.Named)
		return ok && n.Obj().Name() == "Color"
	}
	nFlips := 0
	for _, f := range pk.Syntax {
		if strings.HasSuffix(p.Fset.Position(f.Pos()).Filename, "coeffs.go") {
			continue
		}
		for _, d := range f.Decls {
			fd, ok := d.(*ast.FuncDecl)
			if !ok || fd.Body == nil {
				continue
			}
			obj, _ := info.Defs[fd.Name].(*types.Func)
			name := objName(obj)
			// flips: `if colourVar ==/!= ColourConst { x op= k }` without else
			flipConds := map[ast.Expr]bool{}
			ord := 0
			ast.Inspect(fd.Body, func(n ast.Node) bool {
				is, ok := n.(*ast.IfStmt)
				if !ok {
					return true
				}
				be, ok := ast.Unparen(is.Cond).(*ast.BinaryExpr)
				if !ok || (be.Op != token.EQL && be.Op != token.NEQ) {
					return true
				}
				var cv ast.Expr
				if _, isC := isColorConst(info, be.Y); isC && isColourVar(be.X) {
					cv = be.X
				} else if _, isC := isColorConst(info, be.X); isC && isColourVar(be.Y) {
					cv = be.Y
				}
				if cv == nil {
					return true
				}
				flipConds[is.Cond] = true
				ord++
				key := fmt.Sprintf("%s#flip@%d", name, ord)
				// one statement flipping a square/rank for exactly one colour; an else branch may only pass the value on unflipped
				flipOf := func(e ast.Expr) (string, ast.Expr, bool) {
					be, ok := ast.Unparen(e).(*ast.BinaryExpr)
					if !ok {
						return "", nil, false
					}
					for _, pr := range [][2]ast.Expr{{be.X, be.Y}, {be.Y, be.X}} {
						if k, isc := constInt(info, pr[1]); isc {
							switch {
							case be.Op == token.XOR && (k == 56 || k == 7):
								return fmt.Sprintf("^ %d (an involution)", k), pr[0], true
							case be.Op == token.ADD && k == 56:
								return "+ 56 (file index to the promotion square)", pr[0], true
							}
						}
					}
					if k, isc := constInt(info, be.X); isc && be.Op == token.SUB && (k == 7 || k == 63) {
						return fmt.Sprintf("%d - x (an involution)", k), be.Y, true
					}
					return "", nil, false
				}
				okFlip := is.Init == nil && len(is.Body.List) == 1
				desc := ""
				var flipped ast.Expr
				if okFlip {
					switch st := is.Body.List[0].(type) {
					case *ast.AssignStmt:
						okFlip = len(st.Lhs) == 1 && len(st.Rhs) == 1
						if okFlip {
							k, isc := constInt(info, st.Rhs[0])
							switch {
							case st.Tok == token.XOR_ASSIGN && isc && (k == 56 || k == 7):
								desc, flipped = fmt.Sprintf("^= %d (an involution)", k), st.Lhs[0]
							case st.Tok == token.ADD_ASSIGN && isc && k == 56:
								desc, flipped = "+= 56 (file index to the promotion square)", st.Lhs[0]
							case st.Tok == token.ASSIGN || st.Tok == token.DEFINE:
								desc, flipped, okFlip = flipOf(st.Rhs[0])
							default:
								okFlip = false
							}
						}
					case *ast.ReturnStmt:
						okFlip = len(st.Results) == 1
						if okFlip {
							desc, flipped, okFlip = flipOf(st.Results[0])
						}
					default:
						okFlip = false
					}
				}
				if okFlip && is.Else != nil {
					eb, isBlock := is.Else.(*ast.BlockStmt)
					okFlip = isBlock && len(eb.List) == 1
					if okFlip {
						var plain ast.Expr
						switch st := eb.List[0].(type) {
						case *ast.AssignStmt:
							if len(st.Rhs) == 1 && (st.Tok == token.ASSIGN || st.Tok == token.DEFINE) {
								plain = st.Rhs[0]
							}
						case *ast.ReturnStmt:
							if len(st.Results) == 1 {
								plain = st.Results[0]
							}
						}
						okFlip = plain != nil && flipped != nil && types.ExprString(ast.Unparen(plain)) == types.ExprString(ast.Unparen(flipped))
					}
				}
				if okFlip {
					nFlips++
					c.Ok(rule, key, is.Pos(), "colour test guards a perspective flip %s applied to exactly one colour", desc)
				} else {
					c.Undec(rule, key, is.Pos(), "a comparison of the colour variable with a colour constant guards something other than a recognised perspective flip (^ 56, ^ 7, + 56, 7 - x): colour-specific logic inside colour-generic code")
				}
				return true
			})
			// unguarded flips: x ^= 56 / ^= 7 on a Square/Coord outside a flip-if, in functions with a colour variable in scope
			hasColour := false
			ast.Inspect(fd, func(n ast.Node) bool {
				if id, ok := n.(*ast.Ident); ok {
					if v, ok := info.Defs[id].(*types.Var); ok {
						if nn, ok := types.Unalias(v.Type()).(*types.Named); ok && nn.Obj().Name() == "Color" {
							hasColour = true
						}
					}
				}
				return true
			})
			if !hasColour {
				continue
			}
			ast.Inspect(fd.Body, func(n ast.Node) bool {
				if is, ok := n.(*ast.IfStmt); ok && flipConds[is.Cond] {
					return false
				}
				as, ok := n.(*ast.AssignStmt)
				if !ok || as.Tok != token.XOR_ASSIGN || len(as.Rhs) != 1 {
					return true
				}
				if k, isc := constInt(info, as.Rhs[0]); isc && (k == 56 || k == 7) {
					c.Fail(rule, name+"#unguarded-flip", as.Pos(), "a perspective flip (^= %d) is applied to both colours: one of them is evaluated upside down", k)
				}
				return true
			})
		}
	}
	c.Floor(rule, nFlips, 1, "perspective flips")
	c17TableFlips(c, p, rule)
}

// c17TableFlips: a coefficient table is stored from one colour's point of view. Wherever colour-generic code
// indexes such a table with something computed from a square (the square itself, its rank — not its file),
// the index must pass through a flip that is applied for one colour only; otherwise one colour reads the
// table upside down. Tables that carry their own colour dimension are exempt.
func c17TableFlips(c *Ctx, p *Prog, rule string) {
	isNamed := func(t types.Type, name string) bool {
		n, ok := types.Unalias(t).(*types.Named)
		return ok && n.Obj().Name() == name
	}
	colourCond := func(b *ssa.BasicBlock) bool {
		for _, ce := range controllingConds(b) {
			if bo, ok := ce.Cond.(*ssa.BinOp); ok && (isNamed(bo.X.Type(), "Color") || isNamed(bo.Y.Type(), "Color")) {
				return true
			}
		}
		return false
	}
	type flags struct{ square, flip, opaque bool }
	var walk func(root *ssa.Function, v ssa.Value, fl *flags, seen map[ssa.Value]bool, depth int)
	walk = func(root *ssa.Function, v ssa.Value, fl *flags, seen map[ssa.Value]bool, depth int) {
		if v == nil || seen[v] || depth > 60 {
			return
		}
		seen[v] = true
		// only index arithmetic on squares/coordinates is followed: a bitboard built from a square
		// (masks, attack sets, popcounts) has no orientation of its own
		if isNamed(v.Type(), "BitBoard") {
			return
		}
		if isNamed(v.Type(), "Square") {
			if _, isC := v.(*ssa.Const); !isC {
				fl.square = true
			}
		}
		switch x := v.(type) {
		case *ssa.BinOp:
			kx, cx := constOf(x.X)
			ky, cy := constOf(x.Y)
			// file of a square: colour-neutral
			if cy && ((x.Op == token.REM && ky == 8) || (x.Op == token.AND && ky == 7)) {
				return
			}
			isFlip := false
			switch {
			case x.Op == token.XOR && ((cy && (ky == 56 || ky == 7)) || (cx && (kx == 56 || kx == 7))):
				isFlip = true
			case x.Op == token.ADD && ((cy && ky == 56) || (cx && kx == 56)):
				isFlip = true
			case x.Op == token.SUB && cx && (kx == 7 || kx == 63):
				isFlip = true
			case x.Op == token.XOR && !cx && !cy:
				// sq ^ mask(colour)
				for _, o := range []ssa.Value{x.X, x.Y} {
					for w := range backSlice(o, sliceOpts{ThroughCalls: true, ThroughLoads: true}) {
						if isNamed(w.Type(), "Color") {
							isFlip = true
						}
					}
				}
				if isFlip {
					fl.flip = true
				}
				isFlip = false
			}
			if isFlip && colourCond(x.Block()) {
				fl.flip = true
			}
			walk(root, x.X, fl, seen, depth+1)
			walk(root, x.Y, fl, seen, depth+1)
		case *ssa.Phi:
			for _, e := range x.Edges {
				walk(root, e, fl, seen, depth+1)
			}
		case *ssa.Convert:
			walk(root, x.X, fl, seen, depth+1)
		case *ssa.ChangeType:
			walk(root, x.X, fl, seen, depth+1)
		case *ssa.Call:
			callee := x.Call.StaticCallee()
			if !isNamed(x.Type(), "Square") && !isNamed(x.Type(), "Coord") {
				return
			}
			if callee != nil && isOwn(callee) && callee.Blocks != nil && relPkg(fnPkgPath(callee)) == "eval" {
				// what the helper returns, with its parameters bound to this call's arguments
				allInstrs(callee, func(in ssa.Instruction) {
					if ret, ok := in.(*ssa.Return); ok {
						for i := range ret.Results {
							walk(root, returnedValue(ret, i), fl, seen, depth+1)
						}
					}
				})
			}
			for _, a := range x.Call.Args {
				walk(root, a, fl, seen, depth+1)
			}
		case *ssa.Parameter:
			if x.Parent() != root {
				return // bound by the call we came through (its arguments are walked there)
			}
			if !isNamed(x.Type(), "Square") && !isNamed(x.Type(), "Coord") {
				return
			}
			// the analysed function's own square parameter: each caller may have flipped it
			idx := -1
			for i, q := range root.Params {
				if q == x {
					idx = i
				}
			}
			sites, flippedSites := 0, 0
			for _, caller := range p.OwnFuncs() {
				allInstrs(caller, func(in ssa.Instruction) {
					ci, ok := in.(ssa.CallInstruction)
					if !ok || idx >= len(ci.Common().Args) {
						return
					}
					cal := ci.Common().StaticCallee()
					if cal == nil || (cal != root && (cal.Origin() == nil || cal.Origin() != root.Origin() || root.Origin() == nil)) {
						return
					}
					if depth > 20 {
						fl.opaque = true
						return
					}
					sites++
					sub := &flags{}
					walk(caller, ci.Common().Args[idx], sub, map[ssa.Value]bool{}, depth+10)
					if sub.flip {
						flippedSites++
					}
					if sub.opaque {
						fl.opaque = true
					}
				})
			}
			if sites > 0 && sites == flippedSites {
				fl.flip = true
			}
		}
	}
	done := map[string]bool{}
	n := 0
	for _, fn := range p.OwnFuncs() {
		if relPkg(fnPkgPath(fn)) != "eval" || strings.Contains(fn.Synthetic, "wrapper") || fn.Blocks == nil {
			continue
		}
		if strings.HasSuffix(p.Fset.Position(fn.Pos()).Filename, "coeffs.go") {
			continue
		}
		ord := map[string]int{}
		allInstrs(fn, func(in ssa.Instruction) {
			ia, ok := in.(*ssa.IndexAddr)
			if !ok {
				return
			}
			// outermost index of a chain only
			if ia.Referrers() != nil {
				for _, r := range *ia.Referrers() {
					if ia2, ok := r.(*ssa.IndexAddr); ok && ia2.X == ssa.Value(ia) {
						return
					}
				}
			}
			var idxs []ssa.Value
			var base ssa.Value = ia
			field := ""
			for {
				x, ok := base.(*ssa.IndexAddr)
				if !ok {
					break
				}
				idxs = append(idxs, x.Index)
				base = x.X
			}
			fr, ok := asFieldAddr(base)
			if !ok || !strings.HasPrefix(fr.Name(), "CoeffSet.") {
				return
			}
			field = fr.Field.Name()
			ord[field]++
			origin := fnName(fn)
			if o := fn.Origin(); o != nil {
				origin = fnName(o)
			}
			key := fmt.Sprintf("%s#table:%s@%d", origin, field, ord[field])
			if done[key] {
				return
			}
			for _, ix := range idxs {
				if isNamed(ix.Type(), "Color") {
					return // the table has its own colour dimension
				}
			}
			fl := &flags{}
			for _, ix := range idxs {
				walk(fn, ix, fl, map[ssa.Value]bool{}, 0)
			}
			if !fl.square {
				return
			}
			done[key] = true
			n++
			switch {
			case fl.flip:
				c.Ok(rule, key, ia.Pos(), "the square-derived index into %s passes through a flip applied for one colour only", field)
			case fl.opaque:
				c.Undec(rule, key, ia.Pos(), "the square-derived index into %s comes through call chains too deep to follow", field)
			default:
				c.Fail(rule, key, ia.Pos(), "the coefficient table %s is indexed by a value computed from a square (not only its file) that is never flipped for one colour: White and Black read the table from the same side, so a position and its mirror image are scored differently", field)
			}
		})
	}
	c.Floor(rule+".tables", n, 2, "square-indexed coefficient table lookups in colour-generic code")
}

// ---- R4: final combination ----

func c17R4(c *Ctx, p *Prog) {
	const rule = "C17.R4"
	n := 0
	for _, spec := range []string{"eval.(*scorePair).taperedScore", "eval.(*scorePair).endgameScore"} {
		for _, fn := range p.instancesOf(spec) {
			if strings.Contains(fn.Synthetic, "wrapper") {
				continue
			}
			// every SUB whose operands are loads of the same accumulator array field: index STM minus index STM.Flip()
			cnt := 0
			allInstrs(fn, func(in ssa.Instruction) {
				bo, ok := in.(*ssa.BinOp)
				if !ok || bo.Op != token.SUB {
					return
				}
				ix := func(v ssa.Value) (string, colourExpr, bool) {
					l, ok := v.(*ssa.UnOp)
					if !ok || l.Op != token.MUL {
						return "", colourExpr{}, false
					}
					ia, ok := l.X.(*ssa.IndexAddr)
					if !ok {
						return "", colourExpr{}, false
					}
					fr, ok := asFieldAddr(ia.X)
					if !ok {
						return "", colourExpr{}, false
					}
					ce, ok := normColour(ia.Index)
					return fr.Field.Name(), ce, ok
				}
				fa, ca, ok1 := ix(bo.X)
				fb, cb, ok2 := ix(bo.Y)
				if !ok1 || !ok2 || fa != fb {
					return
				}
				cnt++
				n++
				c.Check(ca == (colourExpr{"STM", false}) && cb == (colourExpr{"STM", true}), rule, fmt.Sprintf("%s#%s-mover-minus-opponent", fnName(fn), fa), bo.Pos(), "score is %s[STM] - %s[STM.Flip()] (mover minus opponent)", fa, fa)
			})
		}
	}
	c.Floor(rule, n, 3, "mover-minus-opponent differences")
	// tempo credits the side to move
	for _, fn := range p.instancesOf("eval.(*scorePair).addTempo") {
		if strings.Contains(fn.Synthetic, "wrapper") {
			continue
		}
		ok := true
		cnt := 0
		allInstrs(fn, func(in ssa.Instruction) {
			st, isSt := in.(*ssa.Store)
			if !isSt {
				return
			}
			if ia, isIA := st.Addr.(*ssa.IndexAddr); isIA {
				if ce, isC := normColour(ia.Index); isC {
					cnt++
					if ce != (colourExpr{"STM", false}) {
						ok = false
					}
				}
			}
		})
		c.Check(ok && cnt >= 2, rule, fnName(fn)+"#tempo-to-mover", fn.Pos(), "the tempo bonus is credited to the side to move (%d stores)", cnt)
	}
}

func init() {
	addMutants(
		Mutant{Name: "C17.R2-black-rearspan-wrong-direction", Prop: "C17", File: "eval/eval.go", Quick: true,
			Old: "rearSpan := [...]BitBoard{frontFill(ps[White], Black) >> 8, frontFill(ps[Black], White) << 8}", New: "rearSpan := [...]BitBoard{frontFill(ps[White], Black) >> 8, frontFill(ps[Black], White) >> 8}",
			Expect: "C17.R2/eval.(*pieceWise).calcPawnStructure#rearSpan#literal"},
		Mutant{Name: "C17.R2-side-of-board-typo", Prop: "C17", File: "eval/eval.go",
			Old: "var sideOfBoard = [2]BitBoard{0x00000018_ffffffff, 0xffffffff_18000000}", New: "var sideOfBoard = [2]BitBoard{0x00000018_ffffffff, 0xffffffff_10000000}",
			Expect: "C17.R2/eval.sideOfBoard#literal"},
		Mutant{Name: "C17.R2-black-endgame-piece-values-from-mg-row", Prop: "C17", File: "eval/eval.go",
			Old: "sp.eg[Black] += T(bCnt) * c.PieceValues[1][pType]", New: "sp.eg[Black] += T(bCnt) * c.PieceValues[0][pType]",
			Expect: "C17.R2/eval.(*scorePair).addPieceValues#"},
		Mutant{Name: "C17.R2-black-holes-from-white-cover", Prop: "C17", File: "eval/eval.go",
			Old: "pw.holes[Black] = sideOfBoard[Black] & ^cover[Black]", New: "pw.holes[Black] = sideOfBoard[Black] & ^cover[White]",
			Expect: "C17.R2/eval.(*pieceWise).calcPawnStructure#"},
		Mutant{Name: "C17.R2-frontfill-black-short", Prop: "C17", File: "eval/eval.go",
			Old: "\t\tb |= b >> 16\n\t\tb |= b >> 32\n", New: "\t\tb |= b >> 16\n",
			Expect: "C17.R2/eval.frontFill#switch-colour"},
		Mutant{Name: "C17.R2-black-cover-wrong-file-mask", Prop: "C17", File: "eval/eval.go",
			Old: "((frontSpan[Black] & ^HFileBB) << 1) | ((frontSpan[Black] & ^AFileBB) >> 1),", New: "((frontSpan[Black] & ^AFileBB) << 1) | ((frontSpan[Black] & ^HFileBB) >> 1),",
			Expect: "C17.R2/eval.(*pieceWise).calcPawnStructure#cover#literal"},
		Mutant{Name: "C17.R2-king-attack-eg-white-twice", Prop: "C17", File: "eval/eval.go",
			Old: "\tsp.eg[Black] += ka.sigmoidal(1, Black)\n", New: "\tsp.eg[Black] += ka.sigmoidal(1, White)\n",
			Expect: "C17.R2/eval.(*scorePair).addKingAttacks#"},
		Mutant{Name: "C17.R2-lazy-exit-one-sided", Prop: "C17", File: "eval/eval.go",
			Old: "\tsp.addTempo(b, c)\n\tsp.addBishopPair(b, c)\n", New: "\tsp.addTempo(b, c)\n\tsp.addBishopPair(b, c)\n\n\tif sp.eg[White] > sp.eg[Black]+2500 || sp.eg[Black] > sp.eg[Black]+2500 {\n\t\treturn sp.taperedScore(b)\n\t}\n",
			Expect: "C17.R2/eval.Eval#both-colours"},
		Mutant{Name: "C17.R6-connected-rooks-looking-upwards-only", Prop: "C17", File: "eval/eval.go",
			Old: "\tif attacks&b.Pieces[Rook]&b.Colors[color] != 0 {\n", New: "\tif attacks&b.Pieces[Rook]&b.Colors[color]&^(BitBoard(1)<<sq-1) != 0 {\n",
			Expect: "C17.R6/eval.(*scorePair).addRookMobility#below-mask"},
		Mutant{Name: "C17.R6-rank-distance-from-index-difference", Prop: "C17", File: "eval/eval.go", Quick: true,
			Old: "\tax, ay, bx, by := int(a%8), int(a/8), int(b%8), int(b/8)\n\treturn max(Abs(ax-bx), Abs(ay-by))\n", New: "\tax, bx := int(a%8), int(b%8)\n\treturn max(Abs(ax-bx), Abs(int(a)-int(b))>>3)\n",
			Expect: "C17.R6/eval.Chebishev#coordinate-of-difference"},
		Mutant{Name: "C17.R5-connected-rooks-from-lowest-rook", Prop: "C17", File: "eval/eval.go", Quick: true,
			Old: "\tif attacks&b.Pieces[Rook]&b.Colors[color] != 0 {\n\t\tsp.mg[color] += c.ConnectedRooks[0]\n\t\tsp.eg[color] += c.ConnectedRooks[1]\n", New: "\trooks := b.Pieces[Rook] & b.Colors[color]\n\tif sq == rooks.LowestSet() && attacks&rooks != 0 {\n\t\tsp.mg[color] += 2 * c.ConnectedRooks[0]\n\t\tsp.eg[color] += 2 * c.ConnectedRooks[1]\n",
			Expect: "C17.R5/eval.(*scorePair).addRookMobility#scan"},
		Mutant{Name: "C17.R5-sole-passer-test-dropped", Prop: "C17", File: "eval/eval.go",
			Old: "if passers != 0 && passers&(passers-1) == 0 {", New: "if passers != 0 {",
			Expect: "C17.R5/eval.(*scorePair).addPassers#scan"},
		Mutant{Name: "C17.R3-psqt-flipped-for-both", Prop: "C17", File: "eval/eval.go", Quick: true,
			Old: "\tif color == White {\n\t\tsq ^= 56 // upside down\n\t}\n", New: "\tsq ^= 56 // upside down\n",
			Expect: "C17.R3/eval.(*scorePair).addPSqT#unguarded-flip"},
		Mutant{Name: "C17.R3-passer-rank-flip-wrong-constant", Prop: "C17", File: "eval/eval.go",
			Old: "\t\t\tif color == Black {\n\t\t\t\trank ^= 7\n\t\t\t}\n", New: "\t\t\tif color == Black {\n\t\t\t\trank ^= 6\n\t\t\t}\n",
			Expect: "C17.R3/eval.(*scorePair).addPassers#flip"},
		Mutant{Name: "C17.R3-outpost-flip-removed", Prop: "C17", File: "eval/eval.go",
			Old: "\t\tif color == White {\n\t\t\tsq ^= 56\n\t\t}\n\t\tsp.mg[color] += c.KnightOutpost[0][sq]", New: "\t\tsp.mg[color] += c.KnightOutpost[0][sq]",
			Expect: "C17.R3/eval.(*scorePair).addKnightOutposts#table:KnightOutpost"},
		Mutant{Name: "C17.R3-colour-specific-bonus-in-loop", Prop: "C17", File: "eval/eval.go",
			Old: "\t\t// technically FEN allows more than 8 pawns\n", New: "\t\tif color == White {\n\t\t\tmyPawnCnt++\n\t\t}\n\t\t// technically FEN allows more than 8 pawns\n",
			Expect: "C17.R3/eval.(*scorePair).addBishopPair#flip"},
		Mutant{Name: "C17.R4-tapered-score-from-opponent-view", Prop: "C17", File: "eval/eval.go", Quick: true,
			Old: "egScore := sp.eg[b.STM] - sp.eg[b.STM.Flip()]", New: "egScore := sp.eg[b.STM.Flip()] - sp.eg[b.STM]",
			Expect: "C17.R4/eval.(*scorePair).taperedScore#eg-mover-minus-opponent"},
		Mutant{Name: "C17.R4-tempo-always-white", Prop: "C17", File: "eval/eval.go",
			Old: "sp.mg[b.STM] += c.TempoBonus[0]", New: "sp.mg[White] += c.TempoBonus[0]",
			Expect: "C17.R4/eval.(*scorePair).addTempo#tempo-to-mover"},
	)
}

// ---- R5: bit-scan order must not leak into the score ----
//
// LowestSet picks the piece on the lowest square index. Mirroring the board reverses the rank order,
// so which of several pieces is "lowest" differs between a position and its mirror image. Colour-generic
// evaluation code may therefore use a bit scan only (a) inside a loop that strips the scanned bit and
// runs until the set is empty (every piece is visited, the sum does not depend on the order), or (b) on
// a set known to hold exactly one bit (a king, an isolated bit, a set tested with IsPow2 / x&(x-1)==0).
func c17R5(c *Ctx, p *Prog) {
	const rule = "C17.R5"
	pcs := pieceConsts(p)
	isNamed := func(t types.Type, name string) bool {
		n, ok := types.Unalias(t).(*types.Named)
		return ok && n.Obj().Name() == name
	}
	isIsolate := func(v ssa.Value) (ssa.Value, bool) {
		bo, ok := stripConv(v).(*ssa.BinOp)
		if !ok || bo.Op != token.AND {
			return nil, false
		}
		for _, pr := range [][2]ssa.Value{{bo.X, bo.Y}, {bo.Y, bo.X}} {
			if neg, ok := stripConv(pr[1]).(*ssa.UnOp); ok && neg.Op == token.SUB && sameValue(neg.X, pr[0], 0) {
				return pr[0], true
			}
		}
		return nil, false
	}
	isStrip := func(e ssa.Value, x ssa.Value) bool {
		// x & (x-1)
		bo, ok := stripConv(e).(*ssa.BinOp)
		if !ok {
			return false
		}
		if bo.Op == token.AND {
			for _, pr := range [][2]ssa.Value{{bo.X, bo.Y}, {bo.Y, bo.X}} {
				if stripConv(pr[0]) != x {
					continue
				}
				if sub, ok := stripConv(pr[1]).(*ssa.BinOp); ok && sub.Op == token.SUB && stripConv(sub.X) == x {
					if k, isc := constOf(sub.Y); isc && k == 1 {
						return true
					}
				}
			}
		}
		// x &^ (x & -x), x ^ (x & -x)
		if (bo.Op == token.AND_NOT || bo.Op == token.XOR) && stripConv(bo.X) == x {
			if of, ok := isIsolate(bo.Y); ok && stripConv(of) == x {
				return true
			}
		}
		return false
	}
	singleBit := func(x ssa.Value, at *ssa.BasicBlock) bool {
		x = stripConv(x)
		if _, ok := isIsolate(x); ok {
			return true
		}
		// the king set of one colour
		var leaves []ssa.Value
		flattenAnd(x, &leaves)
		for _, lf := range leaves {
			if n, ok := piecesLoadKind(stripConv(lf), pcs); ok && n == "King" {
				return true
			}
		}
		for _, ce := range controllingConds(at) {
			if !ce.True {
				continue
			}
			if call, ok := ce.Cond.(*ssa.Call); ok && objName(calleeObj(call)) == "chess.(BitBoard).IsPow2" && sameValue(call.Call.Args[0], x, 0) {
				return true
			}
			// x & (x-1) == 0
			if bo, ok := ce.Cond.(*ssa.BinOp); ok && bo.Op == token.EQL {
				if k, isc := constOf(bo.Y); isc && k == 0 && isStrip(bo.X, x) {
					return true
				}
			}
		}
		// x&(x-1) != 0 false edge
		for _, ce := range controllingConds(at) {
			if bo, ok := ce.Cond.(*ssa.BinOp); ok && bo.Op == token.NEQ && !ce.True {
				if k, isc := constOf(bo.Y); isc && k == 0 && isStrip(bo.X, x) {
					return true
				}
			}
		}
		return false
	}
	colourCond := func(b *ssa.BasicBlock) bool {
		for _, ce := range controllingConds(b) {
			if bo, ok := ce.Cond.(*ssa.BinOp); ok && (isNamed(bo.X.Type(), "Color") || isNamed(bo.Y.Type(), "Color")) {
				if _, isC := bo.Y.(*ssa.Const); isC {
					return true
				}
				if _, isC := bo.X.(*ssa.Const); isC {
					return true
				}
			}
		}
		return false
	}
	// guarded entry: a function all of whose call sites run under guard() == true
	guardedBy := func(fn *ssa.Function, guard string) bool {
		sites, ok := 0, true
		for _, caller := range p.OwnFuncs() {
			allInstrs(caller, func(in ssa.Instruction) {
				ci, isCall := in.(ssa.CallInstruction)
				if !isCall {
					return
				}
				cal := ci.Common().StaticCallee()
				if cal == nil {
					return
				}
				root := func(f *ssa.Function) *ssa.Function {
					if o := f.Origin(); o != nil {
						return o
					}
					return f
				}
				if root(cal) != root(fn) {
					return
				}
				if strings.Contains(caller.Synthetic, "wrapper") {
					return
				}
				sites++
				g := false
				for _, ce := range controllingConds(in.Block()) {
					if call, isC := ce.Cond.(*ssa.Call); isC && ce.True && objName(calleeObj(call)) == guard {
						g = true
					}
				}
				if !g {
					ok = false
				}
			})
		}
		return ok && sites > 0
	}
	n := 0
	done := map[string]bool{}
	for _, fn := range p.OwnFuncs() {
		if relPkg(fnPkgPath(fn)) != "eval" || strings.Contains(fn.Synthetic, "wrapper") || fn.Blocks == nil {
			continue
		}
		origin := fnName(fn)
		if o := fn.Origin(); o != nil {
			origin = fnName(o)
		}
		ord := 0
		allInstrs(fn, func(in ssa.Instruction) {
			var x ssa.Value
			what := ""
			switch y := in.(type) {
			case *ssa.Call:
				if objName(calleeObj(y)) != "chess.(BitBoard).LowestSet" {
					return
				}
				x, what = y.Call.Args[0], "LowestSet"
			case *ssa.BinOp:
				of, ok := isIsolate(y)
				if !ok {
					return
				}
				x, what = of, "x & -x"
			default:
				return
			}
			ord++
			key := fmt.Sprintf("%s#scan@%d", origin, ord)
			if done[key] {
				return
			}
			done[key] = true
			n++
			x = stripConv(x)
			// (a) strip loop
			if ph, ok := x.(*ssa.Phi); ok {
				strips := false
				for _, e := range ph.Edges {
					if isStrip(e, ph) {
						strips = true
					}
				}
				untilEmpty := false
				if len(ph.Block().Instrs) > 0 {
					if iff, ok := ph.Block().Instrs[len(ph.Block().Instrs)-1].(*ssa.If); ok {
						if bo, ok := iff.Cond.(*ssa.BinOp); ok && (bo.Op == token.NEQ || bo.Op == token.EQL) && stripConv(bo.X) == ssa.Value(ph) {
							if k, isc := constOf(bo.Y); isc && k == 0 {
								untilEmpty = true
							}
						}
					}
				}
				if strips && untilEmpty {
					c.Ok(rule, key, in.Pos(), "%s inside a loop that strips the scanned bit and runs until the set is empty: every piece is visited", what)
					return
				}
			}
			// (b) single bit
			if singleBit(x, in.Block()) {
				c.Ok(rule, key, in.Pos(), "%s on a set that holds exactly one bit (king / isolated bit / tested with IsPow2 or x&(x-1)==0)", what)
				return
			}
			// (c) the knight+bishop mate special case: entered only when the material test has established single pieces
			if origin == "eval.(*scorePair).KNBvK" {
				if guardedBy(fn, "eval.KNBvK") {
					c.Ok(rule, key, in.Pos(), "%s in the KNB-v-K special case, entered only under eval.KNBvK(b) (one knight, one bishop)", what)
				} else {
					c.Undec(rule, key, in.Pos(), "%s in the KNB-v-K special case, but not every call site is guarded by eval.KNBvK(b)", what)
				}
				return
			}
			if colourCond(in.Block()) {
				c.Undec(rule, key, in.Pos(), "%s on a set that may hold several pieces, in colour-specific code: cannot decide whether the choice is mirrored for the other colour", what)
				return
			}
			c.Fail(rule, key, in.Pos(), "%s picks the piece on the lowest square of a set that may hold several pieces, outside a loop that visits them all: mirroring the board reverses the rank order, so a position and its mirror image pick different pieces and can be scored differently", what)
		})
	}
	c.Floor(rule, n, 3, "bit scans in package eval")
}

// ---- R6: square order and square-difference arithmetic ----
//
// Two more ways in which orientation leaks into colour-generic evaluation code without any colour
// being spelled out:
//   - "all squares below sq" masks ((1<<sq)-1, -(1<<sq)) and </> comparisons between two squares:
//     mirroring the board reverses the rank order, so "the first of two pieces" is a different piece
//     in the mirror image;
//   - rank or file taken from the DIFFERENCE of two square indexes ((a-b)>>3, (a-b)/8, (a-b)&7):
//     the borrow from the file part makes it differ from rank(a)-rank(b) exactly when the lower-rank
//     square is on the higher file, a relation the mirror reverses.
func c17R6(c *Ctx, p *Prog) {
	const rule = "C17.R6"
	isNamed := func(t types.Type, name string) bool {
		n, ok := types.Unalias(t).(*types.Named)
		return ok && n.Obj().Name() == name
	}
	var roots []*ssa.Function
	for _, r := range p.instancesOf("eval.Eval") {
		roots = append(roots, r)
	}
	if len(roots) == 0 {
		c.Anchor(rule, "eval.Eval")
		return
	}
	squareDerived := func(v ssa.Value) bool {
		v = stripConv(v)
		if _, isC := v.(*ssa.Const); isC {
			return false
		}
		for w := range backSlice(v, sliceOpts{Stop: func(x ssa.Value) bool {
			_, isCall := x.(*ssa.Call)
			return isCall
		}}) {
			if isNamed(w.Type(), "Square") {
				if _, isC := w.(*ssa.Const); !isC {
					return true
				}
			}
		}
		return false
	}
	colourCond := func(b *ssa.BasicBlock) bool {
		for _, ce := range controllingConds(b) {
			if bo, ok := ce.Cond.(*ssa.BinOp); ok && (isNamed(bo.X.Type(), "Color") || isNamed(bo.Y.Type(), "Color")) {
				return true
			}
		}
		return false
	}
	isOneShl := func(v ssa.Value) (ssa.Value, bool) {
		sh, ok := stripConv(v).(*ssa.BinOp)
		if !ok || sh.Op != token.SHL {
			return nil, false
		}
		if k, isc := constOf(sh.X); !isc || k != 1 {
			return nil, false
		}
		if _, isc := constOf(sh.Y); isc {
			return nil, false
		}
		return sh.Y, true
	}
	n := 0
	seenKey := map[string]bool{}
	for _, fn := range p.closure(roots, nil) {
		if strings.Contains(fn.Synthetic, "wrapper") || fn.Blocks == nil {
			continue
		}
		pkg := relPkg(fnPkgPath(fn))
		if pkg != "eval" && pkg != "chess" {
			continue
		}
		origin := fnName(fn)
		if o := fn.Origin(); o != nil {
			origin = fnName(o)
		}
		ord := 0
		n++
		allInstrs(fn, func(in ssa.Instruction) {
			bo, ok := in.(*ssa.BinOp)
			if !ok {
				return
			}
			report := func(kind, msg string) {
				ord++
				key := fmt.Sprintf("%s#%s@%d", origin, kind, ord)
				if seenKey[key] {
					return
				}
				seenKey[key] = true
				if colourCond(bo.Block()) {
					c.Undec(rule, key, bo.Pos(), "%s — in colour-specific code: cannot decide whether the other colour uses the mirrored form", msg)
				} else {
					c.Fail(rule, key, bo.Pos(), "%s", msg)
				}
			}
			switch bo.Op {
			case token.SUB:
				// (1<<sq) - 1
				if k, isc := constOf(bo.Y); isc && k == 1 {
					if sq, ok := isOneShl(bo.X); ok && (pkg == "eval") && (isNamed(sq.Type(), "Square") || squareDerived(sq)) {
						report("below-mask", "the mask (1<<sq)-1 selects the squares below sq: which pieces lie \"below\" is reversed by mirroring the board, so a position and its mirror image are treated differently")
					}
				}
			case token.LSS, token.GTR, token.LEQ, token.GEQ:
				if pkg == "eval" && isNamed(bo.X.Type(), "Square") && isNamed(bo.Y.Type(), "Square") {
					_, cx := stripConv(bo.X).(*ssa.Const)
					_, cy := stripConv(bo.Y).(*ssa.Const)
					if !cx && !cy {
						report("square-order", "two squares are compared by index: the order of two pieces is reversed by mirroring the board")
					}
				}
			case token.SHR, token.QUO, token.AND, token.REM:
				k, isc := constOf(bo.Y)
				if !isc {
					return
				}
				if !((bo.Op == token.SHR && k == 3) || (bo.Op == token.QUO && k == 8) || (bo.Op == token.AND && k == 7) || (bo.Op == token.REM && k == 8)) {
					return
				}
				// operand: |a-b| or a-b of two square indexes
				v := stripConv(bo.X)
				for i := 0; i < 4; i++ {
					if call, ok := v.(*ssa.Call); ok && len(call.Call.Args) == 1 {
						if f := calleeObj(call); f != nil && f.Name() == "Abs" {
							v = stripConv(call.Call.Args[0])
							continue
						}
					}
					if ph, ok := v.(*ssa.Phi); ok && len(ph.Edges) == 2 {
						// inlined abs: phi(d, -d)
						for _, e := range ph.Edges {
							if u, ok := stripConv(e).(*ssa.UnOp); ok && u.Op == token.SUB {
								v = stripConv(u.X)
							}
						}
						continue
					}
					break
				}
				d, ok := v.(*ssa.BinOp)
				if !ok || d.Op != token.SUB {
					return
				}
				if squareDerived(d.X) && squareDerived(d.Y) && fullSquare(d.X) && fullSquare(d.Y) {
					report("coordinate-of-difference", "a rank/file coordinate is taken from the difference of two square indexes; because of the borrow from the file bits it differs from the difference of the coordinates whenever the lower-rank square is on the higher file — a relation mirroring reverses")
				}
			}
		})
	}
	c.Floor(rule, n, 5, "functions in the evaluation's closure scanned for square-order arithmetic")
}

// fullSquare: v is a whole square index (not already reduced to a file or rank).
func fullSquare(v ssa.Value) bool {
	v = stripConv(v)
	if bo, ok := v.(*ssa.BinOp); ok {
		if k, isc := constOf(bo.Y); isc {
			switch {
			case bo.Op == token.AND && k == 7, bo.Op == token.REM && k == 8, bo.Op == token.SHR && k == 3, bo.Op == token.QUO && k == 8:
				return false
			}
		}
	}
	if call, ok := v.(*ssa.Call); ok {
		switch objName(calleeObj(call)) {
		case "chess.(Square).File", "chess.(Square).Rank":
			return false
		}
	}
	return true
}
