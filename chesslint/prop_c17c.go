package main

// C17.R7: nothing but symmetric accumulation is carried from the White
// iteration of a per-colour loop of the evaluation into the Black one. A local
// that keeps the value computed for White when Black's branch does not assign
// it (a variable hoisted out of the loop, a `found` flag that is never reset)
// makes Black's term depend on White's pieces but not the other way round, so
// the position and its mirror image are scored differently.

import (
	"go/token"
	"go/types"

	"golang.org/x/tools/go/ssa"
)

func isColourType(t types.Type) bool {
	n, ok := types.Unalias(t).(*types.Named)
	return ok && n.Obj().Name() == "Color" && n.Obj().Pkg() != nil && relPkg(n.Obj().Pkg().Path()) == "chess"
}

// colourLoopHeaders: blocks holding the induction phi of a loop over the two colours.
func colourLoopHeaders(fn *ssa.Function) map[*ssa.BasicBlock]*ssa.Phi {
	out := map[*ssa.BasicBlock]*ssa.Phi{}
	for _, b := range fn.Blocks {
		for _, in := range b.Instrs {
			ph, ok := in.(*ssa.Phi)
			if !ok {
				break
			}
			if !isColourType(ph.Type()) {
				continue
			}
			// induction: one edge is phi+1 (or phi.Flip(), phi^1) coming from inside the loop
			for i, e := range ph.Edges {
				if !blockDomOrSame(b, b.Preds[i]) {
					continue
				}
				if bo, ok := stripConv(e).(*ssa.BinOp); ok && (bo.Op == token.ADD || bo.Op == token.XOR) && stripConv(bo.X) == ssa.Value(ph) {
					if k, isc := constOf(bo.Y); isc && k == 1 {
						out[b] = ph
					}
				}
			}
		}
	}
	return out
}

func c17R7(c *Ctx, p *Prog) {
	const rule = "C17.R7"
	var inst []*ssa.Function
	for _, r := range p.instancesOf("eval.Eval") {
		if len(r.TypeArgs()) > 0 {
			inst = append(inst, r)
		}
	}
	if len(inst) == 0 {
		c.Anchor(rule, "eval.Eval")
		return
	}
	loops := 0
	seenKey := map[string]bool{}
	for _, fn := range p.closure(inst, nil) {
		if !isOwn(fn) || len(fn.Blocks) == 0 {
			continue
		}
		for hdr, idx := range colourLoopHeaders(fn) {
			name := fnName(fn)
			if o := fn.Origin(); o != nil {
				name = fnName(o)
			}
			key := name + "#colour-loop@" + p.Rel(idx.Pos())
			if seenKey[key] {
				continue
			}
			seenKey[key] = true
			loops++
			inLoop := func(b *ssa.BasicBlock) bool {
				if !blockDomOrSame(hdr, b) {
					return false
				}
				// b reaches hdr again
				if len(b.Instrs) == 0 {
					return false
				}
				r, _ := reachAvoiding(b.Instrs[0], hdr.Instrs[0], nil)
				return r || b == hdr
			}
			verdict, why, pos := "ok", "", idx.Pos()
			carried := 0
			for _, in := range hdr.Instrs {
				ph, ok := in.(*ssa.Phi)
				if !ok {
					break
				}
				if ph == idx {
					continue
				}
				// the values arriving over back edges, with merges inside the loop flattened
				var leaves []ssa.Value
				seen := map[ssa.Value]bool{}
				var flat func(v ssa.Value)
				flat = func(v ssa.Value) {
					if seen[v] {
						return
					}
					seen[v] = true
					if q, ok := v.(*ssa.Phi); ok && q != ph && inLoop(q.Block()) && q.Block() != hdr {
						for _, e := range q.Edges {
							flat(e)
						}
						return
					}
					leaves = append(leaves, v)
				}
				for i, e := range ph.Edges {
					if inLoop(hdr.Preds[i]) {
						flat(e)
					}
				}
				kept, fresh, accum, other := 0, 0, 0, 0
				for _, v := range leaves {
					switch {
					case v == ssa.Value(ph):
						kept++
					case accumulates(v, ph):
						accum++
					case dependsOn(v, ph):
						other++
					default:
						fresh++
					}
				}
				if kept+fresh+accum+other == 0 || (fresh == 0 && accum == 0 && other == 0) {
					continue // invariant across the loop
				}
				carried++
				nm := ph.Comment
				if nm == "" {
					nm = ph.Name()
				}
				switch {
				case other > 0:
					if verdict == "ok" {
						verdict, why, pos = "undec", "the value "+nm+" is carried between the two colours' iterations in a form that is not plain accumulation", ph.Pos()
					}
				case fresh > 0 && kept > 0:
					verdict, why, pos = "fail", "the local "+nm+" keeps the value computed in the White iteration whenever the Black iteration does not assign it: Black's term then depends on White's pieces (never the other way round), so a position and its mirror image are scored differently", ph.Pos()
				case fresh > 0 && usedInLoop(ph, inLoop):
					verdict, why, pos = "fail", "the value "+nm+" computed in the White iteration is read in the Black iteration before being recomputed", ph.Pos()
				case fresh > 0 && accum > 0:
					if verdict == "ok" {
						verdict, why, pos = "undec", "the local "+nm+" is both accumulated and overwritten across the colours' iterations", ph.Pos()
					}
				}
			}
			if !pos.IsValid() {
				pos = fn.Pos()
			}
			switch verdict {
			case "ok":
				c.Ok(rule, key, pos, "the loop over the colours carries nothing from White's iteration into Black's but symmetric accumulation (%d accumulated values)", carried)
			case "undec":
				c.Undec(rule, key, pos, "%s", why)
			default:
				c.Fail(rule, key, pos, "%s", why)
			}
		}
	}
	c.Floor(rule, loops, 3, "per-colour loops in the evaluation")
}

// accumulates: v = ph op x with a commutative-associative op (or ph - x), x not depending on ph.
func accumulates(v ssa.Value, ph *ssa.Phi) bool {
	bo, ok := stripConv(v).(*ssa.BinOp)
	if !ok {
		return false
	}
	switch bo.Op {
	case token.ADD, token.OR, token.XOR, token.AND, token.MUL:
		for _, pr := range [][2]ssa.Value{{bo.X, bo.Y}, {bo.Y, bo.X}} {
			if (stripConv(pr[0]) == ssa.Value(ph) || accumulates(pr[0], ph)) && !dependsOn(pr[1], ph) {
				return true
			}
		}
	case token.SUB:
		if (stripConv(bo.X) == ssa.Value(ph) || accumulates(bo.X, ph)) && !dependsOn(bo.Y, ph) {
			return true
		}
	}
	return false
}

func dependsOn(v ssa.Value, ph *ssa.Phi) bool {
	for x := range backSlice(v, sliceOpts{}) {
		if x == ssa.Value(ph) {
			return true
		}
	}
	return v == ssa.Value(ph)
}

// usedInLoop: ph has a use inside the loop other than being merged back into itself.
func usedInLoop(ph *ssa.Phi, inLoop func(*ssa.BasicBlock) bool) bool {
	if ph.Referrers() == nil {
		return false
	}
	for _, r := range *ph.Referrers() {
		if _, isDbg := r.(*ssa.DebugRef); isDbg {
			continue
		}
		if q, ok := r.(*ssa.Phi); ok && q.Block() != ph.Block() {
			// merged with a fresh value further down: not a read
			continue
		}
		if r.Block() != nil && inLoop(r.Block()) {
			return true
		}
	}
	return false
}

func init() {
	addMutants(
		Mutant{Name: "C17.R7-king-distance-hoisted-out-of-colour-loop", Prop: "C17", File: "eval/eval.go", Quick: true,
			Old:    "func (sp *scorePair[T]) addPassers(b *board.Board, pw pieceWise, c *CoeffSet[T]) {\n\tfor color := White; color <= Black; color++ {\n",
			New:    "func (sp *scorePair[T]) addPassers(b *board.Board, pw pieceWise, c *CoeffSet[T]) {\n\tkingDist := 0\n\tfor color := White; color <= Black; color++ {\n",
			File2:  "eval/eval.go",
			Old2:   "\t\t\t\tkingDist := Chebishev(qSq, pw.kingSq[color.Flip()]) - Chebishev(qSq, pw.kingSq[color])\n\n\t\t\t\tsp.mg[color] += c.PasserKingDist[0] * T(kingDist)\n\t\t\t\tsp.eg[color] += c.PasserKingDist[1] * T(kingDist)\n\t\t\t}\n\t\t}\n",
			New2:   "\t\t\t\tkingDist = Chebishev(qSq, pw.kingSq[color.Flip()]) - Chebishev(qSq, pw.kingSq[color])\n\t\t\t}\n\t\t}\n\t\tsp.mg[color] += c.PasserKingDist[0] * T(kingDist)\n\t\tsp.eg[color] += c.PasserKingDist[1] * T(kingDist)\n",
			Expect: "C17.R7/eval.(*scorePair).addPassers#colour-loop"},
	)
}
