package main

// C13 — UCI driver answers every request exactly once under any command timing.
// Safety skeleton only (liveness under all interleavings is not a static
// property and is not claimed): one writer of the real sink, channel
// discipline, joined goroutines, answer ordering, interrupt goroutine shape,
// captured-variable races, shutdown order.

import (
	"fmt"
	"go/constant"
	"go/token"
	"go/types"
	"sort"
	"strings"

	"golang.org/x/tools/go/ssa"
)

func init() {
	register(&Property{
		ID: "C13",
		Explain: "Static necessary conditions (safety skeleton) for 'the UCI driver answers every request exactly once under any command timing'. " +
			"R1 one writer of the real sink: output.writer is read only by writeOutput; no fmt.Print*/os.Stdout reachable from Driver.Run except the allow-listed perft split print; every fmt.Fprint* in uci/search targets the channel sink, d.err or a local builder; handleGo passes WithOutput(d.output) on every path; every print to the sink is one Write ending in a newline. " +
			"R2 channel discipline for inputLines, output.channel, stop, searchFin, ponderHit: one make, closes executed at most once per make, sends only where the closer is ordered after them, stop/searchFin never sent on, the ponderHit send is nil-guarded, on a buffered channel and followed by the nil assignment. " +
			"R3 every wg.Go is followed by Wait on the same WaitGroup on every path to the spawner's exits; bare go statements are not understood (undecided). " +
			"R4 in handleGo: Search.Go, close(searchFin), Wait, bestmove print in that dominance order, exactly one bestmove print on every path from the search to the exit and none elsewhere; readyok printed under an isready test both idle and in the interrupt goroutine. " +
			"R5 the interrupt goroutine closes stop on every return path, blocks only in selects that include searchFin, cannot return before the select and leaves when inputLines is closed. " +
			"R6 no variable captured by a wg.Go closure is written on one side and accessed on the other between spawn and Wait; no Driver/output field is written by one side and accessed by the other. " +
			"R7 Run makes both channels before spawning, closes inputLines after readInput and output.channel after handleInput on every path, and writeOutput returns only on the closed, drained channel. " +
			"Decided over all CFG paths of the SSA form; NOT decided: absence of deadlock under all schedules, the race detector's verdict for memory not named above, timing.",
		Assume: []string{"go/ssa and go/types model the program faithfully", "WaitGroup.Wait happens-after the bodies of goroutines started with WaitGroup.Go", "closing a channel twice / sending on a closed channel panics", "VTA call graph over-approximates dynamic calls", "panicking exits are ignored"},
		Run:    runC13,
	})
}

const (
	c13WGGo   = "sync.WaitGroup.Go"
	c13WGWait = "sync.WaitGroup.Wait"
)

type c13k struct {
	c        *Ctx
	p        *Prog
	fns      []*ssa.Function // uci + search functions (incl. closures)
	scope    []*ssa.Function // fns ∪ closure(Run)
	inReach  map[*ssa.Function]bool
	run      *ssa.Function
	hGo      *ssa.Function
	rdIn     *ssa.Function
	wrOut    *ssa.Function
	hIn      *ssa.Function
	hCmd     *ssa.Function
	outWrite *ssa.Function
	callers  map[*ssa.Function][]ssa.CallInstruction
	valueUse map[*ssa.Function]bool
	spawns   []*c13Spawn
	joined   map[*c13Spawn]bool
	prints   []*c13Print
	chans    map[any]*c13Chan
	role     map[string]*c13Chan
	intr     *c13Spawn // interrupt goroutine of handleGo
}

func runC13(c *Ctx) {
	p := c.need("default")
	if p == nil {
		return
	}
	k := c13New(c, p)
	if k == nil {
		return
	}
	k.r1()
	k.r3()
	k.r2()
	k.r4()
	k.r5()
	k.r6()
	k.r7()
	c13R8(c, p)
	c13R9(c, p)
	poolUseAfterPut(c, p, "C13.R10", map[string]bool{"uci": true, "search": true})
	if c.Tier == "thorough" {
		if s := c.need("spsa"); s != nil {
			if k2 := c13New(c, s); k2 != nil {
				k2.r1()
			}
		}
		c.Use(p)
	}
}

func c13New(c *Ctx, p *Prog) *c13k {
	k := &c13k{c: c, p: p, inReach: map[*ssa.Function]bool{}, callers: map[*ssa.Function][]ssa.CallInstruction{}, valueUse: map[*ssa.Function]bool{}, joined: map[*c13Spawn]bool{}}
	ok := true
	get := func(spec string) *ssa.Function {
		fn := p.Func(spec)
		if fn == nil || fn.Blocks == nil {
			c.Anchor("C13", spec)
			ok = false
		}
		return fn
	}
	k.run = get("uci.(*Driver).Run")
	k.hGo = get("uci.(*Driver).handleGo")
	k.rdIn = get("uci.(*Driver).readInput")
	k.wrOut = get("uci.(*Driver).writeOutput")
	k.hIn = get("uci.(*Driver).handleInput")
	k.hCmd = get("uci.(*Driver).handleCommand")
	k.outWrite = get("uci.(*output).Write")
	if !ok {
		return nil
	}
	seen := map[*ssa.Function]bool{}
	for _, fn := range p.OwnFuncs() {
		if pk := relPkg(fnPkgPath(fn)); pk == "uci" || pk == "search" {
			k.fns = append(k.fns, fn)
			k.scope = append(k.scope, fn)
			seen[fn] = true
		}
		allInstrs(fn, func(in ssa.Instruction) {
			var callee ssa.Value
			if ci, ok := in.(ssa.CallInstruction); ok {
				callee = ci.Common().Value
				if f := ci.Common().StaticCallee(); f != nil {
					k.callers[f] = append(k.callers[f], ci)
				}
			}
			for _, op := range in.Operands(nil) {
				if f, ok := (*op).(*ssa.Function); ok && *op != callee {
					k.valueUse[f] = true
				}
			}
		})
	}
	for _, fn := range p.closure([]*ssa.Function{k.run}, nil) {
		k.inReach[fn] = true
		if !seen[fn] {
			k.scope = append(k.scope, fn)
		}
	}
	return k
}

// ---------- small SSA helpers ----------

func c13Ext(in ssa.Instruction) string {
	ci, ok := in.(ssa.CallInstruction)
	if !ok {
		return ""
	}
	if obj := calleeObj(ci); obj != nil && obj.Pkg() != nil && !strings.HasPrefix(obj.Pkg().Path(), Mod) {
		return externName(obj)
	}
	return ""
}

func c13Builtin(in ssa.Instruction, name string) (ssa.CallInstruction, bool) {
	ci, ok := in.(ssa.CallInstruction)
	if !ok {
		return nil, false
	}
	b, ok := ci.Common().Value.(*ssa.Builtin)
	return ci, ok && b.Name() == name
}

func c13IsReturn(in ssa.Instruction) bool { _, ok := in.(*ssa.Return); return ok }

// c13Path: is an instruction satisfying target reachable from (b, idx) without
// first executing one satisfying stop?
func c13Path(b *ssa.BasicBlock, idx int, target, stop func(ssa.Instruction) bool) bool {
	seen := map[*ssa.BasicBlock]bool{}
	var dfs func(b *ssa.BasicBlock, i int) bool
	dfs = func(b *ssa.BasicBlock, i int) bool {
		for ; i < len(b.Instrs); i++ {
			in := b.Instrs[i]
			if target(in) {
				return true
			}
			if stop != nil && stop(in) {
				return false
			}
		}
		for _, s := range b.Succs {
			if !seen[s] {
				seen[s] = true
				if dfs(s, 0) {
					return true
				}
			}
		}
		return false
	}
	return dfs(b, idx)
}

func c13After(in ssa.Instruction, target, stop func(ssa.Instruction) bool) bool {
	return c13Path(in.Block(), instrIndex(in)+1, target, stop)
}

func c13Is(x ssa.Instruction) func(ssa.Instruction) bool {
	return func(in ssa.Instruction) bool { return in == x }
}

func c13InLoop(in ssa.Instruction) bool { return c13After(in, c13Is(in), nil) }

// c13Binding resolves a free variable to the value bound by the (single) MakeClosure of its function.
func c13Binding(fv *ssa.FreeVar) ssa.Value {
	fn := fv.Parent()
	idx := -1
	for i, v := range fn.FreeVars {
		if v == fv {
			idx = i
		}
	}
	if idx < 0 || fn.Parent() == nil {
		return nil
	}
	var found ssa.Value
	n := 0
	allInstrs(fn.Parent(), func(in ssa.Instruction) {
		if mc, ok := in.(*ssa.MakeClosure); ok && mc.Fn == ssa.Value(fn) && idx < len(mc.Bindings) {
			found = mc.Bindings[idx]
			n++
		}
	})
	if n != 1 {
		return nil
	}
	return found
}

// c13Storage names the variable an address denotes: *ssa.Alloc (through
// closure captures), *types.Var (struct field, by declared type) or nil.
func c13Storage(addr ssa.Value) any {
	for d := 0; d < 8; d++ {
		switch x := addr.(type) {
		case *ssa.Alloc:
			return x
		case *ssa.FreeVar:
			b := c13Binding(x)
			if b == nil {
				return nil
			}
			addr = b
		case *ssa.FieldAddr:
			if _, s := structOf(x.X.Type()); s != nil {
				return s.Field(x.Field)
			}
			return nil
		default:
			return nil
		}
	}
	return nil
}

func c13FieldQ(addr ssa.Value) string {
	if fa, ok := addr.(*ssa.FieldAddr); ok {
		if fr, ok := asFieldAddr(fa); ok {
			return fr.QName()
		}
	}
	return ""
}

func c13LoadOfField(v ssa.Value) string {
	if u, ok := v.(*ssa.UnOp); ok && u.Op == token.MUL {
		return c13FieldQ(u.X)
	}
	return ""
}

func c13ConstStr(v ssa.Value) (string, bool) {
	for {
		switch x := v.(type) {
		case *ssa.MakeInterface:
			v = x.X
			continue
		case *ssa.ChangeInterface:
			v = x.X
			continue
		case *ssa.Const:
			if x.Value != nil && x.Value.Kind() == constant.String {
				return constant.StringVal(x.Value), true
			}
		}
		return "", false
	}
}

// c13VarArgs lists the elements of a variadic []any argument built at the call site.
func c13VarArgs(v ssa.Value) ([]ssa.Value, bool) {
	if c, ok := v.(*ssa.Const); ok && c.Value == nil {
		return nil, true
	}
	sl, ok := v.(*ssa.Slice)
	if !ok {
		return nil, false
	}
	al, ok := sl.X.(*ssa.Alloc)
	if !ok || al.Referrers() == nil {
		return nil, false
	}
	elems := map[int64]ssa.Value{}
	for _, r := range *al.Referrers() {
		ia, ok := r.(*ssa.IndexAddr)
		if !ok {
			continue
		}
		i, isc := constOf(ia.Index)
		if !isc || ia.Referrers() == nil {
			return nil, false
		}
		for _, rr := range *ia.Referrers() {
			if st, ok := rr.(*ssa.Store); ok && st.Addr == ssa.Value(ia) {
				elems[i] = st.Val
			}
		}
	}
	out := make([]ssa.Value, len(elems))
	for i := range out {
		e, ok := elems[int64(i)]
		if !ok {
			return nil, false
		}
		out[i] = e
	}
	return out, true
}

// ---------- R1: one writer of the real sink ----------

type c13W int

const (
	c13wUnknown c13W = iota
	c13wSink         // the channel sink: d.output / Options.Output
	c13wErr          // d.err / os.Stderr
	c13wLocal        // a local builder
	c13wStdout       // os.Stdout
	c13wRaw          // output.writer (the real sink)
)

type c13Print struct {
	fn    *ssa.Function
	call  ssa.CallInstruction
	name  string // fmt.Fprintf ...
	w     c13W
	lead  string // constant format / first constant operand
	nl    int    // 1 ends in newline (or writes nothing), 0 does not, -1 unknown
	why   string
	key   string
	isOut bool // Print* family (implicit os.Stdout)
}

func (k *c13k) classifyWriter(v ssa.Value, depth int) c13W {
	if depth > 6 {
		return c13wUnknown
	}
	if pt, ok := v.Type().(*types.Pointer); ok {
		if n, ok := types.Unalias(pt.Elem()).(*types.Named); ok && n.Obj().Pkg() != nil && relPkg(n.Obj().Pkg().Path()) == "uci" && n.Obj().Name() == "output" {
			return c13wSink
		}
	}
	switch x := v.(type) {
	case *ssa.MakeInterface:
		return k.classifyWriter(x.X, depth+1)
	case *ssa.ChangeInterface:
		return k.classifyWriter(x.X, depth+1)
	case *ssa.Alloc:
		return c13wLocal
	case *ssa.Phi:
		w := c13wUnknown
		for i, e := range x.Edges {
			we := k.classifyWriter(e, depth+1)
			if i > 0 && we != w {
				return c13wUnknown
			}
			w = we
		}
		return w
	case *ssa.UnOp:
		if x.Op != token.MUL {
			return c13wUnknown
		}
		switch c13FieldQ(x.X) {
		case "uci.Driver.output", "search.Options.Output":
			return c13wSink
		case "uci.Driver.err":
			return c13wErr
		case "uci.output.writer":
			return c13wRaw
		}
		if g, ok := x.X.(*ssa.Global); ok && g.Pkg != nil && g.Pkg.Pkg.Path() == "os" {
			switch g.Name() {
			case "Stdout":
				return c13wStdout
			case "Stderr":
				return c13wErr
			}
		}
		if st := c13Storage(x.X); st != nil {
			if al, ok := st.(*ssa.Alloc); ok {
				// a local variable holding a writer: follow its single store
				var val ssa.Value
				n := 0
				for _, r := range *al.Referrers() {
					if s, ok := r.(*ssa.Store); ok && s.Addr == ssa.Value(al) {
						val = s.Val
						n++
					}
				}
				if n == 1 {
					return k.classifyWriter(val, depth+1)
				}
			}
		}
	}
	return c13wUnknown
}

// c13LinesOnly: does fn return only "" or text made of complete lines?
func c13LinesOnly(fn *ssa.Function) (bool, string) {
	if fn == nil || fn.Blocks == nil {
		return false, "callee has no body"
	}
	for _, b := range fn.Blocks {
		ret, ok := b.Instrs[len(b.Instrs)-1].(*ssa.Return)
		if !ok {
			continue
		}
		if len(ret.Results) != 1 {
			return false, "callee does not return a single string"
		}
		r := ret.Results[0]
		if s, ok := c13ConstStr(r); ok {
			if s == "" || strings.HasSuffix(s, "\n") {
				continue
			}
			return false, fmt.Sprintf("returns constant %q without trailing newline", s)
		}
		if ok, why := c13BuilderLines(r); !ok {
			return false, why
		}
	}
	return true, ""
}

// c13BuilderLines: v is b.String() of a local strings.Builder that only ever receives complete lines.
func c13BuilderLines(v ssa.Value) (bool, string) {
	{
		call, ok := v.(*ssa.Call)
		if !ok || c13Ext(call) != "strings.Builder.String" {
			return false, "value is neither a constant nor a local strings.Builder's content"
		}
		al, ok := call.Call.Args[0].(*ssa.Alloc)
		if !ok {
			return false, "builder is not a local"
		}
		for _, u := range *al.Referrers() {
			switch y := u.(type) {
			case *ssa.DebugRef, *ssa.Store:
			case *ssa.Call:
				switch c13Ext(y) {
				case "strings.Builder.String", "strings.Builder.Len", "strings.Builder.Grow":
				case "strings.Builder.WriteString":
					if s, ok := c13ConstStr(y.Call.Args[1]); !ok || !strings.HasSuffix(s, "\n") {
						return false, "WriteString of text not known to end in a newline"
					}
				default:
					return false, "builder used by " + c13Ext(y)
				}
			case *ssa.MakeInterface:
				for _, uu := range *y.Referrers() {
					cc, ok := uu.(*ssa.Call)
					if !ok {
						if _, dbg := uu.(*ssa.DebugRef); dbg {
							continue
						}
						return false, "builder escapes"
					}
					switch c13Ext(cc) {
					case "fmt.Fprintln":
					case "fmt.Fprintf":
						if s, ok := c13ConstStr(cc.Call.Args[1]); !ok || !strings.HasSuffix(s, "\n") {
							return false, fmt.Sprintf("Fprintf into the builder with format %q not ending in newline", s)
						}
					default:
						return false, "builder written by " + c13Ext(cc)
					}
				}
			default:
				return false, fmt.Sprintf("builder used in %T", u)
			}
		}
	}
	return true, ""
}

func (k *c13k) collectPrints() {
	for _, fn := range k.scope {
		ord := map[string]int{}
		allInstrs(fn, func(in ssa.Instruction) {
			name := c13Ext(in)
			switch name {
			case "fmt.Fprintf", "fmt.Fprintln", "fmt.Fprint", "fmt.Printf", "fmt.Println", "fmt.Print":
			default:
				return
			}
			ci := in.(ssa.CallInstruction)
			args := ci.Common().Args
			short := strings.TrimPrefix(name, "fmt.")
			ord[short]++
			pr := &c13Print{fn: fn, call: ci, name: name, nl: -1, key: fmt.Sprintf("%s#%s%d", fnName(fn), short, ord[short])}
			rest := args
			if strings.HasPrefix(short, "F") {
				pr.w = k.classifyWriter(args[0], 0)
				rest = args[1:]
			} else {
				pr.w, pr.isOut = c13wStdout, true
			}
			switch {
			case strings.HasSuffix(short, "f"):
				if s, ok := c13ConstStr(rest[0]); ok {
					pr.lead = s
					pr.nl = 0
					if strings.HasSuffix(s, "\n") {
						pr.nl = 1
					} else {
						pr.why = fmt.Sprintf("format %q does not end in a newline", s)
					}
				} else {
					pr.why = "format is not a constant"
				}
			default:
				els, ok := c13VarArgs(rest[0])
				if ok && len(els) > 0 {
					pr.lead, _ = c13ConstStr(els[0])
				}
				if strings.HasSuffix(short, "ln") {
					pr.nl = 1
					break
				}
				if !ok {
					pr.why = "operands not visible at the call site"
					break
				}
				if len(els) == 0 {
					pr.nl = 1
					break
				}
				last := els[len(els)-1]
				if mi, isMI := last.(*ssa.MakeInterface); isMI {
					last = mi.X
				}
				if s, isC := c13ConstStr(last); isC {
					if strings.HasSuffix(s, "\n") || (s == "" && len(els) == 1) {
						pr.nl = 1
					} else {
						pr.nl, pr.why = 0, fmt.Sprintf("last operand %q does not end in a newline", s)
					}
				} else if ok, _ := c13BuilderLines(last); ok {
					pr.nl = 1
				} else if call, isCall := last.(*ssa.Call); isCall && call.Call.StaticCallee() != nil && isOwn(call.Call.StaticCallee()) {
					if ok, why := c13LinesOnly(call.Call.StaticCallee()); ok {
						pr.nl = 1
					} else {
						pr.why = fnName(call.Call.StaticCallee()) + ": " + why
					}
				} else {
					pr.why = "last operand of Fprint is not a constant; its text is not known to end in a newline"
				}
			}
			k.prints = append(k.prints, pr)
		})
	}
}

var c13StdoutAllowed = map[string]string{
	"uci.NewDriver":       "default real sink, handed only to newOutput (becomes output.writer)",
	"search.(*Search).Go": "library default of Options.Output; the driver always overrides it (C13.R1 WithOutput obligation)",
}

// defaultsHelper: fn is a private helper (same package, never used as a value) all of whose static
// call chains start in one allow-listed host (Search.Go / NewDriver), followed transitively.
func (k *c13k) defaultsHelper(fn *ssa.Function) (string, string) {
	for host, why := range c13StdoutAllowed {
		root := k.p.Func(host)
		if root == nil || fn == nil || fn == root || fnPkgPath(fn) != fnPkgPath(root) {
			continue
		}
		if k.privateUnder(fn, root, 3) {
			return host, why
		}
	}
	return "", ""
}

// privateUnder: like onlyUnder, and every function on the way is unexported (no callers outside the program).
func (k *c13k) privateUnder(fn, root *ssa.Function, depth int) bool {
	for fn.Parent() != nil {
		fn = fn.Parent()
	}
	if fn == root {
		return true
	}
	obj := fnObj(fn)
	if depth == 0 || obj == nil || obj.Exported() || k.valueUse[fn] || len(k.callers[fn]) == 0 {
		return false
	}
	for _, ci := range k.callers[fn] {
		if !k.privateUnder(ci.Parent(), root, depth-1) {
			return false
		}
	}
	return true
}

var c13PrintAllowed = map[string]string{
	"debug.perft": "split-mode output of the non-protocol perft command; runs on the command goroutine while no search is active",
}

func (k *c13k) r1() {
	const rule = "C13.R1"
	c, p := k.c, k.p
	if k.prints == nil {
		k.collectPrints()
	}
	// (a) the real sink is read only by writeOutput (and helpers only it calls), stored only by newOutput
	nW := 0
	for _, fn := range p.OwnFuncs() {
		allInstrs(fn, func(in ssa.Instruction) {
			fa, ok := in.(*ssa.FieldAddr)
			if !ok || c13FieldQ(fa) != "uci.output.writer" {
				return
			}
			nW++
			for _, r := range *fa.Referrers() {
				key := "writer@" + fnName(fn)
				switch x := r.(type) {
				case *ssa.DebugRef:
				case *ssa.Store:
					if x.Addr == ssa.Value(fa) && fnName(fn) == "uci.newOutput" {
						c.Ok(rule, key, x.Pos(), "output.writer initialised by newOutput")
					} else {
						c.Fail(rule, key, x.Pos(), "%s stores output.writer (or its address): the real sink can be replaced/aliased while writeOutput uses it", fnName(fn))
					}
				case *ssa.UnOp:
					if k.onlyUnder(fn, k.wrOut, 3) {
						c.Ok(rule, key, x.Pos(), "output.writer read by %s, which runs only on the writeOutput goroutine", fnName(fn))
					} else {
						c.Fail(rule, key, x.Pos(), "%s reads output.writer: a second goroutine can write the real sink concurrently with writeOutput, tearing lines", fnName(fn))
					}
				default:
					c.Fail(rule, key, r.Pos(), "address of output.writer escapes in %s (%T)", fnName(fn), r)
				}
			}
		})
	}
	c.Floor(rule+".writer", nW, 2, "accesses of output.writer")
	for fnm, ss := range p.writersOf("uci.Driver.output") {
		c.Check(fnm == "uci.NewDriver", rule, "sink-field@"+fnm, ss[0].Pos, "Driver.output is stored by %s (only NewDriver may: the sink object is shared by all goroutines without synchronisation)", fnm)
	}
	// (b) implicit/explicit os.Stdout
	nOut := 0
	for _, fn := range k.scope {
		for _, s := range directEffects(fn).GlobalReads["os.Stdout"] {
			nOut++
			if why, ok := c13StdoutAllowed[fnName(fn)]; ok {
				c.OkTrivial(rule, "stdout@"+fnName(fn), s.Pos, "allow-listed: %s", why)
			} else if host, why := k.defaultsHelper(fn); host != "" {
				c.OkTrivial(rule, "stdout@"+fnName(fn), s.Pos, "helper called only from %s — allow-listed: %s", host, why)
			} else {
				c.Fail(rule, "stdout@"+fnName(fn), s.Pos, "%s uses os.Stdout directly: output bypasses the single-writer channel sink and can interleave with writeOutput", fnName(fn))
			}
		}
	}
	c.Floor(rule+".stdout", nOut, 1, "os.Stdout references (two allow-listed defaults on the pinned tree)")
	nSink := 0
	for _, pr := range k.prints {
		pkg := relPkg(fnPkgPath(pr.fn))
		own := pkg == "uci" || pkg == "search"
		switch {
		case pr.isOut:
			if why, ok := c13PrintAllowed[fnName(pr.fn)]; ok && k.inReach[pr.fn] {
				c.OkTrivial(rule, "print@"+pr.key, pr.call.Pos(), "allow-listed: %s", why)
			} else if own || k.inReach[pr.fn] {
				c.Fail(rule, "print@"+pr.key, pr.call.Pos(), "%s in %s writes os.Stdout directly: bypasses the channel sink, may tear/reorder protocol lines", pr.name, fnName(pr.fn))
			}
		case !own:
			if pr.w == c13wStdout || pr.w == c13wRaw {
				c.Fail(rule, "print@"+pr.key, pr.call.Pos(), "%s in %s targets the real sink directly", pr.name, fnName(pr.fn))
			}
		case pr.w == c13wStdout || pr.w == c13wRaw:
			c.Fail(rule, "print@"+pr.key, pr.call.Pos(), "%s in %s targets os.Stdout/output.writer instead of the channel sink: second writer of the real sink", pr.name, fnName(pr.fn))
		case pr.w == c13wUnknown:
			c.Undec(rule, "print@"+pr.key, pr.call.Pos(), "%s in %s: destination writer not recognised (neither d.output, Options.Output, d.err nor a local builder)", pr.name, fnName(pr.fn))
		case pr.w == c13wSink:
			nSink++
			switch pr.nl {
			case 1:
				c.Ok(rule, "print@"+pr.key, pr.call.Pos(), "%s to the channel sink is one Write of complete line(s) (%q…)", pr.name, pr.lead)
			case 0:
				c.Fail(rule, "print@"+pr.key, pr.call.Pos(), "%s to the channel sink does not end its Write with a newline (%s): the line is completed by a later Write and can be interleaved with another goroutine's line", pr.name, pr.why)
			default:
				c.Undec(rule, "print@"+pr.key, pr.call.Pos(), "%s to the channel sink: cannot show the Write ends in a newline (%s)", pr.name, pr.why)
			}
		}
	}
	c.Floor(rule+".prints", nSink, 8, "prints to the channel sink (17 on the pinned tree)")
	// (c) every use of the sink value is one of the prints above or WithOutput
	for _, fn := range k.fns {
		allInstrs(fn, func(in ssa.Instruction) {
			u, ok := in.(*ssa.UnOp)
			if !ok {
				return
			}
			q := c13LoadOfField(u)
			if q != "uci.Driver.output" && q != "search.Options.Output" {
				return
			}
			seen := map[ssa.Value]bool{}
			var chk func(v ssa.Value)
			chk = func(v ssa.Value) {
				if seen[v] || v.Referrers() == nil {
					return
				}
				seen[v] = true
				for _, r := range *v.Referrers() {
					switch x := r.(type) {
					case *ssa.DebugRef, *ssa.FieldAddr, *ssa.BinOp:
					case *ssa.MakeInterface:
						chk(x)
					case ssa.CallInstruction:
						n := c13Ext(x)
						if a := x.Common().Args; len(a) > 0 && a[0] == v && (strings.HasPrefix(n, "fmt.Fprint") || isCallTo(x, "search.WithOutput")) {
							continue
						}
						// handed to a chess-3 function other than the sink's Write: its uses of the
						// parameter are uses of the sink (prints there are enumerated like any other;
						// reads of output.writer fall under the writer@ obligations)
						if callee := x.Common().StaticCallee(); callee != nil && isOwn(callee) && callee != k.outWrite && callee.Blocks != nil && len(seen) < 32 {
							followed := false
							for i, a := range x.Common().Args {
								if a == v && i < len(callee.Params) {
									chk(callee.Params[i])
									followed = true
								}
							}
							if followed {
								continue
							}
						}
						c.Undec(rule, "sink-use@"+fnName(fn), r.Pos(), "the sink is handed to %s%s: writes through it are not enumerated by this rule", n, objName(calleeObj(x)))
					default:
						c.Undec(rule, "sink-use@"+fnName(fn), r.Pos(), "unrecognised use of the sink (%T) in %s", r, fnName(fn))
					}
				}
			}
			chk(u)
		})
	}
	for fnm, ss := range p.writersOf("search.Options.Output") {
		if host, _ := k.defaultsHelper(ss[0].Fn); host == "search.(*Search).Go" && !strings.HasSuffix(fnm, "#escape") {
			c.Ok(rule, "options-output@"+fnm, ss[0].Pos, "Options.Output default stored by %s, a helper of package search called only from Search.Go", fnm)
			continue
		}
		c.Check(fnm == "search.WithOutput$1" || fnm == "search.(*Search).Go", rule, "options-output@"+fnm, ss[0].Pos, "Options.Output stored by %s (allowed: the WithOutput option and the default in Search.Go)", fnm)
	}
	// (d) handleGo passes WithOutput(sink) on every path
	for _, fn := range k.fns {
		for _, ci := range callsIn(fn, "search.WithOutput") {
			if relPkg(fnPkgPath(fn)) != "uci" {
				continue
			}
			c.Check(k.classifyWriter(ci.Common().Args[0], 0) == c13wSink, rule, "WithOutput-arg@"+fnName(fn), ci.Pos(), "search.WithOutput in %s must be given the channel sink d.output", fnName(fn))
		}
	}
	gos := callsIn(k.hGo, "uci.(Search).Go")
	if len(gos) != 1 || len(gos[0].Common().Args) != 2 {
		c.Anchor(rule, "single Search.Go call in handleGo")
		return
	}
	switch c13SliceHas(gos[0].Common().Args[1], func(e ssa.Value) bool { return isCallValueTo(e, "search.WithOutput") }, map[ssa.Value]bool{}) {
	case 1:
		c.Ok(rule, "handleGo#WithOutput", gos[0].Pos(), "on every path the option list given to Search.Go contains WithOutput(d.output): info lines go through the channel sink")
	case 0:
		c.Fail(rule, "handleGo#WithOutput", gos[0].Pos(), "Search.Go is reachable with an option list lacking WithOutput(d.output): the search prints info lines to os.Stdout itself, concurrently with writeOutput")
	default:
		c.Undec(rule, "handleGo#WithOutput", gos[0].Pos(), "option list of Search.Go is not an append chain the rule understands")
	}
}

// onlyUnder: fn is root or all its static call sites are in functions that are (depth-bounded).
func (k *c13k) onlyUnder(fn, root *ssa.Function, depth int) bool {
	for fn.Parent() != nil {
		fn = fn.Parent()
	}
	if fn == root {
		return true
	}
	if depth == 0 || k.valueUse[fn] || len(k.callers[fn]) == 0 {
		return false
	}
	for _, ci := range k.callers[fn] {
		if !k.onlyUnder(ci.Parent(), root, depth-1) {
			return false
		}
	}
	return true
}

// c13SliceHas: 1 every append chain leading to v contains an element satisfying pred, 0 some chain does not, -1 unknown shape.
func c13SliceHas(v ssa.Value, pred func(ssa.Value) bool, seen map[ssa.Value]bool) int {
	if seen[v] {
		return 1
	}
	seen[v] = true
	switch x := v.(type) {
	case *ssa.Phi:
		res := 1
		for _, e := range x.Edges {
			if r := c13SliceHas(e, pred, seen); r < res {
				res = r
			}
		}
		return res
	case *ssa.Slice:
		if _, ok := x.X.(*ssa.Alloc); ok {
			return 0
		}
	case *ssa.Const:
		return 0
	case *ssa.Call:
		if b, ok := x.Call.Value.(*ssa.Builtin); ok && b.Name() == "append" && len(x.Call.Args) == 2 {
			if els, ok := c13VarArgs(x.Call.Args[1]); ok {
				for _, e := range els {
					if pred(e) {
						return 1
					}
				}
				return c13SliceHas(x.Call.Args[0], pred, seen)
			}
		}
	}
	return -1
}

// ---------- spawns, R3: every goroutine is joined ----------

type c13Spawn struct {
	site   ssa.CallInstruction
	in     *ssa.Function // spawner
	wg     ssa.Value
	mc     *ssa.MakeClosure // nil when a plain function is spawned
	child  *ssa.Function
	name   string
	window map[ssa.Instruction]bool // spawner instructions that may run concurrently with the child
}

func (sp *c13Spawn) isWait(in ssa.Instruction) bool {
	call, ok := in.(*ssa.Call)
	return ok && c13Ext(call) == c13WGWait && sameValue(call.Call.Args[0], sp.wg, 0)
}

func (k *c13k) collectSpawns() {
	ord := map[*ssa.Function]int{}
	for _, fn := range k.scope {
		allInstrs(fn, func(in ssa.Instruction) {
			if c13Ext(in) != c13WGGo {
				return
			}
			ci := in.(ssa.CallInstruction)
			ord[fn]++
			sp := &c13Spawn{site: ci, in: fn, wg: ci.Common().Args[0], name: fmt.Sprintf("%s#spawn%d", fnName(fn), ord[fn])}
			switch a := ci.Common().Args[1].(type) {
			case *ssa.MakeClosure:
				sp.mc = a
				sp.child, _ = a.Fn.(*ssa.Function)
			case *ssa.Function:
				sp.child = a
			}
			sp.window = map[ssa.Instruction]bool{}
			seen := map[*ssa.BasicBlock]bool{}
			var walk func(b *ssa.BasicBlock, i int)
			walk = func(b *ssa.BasicBlock, i int) {
				for ; i < len(b.Instrs); i++ {
					if sp.isWait(b.Instrs[i]) {
						return
					}
					sp.window[b.Instrs[i]] = true
				}
				for _, s := range b.Succs {
					if !seen[s] {
						seen[s] = true
						walk(s, 0)
					}
				}
			}
			walk(in.Block(), instrIndex(in)+1)
			k.spawns = append(k.spawns, sp)
		})
	}
}

func (k *c13k) r3() {
	const rule = "C13.R3"
	c := k.c
	k.collectSpawns()
	for _, sp := range k.spawns {
		if _, isCall := sp.site.(*ssa.Call); !isCall || sp.child == nil {
			c.Undec(rule, sp.name, sp.site.Pos(), "WaitGroup.Go used in a defer/go statement or with a function value the rule cannot resolve")
			continue
		}
		deferred := false
		allInstrs(sp.in, func(in ssa.Instruction) {
			if d, ok := in.(*ssa.Defer); ok && c13Ext(d) == c13WGWait && sameValue(d.Call.Args[0], sp.wg, 0) && instrDominates(d, sp.site.(ssa.Instruction)) {
				deferred = true
			}
		})
		if deferred || !c13After(sp.site.(ssa.Instruction), c13IsReturn, sp.isWait) {
			k.joined[sp] = true
			c.Ok(rule, sp.name, sp.site.Pos(), "goroutine %s started with WaitGroup.Go is joined by Wait on the same WaitGroup on every path to the exits of %s", fnName(sp.child), fnName(sp.in))
		} else {
			c.Fail(rule, sp.name, sp.site.Pos(), "%s can return without Wait()ing for goroutine %s: it outlives its spawner (late writes to closed channels, swallowed input lines, lost output)", fnName(sp.in), fnName(sp.child))
		}
	}
	c.Floor(rule, len(k.spawns), 4, "WaitGroup.Go spawns reachable from Driver.Run / in uci, search")
	n := 0
	for _, fn := range k.scope {
		allInstrs(fn, func(in ssa.Instruction) {
			if g, ok := in.(*ssa.Go); ok {
				n++
				c.Undec(rule, fmt.Sprintf("go@%s#%d", fnName(fn), n), g.Pos(), "bare go statement in %s: this rule establishes joins only for WaitGroup.Go/Wait, so the goroutine's termination before its spawner's exit cannot be shown", fnName(fn))
			}
		})
	}
	if n == 0 {
		c.Ok(rule, "no-bare-go", k.run.Pos(), "no go statement in uci, search or any function reachable from Driver.Run (%d functions)", len(k.scope))
	}
}

// ---------- R6: captured-variable races ----------

type c13Acc struct{ reads, writes, unknown []ssa.Instruction }

func (a *c13Acc) any() bool { return len(a.reads)+len(a.writes)+len(a.unknown) > 0 }

// c13Access classifies the uses of the variable at addr; filter (on the instruction in the
// function owning addr) restricts them; closures capturing the variable are followed.
func c13Access(addr ssa.Value, filter func(ssa.Instruction) bool, acc *c13Acc, depth int) {
	if addr.Referrers() == nil || depth > 5 {
		return
	}
	for _, r := range *addr.Referrers() {
		if filter != nil && !filter(r) {
			continue
		}
		switch x := r.(type) {
		case *ssa.DebugRef:
		case *ssa.Store:
			if x.Addr == addr {
				acc.writes = append(acc.writes, r)
			} else {
				acc.unknown = append(acc.unknown, r)
			}
		case *ssa.UnOp:
			acc.reads = append(acc.reads, r)
		case *ssa.FieldAddr:
			c13Access(x, nil, acc, depth+1)
		case *ssa.IndexAddr:
			c13Access(x, nil, acc, depth+1)
		case *ssa.MakeClosure:
			if fn, ok := x.Fn.(*ssa.Function); ok {
				for j, b := range x.Bindings {
					if b == addr && j < len(fn.FreeVars) {
						c13Access(fn.FreeVars[j], nil, acc, depth+1)
					}
				}
			}
		default:
			acc.unknown = append(acc.unknown, r)
		}
	}
}

func c13VarName(v ssa.Value) string {
	switch x := v.(type) {
	case *ssa.Alloc:
		return x.Comment
	case *ssa.FreeVar:
		return x.Name()
	}
	return v.Name()
}

type c13Fields struct{ r, w map[string]site }

func c13FieldsOf(e *effects, keep func(site) bool) c13Fields {
	f := c13Fields{map[string]site{}, map[string]site{}}
	add := func(dst map[string]site, src map[string][]site) {
		for k, ss := range src {
			if !strings.HasPrefix(k, "uci.Driver.") && !strings.HasPrefix(k, "uci.output.") {
				continue
			}
			for _, s := range ss {
				if keep == nil || keep(s) {
					if _, ok := dst[k]; !ok {
						dst[k] = s
					}
				}
			}
		}
	}
	add(f.r, e.FieldReads)
	add(f.w, e.FieldWrites)
	add(f.w, e.Escapes)
	return f
}

func (f c13Fields) merge(g c13Fields) {
	for k, s := range g.r {
		if _, ok := f.r[k]; !ok {
			f.r[k] = s
		}
	}
	for k, s := range g.w {
		if _, ok := f.w[k]; !ok {
			f.w[k] = s
		}
	}
}

// c13Touches: is field key k (or the whole struct) in m?
func c13Touches(m map[string]site, k string) (site, bool) {
	if s, ok := m[k]; ok {
		return s, true
	}
	whole := k[:strings.LastIndex(k, ".")] + ".*"
	if s, ok := m[whole]; ok {
		return s, true
	}
	if strings.HasSuffix(k, ".*") {
		for kk, s := range m {
			if strings.HasPrefix(kk, strings.TrimSuffix(k, "*")) {
				return s, true
			}
		}
	}
	return site{}, false
}

func (k *c13k) r6() {
	const rule = "C13.R6"
	c, p := k.c, k.p
	nVars, nWritten := 0, 0
	for _, sp := range k.spawns {
		if sp.child == nil {
			continue
		}
		inWin := func(in ssa.Instruction) bool { return sp.window[in] }
		if sp.mc != nil {
			for i, b := range sp.mc.Bindings {
				if i >= len(sp.child.FreeVars) {
					break
				}
				switch b.(type) {
				case *ssa.Alloc, *ssa.FreeVar:
				default:
					c.OkTrivial(rule, sp.name+"#bound"+fmt.Sprint(i), sp.site.Pos(), "operand %d of the closure is bound by value (method receiver), not a shared variable", i)
					continue
				}
				nVars++
				var ch, spn c13Acc
				c13Access(sp.child.FreeVars[i], nil, &ch, 0)
				c13Access(b, inWin, &spn, 0)
				key := sp.name + "#" + c13VarName(b)
				if len(ch.writes) > 0 {
					nWritten++
				}
				switch {
				case len(ch.unknown) > 0:
					c.Undec(rule, key, ch.unknown[0].Pos(), "address of captured variable %s escapes inside goroutine %s", c13VarName(b), fnName(sp.child))
				case len(spn.unknown) > 0:
					c.Undec(rule, key, spn.unknown[0].Pos(), "address of %s escapes in %s while goroutine %s runs", c13VarName(b), fnName(sp.in), fnName(sp.child))
				case len(ch.writes) > 0 && spn.any():
					at := append(append(spn.reads, spn.writes...), spn.unknown...)[0]
					c.Fail(rule, key, at.Pos(), "goroutine %s writes captured variable %s (%s) and %s accesses it between the spawn and Wait (%s): data race — the value seen depends on the schedule", fnName(sp.child), c13VarName(b), p.Rel(ch.writes[0].Pos()), fnName(sp.in), p.Rel(at.Pos()))
				case len(ch.reads) > 0 && len(spn.writes) > 0:
					c.Fail(rule, key, spn.writes[0].Pos(), "%s writes %s between the spawn and Wait while goroutine %s reads it (%s): data race", fnName(sp.in), c13VarName(b), fnName(sp.child), p.Rel(ch.reads[0].Pos()))
				default:
					c.Ok(rule, key, sp.site.Pos(), "captured %s: goroutine %d reads/%d writes; spawner between spawn and Wait %d reads/%d writes — no write opposite an access", c13VarName(b), len(ch.reads), len(ch.writes), len(spn.reads), len(spn.writes))
				}
			}
		}
		// Driver/output fields: child closure vs. everything the spawner side runs in the window
		child := c13FieldsOf(unionEffects(p.closure([]*ssa.Function{sp.child}, nil)), nil)
		other := c13FieldsOf(directEffects(sp.in), func(s site) bool { return sp.window[s.In] })
		var roots []*ssa.Function
		cg := p.CallGraph()
		for in := range sp.window {
			switch x := in.(type) {
			case *ssa.MakeClosure:
				if f, ok := x.Fn.(*ssa.Function); ok {
					roots = append(roots, f)
				}
			case ssa.CallInstruction:
				if f := x.Common().StaticCallee(); f != nil {
					roots = append(roots, f)
				} else if n := cg.Nodes[sp.in]; n != nil {
					for _, e := range n.Out {
						if e.Site == x {
							roots = append(roots, e.Callee.Func)
						}
					}
				}
			}
		}
		stop := func(f *ssa.Function) bool { return f == sp.in }
		other.merge(c13FieldsOf(unionEffects(p.closure(roots, stop)), func(s site) bool { return s.Fn != sp.in }))
		bad := 0
		var shared []string
		for f, ws := range child.w {
			if s, ok := c13Touches(other.r, f); ok {
				bad++
				c.Fail(rule, sp.name+"#field:"+f, ws.Pos, "goroutine %s writes %s (in %s) while the spawner side reads it before Wait (in %s at %s): unsynchronised access to Driver state", fnName(sp.child), f, fnName(ws.Fn), fnName(s.Fn), p.Rel(s.Pos))
			} else if s, ok := c13Touches(other.w, f); ok {
				bad++
				c.Fail(rule, sp.name+"#field:"+f, ws.Pos, "goroutine %s and the spawner side (%s at %s) both write %s before Wait", fnName(sp.child), fnName(s.Fn), p.Rel(s.Pos), f)
			}
		}
		for f, rs := range child.r {
			if s, ok := c13Touches(other.w, f); ok {
				if _, dup := c13Touches(child.w, f); dup {
					continue
				}
				bad++
				c.Fail(rule, sp.name+"#field:"+f, s.Pos, "spawner side writes %s (in %s) before Wait while goroutine %s reads it (in %s at %s): unsynchronised access to Driver state", f, fnName(s.Fn), fnName(sp.child), fnName(rs.Fn), p.Rel(rs.Pos))
			} else if _, ok := c13Touches(other.r, f); ok {
				shared = append(shared, f)
			}
		}
		if bad == 0 {
			sort.Strings(shared)
			c.Ok(rule, sp.name+"#fields", sp.site.Pos(), "no Driver/output field is written by one side and accessed by the other between spawn and Wait; read by both: %s", strings.Join(shared, ", "))
		}
	}
	c.Floor(rule, nVars, 6, "captured variables analysed (11 on the pinned tree)")
	c.Floor(rule+".written", nWritten, 1, "captured variables written by a goroutine (quit, ponderHit on the pinned tree)")
}

// ---------- R2: channel discipline ----------

type c13Chan struct {
	key     any
	role    string
	makes   []*ssa.MakeChan
	stores  []*ssa.Store // stores of something other than a fresh MakeChan
	closes  []ssa.CallInstruction
	sends   []ssa.Instruction
	recvs   []ssa.Instruction
	escapes []ssa.Instruction
}

func (k *c13k) chanOf(key any) *c13Chan {
	if ch, ok := k.chans[key]; ok {
		return ch
	}
	ch := &c13Chan{key: key}
	k.chans[key] = ch
	return ch
}

// chanKey: which channel variable does the channel value v come from?
func (k *c13k) chanKey(v ssa.Value) any { return k.chanKeyRec(v, map[ssa.Value]bool{}) }

func (k *c13k) chanKeyRec(v ssa.Value, seen map[ssa.Value]bool) any {
	for d := 0; d < 6; d++ {
		switch x := v.(type) {
		case *ssa.Phi:
			// a local copy that is either the channel or nil (e.g. disabled after close)
			if seen[x] {
				return nil
			}
			seen[x] = true
			var key any
			for _, e := range x.Edges {
				if c, ok := e.(*ssa.Const); ok && c.Value == nil {
					continue
				}
				if e == ssa.Value(x) || seen[e] {
					continue
				}
				ke := k.chanKeyRec(e, seen)
				if ke == nil || (key != nil && ke != key) {
					return nil
				}
				key = ke
			}
			return key
		case *ssa.ChangeType:
			v = x.X
		case *ssa.UnOp:
			if x.Op != token.MUL {
				return nil
			}
			return c13Storage(x.X)
		case *ssa.MakeChan:
			for _, r := range *x.Referrers() {
				if st, ok := r.(*ssa.Store); ok && st.Val == ssa.Value(x) {
					if s := c13Storage(st.Addr); s != nil {
						return s
					}
				}
			}
			return x
		default:
			return nil
		}
	}
	return nil
}

// c13RecvOnlyVar: the channel variable's static type is <-chan T.
func c13RecvOnlyVar(key any) bool {
	var t types.Type
	switch x := key.(type) {
	case *ssa.Alloc:
		if pt, ok := x.Type().Underlying().(*types.Pointer); ok {
			t = pt.Elem()
		}
	case *types.Var:
		t = x.Type()
	case *ssa.MakeChan:
		t = x.Type()
	}
	if t == nil {
		return false
	}
	ct, ok := c13IsChan(t)
	return ok && ct.Dir() == types.RecvOnly
}

func c13IsChan(t types.Type) (*types.Chan, bool) {
	ch, ok := t.Underlying().(*types.Chan)
	return ch, ok
}

func (k *c13k) collectChans() {
	c := k.c
	k.chans = map[any]*c13Chan{}
	k.role = map[string]*c13Chan{}
	unres := func(in ssa.Instruction, what string) {
		if relPkg(fnPkgPath(in.Parent())) == "uci" {
			c.Undec("C13.R2", "unresolved@"+fnName(in.Parent()), in.Pos(), "%s on a channel value whose variable the rule cannot name", what)
		}
	}
	for _, fn := range k.fns {
		allInstrs(fn, func(in ssa.Instruction) {
			switch x := in.(type) {
			case *ssa.MakeChan:
				ch := k.chanOf(k.chanKey(x))
				ch.makes = append(ch.makes, x)
			case *ssa.Store:
				if _, ok := c13IsChan(x.Val.Type()); ok {
					if _, fresh := x.Val.(*ssa.MakeChan); !fresh {
						if s := c13Storage(x.Addr); s != nil {
							ch := k.chanOf(s)
							ch.stores = append(ch.stores, x)
						}
					}
				}
			case *ssa.Send:
				if key := k.chanKey(x.Chan); key != nil {
					ch := k.chanOf(key)
					ch.sends = append(ch.sends, x)
				} else {
					unres(in, "send")
				}
			case *ssa.UnOp:
				if x.Op == token.ARROW {
					if key := k.chanKey(x.X); key != nil {
						ch := k.chanOf(key)
						ch.recvs = append(ch.recvs, x)
					}
				}
			case *ssa.Select:
				for _, st := range x.States {
					key := k.chanKey(st.Chan)
					if key == nil {
						if st.Dir == types.SendOnly {
							unres(in, "select send")
						}
						continue
					}
					ch := k.chanOf(key)
					if st.Dir == types.SendOnly {
						ch.sends = append(ch.sends, x)
					} else {
						ch.recvs = append(ch.recvs, x)
					}
				}
			}
			if ci, ok := c13Builtin(in, "close"); ok {
				if key := k.chanKey(ci.Common().Args[0]); key != nil {
					ch := k.chanOf(key)
					ch.closes = append(ch.closes, ci)
				} else {
					unres(in, "close")
				}
			}
			// bidirectional channel values must not flow anywhere the rule does not look
			if v, ok := in.(ssa.Value); ok {
				if ct, isCh := c13IsChan(v.Type()); isCh && ct.Dir() == types.SendRecv && v.Referrers() != nil {
					key := k.chanKey(v)
					if key == nil {
						return
					}
					for _, r := range *v.Referrers() {
						switch y := r.(type) {
						case *ssa.DebugRef, *ssa.Send, *ssa.Select, *ssa.BinOp:
						case *ssa.UnOp:
						case *ssa.Phi:
							if k.chanKey(y) != key {
								k.chanOf(key).escapes = append(k.chanOf(key).escapes, r)
							}
						case *ssa.ChangeType:
							if t, ok := c13IsChan(y.Type()); !ok || t.Dir() != types.RecvOnly {
								k.chanOf(key).escapes = append(k.chanOf(key).escapes, r)
							}
						case *ssa.Store:
							if y.Val == v && c13Storage(y.Addr) != key {
								k.chanOf(key).escapes = append(k.chanOf(key).escapes, r)
							}
						case ssa.CallInstruction:
							if _, isClose := c13Builtin(y, "close"); !isClose {
								k.chanOf(key).escapes = append(k.chanOf(key).escapes, r)
							}
						default:
							k.chanOf(key).escapes = append(k.chanOf(key).escapes, r)
						}
					}
				}
			}
		})
	}
	// roles
	fieldVar := func(typ, field string) any {
		pk := k.p.Pkg("uci")
		if pk == nil || pk.Types == nil {
			return nil
		}
		tn, _ := pk.Types.Scope().Lookup(typ).(*types.TypeName)
		if tn == nil {
			return nil
		}
		st, _ := tn.Type().Underlying().(*types.Struct)
		for i := 0; st != nil && i < st.NumFields(); i++ {
			if st.Field(i).Name() == field {
				return st.Field(i)
			}
		}
		return nil
	}
	set := func(role string, key any) {
		if key == nil {
			c.Anchor("C13.R2", "channel "+role)
			return
		}
		ch := k.chanOf(key)
		ch.role = role
		k.role[role] = ch
	}
	set("inputLines", fieldVar("Driver", "inputLines"))
	set("output.channel", fieldVar("output", "channel"))
	argKey := func(spec string) any {
		cs := callsIn(k.hGo, spec)
		if len(cs) != 1 {
			return nil
		}
		return k.chanKey(cs[0].Common().Args[0])
	}
	set("stop", argKey("search.WithStop"))
	set("ponderHit", argKey("search.WithPonderHit"))
	// the interrupt goroutine: spawn of handleGo whose body selects on inputLines
	for _, sp := range k.spawns {
		if sp.in != k.hGo || sp.child == nil {
			continue
		}
		if il := k.role["inputLines"]; il != nil {
			for _, r := range il.recvs {
				if _, ok := r.(*ssa.Select); ok && r.Parent() == sp.child {
					k.intr = sp
				}
			}
		}
	}
	if k.intr == nil {
		c.Anchor("C13.R2", "interrupt goroutine (WaitGroup.Go closure in handleGo selecting on inputLines)")
	} else {
		var cand []any
		for key, ch := range k.chans {
			if ch.role != "" || len(ch.makes) != 1 || ch.makes[0].Parent() != k.hGo {
				continue // only channels handleGo itself makes (not e.g. a timer's C)
			}
			for _, r := range ch.recvs {
				if _, ok := r.(*ssa.Select); ok && r.Parent() == k.intr.child {
					cand = append(cand, key)
					break
				}
			}
		}
		if len(cand) != 1 {
			// by elimination: the one other channel made in handleGo
			cand = nil
			for key, ch := range k.chans {
				if ch.role == "" && len(ch.makes) == 1 && ch.makes[0].Parent() == k.hGo {
					cand = append(cand, key)
				}
			}
		}
		if len(cand) == 1 {
			set("searchFin", cand[0])
		} else {
			set("searchFin", nil)
		}
	}
}

func (k *c13k) chanName(ch *c13Chan) string {
	if ch.role != "" {
		return ch.role
	}
	switch x := ch.key.(type) {
	case *ssa.Alloc:
		return fnName(x.Parent()) + "." + x.Comment
	case *types.Var:
		return "field." + x.Name()
	case *ssa.MakeChan:
		return fnName(x.Parent()) + ".chan"
	}
	return "?"
}

// oncePerMake: the close instruction runs at most once for each execution of the make.
func (k *c13k) oncePerMake(mk *ssa.MakeChan, cl ssa.CallInstruction) (int, string) {
	cin := cl.(ssa.Instruction)
	if c13InLoop(cin) {
		return 0, "the close sits in a loop"
	}
	F, M := cl.Parent(), mk.Parent()
	if F == M {
		if instrDominates(mk, cin) {
			return 1, "same activation, after the make, not in a loop"
		}
		return -1, "close is not dominated by the make"
	}
	// walk up the chain of invocations: each level runs once per execution of one site in its invoker
	cur := F
	for depth := 0; depth < 6; depth++ {
		site, why := k.invokedOnceBy(cur)
		if site == nil {
			return -1, why
		}
		if c13InLoop(site) {
			return 0, "the closing function " + fnName(cur) + " is started in a loop"
		}
		if site.Parent() == M {
			if instrDominates(mk, site) {
				return 1, "in a function/closure started once per activation after the make"
			}
			return -1, "closing function is not started after the make"
		}
		cur = site.Parent()
	}
	return -1, "relation between the make and the closing function not understood"
}

// invokedOnceBy: the single instruction (closure creation used once as a call / defer / WaitGroup.Go
// operand, or the single static call site) whose execution runs fn once.
func (k *c13k) invokedOnceBy(fn *ssa.Function) (ssa.Instruction, string) {
	var mcs []*ssa.MakeClosure
	for _, g := range k.p.OwnFuncs() {
		allInstrs(g, func(in ssa.Instruction) {
			if mc, ok := in.(*ssa.MakeClosure); ok && mc.Fn == ssa.Value(fn) {
				mcs = append(mcs, mc)
			}
		})
	}
	if len(mcs) > 1 {
		return nil, fnName(fn) + " is turned into a closure at several sites"
	}
	if len(mcs) == 1 {
		if len(k.callers[fn]) > 0 {
			return nil, fnName(fn) + " is both called and used as a closure"
		}
		uses := 0
		for _, r := range *mcs[0].Referrers() {
			if _, dbg := r.(*ssa.DebugRef); dbg {
				continue
			}
			uses++
			ci, ok := r.(ssa.CallInstruction)
			if _, isGo := r.(*ssa.Go); !ok || isGo || (c13Ext(ci) != c13WGGo && ci.Common().Value != ssa.Value(mcs[0])) {
				return nil, "closure " + fnName(fn) + " is used other than as a WaitGroup.Go / call / defer operand"
			}
		}
		if uses != 1 {
			return nil, "closure " + fnName(fn) + " is used more than once"
		}
		return mcs[0], ""
	}
	if k.valueUse[fn] {
		return nil, fnName(fn) + " is used as a function value"
	}
	if cs := k.callers[fn]; len(cs) == 1 {
		if _, isGo := cs[0].(*ssa.Go); !isGo {
			return cs[0].(ssa.Instruction), ""
		}
	}
	return nil, fmt.Sprintf("%s has %d static call sites; the rule needs exactly one", fnName(fn), len(k.callers[fn]))
}

func (k *c13k) r2() {
	const rule = "C13.R2"
	c, p := k.c, k.p
	k.collectChans()
	// search can neither send on nor close the channels it is given
	for _, f := range []string{"Stop", "PonderHit"} {
		ok := false
		if pk := p.Pkg("search"); pk != nil && pk.Types != nil {
			if tn, _ := pk.Types.Scope().Lookup("Options").(*types.TypeName); tn != nil {
				if st, _ := tn.Type().Underlying().(*types.Struct); st != nil {
					for i := 0; i < st.NumFields(); i++ {
						if ct, isCh := c13IsChan(st.Field(i).Type()); isCh && st.Field(i).Name() == f && ct.Dir() == types.RecvOnly {
							ok = true
						}
					}
				}
			}
		}
		if ok {
			c.Ok(rule, "search.Options."+f, token.NoPos, "search.Options.%s is a receive-only channel: the type checker forbids send and close in package search", f)
		} else {
			c.Undec(rule, "search.Options."+f, token.NoPos, "search.Options.%s is not a receive-only channel field: sends/closes inside search are not enumerated", f)
		}
	}
	var keys []*c13Chan
	for _, ch := range k.chans {
		pkg := ""
		switch x := ch.key.(type) {
		case *types.Var:
			if x.Pkg() != nil {
				pkg = relPkg(x.Pkg().Path())
			}
		case ssa.Instruction:
			pkg = relPkg(fnPkgPath(x.Parent()))
		}
		if pkg != "uci" && ch.role == "" {
			continue // channels held by package search are receive-only by type (checked above)
		}
		if ch.role == "" && c13RecvOnlyVar(ch.key) {
			continue // a receive-only variable (e.g. a timer's C kept in a local) can be neither closed nor sent on
		}
		keys = append(keys, ch)
	}
	sort.Slice(keys, func(i, j int) bool { return k.chanName(keys[i]) < k.chanName(keys[j]) })
	nRole := 0
	for _, ch := range keys {
		name := k.chanName(ch)
		if ch.role != "" {
			nRole++
		}
		pos := token.NoPos
		if len(ch.makes) > 0 {
			pos = ch.makes[0].Pos()
		}
		for _, e := range ch.escapes {
			c.Undec(rule, name+"#escape", e.Pos(), "channel %s flows as a bidirectional value into %T in %s: its close/send sites cannot be enumerated", name, e, fnName(e.Parent()))
		}
		for _, st := range ch.stores {
			okNil := false
			if cst, isC := st.Val.(*ssa.Const); isC && cst.Value == nil {
				okNil = true
			} else if par, isP := st.Val.(*ssa.Parameter); isP {
				okNil = len(k.callers[par.Parent()]) > 0 && !k.valueUse[par.Parent()]
				for _, ci := range k.callers[par.Parent()] {
					idx := -1
					for i, q := range par.Parent().Params {
						if q == par {
							idx = i
						}
					}
					if a, isC := ci.Common().Args[idx].(*ssa.Const); !isC || a.Value != nil {
						okNil = false
					}
				}
			}
			if !okNil {
				c.Undec(rule, name+"#store", st.Pos(), "channel variable %s is assigned a value other than a fresh make or nil in %s", name, fnName(st.Parent()))
			}
		}
		if len(ch.makes) != 1 {
			c.Undec(rule, name+"#make", pos, "channel %s has %d make sites; the rule reasons per single make", name, len(ch.makes))
			continue
		}
		mk := ch.makes[0]
		// closes
		needClose := ch.role == "inputLines" || ch.role == "output.channel" || ch.role == "stop" || ch.role == "searchFin"
		switch {
		case len(ch.closes) == 0 && needClose:
			c.Fail(rule, name+"#close", pos, "channel %s is never closed: its receivers (range loop / select / abort poll) never learn that the producer is done", name)
		case len(ch.closes) == 0:
			c.OkTrivial(rule, name+"#close", pos, "channel %s is never closed (not needed: its receiver only polls)", name)
		}
		for i, cl := range ch.closes {
			v, why := k.oncePerMake(mk, cl)
			key := fmt.Sprintf("%s#close%d", name, i+1)
			switch v {
			case 1:
				c.Ok(rule, key, cl.Pos(), "close(%s) in %s runs at most once per make: %s", name, fnName(cl.Parent()), why)
			case 0:
				c.Fail(rule, key, cl.Pos(), "close(%s) in %s can run twice for one make (%s): close of closed channel panics", name, fnName(cl.Parent()), why)
			default:
				c.Undec(rule, key, cl.Pos(), "close(%s) in %s: %s", name, fnName(cl.Parent()), why)
			}
			for j, other := range ch.closes {
				if i == j {
					continue
				}
				if other.Parent() != cl.Parent() {
					if i < j {
						c.Fail(rule, fmt.Sprintf("%s#close%d+%d", name, i+1, j+1), other.Pos(), "channel %s is closed both in %s and in %s: when both run the second close panics", name, fnName(cl.Parent()), fnName(other.Parent()))
					}
				} else if c13After(cl.(ssa.Instruction), c13Is(other.(ssa.Instruction)), nil) {
					c.Fail(rule, fmt.Sprintf("%s#close%d+%d", name, i+1, j+1), other.Pos(), "a second close(%s) is reachable after the first in %s: panic", name, fnName(cl.Parent()))
				}
			}
		}
		// sends
		for i, s := range ch.sends {
			key := fmt.Sprintf("%s#send%d", name, i+1)
			if ch.role == "stop" || ch.role == "searchFin" {
				c.Fail(rule, key, s.Pos(), "%s is a pure close-signal but is sent on in %s: an unbuffered send blocks until (unless) the other side happens to receive, the sender can hang and receivers after the first miss the signal", name, fnName(s.Parent()))
				continue
			}
			if len(ch.closes) != 1 {
				if len(ch.closes) == 0 {
					c.OkTrivial(rule, key, s.Pos(), "send on %s, which is never closed", name)
				}
				continue
			}
			ok, why := k.sendBeforeClose(ch, s, ch.closes[0])
			switch ok {
			case 1:
				c.Ok(rule, key, s.Pos(), "send on %s in %s is ordered before the close: %s", name, fnName(s.Parent()), why)
			case 0:
				c.Fail(rule, key, s.Pos(), "send on %s in %s can happen after close(%s) in %s (%s): send on closed channel panics", name, fnName(s.Parent()), name, fnName(ch.closes[0].Parent()), why)
			default:
				c.Undec(rule, key, s.Pos(), "send on %s in %s: cannot order it before close(%s) in %s (%s)", name, fnName(s.Parent()), name, fnName(ch.closes[0].Parent()), why)
			}
		}
	}
	c.Floor(rule, nRole, 5, "driver channels (inputLines, output.channel, stop, searchFin, ponderHit)")
	k.r2PonderHit()
}

// sendBeforeClose: 1 ordered before, 0 can follow, -1 unknown.
func (k *c13k) sendBeforeClose(ch *c13Chan, s ssa.Instruction, cl ssa.CallInstruction) (int, string) {
	F, G := s.Parent(), cl.Parent()
	_, deferred := cl.(*ssa.Defer)
	cin := cl.(ssa.Instruction)
	if F == G {
		if deferred || !c13After(cin, c13Is(s), nil) {
			return 1, "same function, no path from the close to the send"
		}
		return 0, "same function, the send is reachable after the close"
	}
	if F == k.outWrite && ch.role == "output.channel" {
		return k.sinkUsersOrdered(cl)
	}
	for _, sp := range k.spawns {
		if sp.child == F && sp.in == G {
			if !k.joined[sp] {
				return 0, "sending goroutine is not joined (C13.R3)"
			}
			if deferred || !c13After(sp.site.(ssa.Instruction), c13Is(cin), sp.isWait) {
				return 1, "sender is a goroutine joined by Wait before the close"
			}
			return 0, "close is reachable from the spawn without Wait"
		}
	}
	if cs := k.callers[F]; len(cs) > 0 && !k.valueUse[F] {
		for _, ci := range cs {
			if ci.Parent() != G {
				return -1, "sender is also called from " + fnName(ci.Parent())
			}
			if _, isCall := ci.(*ssa.Call); !isCall {
				return -1, "sender is started by defer/go"
			}
			if !deferred && c13After(cin, c13Is(ci.(ssa.Instruction)), nil) {
				return 0, "the sending function is called after the close"
			}
		}
		return 1, "sender is called synchronously only by the closing function, before the close; its own goroutines are joined (C13.R3)"
	}
	return -1, "sender is neither the closer, a callee of it, nor a goroutine it joins"
}

// sinkUsersOrdered: sends on output.channel happen in output.Write, i.e. wherever the sink is
// printed to (enumerated by R1). All those functions must run on the readInput/handleInput side
// (ordered before close(output.channel) by the close-chain and R3 joins), never under writeOutput.
func (k *c13k) sinkUsersOrdered(cl ssa.CallInstruction) (int, string) {
	users := map[*ssa.Function]bool{}
	for _, pr := range k.prints {
		if pr.w == c13wSink {
			users[pr.fn] = true
		}
	}
	for _, ci := range k.callers[k.outWrite] {
		users[ci.Parent()] = true
	}
	before := map[*ssa.Function]bool{}
	for _, f := range k.p.closure([]*ssa.Function{k.rdIn, k.hIn}, nil) {
		before[f] = true
	}
	consumer := map[*ssa.Function]bool{}
	for _, f := range k.p.closure([]*ssa.Function{k.wrOut}, nil) {
		consumer[f] = true
	}
	for f := range users {
		if consumer[f] {
			return 0, fnName(f) + " prints to the sink and is reachable from writeOutput, the consumer, which keeps running after the close"
		}
		if !before[f] {
			return -1, fnName(f) + " prints to the sink but is not reachable from readInput/handleInput"
		}
	}
	G := cl.Parent()
	if G != k.hIn && len(callsIn(G, "uci.(*Driver).handleInput")) == 0 {
		return -1, "the closing function neither is nor runs handleInput"
	}
	if _, deferred := cl.(*ssa.Defer); !deferred {
		userCall := func(in ssa.Instruction) bool {
			ci, ok := in.(ssa.CallInstruction)
			if !ok {
				return false
			}
			for _, pr := range k.prints {
				if pr.w == c13wSink && pr.call == ci {
					return true
				}
			}
			if f := ci.Common().StaticCallee(); f != nil && isOwn(f) {
				for _, g := range k.p.closure([]*ssa.Function{f}, nil) {
					if users[g] {
						return true
					}
				}
				return false
			}
			_, isBuiltin := ci.Common().Value.(*ssa.Builtin)
			return !isBuiltin && ci.Common().StaticCallee() == nil // dynamic call: unknown
		}
		if c13After(cl.(ssa.Instruction), userCall, nil) {
			return 0, "in " + fnName(G) + " code that can print to the sink is reachable after the close"
		}
	}
	return 1, fmt.Sprintf("all %d functions that print to the sink run under readInput/handleInput (goroutines joined, C13.R3) and none under writeOutput", len(users))
}

// r2PonderHit: the one data send of the driver never blocks and never follows the close.
func (k *c13k) r2PonderHit() {
	const rule = "C13.R2"
	c := k.c
	ch := k.role["ponderHit"]
	if ch == nil || len(ch.makes) != 1 {
		return
	}
	if n, ok := constOf(ch.makes[0].Size); ok && n >= 1 {
		c.Ok(rule, "ponderHit#capacity", ch.makes[0].Pos(), "ponderHit is made with capacity %d ≥ 1: the single send cannot block even if the search never polls", n)
	} else {
		c.Fail(rule, "ponderHit#capacity", ch.makes[0].Pos(), "ponderHit is unbuffered: the interrupt goroutine blocks in the send until the search polls between iterations and cannot react to stop/timeout meanwhile")
	}
	if len(ch.sends) == 0 {
		c.Fail(rule, "ponderHit#send", ch.makes[0].Pos(), "ponderHit is never sent on: a ponderhit command never reaches the search")
	}
	for i, s := range ch.sends {
		snd, ok := s.(*ssa.Send)
		key := fmt.Sprintf("ponderHit#send%d", i+1)
		if !ok {
			c.Undec(rule, key+"-guard", s.Pos(), "ponderHit is sent on from a select")
			continue
		}
		ld, _ := snd.Chan.(*ssa.UnOp)
		guarded := false
		for _, ce := range controllingConds(s.Block()) {
			b, ok := ce.Cond.(*ssa.BinOp)
			if !ok || (b.Op != token.NEQ && b.Op != token.EQL) || ld == nil {
				continue
			}
			x, y := b.X, b.Y
			if cst, isC := x.(*ssa.Const); isC && cst.Value == nil {
				x, y = y, x
			}
			cst, isC := y.(*ssa.Const)
			lx, isL := x.(*ssa.UnOp)
			if isC && cst.Value == nil && isL && lx.Op == token.MUL && c13Storage(lx.X) == ch.key && ce.True == (b.Op == token.NEQ) {
				guarded = true
			}
		}
		c.Check(guarded, rule, key+"-guard", s.Pos(), "the send on ponderHit must be under a `ponderHit != nil` test of the captured variable (nil when not pondering or already signalled: a send on a nil channel blocks the interrupt goroutine forever)")
		isNilStore := func(in ssa.Instruction) bool {
			st, ok := in.(*ssa.Store)
			if !ok || c13Storage(st.Addr) != ch.key {
				return false
			}
			cst, isC := st.Val.(*ssa.Const)
			return isC && cst.Value == nil
		}
		again := func(in ssa.Instruction) bool {
			if in == s || c13IsReturn(in) {
				return true
			}
			_, sel := in.(*ssa.Select)
			return sel
		}
		if c13After(s, again, isNilStore) {
			c.Fail(rule, key+"-once", s.Pos(), "after the send the variable is not set to nil on every path before the goroutine waits for the next line: a second ponderhit blocks on the full buffer (or, without the guard, sends twice) and stop/timeouts are no longer served")
		} else {
			c.Ok(rule, key+"-once", s.Pos(), "every path from the send to the next select/return assigns nil to ponderHit: at most one send per make")
		}
	}
}

// ---------- R4: answer ordering in handleGo ----------

func (k *c13k) printsWith(prefix string) []*c13Print {
	var out []*c13Print
	for _, pr := range k.prints {
		if strings.HasPrefix(pr.lead, prefix) && pr.w != c13wLocal && pr.w != c13wErr {
			out = append(out, pr)
		}
	}
	return out
}

// opaquePrint: a print to the sink in fn (within, when set) whose text is not a literal the rule can read.
func (k *c13k) opaquePrint(fn *ssa.Function, within func(ssa.Instruction) bool) *c13Print {
	for _, pr := range k.prints {
		if pr.fn == fn && pr.w == c13wSink && (pr.lead == "" || strings.HasPrefix(pr.lead, "%")) && (within == nil || within(pr.call.(ssa.Instruction))) {
			return pr
		}
	}
	return nil
}

func (k *c13k) isSpawnChild(fn *ssa.Function) bool {
	for _, sp := range k.spawns {
		for f := fn; f != nil; f = f.Parent() {
			if sp.child == f {
				return true
			}
		}
	}
	return false
}

func (k *c13k) r4() {
	const rule = "C13.R4"
	c := k.c
	hg := fnName(k.hGo)
	nGo := 0
	for _, fn := range k.fns {
		if relPkg(fnPkgPath(fn)) == "uci" {
			nGo += len(callsIn(fn, "uci.(Search).Go"))
		}
	}
	c.Exact(rule+".go", nGo, 1, "Search.Go call sites in package uci")
	gos := callsIn(k.hGo, "uci.(Search).Go")
	fin := k.role["searchFin"]
	if len(gos) != 1 || fin == nil || k.intr == nil {
		c.Anchor(rule, "Search.Go call / searchFin / interrupt goroutine in handleGo")
		return
	}
	goCall := gos[0].(ssa.Instruction)
	// Go → close(searchFin)
	for i, cl := range fin.closes {
		key := fmt.Sprintf("%s#go→close(searchFin)%d", hg, i+1)
		if _, d := cl.(*ssa.Defer); d || cl.Parent() != k.hGo {
			c.Fail(rule, key, cl.Pos(), "close(searchFin) is deferred or outside handleGo: it must run right after Search.Go returns, before Wait, or the interrupt goroutine (and Wait) never finish for a search that ends by itself")
			continue
		}
		c.Check(instrDominates(goCall, cl.(ssa.Instruction)), rule, key, cl.Pos(), "close(searchFin) must be dominated by the Search.Go call: closed earlier, the interrupt goroutine leaves at once, closes stop and the search is aborted before it ran")
	}
	// close(searchFin) → Wait
	nWait := 0
	allInstrs(k.hGo, func(in ssa.Instruction) {
		if !k.intr.isWait(in) {
			return
		}
		nWait++
		ok := false
		for _, cl := range fin.closes {
			if cl.Parent() == k.hGo && instrDominates(cl.(ssa.Instruction), in) {
				if _, d := cl.(*ssa.Defer); !d {
					ok = true
				}
			}
		}
		c.Check(ok, rule, fmt.Sprintf("%s#close(searchFin)→Wait%d", hg, nWait), in.Pos(), "Wait for the interrupt goroutine must be dominated by close(searchFin): otherwise a search that finishes on its own leaves the goroutine blocked in its select and bestmove is never printed")
	})
	// bestmove events
	isBM := func(fn *ssa.Function) func(ssa.Instruction) bool {
		return func(in ssa.Instruction) bool {
			for _, pr := range k.printsWith("bestmove") {
				if pr.fn == fn && pr.call.(ssa.Instruction) == in {
					return true
				}
			}
			return false
		}
	}
	events := map[ssa.Instruction]bool{}
	helpers := map[*ssa.Function]bool{}
	for _, pr := range k.printsWith("bestmove") {
		switch {
		case pr.fn == k.hGo:
			events[pr.call.(ssa.Instruction)] = true
		case k.isSpawnChild(pr.fn):
			c.Fail(rule, "bestmove@"+pr.key, pr.call.Pos(), "bestmove is printed in goroutine body %s: it is not ordered after the search result and the join of the interrupt goroutine", fnName(pr.fn))
		default:
			helpers[pr.fn] = true
		}
	}
	for h := range helpers {
		okShape := !k.valueUse[h] && len(k.callers[h]) > 0 && !c13Path(h.Blocks[0], 0, c13IsReturn, isBM(h))
		for _, pr := range k.printsWith("bestmove") {
			if pr.fn == h && c13After(pr.call.(ssa.Instruction), isBM(h), nil) {
				okShape = false
			}
		}
		for _, ci := range k.callers[h] {
			if ci.Parent() != k.hGo {
				okShape = false
			}
		}
		if !okShape {
			c.Undec(rule, "bestmove@"+fnName(h), h.Pos(), "bestmove is printed in %s, which is not a helper called only from handleGo that prints exactly once: the print cannot be tied to one go request", fnName(h))
			continue
		}
		for _, ci := range k.callers[h] {
			events[ci.(ssa.Instruction)] = true
		}
	}
	isEvent := func(in ssa.Instruction) bool { return events[in] }
	if len(events) == 0 {
		if op := k.opaquePrint(k.hGo, nil); op != nil {
			c.Undec(rule, hg+"#bestmove", op.call.Pos(), "no recognisable bestmove print in handleGo, but it prints text the rule cannot read (%s)", op.key)
		} else {
			c.Fail(rule, hg+"#bestmove", goCall.Pos(), "no bestmove print in handleGo: the go request is never answered")
		}
		return
	}
	n := 0
	var evs []ssa.Instruction
	for e := range events {
		evs = append(evs, e)
	}
	sort.Slice(evs, func(i, j int) bool { return evs[i].Pos() < evs[j].Pos() })
	for _, e := range evs {
		n++
		key := fmt.Sprintf("%s#bestmove%d", hg, n)
		waited := false
		allInstrs(k.hGo, func(in ssa.Instruction) {
			if k.intr.isWait(in) && instrDominates(in, e) {
				waited = true
			}
		})
		switch {
		case !instrDominates(goCall, e):
			c.Fail(rule, key, e.Pos(), "bestmove print is not dominated by the Search.Go call: an answer can be printed without/before a search")
		case !waited:
			c.Fail(rule, key, e.Pos(), "bestmove is printed before Wait()ing for the interrupt goroutine: the GUI's next command can be swallowed by the goroutine's select on inputLines and is never handled")
		case c13After(e, isEvent, nil):
			c.Fail(rule, key, e.Pos(), "a second bestmove print is reachable after this one: one go request is answered twice")
		default:
			c.Ok(rule, key, e.Pos(), "bestmove print dominated by Search.Go and by Wait; no further bestmove print reachable after it")
		}
	}
	if c13After(goCall, c13IsReturn, isEvent) {
		if op := k.opaquePrint(k.hGo, func(in ssa.Instruction) bool { return instrDominates(goCall, in) }); op != nil {
			c.Undec(rule, hg+"#bestmove-every-path", op.call.Pos(), "a path from Search.Go to the exit passes no recognisable bestmove print, but handleGo prints text the rule cannot read (%s)", op.key)
		} else {
			c.Fail(rule, hg+"#bestmove-every-path", goCall.Pos(), "handleGo can return after Search.Go without printing bestmove: the go request stays unanswered and the GUI waits forever")
		}
	} else {
		c.Ok(rule, hg+"#bestmove-every-path", goCall.Pos(), "every path from Search.Go to the exits of handleGo passes a bestmove print (%d sites, mutually exclusive)", len(events))
	}
	c.Floor(rule+".bestmove", len(k.printsWith("bestmove")), 1, "bestmove print sites (2 on the pinned tree)")
	// readyok: idle handler and interrupt goroutine, each under an isready test, once per line.
	// A responder may sit in a helper (also one shared by both sides, also called through a method
	// value): the answering *event* is then the helper's call site, followed up to the isready test.
	underIsready := func(blk *ssa.BasicBlock) bool {
		for _, ce := range controllingConds(blk) {
			if b, ok := ce.Cond.(*ssa.BinOp); ok && b.Op == token.EQL && ce.True {
				sx, okx := c13ConstStr(b.X)
				sy, oky := c13ConstStr(b.Y)
				if (okx && sx == "isready") || (oky && sy == "isready") {
					return true
				}
			}
		}
		return false
	}
	closuresOf := func(fn *ssa.Function) []*ssa.MakeClosure {
		var out []*ssa.MakeClosure
		for _, g := range k.scope {
			allInstrs(g, func(in ssa.Instruction) {
				if mc, ok := in.(*ssa.MakeClosure); ok && mc.Fn == ssa.Value(fn) {
					out = append(out, mc)
				}
			})
		}
		return out
	}
	// expand: the guarded sites through which `site` answers; unguarded: recognised sites in the command
	// handler / interrupt goroutine without the test; unresolved: the rule lost track.
	var expand func(site ssa.Instruction, depth int) (guarded, unguarded []ssa.Instruction, unresolved bool)
	expand = func(site ssa.Instruction, depth int) (guarded, unguarded []ssa.Instruction, unresolved bool) {
		if underIsready(site.Block()) {
			return []ssa.Instruction{site}, nil, false
		}
		fn := site.Parent()
		if fn == k.hCmd || fn == k.intr.child {
			return nil, []ssa.Instruction{site}, false
		}
		mcs := closuresOf(fn)
		if depth == 0 || (len(k.callers[fn]) == 0 && len(mcs) == 0) || (k.valueUse[fn] && len(mcs) == 0) {
			return nil, nil, true
		}
		var next []ssa.Instruction
		for _, ci := range k.callers[fn] {
			next = append(next, ci.(ssa.Instruction))
		}
		for _, mc := range mcs {
			for _, r := range *mc.Referrers() {
				if _, dbg := r.(*ssa.DebugRef); dbg {
					continue
				}
				if ci, ok := r.(ssa.CallInstruction); ok && ci.Common().Value == ssa.Value(mc) {
					next = append(next, r)
				} else {
					unresolved = true // the function value travels (stored, passed on)
				}
			}
		}
		for _, n := range next {
			g, u, x := expand(n, depth-1)
			guarded, unguarded, unresolved = append(guarded, g...), append(unguarded, u...), unresolved || x
		}
		return
	}
	// who runs what: static call trees (incl. directly called closures / method values)
	callTree := func(root *ssa.Function) (map[*ssa.Function]bool, bool) {
		tree, dynamic := map[*ssa.Function]bool{root: true}, false
		for front, d := []*ssa.Function{root}, 0; len(front) > 0 && d < 5; d++ {
			var nxt []*ssa.Function
			for _, f := range front {
				allInstrs(f, func(in ssa.Instruction) {
					ci, ok := in.(ssa.CallInstruction)
					if !ok {
						return
					}
					var g *ssa.Function
					if mc, isMC := ci.Common().Value.(*ssa.MakeClosure); isMC {
						g, _ = mc.Fn.(*ssa.Function)
					} else if g = ci.Common().StaticCallee(); g == nil {
						if _, isB := ci.Common().Value.(*ssa.Builtin); !isB {
							dynamic = true
						}
						return
					}
					if g != nil && isOwn(g) && g.Blocks != nil && !tree[g] {
						tree[g] = true
						nxt = append(nxt, g)
					}
				})
			}
			front = nxt
		}
		return tree, dynamic
	}
	busyTree, busyDyn := callTree(k.intr.child)
	idleTree, _ := callTree(k.hCmd)
	recvLine := func(in ssa.Instruction) bool {
		if il := k.role["inputLines"]; il != nil {
			for _, r := range il.recvs {
				if r == in {
					return true
				}
			}
		}
		return false
	}
	idle, busy := 0, 0
	for i, pr := range k.printsWith("readyok") {
		key := fmt.Sprintf("readyok%d@%s", i+1, fnName(pr.fn))
		guarded, unguarded, unresolved := expand(pr.call.(ssa.Instruction), 4)
		repeats := false
		for _, ev := range guarded {
			if c13After(ev, c13Is(ev), recvLine) {
				repeats = true
			}
		}
		switch {
		case len(unguarded) > 0:
			c.Fail(rule, key, unguarded[0].Pos(), "readyok (printed in %s) is reached in %s outside an `== \"isready\"` test of the command word: an answer without a request", fnName(pr.fn), fnName(unguarded[0].Parent()))
		case unresolved:
			c.Undec(rule, key, pr.call.Pos(), "readyok is printed in %s; the rule cannot follow all its callers up to an isready test (function value travels, or helper nesting too deep)", fnName(pr.fn))
		case repeats:
			c.Fail(rule, key, pr.call.Pos(), "the readyok answer (printed in %s) can repeat without consuming another input line", fnName(pr.fn))
		default:
			c.Ok(rule, key, pr.call.Pos(), "readyok in %s is reached only under the isready test (%d site(s)), once per consumed line", fnName(pr.fn), len(guarded))
		}
		for _, ev := range guarded { // responders exist whatever else is wrong with this print
			if busyTree[ev.Parent()] {
				busy++
			}
			if idleTree[ev.Parent()] {
				idle++
			}
		}
	}
	if op := k.opaquePrint(k.hCmd, nil); idle == 0 && op != nil {
		c.Undec(rule, "readyok#idle", op.call.Pos(), "no recognisable readyok print outside the goroutines; the command handler prints text the rule cannot read (%s)", op.key)
	} else {
		c.Check(idle >= 1, rule, "readyok#idle", k.hCmd.Pos(), "isready must be answered with readyok by the idle command handler (%d sites)", idle)
	}
	var opBusy *c13Print
	for f := range busyTree {
		if op := k.opaquePrint(f, nil); op != nil {
			opBusy = op
		}
	}
	switch {
	case busy == 0 && opBusy != nil:
		c.Undec(rule, "readyok#searching", opBusy.call.Pos(), "no recognisable readyok print in the interrupt goroutine, but it prints text the rule cannot read (%s)", opBusy.key)
	case busy == 0 && busyDyn:
		c.Undec(rule, "readyok#searching", k.intr.site.Pos(), "no recognisable readyok answer in the interrupt goroutine, but it makes dynamic calls the rule does not follow")
	default:
		c.Check(busy >= 1, rule, "readyok#searching", k.intr.site.Pos(), "isready must be answered with readyok by the interrupt goroutine, which consumes the input lines while a search runs (%d sites): otherwise the line is swallowed and never answered", busy)
	}
}

// ---------- R5: the interrupt goroutine ----------

func (k *c13k) r5() {
	const rule = "C13.R5"
	c := k.c
	stop, fin, il := k.role["stop"], k.role["searchFin"], k.role["inputLines"]
	if k.intr == nil || stop == nil || fin == nil || il == nil {
		c.Anchor(rule, "interrupt goroutine / stop / searchFin / inputLines")
		return
	}
	K := k.intr.child
	name := fnName(K)
	direct := func(in ssa.Instruction) bool {
		for _, cl := range stop.closes {
			if cl.(ssa.Instruction) == in {
				return true
			}
		}
		return false
	}
	isCloseStop := func(in ssa.Instruction) bool {
		if direct(in) {
			return true
		}
		// a (deferred) call of a function literal that closes stop on each of its paths
		if ci, ok := in.(ssa.CallInstruction); ok {
			if mc, ok := ci.Common().Value.(*ssa.MakeClosure); ok {
				if f, ok := mc.Fn.(*ssa.Function); ok && f.Blocks != nil {
					return !c13Path(f.Blocks[0], 0, c13IsReturn, direct)
				}
			}
		}
		return false
	}
	if c13Path(K.Blocks[0], 0, c13IsReturn, isCloseStop) {
		c.Fail(rule, name+"#close(stop)", K.Pos(), "the interrupt goroutine can return without (deferring) close(stop): after a stop/quit/timeout taken on that path the search is never told to stop and bestmove never comes")
	} else {
		c.Ok(rule, name+"#close(stop)", K.Pos(), "every path from entry to a return of the interrupt goroutine executes (defer) close(stop)")
	}
	var sels []*ssa.Select
	nSel := 0
	for _, fn := range withClosures(K) {
		allInstrs(fn, func(in ssa.Instruction) {
			switch x := in.(type) {
			case *ssa.UnOp:
				if x.Op == token.ARROW && k.chanKey(x.X) != fin.key {
					c.Fail(rule, name+"#blocking-receive", x.Pos(), "blocking receive outside a select in the interrupt goroutine: while it blocks the goroutine cannot see searchFin, so Wait (and bestmove) is delayed until that channel fires")
				}
			case *ssa.Select:
				if !x.Blocking {
					return
				}
				has := false
				nSel++
				for _, st := range x.States {
					if st.Dir == types.RecvOnly && k.chanKey(st.Chan) == fin.key {
						has = true
					}
				}
				if fn == K && has {
					sels = append(sels, x)
				}
				c.Check(has, rule, fmt.Sprintf("%s#select%d", name, nSel), x.Pos(), "every blocking select of the interrupt goroutine must include <-searchFin: otherwise a search that ends by itself leaves the goroutine waiting for input, Wait blocks and bestmove is withheld until the next line (which is swallowed)")
			}
		})
	}
	c.Floor(rule, len(sels), 1, "blocking selects including <-searchFin in the interrupt goroutine")
	if len(sels) == 0 {
		return
	}
	// leaving: the goroutine reaches a return only through its select (flag loops and
	// early-return loops alike: paths are enumerated with phis/constant conditions resolved)
	selBlock := map[*ssa.BasicBlock]bool{}
	for _, s := range sels {
		selBlock[s.Block()] = true
	}
	opaque := func(bp *bpath) bool { // a branch on a boolean kept in memory: the path may be infeasible
		for _, pc := range bp.Conds {
			if u, ok := pc.V.(*ssa.UnOp); ok && u.Op == token.MUL {
				switch u.X.(type) {
				case *ssa.Alloc, *ssa.FreeVar:
					// only a variable the goroutine itself assigns can be a loop flag; one it merely reads is data
					var acc c13Acc
					c13Access(u.X, nil, &acc, 0)
					if len(acc.writes)+len(acc.unknown) > 0 {
						return true
					}
				}
			}
		}
		return false
	}
	nRet := 0
	for _, b := range K.Blocks {
		if _, ok := b.Instrs[len(b.Instrs)-1].(*ssa.Return); ok && b != K.Recover {
			nRet++
		}
	}
	var early, earlyOpaque *bpath
	done := enumBlockPaths(K.Blocks[0], func(_, to *ssa.BasicBlock) bool { return selBlock[to] }, 20000, func(bp *bpath) {
		if bp.End != "return" {
			return
		}
		if opaque(bp) {
			earlyOpaque = bp
		} else if early == nil {
			early = bp
		}
	})
	lastPos := func(bp *bpath) token.Pos {
		b := bp.Blocks[len(bp.Blocks)-1]
		return b.Instrs[len(b.Instrs)-1].Pos()
	}
	switch {
	case early != nil:
		c.Fail(rule, name+"#early-return1", lastPos(early), "the interrupt goroutine can return without having passed its select: close(stop) then aborts the search although no stop, quit, timeout or end of input occurred")
	case !done || earlyOpaque != nil:
		c.Undec(rule, name+"#returns", K.Pos(), "cannot show that every return of the interrupt goroutine lies behind its select (path budget exhausted or a branch on a flag kept in memory)")
	default:
		c.Ok(rule, name+"#returns", K.Pos(), "no path from the entry of the interrupt goroutine reaches a return (%d sites) without passing its select (phis and constant conditions resolved per path)", nRet)
	}
	c.Floor(rule+".returns", nRet, 1, "returns of the interrupt goroutine")
	// closed inputLines
	for i, s := range sels {
		key := fmt.Sprintf("%s#select%d-closed-input", name, i+1)
		hasIn := false
		for _, st := range s.States {
			if k.chanKey(st.Chan) == il.key {
				hasIn = true
			}
		}
		if !hasIn {
			continue
		}
		verdict, extracts := 0, 0
		for _, r := range *s.Referrers() {
			ex, ok := r.(*ssa.Extract)
			if !ok || ex.Index != 1 {
				continue
			}
			extracts++
			for _, rr := range *ex.Referrers() {
				var neg bool
				var iff *ssa.If
				switch y := rr.(type) {
				case *ssa.If:
					iff = y
				case *ssa.UnOp:
					if y.Op == token.NOT {
						for _, r3 := range *y.Referrers() {
							if f, ok := r3.(*ssa.If); ok {
								iff, neg = f, true
							}
						}
					}
				}
				if iff == nil {
					continue
				}
				closedSucc := iff.Block().Succs[1]
				if neg {
					closedSucc = iff.Block().Succs[0]
				}
				// does any feasible path from the !ok successor come back to the select?
				back, backOpaque := false, false
				fin := enumBlockPaths(closedSucc, func(_, to *ssa.BasicBlock) bool { return selBlock[to] }, 20000, func(bp *bpath) {
					if bp.End == "arrive" && selBlock[bp.Arrive] {
						if opaque(bp) {
							backOpaque = true
						} else {
							back = true
						}
					}
				})
				switch {
				case selBlock[closedSucc] || back:
					verdict = -1
				case !fin || backOpaque:
					if verdict == 0 || verdict == 1 {
						verdict = 2
					}
				case verdict == 0:
					verdict = 1
				}
			}
		}
		switch {
		case verdict == 1:
			c.Ok(rule, key, s.Pos(), "from the !ok branch of the inputLines receive no path re-enters the select: the goroutine leaves (and closes stop)")
		case verdict == -1:
			c.Fail(rule, key, s.Pos(), "after inputLines is closed (!ok) the interrupt goroutine goes back to its select instead of returning: the search is not stopped at end of input (and a closed channel left in the select is always ready: busy loop)")
		case verdict == 2 || extracts > 0:
			c.Undec(rule, key, s.Pos(), "cannot decide whether the interrupt goroutine leaves after inputLines is closed (ok is not tested by a plain branch, a flag is kept in memory, or the path budget ran out)")
		default:
			c.Fail(rule, key, s.Pos(), "the receive from inputLines does not test ok: once readInput has closed the channel the goroutine spins on empty lines instead of stopping the search")
		}
	}
}

// ---------- R7: shutdown order in Run ----------

func (k *c13k) r7() {
	const rule = "C13.R7"
	c := k.c
	type stage struct {
		callee string
		role   string
	}
	found := 0
	for _, st := range []stage{{"uci.(*Driver).readInput", "inputLines"}, {"uci.(*Driver).handleInput", "output.channel"}, {"uci.(*Driver).writeOutput", ""}} {
		var sp *c13Spawn
		n := 0
		for _, s := range k.spawns {
			if s.in == k.run && s.child != nil && len(callsIn(s.child, st.callee)) > 0 {
				sp = s
				n++
			}
		}
		key := "Run#" + st.callee
		if n != 1 {
			c.Undec(rule, key, k.run.Pos(), "expected exactly one WaitGroup.Go goroutine of Run calling %s, found %d", st.callee, n)
			continue
		}
		found++
		ch := k.role[st.role]
		if st.role == "" {
			c.Ok(rule, key, sp.site.Pos(), "writeOutput runs in its own joined goroutine %s", fnName(sp.child))
			continue
		}
		if ch == nil || len(ch.makes) != 1 {
			continue
		}
		c.Check(ch.makes[0].Parent() == k.run && instrDominates(ch.makes[0], sp.site.(ssa.Instruction)) && func() bool {
			for _, s := range k.spawns {
				if s.in == k.run && !instrDominates(ch.makes[0], s.site.(ssa.Instruction)) {
					return false
				}
			}
			return true
		}(), rule, "Run#make-"+st.role, ch.makes[0].Pos(), "%s must be made in Run before any pipeline goroutine starts (a nil channel blocks its users forever)", st.role)
		call := callsIn(sp.child, st.callee)[0].(ssa.Instruction)
		// the goroutine's static call tree (the close may sit in the wrapper or in the stage function itself)
		tree := map[*ssa.Function]bool{sp.child: true}
		for d, front := 0, []*ssa.Function{sp.child}; d < 3 && len(front) > 0; d++ {
			var next []*ssa.Function
			for _, f := range front {
				allInstrs(f, func(in ssa.Instruction) {
					if ci, ok := in.(*ssa.Call); ok {
						if g := ci.Call.StaticCallee(); g != nil && isOwn(g) && g.Blocks != nil && !tree[g] {
							tree[g] = true
							next = append(next, g)
						}
					}
				})
			}
			front = next
		}
		var mine []ssa.CallInstruction
		for _, cl := range ch.closes {
			if tree[cl.Parent()] {
				mine = append(mine, cl)
			}
		}
		if len(mine) == 0 {
			if len(ch.closes) > 0 {
				c.Undec(rule, key+"→close", call.Pos(), "close(%s) is not in the call tree of goroutine %s: the rule cannot tie it to the end of %s", st.role, fnName(sp.child), st.callee)
			}
			continue // never closed at all: reported by C13.R2
		}
		isClose := func(in ssa.Instruction) bool {
			for _, cl := range mine {
				if cl.(ssa.Instruction) == in {
					return true // a defer counts: once registered the close runs when that function exits
				}
			}
			return false
		}
		var mustClose func(f *ssa.Function, depth int) bool
		mustClose = func(f *ssa.Function, depth int) bool {
			return !c13Path(f.Blocks[0], 0, c13IsReturn, func(in ssa.Instruction) bool {
				if isClose(in) {
					return true
				}
				if ci, ok := in.(*ssa.Call); ok && depth > 0 {
					if g := ci.Call.StaticCallee(); g != nil && tree[g] && g != f {
						return mustClose(g, depth-1)
					}
				}
				return false
			})
		}
		closedBefore := false
		for _, cl := range mine {
			if _, d := cl.(*ssa.Defer); d {
				continue
			}
			for _, sc := range callsIn(cl.Parent(), st.callee) {
				if c13After(cl.(ssa.Instruction), c13Is(sc.(ssa.Instruction)), nil) {
					closedBefore = true
				}
			}
		}
		switch {
		case closedBefore:
			c.Fail(rule, key+"→close", call.Pos(), "close(%s) can run before %s: the stage then sends on / ranges over an already closed channel", st.role, st.callee)
		case !mustClose(sp.child, 3):
			c.Fail(rule, key+"→close", call.Pos(), "goroutine %s can end after %s without close(%s): the next stage never terminates and Run never returns on quit/EOF", fnName(sp.child), st.callee, st.role)
		default:
			c.Ok(rule, key+"→close", call.Pos(), "every path on which goroutine %s ends passes close(%s) (in %s), and the close never precedes a call of %s", fnName(sp.child), st.role, fnName(mine[0].Parent()), st.callee)
		}
	}
	c.Floor(rule, found, 3, "pipeline goroutines of Run (readInput, handleInput, writeOutput)")
	// consumers return only on the closed, drained channel
	for _, cons := range []struct {
		fn   *ssa.Function
		role string
	}{{k.wrOut, "output.channel"}} { // (handleInput may stop at quit: readInput has returned by then, nothing is pending)
		ch := k.role[cons.role]
		if ch == nil {
			continue
		}
		name := fnName(cons.fn)
		var recv *ssa.UnOp
		n := 0
		for _, r := range ch.recvs {
			if u, ok := r.(*ssa.UnOp); ok && u.Parent() == cons.fn && u.CommaOk {
				recv = u
				n++
			}
		}
		if n != 1 {
			c.Undec(rule, name+"#range", cons.fn.Pos(), "%s does not have exactly one `v, ok := <-%s` / range receive (found %d)", name, cons.role, n)
			continue
		}
		bad := 0
		for _, b := range cons.fn.Blocks {
			ret, ok := b.Instrs[len(b.Instrs)-1].(*ssa.Return)
			if !ok || b == cons.fn.Recover {
				continue
			}
			onClosed := false
			for _, ce := range controllingConds(b) {
				if ex, ok := ce.Cond.(*ssa.Extract); ok && ex.Tuple == ssa.Value(recv) && ex.Index == 1 && !ce.True {
					onClosed = true
				}
			}
			if !onClosed {
				bad++
				c.Fail(rule, fmt.Sprintf("%s#early-return%d", name, bad), ret.Pos(), "%s can return while %s is still open/undrained: pending items (a bestmove line, the last commands) are dropped and producers block on the full channel", name, cons.role)
			}
		}
		if bad == 0 {
			c.Ok(rule, name+"#range", recv.Pos(), "%s returns only on the !ok branch of its receive from %s (closed and drained)", name, cons.role)
		}
	}
}

// ---------- mutants ----------

func init() {
	const u = "uci/uci.go"
	addMutants(
		// R1
		Mutant{Name: "C13.R1-info-printed-to-stdout", Prop: "C13", File: "search/search.go",
			Old: "fmt.Fprintf(opts.Output, \"info depth %d nodes %d\\n\", idD, opts.Counters.Nodes)", New: "fmt.Printf(\"info depth %d nodes %d\\n\", idD, opts.Counters.Nodes)",
			Expect: "C13.R1/print@search.(*Search).iterativeDeepen"},
		Mutant{Name: "C13.R1-bestmove-line-in-two-writes", Prop: "C13", File: u,
			Old: "fmt.Fprintf(d.output, \"bestmove %s\\n\", bm)", New: "fmt.Fprintf(d.output, \"bestmove %s\", bm)\n\t\tfmt.Fprintln(d.output)",
			Expect: "C13.R1/print@uci.(*Driver).handleGo"},
		Mutant{Name: "C13.R1-handleGo-forgets-WithOutput", Prop: "C13", File: u,
			Old: "\topts = append(opts, search.WithOutput(d.output))\n", New: "",
			Expect: "C13.R1/handleGo#WithOutput"},
		Mutant{Name: "C13.R1-WithOutput-only-in-debug", Prop: "C13", File: u,
			Old: "\t\topts = append(opts, search.WithDebug(true))\n\t}\n\n\topts = append(opts, search.WithOutput(d.output))\n", New: "\t\topts = append(opts, search.WithDebug(true))\n\t\topts = append(opts, search.WithOutput(d.output))\n\t}\n",
			Expect: "C13.R1/handleGo#WithOutput"},
		Mutant{Name: "C13.R1-readyok-written-to-real-sink", Prop: "C13", File: u,
			Old: "\tcase \"isready\":\n\t\tfmt.Fprintln(d.output, \"readyok\")\n\n\tcase \"spsa\":", New: "\tcase \"isready\":\n\t\td.output.writer.Write([]byte(\"readyok\\n\"))\n\n\tcase \"spsa\":",
			Expect: "C13.R1/writer@uci.(*Driver).handleCommand"},
		Mutant{Name: "C13.R1-eval-printed-to-os-stdout", Prop: "C13", File: u,
			Old: "fmt.Fprintln(d.output, eval.Eval(d.board, &eval.Coefficients))", New: "fmt.Fprintln(os.Stdout, eval.Eval(d.board, &eval.Coefficients))",
			Expect: "C13.R1/stdout@uci.(*Driver).handleEval"},
		Mutant{Name: "C13.R1-fen-without-newline", Prop: "C13", File: u,
			Old: "fmt.Fprintln(d.output, d.board.FEN())", New: "fmt.Fprint(d.output, d.board.FEN())",
			Expect: "C13.R1/print@uci.(*Driver).handleCommand"},
		// R2
		Mutant{Name: "C13.R2-second-close-of-stop", Prop: "C13", File: u, Quick: true,
			Old: "\twg.Wait()\n\n\t// printing", New: "\twg.Wait()\n\tclose(stop)\n\n\t// printing",
			Expect: "C13.R2/stop#close"},
		Mutant{Name: "C13.R2-ponderhit-nil-assignment-dropped", Prop: "C13", File: u,
			Old: "\t\t\t\t\t\tponderHit <- time.Now()\n\t\t\t\t\t\tponderHit = nil\n", New: "\t\t\t\t\t\tponderHit <- time.Now()\n",
			Expect: "C13.R2/ponderHit#send1-once"},
		Mutant{Name: "C13.R2-ponderhit-unbuffered", Prop: "C13", File: u,
			Old: "ponderHit = make(chan time.Time, 1)", New: "ponderHit = make(chan time.Time)",
			Expect: "C13.R2/ponderHit#capacity"},
		Mutant{Name: "C13.R2-ponderhit-guarded-by-flag", Prop: "C13", File: u,
			Old: "if ponderHit != nil {\n", New: "if ponder {\n",
			Expect: "C13.R2/ponderHit#send1-guard"},
		Mutant{Name: "C13.R2-stop-signalled-by-send", Prop: "C13", File: u,
			Old: "\t\tdefer close(stop)\n", New: "\t\tdefer func() { stop <- struct{}{} }()\n",
			Expect: "C13.R2/stop#"},
		Mutant{Name: "C13.R2-readInput-also-closes-on-quit", Prop: "C13", File: u,
			Old: "\t\tif firstWord(line) == \"quit\" {\n\t\t\treturn\n", New: "\t\tif firstWord(line) == \"quit\" {\n\t\t\tclose(d.inputLines)\n\t\t\treturn\n",
			Expect: "C13.R2/inputLines#close"},
		Mutant{Name: "C13.R2-writeOutput-reports-errors-to-sink", Prop: "C13", File: u,
			Old: "\t\t\t\tfmt.Fprintln(d.err, err)\n\t\t\t\tbreak", New: "\t\t\t\tfmt.Fprintln(d.output, \"info string\", err)\n\t\t\t\tbreak",
			Expect: "C13.R2/output.channel#send1"},
		Mutant{Name: "C13.R2-searchFin-closed-in-loop", Prop: "C13", File: u,
			Old: "\tclose(searchFin)\n", New: "\tfor range 2 {\n\t\tclose(searchFin)\n\t}\n",
			Expect: "C13.R2/searchFin#close1"},
		// R3
		Mutant{Name: "C13.R3-writer-started-with-bare-go", Prop: "C13", File: u,
			Old: "\twg.Go(func() {\n\t\td.writeOutput()\n\t})\n", New: "\tgo d.writeOutput()\n",
			Expect: "C13.R3/"},
		Mutant{Name: "C13.R3-early-return-skips-wait", Prop: "C13", File: u,
			Old: "\tclose(searchFin)\n\n\twg.Wait()\n", New: "\tclose(searchFin)\n\tif bm == 0 {\n\t\tfmt.Fprintln(d.output, \"bestmove 0000\")\n\t\treturn false\n\t}\n\n\twg.Wait()\n",
			Expect: "C13.R3/uci.(*Driver).handleGo#spawn1"},
		Mutant{Name: "C13.R3-helper-goroutine-for-timer", Prop: "C13", File: u,
			Old: "\t_, bm, pm := d.search.Go(d.board, opts...)\n", New: "\tvar tw sync.WaitGroup\n\ttw.Go(func() { time.Sleep(time.Duration(tc.hardLimit(stm)) * time.Millisecond) })\n\t_, bm, pm := d.search.Go(d.board, opts...)\n",
			Expect: "C13.R3/uci.(*Driver).handleGo#spawn2"},
		// R4
		Mutant{Name: "C13.R4-bestmove-before-wait", Prop: "C13", File: u, Quick: true,
			Old: "\tclose(searchFin)\n\n\twg.Wait()\n", New: "\tclose(searchFin)\n",
			File2: u, Old2: "\treturn quit\n}", New2: "\twg.Wait()\n\treturn quit\n}",
			Expect: "C13.R4/uci.(*Driver).handleGo#bestmove"},
		Mutant{Name: "C13.R4-bestmove-twice-when-pondering", Prop: "C13", File: u,
			Old: "\t} else {\n\t\tfmt.Fprintf(d.output, \"bestmove %s\\n\", bm)\n\t}\n", New: "\t}\n\tfmt.Fprintf(d.output, \"bestmove %s\\n\", bm)\n",
			Expect: "C13.R4/uci.(*Driver).handleGo#bestmove1"},
		Mutant{Name: "C13.R4-no-bestmove-for-null-move", Prop: "C13", File: u,
			Old: "\twg.Wait()\n\n\t// printing", New: "\twg.Wait()\n\tif bm == 0 {\n\t\treturn quit\n\t}\n\n\t// printing",
			Expect: "C13.R4/uci.(*Driver).handleGo#bestmove-every-path"},
		Mutant{Name: "C13.R4-searchFin-closed-before-search", Prop: "C13", File: u,
			Old: "\t_, bm, pm := d.search.Go(d.board, opts...)\n\tclose(searchFin)\n", New: "\tclose(searchFin)\n\t_, bm, pm := d.search.Go(d.board, opts...)\n",
			Expect: "C13.R4/uci.(*Driver).handleGo#go→close(searchFin)"},
		Mutant{Name: "C13.R4-searchFin-close-deferred", Prop: "C13", File: u,
			Old: "\t_, bm, pm := d.search.Go(d.board, opts...)\n\tclose(searchFin)\n", New: "\tdefer close(searchFin)\n\t_, bm, pm := d.search.Go(d.board, opts...)\n",
			Expect: "C13.R4/uci.(*Driver).handleGo#"},
		Mutant{Name: "C13.R4-isready-ignored-while-searching", Prop: "C13", File: u,
			Old: "\n\t\t\t\tcase \"isready\":\n\t\t\t\t\tfmt.Fprintln(d.output, \"readyok\")\n", New: "\n",
			Expect: "C13.R4/readyok#searching"},
		Mutant{Name: "C13.R4-bestmove-from-interrupt-goroutine", Prop: "C13", File: u,
			Old: "\t\t\t\tcase \"stop\":\n\t\t\t\t\treturn\n", New: "\t\t\t\tcase \"stop\":\n\t\t\t\t\tfmt.Fprintln(d.output, \"bestmove 0000\")\n\t\t\t\t\treturn\n",
			Expect: "C13.R4/bestmove@"},
		// R5
		Mutant{Name: "C13.R5-defer-below-early-return", Prop: "C13", File: u, Quick: true,
			Old: "\t\tdefer close(stop)\n\n\t\tvar hardTimer *time.Timer\n\t\tvar hardC <-chan time.Time\n", New: "\t\tvar hardTimer *time.Timer\n\t\tvar hardC <-chan time.Time\n\t\tif !ponder && tc.timedMode(stm) && tc.hardLimit(stm) <= 0 {\n\t\t\treturn\n\t\t}\n\t\tdefer close(stop)\n",
			Expect: "C13.R5/uci.(*Driver).handleGo$1#close(stop)"},
		Mutant{Name: "C13.R5-select-without-searchFin", Prop: "C13", File: u,
			Old: "\t\t\tcase <-searchFin:\n\t\t\t\treturn\n\n", New: "",
			Expect: "C13.R5/"},
		Mutant{Name: "C13.R5-closed-input-not-tested", Prop: "C13", File: u,
			Old: "\t\t\tcase line, ok := <-d.inputLines:\n\n\t\t\t\tif !ok {\n\t\t\t\t\treturn // d.readInput is finished.\n\t\t\t\t}\n", New: "\t\t\tcase line := <-d.inputLines:\n",
			Expect: "C13.R5/uci.(*Driver).handleGo$1#select1-closed-input"},
		Mutant{Name: "C13.R5-closed-input-continues", Prop: "C13", File: u,
			Old: "\t\t\t\t\treturn // d.readInput is finished.\n", New: "\t\t\t\t\tcontinue\n",
			Expect: "C13.R5/uci.(*Driver).handleGo$1#select1-closed-input"},
		Mutant{Name: "C13.R5-untimed-search-needs-no-watcher", Prop: "C13", File: u,
			Old: "\t\t\thardC = hardTimer.C\n\t\t\tdefer hardTimer.Stop()\n\t\t}\n\n\t\tfor {\n", New: "\t\t\thardC = hardTimer.C\n\t\t\tdefer hardTimer.Stop()\n\t\t} else if len(args) == 0 {\n\t\t\treturn\n\t\t}\n\n\t\tfor {\n",
			Expect: "C13.R5/uci.(*Driver).handleGo$1#early-return"},
		Mutant{Name: "C13.R5-waits-for-timer-outside-select", Prop: "C13", File: u,
			Old: "\t\t\tcase <-hardC:\n\t\t\t\treturn\n", New: "\t\t\tcase t := <-hardC:\n\t\t\t\tif t.IsZero() {\n\t\t\t\t\t<-hardC\n\t\t\t\t}\n\t\t\t\treturn\n",
			Expect: "C13.R5/uci.(*Driver).handleGo$1#blocking-receive"},
		// R6
		Mutant{Name: "C13.R6-quit-read-before-wait", Prop: "C13", File: u, Quick: true,
			Old: "\twg.Wait()\n\n\t// printing", New: "\tq := quit\n\twg.Wait()\n\n\t// printing",
			File2: u, Old2: "\treturn quit\n}", New2: "\treturn q\n}",
			Expect: "C13.R6/uci.(*Driver).handleGo#spawn1#quit"},
		Mutant{Name: "C13.R6-position-handled-while-searching", Prop: "C13", File: u,
			Old: "\t\t\t\tcase \"stop\":\n\t\t\t\t\treturn\n", New: "\t\t\t\tcase \"position\":\n\t\t\t\t\td.handlePosition(strings.Fields(line)[1:])\n\n\t\t\t\tcase \"stop\":\n\t\t\t\t\treturn\n",
			Expect: "C13.R6/uci.(*Driver).handleGo#spawn1#field:uci.Driver.board"},
		Mutant{Name: "C13.R6-ponder-flag-cleared-after-spawn", Prop: "C13", File: u,
			Old: "\t_, bm, pm := d.search.Go(d.board, opts...)\n", New: "\tponder = ponder && d.ponder\n\t_, bm, pm := d.search.Go(d.board, opts...)\n",
			Expect: "C13.R6/uci.(*Driver).handleGo#spawn1#ponder"},
		// R7
		Mutant{Name: "C13.R7-inputLines-closed-before-reading", Prop: "C13", File: u,
			Old: "\t\td.readInput()\n\t\tclose(d.inputLines)\n", New: "\t\tclose(d.inputLines)\n\t\td.readInput()\n",
			Expect: "C13.R7/Run#uci.(*Driver).readInput→close"},
		Mutant{Name: "C13.R7-output-channel-never-closed-on-path", Prop: "C13", File: u,
			Old: "\t\td.handleInput()\n\t\tclose(d.output.channel)\n", New: "\t\td.handleInput()\n\t\tif d.debug {\n\t\t\treturn\n\t\t}\n\t\tclose(d.output.channel)\n",
			Expect: "C13.R7/Run#uci.(*Driver).handleInput→close"},
		Mutant{Name: "C13.R7-writeOutput-gives-up-on-error", Prop: "C13", File: u,
			Old: "\t\t\t\tfmt.Fprintln(d.err, err)\n\t\t\t\tbreak", New: "\t\t\t\tfmt.Fprintln(d.err, err)\n\t\t\t\treturn",
			Expect: "C13.R7/uci.(*Driver).writeOutput#early-return"},
		Mutant{Name: "C13.R7-channel-made-after-first-spawn", Prop: "C13", File: u,
			Old: "\td.output.channel = make(chan *[]byte, OutputBufDepth)\n\n\twg := sync.WaitGroup{}\n\twg.Go(func() {\n\t\td.readInput()\n\t\tclose(d.inputLines)\n\t})\n", New: "\twg := sync.WaitGroup{}\n\twg.Go(func() {\n\t\td.readInput()\n\t\tclose(d.inputLines)\n\t})\n\td.output.channel = make(chan *[]byte, OutputBufDepth)\n",
			Expect: "C13.R7/Run#make-output.channel"},
	)
}
