package main

// Obligations, verdicts, known findings and evidence.

import (
	"encoding/json"
	"fmt"
	"go/token"
	"os"
	"path/filepath"
	"regexp"
	"sort"
	"strings"
	"time"
)

// VerifDir is where evidence, findings and known_findings.json live.
func VerifDir() string {
	if d := os.Getenv("CHESSLINT_VERIF"); d != "" {
		return d
	}
	return "/verif"
}

type Verdict string

const (
	OK        Verdict = "ok"
	Violation Verdict = "violation"
	Undecided Verdict = "undecided"
)

// Ob is one obligation: a rule instantiated at a construct.
type Ob struct {
	Rule       string  `json:"rule"`
	Construct  string  `json:"construct"`
	Pos        string  `json:"pos"`
	Verdict    Verdict `json:"verdict"`
	Detail     string  `json:"detail,omitempty"`
	Config     string  `json:"config,omitempty"`
	Nontrivial bool    `json:"nontrivial,omitempty"`
}

func (o Ob) Key() string { return o.Rule + "/" + o.Construct }

// Ctx is the state of one property check.
type Ctx struct {
	Prop    string
	Tier    string
	Seed    int64
	Progs   *Progs
	Obs     []Ob
	Notes   []string
	Assume  []string
	Explain string
	// Only, when set, restricts reporting to one obligation key (explain mode).
	start time.Time
	// current program for position rendering
	cur *Prog
	// rename, when set, maps the rule id a shared rule reports under to the id of the property that
	// re-evaluates it as one of its own premises (see As).
	rename func(string) string
}

// As runs f with every obligation whose rule id starts with `from` recorded under `to` instead:
// a property that rests on another property's rule re-evaluates it as a premise of its own.
func (c *Ctx) As(from, to string, f func()) {
	old := c.rename
	c.rename = func(r string) string {
		if old != nil {
			r = old(r)
		}
		if strings.HasPrefix(r, from) {
			return to + r[len(from):]
		}
		return r
	}
	defer func() { c.rename = old }()
	f()
}

// Progs is the lazily loaded set of configurations.
type Progs struct {
	cache   map[string]*Prog
	errs    map[string]error
	Overlay map[string][]byte // absolute file name -> replacement content (mutant controls)
}

func NewProgs() *Progs { return &Progs{cache: map[string]*Prog{}, errs: map[string]error{}} }

// Get loads (once) a named configuration.
func (ps *Progs) Get(name string) (*Prog, error) {
	if p, ok := ps.cache[name]; ok {
		return p, ps.errs[name]
	}
	var p *Prog
	var err error
	repo := RepoDir()
	switch name {
	case "default":
		p, err = Load(name, repo, "", []string{"./..."}, 15, nil, true, ps.Overlay)
	case "spsa":
		p, err = Load(name, repo, "spsa", []string{"./..."}, 15, nil, true, ps.Overlay)
	case "tuner":
		p, err = Load(name, filepath.Join(repo, "tools/tuner"), "", []string{"./epd", "./tuning"}, 2, nil, true, ps.Overlay)
	case "tuner-client":
		p, err = Load(name, filepath.Join(repo, "tools/tuner"), "", []string{"./client"}, 1, []string{"/client", "/shim", "/grpc/tuner", "/checksum", "/tui", "/server"}, false, ps.Overlay)
	case "datagen-client":
		p, err = Load(name, filepath.Join(repo, "tools/datagen"), "", []string{"./client"}, 1, []string{"/client", "/shim", "/grpc/datagen", "/server"}, false, ps.Overlay)
	case "extract":
		p, err = Load(name, filepath.Join(repo, "tools/extract"), "", []string{"./..."}, 1, []string{"/extract", "/sampling"}, false, ps.Overlay)
	default:
		if strings.HasPrefix(name, "control:") {
			err = fmt.Errorf("unknown configuration %q", name)
		} else {
			err = fmt.Errorf("unknown configuration %q", name)
		}
	}
	ps.cache[name] = p
	ps.errs[name] = err
	return p, err
}

// Use sets the program used to render positions and the config recorded in obligations.
func (c *Ctx) Use(p *Prog) { c.cur = p }

func (c *Ctx) pos(pos token.Pos) string {
	if c.cur == nil {
		return "-"
	}
	return c.cur.Rel(pos)
}

func (c *Ctx) add(rule, construct string, pos token.Pos, v Verdict, nontrivial bool, format string, args ...any) {
	if c.rename != nil {
		rule = c.rename(rule)
	}
	o := Ob{Rule: rule, Construct: construct, Pos: c.pos(pos), Verdict: v, Nontrivial: nontrivial, Detail: fmt.Sprintf(format, args...)}
	if c.cur != nil {
		o.Config = c.cur.Name
	}
	c.Obs = append(c.Obs, o)
}

// Ok records a discharged obligation that needed a path/dataflow/constant argument.
func (c *Ctx) Ok(rule, construct string, pos token.Pos, format string, args ...any) {
	c.add(rule, construct, pos, OK, true, format, args...)
}

// OkTrivial records a discharged obligation that is a mere existence test.
func (c *Ctx) OkTrivial(rule, construct string, pos token.Pos, format string, args ...any) {
	c.add(rule, construct, pos, OK, false, format, args...)
}

// Fail records a violated obligation.
func (c *Ctx) Fail(rule, construct string, pos token.Pos, format string, args ...any) {
	c.add(rule, construct, pos, Violation, true, format, args...)
}

// Undec records an obligation the rule could not decide (fails the check).
func (c *Ctx) Undec(rule, construct string, pos token.Pos, format string, args ...any) {
	c.add(rule, construct, pos, Undecided, true, format, args...)
}

// Check records ok/fail depending on cond.
func (c *Ctx) Check(cond bool, rule, construct string, pos token.Pos, format string, args ...any) bool {
	if cond {
		c.Ok(rule, construct, pos, format, args...)
	} else {
		c.Fail(rule, construct, pos, format, args...)
	}
	return cond
}

// Floor asserts that a rule matched at least min instances.
func (c *Ctx) Floor(rule string, got, min int, what string) {
	if got < min {
		c.add(rule, "floor", token.NoPos, Undecided, false, "instance floor not met: %d %s found, at least %d confirmed by hand on the pinned tree — the analysed shape is gone, rule cannot decide", got, what, min)
	} else {
		c.add(rule, "floor", token.NoPos, OK, false, "%d %s (floor %d)", got, what, min)
	}
}

// Exact asserts that a rule matched exactly n instances (more means a new sibling that must be triaged).
func (c *Ctx) Exact(rule string, got, n int, what string) {
	if got != n {
		c.add(rule, "count", token.NoPos, Undecided, false, "expected exactly %d %s, found %d — a new/removed instance must be triaged", n, what, got)
	} else {
		c.add(rule, "count", token.NoPos, OK, false, "%d %s", got, what)
	}
}

// Anchor reports an unresolved anchor.
func (c *Ctx) Anchor(rule, name string) {
	c.add(rule, "anchor:"+name, token.NoPos, Undecided, false, "anchor %s does not resolve in the current tree; rule cannot decide", name)
}

// Note adds an informational note to the evidence.
func (c *Ctx) Note(format string, args ...any) {
	c.Notes = append(c.Notes, fmt.Sprintf(format, args...))
}

// ----- known findings -----

type KnownFinding struct {
	Property string `json:"property"`
	Key      string `json:"key"` // rule/construct
	What     string `json:"what"`
	Input    string `json:"failing_input,omitempty"`
}

type KnownFile struct {
	Known []KnownFinding `json:"known_findings"`
	Fixed []string       `json:"fixed"`
}

func loadKnown() KnownFile {
	var kf KnownFile
	b, err := os.ReadFile(filepath.Join(VerifDir(), "known_findings.json"))
	if err == nil {
		_ = json.Unmarshal(b, &kf)
	}
	return kf
}

// ----- evidence -----

type evidence struct {
	PropertyID  string         `json:"property_id"`
	Tier        string         `json:"tier"`
	Seed        int64          `json:"seed"`
	Level       string         `json:"level"`
	Coverage    map[string]any `json:"coverage"`
	Assumptions []string       `json:"assumptions"`
	WallS       float64        `json:"wall_s"`
	Violations  int            `json:"violations"`
}

var unsafeFile = regexp.MustCompile(`[^A-Za-z0-9_.()*#@-]+`)

// Finish prints the verdict lines, writes evidence and findings, returns the exit code.
func (c *Ctx) Finish() int {
	known := loadKnown()
	isKnown := map[string]KnownFinding{}
	for _, k := range known.Known {
		if k.Property == c.Prop {
			isKnown[k.Key] = k
		}
	}
	sort.SliceStable(c.Obs, func(i, j int) bool {
		if c.Obs[i].Rule != c.Obs[j].Rule {
			return c.Obs[i].Rule < c.Obs[j].Rule
		}
		return c.Obs[i].Construct < c.Obs[j].Construct
	})
	findDir := filepath.Join(VerifDir(), "findings")
	_ = os.MkdirAll(findDir, 0o755)
	// remove stale finding files of this property
	if ents, err := os.ReadDir(findDir); err == nil {
		for _, e := range ents {
			if strings.HasPrefix(e.Name(), c.Prop+"-") {
				_ = os.Remove(filepath.Join(findDir, e.Name()))
			}
		}
	}
	distinct := map[string]bool{}
	distinctNT := map[string]bool{}
	rules := map[string]int{}
	discharged := 0
	violations := 0
	knownSeen := 0
	var bad []Ob
	seenKey := map[string]bool{}
	for _, o := range c.Obs {
		k := o.Key() + "@" + o.Config
		distinct[k] = true
		if o.Nontrivial {
			distinctNT[o.Key()] = true
		}
		rules[o.Rule]++
		switch o.Verdict {
		case OK:
			discharged++
		default:
			if kf, ok := isKnown[o.Key()]; ok && o.Verdict == Violation {
				if !seenKey[o.Key()] {
					fmt.Printf("KNOWN-FINDING: property=%s %s [%s at %s]\n", c.Prop, kf.What, o.Key(), o.Pos)
					knownSeen++
				}
				seenKey[o.Key()] = true
				continue
			}
			violations++
			bad = append(bad, o)
		}
	}
	for i, o := range bad {
		name := fmt.Sprintf("%s-%s.json", c.Prop, unsafeFile.ReplaceAllString(o.Key(), "_"))
		if len(name) > 180 {
			name = fmt.Sprintf("%s-%d.json", name[:160], i)
		}
		path := filepath.Join(findDir, name)
		b, _ := json.MarshalIndent(map[string]any{"property": c.Prop, "obligation": o, "replay": fmt.Sprintf("./bin/chesslint explain %s", path)}, "", " ")
		_ = os.WriteFile(path, b, 0o644)
		fmt.Printf("%s: [%s] %s: %s (%s)\n", o.Pos, o.Rule, o.Construct, o.Detail, o.Verdict)
		fmt.Printf("VIOLATION property=%s replay=%s\n", c.Prop, path)
	}
	// samples: all failing + a seed-rotated selection of ok ones, at most 40
	var samples []Ob
	samples = append(samples, bad...)
	var oks []Ob
	for _, o := range c.Obs {
		if o.Verdict == OK && o.Nontrivial {
			oks = append(oks, o)
		}
	}
	if n := len(oks); n > 0 {
		off := int(c.Seed % int64(n))
		if off < 0 {
			off = -off
		}
		step := 1
		if n > 40 {
			step = n / 40
		}
		for i := 0; i < n && len(samples) < 40+len(bad); i += step {
			samples = append(samples, oks[(off+i)%n])
		}
	}
	ruleList := make([]string, 0, len(rules))
	for r, n := range rules {
		ruleList = append(ruleList, fmt.Sprintf("%s:%d", r, n))
	}
	sort.Strings(ruleList)
	var cfgs []string
	for name, p := range c.Progs.cache {
		if p != nil {
			cfgs = append(cfgs, fmt.Sprintf("%s(%d pkgs)", name, len(p.Pkgs)))
			c.Notes = append(c.Notes, p.Notes...)
		}
	}
	sort.Strings(cfgs)
	ev := evidence{
		PropertyID: c.Prop, Tier: c.Tier, Seed: c.Seed, Level: "other",
		Coverage: map[string]any{
			"explanation":         c.Explain,
			"obligations":         len(c.Obs),
			"discharged":          discharged,
			"evaluations":         len(c.Obs),
			"distinct_nontrivial": len(distinctNT),
			"rule":                "one obligation per (rule, construct, configuration); distinct = distinct (rule, construct); non-trivial = needed a path, dataflow, constant-evaluation or sibling-comparison argument rather than an existence/count test",
			"rules_instances":     ruleList,
			"configurations":      cfgs,
			"known_findings_seen": knownSeen,
			"samples":             samples,
			"notes":               c.Notes,
			"checker_cmd":         fmt.Sprintf("./bin/chesslint check %s --tier %s", c.Prop, c.Tier),
		},
		Assumptions: c.Assume,
		WallS:       time.Since(c.start).Seconds(),
		Violations:  violations,
	}
	if ev.Assumptions == nil {
		ev.Assumptions = []string{}
	}
	evDir := filepath.Join(VerifDir(), "evidence")
	_ = os.MkdirAll(evDir, 0o755)
	b, _ := json.MarshalIndent(ev, "", " ")
	if err := os.WriteFile(filepath.Join(evDir, c.Prop+".json"), append(b, '\n'), 0o644); err != nil {
		fmt.Printf("cannot write evidence: %v\n", err)
		return 2
	}
	fmt.Printf("%s tier=%s: %d obligations over %d rules, %d discharged, %d known findings, %d violations/undecided (%.1fs)\n",
		c.Prop, c.Tier, len(c.Obs), len(rules), discharged, knownSeen, violations, ev.WallS)
	if violations > 0 {
		return 1
	}
	return 0
}
