package main

// C11 — FEN parsing and printing are inverse and robust.
//
// R1 (engines F+B) board.ParseFEN cannot panic: every potentially panicking instruction in its closure is
//    enumerated and discharged by a forward must-dataflow on the SSA CFG (facts "cursor+k < len"), by range
//    facts, or by structural invariants of the parser object. Nothing is matched by name: the parser struct,
//    its buffer/length/cursor fields, the combinator and the list of field parsers are derived from the
//    composite literal and the call in ParseFEN.
// R2 (engine C) uci installs a parsed board only after acceptance.
// R3 (engines D+E) parser and printer use the same alphabets and field order, by evaluating their closed
//    byte-level expressions.
// R4 (engine B) the tools reach FEN parsing only through board.ParseFEN.

import (
	"fmt"
	"go/ast"
	"go/constant"
	"go/token"
	"go/types"
	"math"
	"sort"
	"strings"

	"golang.org/x/tools/go/ssa"
)

func init() {
	register(&Property{
		ID: "C11",
		Explain: "Static conditions for 'FEN parsing and printing are inverse and robust'. " +
			"R1 (complete for the clause 'ParseFEN never panics on any byte string', given a non-nil *Board): every index, slice, signed shift, division, map write, pointer dereference, type assertion, panic and call in the closure of board.ParseFEN is enumerated; each byte index buf[cursor+k] is discharged by a forward must-dataflow on the SSA control-flow graph (fact cursor+k < len generated on comparison edges, shifted by cursor increments, killed by calls that may move the cursor), using the object invariant len(buf)==length field (both stored once, in ParseFEN's literal), the entry fact established by the combinator for every field parser but the first, and the monotone cursor (only ever incremented from 0); fixed-array indexes and shift counts by range facts from dominating comparisons, the value set of the immutable letter map, or a two-valued phi. " +
			"R2: every store of a FromFEN result into Driver.board is dominated by err==nil and by the false edge of InvalidPieceCount() on that board; FromFEN returns a board only after ParseFEN returned nil and after ResetHash. " +
			"R3: by evaluating the closed byte-level expressions of parser and printer: piece letters, castling letters (all 16 right sets round-trip, printed in KQkq order), side letter, en-passant square text (ranks 3 and 6, '-' for none), order of the six fields, counter ranges (halfmove 0..100 accepted and fitting the field type, fullmove >= 1 unbounded). " +
			"R4: epd.Parse slices only under a length test, hands the board only to board.ParseFEN of this tree and reports success only after it accepted; tools/extract calls board.ParseFEN and tests its error. " +
			"Not decided: value round trip of placement for all positions (digit runs, rank separators), decimal printing/parsing of the counters, separators between fields, that InvalidPieceCount never rejects a reachable position, termination, ResetHash inside FromFEN.",
		Assume: []string{
			"go/ssa and go/types model the program faithfully; no reflect/unsafe access to the parser object",
			"the cursor does not wrap around (it starts at 0 and is only incremented by constants)",
			"ParseFEN is called with a non-nil *Board (design: nil *Board argument excluded)",
			"errors.New and fmt.Errorf do not panic (fmt recovers panics of argument methods)",
		},
		Run: runC11,
	})
}

// c11Extract loads tools/extract (AST + partial types) concurrently with the main configuration. The stock
// "extract" configuration tolerates type errors only in the tool's own packages; offline, golang.org/x/exp
// (needed by chess/math.go at the version the tool's go.mod pins) is missing, so errors are tolerated
// everywhere: only identifier resolution of board.ParseFEN / board.Board fields is relied upon.
func c11Extract(c *Ctx) func() (*Prog, error) {
	var x *Prog
	var err error
	done := make(chan struct{})
	overlay := c.Progs.Overlay
	go func() {
		defer close(done)
		x, err = Load("extract-ast", RepoDir()+"/tools/extract", "", []string{"./..."}, 1, []string{""}, false, overlay)
	}()
	return func() (*Prog, error) { <-done; return x, err }
}

func runC11(c *Ctx) {
	extract := c11Extract(c)
	p := c.need("default")
	if p == nil {
		return
	}
	m := c11Resolve(c, p, "C11.R1")
	if m != nil {
		c11R1(c, m)
	}
	c11R2(c, p)
	if m != nil {
		c11R3(c, m)
	}
	c11R4(c, extract)
	c.Use(p)
	parseFENResetRule(c, p, "C11.R5")
	c11R6(c, p)
	// a rejected FEN must leave the engine's position untouched — also when a move list follows it
	c.As("C02.R8", "C11.R7.rejected-fen", func() { c02R8(c, p) })
}

// ---------------------------------------------------------------- model of the parser

type c11Model struct {
	p                      *Prog
	root                   *ssa.Function // board.ParseFEN
	T                      *types.Named  // the parser struct
	st                     *types.Struct
	fBuf, fLen, fCur, fB   int        // field indexes by role
	lit                    *ssa.Alloc // composite literal
	obj                    ssa.Value  // object all methods run on
	seq                    *ssa.Function
	dyn                    *ssa.Call // the combinator's indirect call
	parsers, wrappers, fns []*ssa.Function
	inClosure, moves       map[*ssa.Function]bool // moves: may store the cursor (transitively)
	mapCache               map[*ssa.Global]map[int64]int64
	flows                  map[*ssa.Function]*c11Flow
	sums                   map[*ssa.Function][3]int
	tabCache               map[*ssa.Global][][]int64
}

func (m *c11Model) fname(i int) string { return m.T.Obj().Name() + "." + m.st.Field(i).Name() }
func (m *c11Model) qname(i int) string { return relPkg(m.T.Obj().Pkg().Path()) + "." + m.fname(i) }

func (m *c11Model) isPtrT(t types.Type) bool {
	pt, ok := t.Underlying().(*types.Pointer)
	return ok && types.Identical(pt.Elem(), m.T)
}

// field: v is &x.f with x of type *T.
func (m *c11Model) field(v ssa.Value) (ssa.Value, int, bool) {
	if fa, ok := v.(*ssa.FieldAddr); ok && m.isPtrT(fa.X.Type()) {
		return fa.X, fa.Field, true
	}
	return nil, 0, false
}

func c11Load(v ssa.Value) (*ssa.UnOp, bool) {
	u, ok := v.(*ssa.UnOp)
	return u, ok && u.Op == token.MUL
}

// loadOf: v is a load of recv.f (any base when recv == nil).
func (m *c11Model) loadOf(v, recv ssa.Value, f int) bool {
	if u, ok := c11Load(v); ok {
		b, i, ok := m.field(u.X)
		return ok && i == f && (recv == nil || b == recv)
	}
	return false
}

func c11Int(v ssa.Value) (int64, bool) {
	if k, ok := v.(*ssa.Const); ok && k.Value != nil && k.Value.Kind() == constant.Int {
		return constant.Int64Val(k.Value)
	}
	return 0, false
}

func c11Str(v ssa.Value) (string, bool) {
	if k, ok := v.(*ssa.Const); ok && k.Value != nil && k.Value.Kind() == constant.String {
		return constant.StringVal(k.Value), true
	}
	return "", false
}

func c11IsNil(v ssa.Value) bool { k, ok := v.(*ssa.Const); return ok && k.Value == nil }

func c11Builtin(v ssa.Value, name string) (*ssa.Call, bool) {
	if call, ok := v.(*ssa.Call); ok {
		b, ok := call.Call.Value.(*ssa.Builtin)
		return call, ok && b.Name() == name
	}
	return nil, false
}

// c11Varargs: elements stored (at constant indexes) into the array behind a `slice arr[:]` value.
func c11Varargs(v ssa.Value) []ssa.Value {
	sl, ok := v.(*ssa.Slice)
	if !ok {
		return nil
	}
	arr, ok := sl.X.(*ssa.Alloc)
	if !ok {
		return nil
	}
	var out []ssa.Value
	for _, r := range *arr.Referrers() {
		switch ia := r.(type) {
		case *ssa.IndexAddr:
			i, ok := c11Int(ia.Index)
			if !ok {
				return nil
			}
			for _, r2 := range *ia.Referrers() {
				st, ok := r2.(*ssa.Store)
				if !ok || st.Addr != ssa.Value(ia) {
					return nil
				}
				for int64(len(out)) <= i {
					out = append(out, nil)
				}
				out[i] = st.Val
			}
		case *ssa.Slice, *ssa.DebugRef:
		default:
			return nil
		}
	}
	return out
}

// recvOf gives the value that denotes the parser object inside fn.
func (m *c11Model) recvOf(fn *ssa.Function) ssa.Value {
	switch {
	case fn == m.root:
		return m.obj
	case fn.Signature.Recv() != nil && len(fn.Params) > 0 && m.isPtrT(fn.Params[0].Type()):
		return fn.Params[0]
	case len(fn.FreeVars) == 1 && m.isPtrT(fn.FreeVars[0].Type()):
		return fn.FreeVars[0]
	}
	return nil
}

func c11Resolve(c *Ctx, p *Prog, rule string) *c11Model {
	root := p.Func("board.ParseFEN")
	if root == nil {
		c.Anchor(rule, "board.ParseFEN")
		return nil
	}
	bad := func(format string, a ...any) *c11Model {
		c.Undec(rule, "board.ParseFEN#shape", root.Pos(), "parser object not recognised: "+format, a...)
		return nil
	}
	if len(root.Params) != 2 {
		return bad("expected (board, bytes) parameters")
	}
	pb, pfen := root.Params[0], root.Params[1]
	m := &c11Model{p: p, root: root, fBuf: -1, fLen: -1, fCur: -1, fB: -1, inClosure: map[*ssa.Function]bool{}, moves: map[*ssa.Function]bool{}, mapCache: map[*ssa.Global]map[int64]int64{}, flows: map[*ssa.Function]*c11Flow{}, sums: map[*ssa.Function][3]int{}}
	// roles of the fields: from what the literal stores into them
	allInstrs(root, func(in ssa.Instruction) {
		st, _ := in.(*ssa.Store)
		if st == nil {
			return
		}
		fa, _ := st.Addr.(*ssa.FieldAddr)
		if fa == nil {
			return
		}
		al, _ := fa.X.(*ssa.Alloc)
		if al == nil || (m.lit != nil && m.lit != al) {
			return
		}
		nt, sty := structOf(al.Type())
		var dst *int
		if call, ok := c11Builtin(st.Val, "len"); st.Val == pfen {
			dst = &m.fBuf
		} else if ok && call.Call.Args[0] == pfen {
			dst = &m.fLen
		} else if st.Val == pb {
			dst = &m.fB
		}
		if dst != nil && nt != nil && sty != nil {
			m.lit, m.T, m.st, *dst = al, nt, sty, fa.Field
		}
	})
	if m.lit == nil || m.fBuf < 0 || m.fLen < 0 || m.fB < 0 {
		return bad("no local struct literal storing the byte slice, its len() and the board")
	}
	for i := 0; i < m.st.NumFields(); i++ {
		if b, ok := m.st.Field(i).Type().Underlying().(*types.Basic); ok && b.Kind() == types.Int && i != m.fLen {
			if m.fCur >= 0 {
				return bad("more than one candidate cursor field in %s", m.T.Obj().Name())
			}
			m.fCur = i
		}
	}
	if m.fCur < 0 {
		return bad("no int cursor field in %s", m.T.Obj().Name())
	}
	// the object the methods run on: the literal itself or the variable it is copied into
	m.obj = m.lit
	for _, r := range *m.lit.Referrers() {
		if ld, ok := c11Load(r.(ssa.Value)); ok {
			for _, r2 := range *ld.Referrers() {
				if st, ok := r2.(*ssa.Store); ok && st.Val == ssa.Value(ld) {
					if al, ok := st.Addr.(*ssa.Alloc); ok {
						m.obj = al
					}
				}
			}
		}
	}
	// combinator call: static call on obj taking a list of bound methods of obj
	allInstrs(root, func(in ssa.Instruction) {
		call, ok := in.(*ssa.Call)
		if !ok || m.seq != nil {
			return
		}
		callee := call.Call.StaticCallee()
		if callee == nil || !isOwn(callee) || len(call.Call.Args) != 2 || call.Call.Args[0] != m.obj {
			return
		}
		elems := c11Varargs(call.Call.Args[1])
		var ws, ps []*ssa.Function
		for _, e := range elems {
			mc, ok := e.(*ssa.MakeClosure)
			if !ok || len(mc.Bindings) != 1 || mc.Bindings[0] != m.obj || len(*mc.Referrers()) != 1 {
				return
			}
			w := mc.Fn.(*ssa.Function) // bound-method wrapper: one block, one call method(recv)
			var meth *ssa.Function
			n := 0
			allInstrs(w, func(in ssa.Instruction) {
				if cl, ok := in.(*ssa.Call); ok {
					n++
					if len(w.FreeVars) == 1 && len(cl.Call.Args) == 1 && cl.Call.Args[0] == ssa.Value(w.FreeVars[0]) {
						meth = cl.Call.StaticCallee()
					}
				}
			})
			if meth == nil || n != 1 || len(w.Blocks) != 1 {
				return
			}
			ws, ps = append(ws, w), append(ps, meth)
		}
		if len(ps) > 0 && len(*call.Call.Args[1].Referrers()) == 1 {
			m.seq, m.wrappers, m.parsers = callee, ws, ps
		}
	})
	if m.seq == nil {
		return bad("no call handing a list of bound field parsers of the parser object to a combinator")
	}
	// the combinator's single indirect call: parsers[i]()
	n := 0
	allInstrs(m.seq, func(in ssa.Instruction) {
		call, ok := in.(*ssa.Call)
		if !ok || call.Call.StaticCallee() != nil || call.Call.IsInvoke() {
			return
		}
		if _, isB := call.Call.Value.(*ssa.Builtin); isB {
			return
		}
		n++
		if ld, ok := c11Load(call.Call.Value); ok && len(m.seq.Params) == 2 && len(call.Call.Args) == 0 {
			if ia, ok := ld.X.(*ssa.IndexAddr); ok && ia.X == ssa.Value(m.seq.Params[1]) {
				m.dyn = call
			}
		}
	})
	if m.dyn == nil || n != 1 {
		c.Undec(rule, fnName(m.seq)+"#shape", m.seq.Pos(), "combinator must contain exactly one indirect call, of an element of its slice parameter")
		return nil
	}
	for _, r := range *m.seq.Params[1].Referrers() { // the list is only indexed and measured
		_, isLen := c11Builtin(c11AsValue(r), "len")
		switch r.(type) {
		case *ssa.IndexAddr, *ssa.DebugRef:
		default:
			if !isLen {
				return bad("the parser list is used by %T in %s", r, fnName(m.seq))
			}
		}
	}
	// closure over static own callees and the wrappers; which functions may move the cursor
	var visit func(fn *ssa.Function)
	visit = func(fn *ssa.Function) {
		if fn == nil || m.inClosure[fn] || !isOwn(fn) || fn.Blocks == nil {
			return
		}
		m.inClosure[fn] = true
		m.fns = append(m.fns, fn)
		allInstrs(fn, func(in ssa.Instruction) {
			switch x := in.(type) {
			case ssa.CallInstruction:
				visit(x.Common().StaticCallee())
				if _, isB := x.Common().Value.(*ssa.Builtin); x.Common().StaticCallee() == nil && !isB {
					m.moves[fn] = true // dynamic call
				}
			case *ssa.MakeClosure:
				visit(x.Fn.(*ssa.Function))
			case *ssa.Store:
				if _, f, ok := m.field(x.Addr); (ok && f == m.fCur) || m.isPtrT(x.Addr.Type()) {
					m.moves[fn] = true
				}
			}
		})
	}
	visit(root)
	for changed := true; changed; {
		changed = false
		for _, fn := range m.fns {
			allInstrs(fn, func(in ssa.Instruction) {
				if ci, ok := in.(ssa.CallInstruction); ok && !m.moves[fn] && m.moves[ci.Common().StaticCallee()] {
					m.moves[fn], changed = true, true
				}
			})
		}
	}
	return m
}

func c11AsValue(in ssa.Instruction) ssa.Value { v, _ := in.(ssa.Value); return v }

// c11Name: "pkg.Func" / "pkg.Type.Method" of a declared function; "" for anonymous functions and wrappers.
func c11Name(fn *ssa.Function) string {
	if obj := fnObj(fn); fn != nil && obj != nil {
		return externName(obj)
	}
	return ""
}

// staticClosure: fn and the functions of the parser closure it reaches through static calls.
func (m *c11Model) staticClosure(fn *ssa.Function) []*ssa.Function {
	seen := map[*ssa.Function]bool{}
	var out []*ssa.Function
	var visit func(f *ssa.Function)
	visit = func(f *ssa.Function) {
		if f == nil || seen[f] || !m.inClosure[f] {
			return
		}
		seen[f] = true
		out = append(out, f)
		allInstrs(f, func(in ssa.Instruction) {
			if ci, ok := in.(ssa.CallInstruction); ok {
				visit(ci.Common().StaticCallee())
			}
		})
	}
	visit(fn)
	return out
}

// ---------------------------------------------------------------- edge conditions, ranges

// c11EdgeConds lists the branch conditions that hold whenever control is in b: the edge d->s was taken
// (s dominates b, and every other predecessor of s is a back edge from inside s's region).
func c11EdgeConds(b *ssa.BasicBlock) []condEdge {
	var out []condEdge
	for _, d := range b.Parent().Blocks {
		iff, ok := d.Instrs[len(d.Instrs)-1].(*ssa.If)
		if !ok || d.Succs[0] == d.Succs[1] {
			continue
		}
		for i, s := range d.Succs {
			only := s.Dominates(b)
			for _, q := range s.Preds {
				only = only && (q == d || s.Dominates(q))
			}
			if only {
				out = append(out, condEdge{iff.Cond, i == 0, iff})
			}
		}
	}
	return out
}

var (
	c11Neg  = map[token.Token]token.Token{token.LSS: token.GEQ, token.GEQ: token.LSS, token.GTR: token.LEQ, token.LEQ: token.GTR, token.EQL: token.NEQ, token.NEQ: token.EQL}
	c11Swap = map[token.Token]token.Token{token.LSS: token.GTR, token.GTR: token.LSS, token.LEQ: token.GEQ, token.GEQ: token.LEQ, token.EQL: token.EQL, token.NEQ: token.NEQ}
)

// c11Strip removes negations: returns the core condition and the polarity under which the edge holds.
func c11Strip(ce condEdge) (ssa.Value, bool) {
	cond, pos := ce.Cond, ce.True
	for {
		u, ok := cond.(*ssa.UnOp)
		if !ok || u.Op != token.NOT {
			return cond, pos
		}
		cond, pos = u.X, !pos
	}
}

// c11Cmp normalises a branch condition to the comparison (op, X, Y) that holds on the edge.
func c11Cmp(ce condEdge) (token.Token, ssa.Value, ssa.Value, bool) {
	cond, pos := c11Strip(ce)
	bo, ok := cond.(*ssa.BinOp)
	if !ok {
		return 0, nil, nil, false
	}
	op := bo.Op
	if _, cmp := c11Neg[op]; !cmp {
		return 0, nil, nil, false
	}
	if !pos {
		op = c11Neg[op]
	}
	return op, bo.X, bo.Y, true
}

// c11CmpWith: like c11Cmp, oriented so that X satisfies isX and Y is a constant.
func c11CmpWith(ce condEdge, isX func(ssa.Value) bool) (token.Token, int64, bool) {
	op, X, Y, ok := c11Cmp(ce)
	if ok && !isX(X) {
		X, Y, op = Y, X, c11Swap[op]
	}
	k, isK := c11Int(Y)
	return op, k, ok && isK && isX(X)
}

type c11Iv struct{ lo, hi int64 }

func (a c11Iv) within(lo, hi int64) bool { return a.lo >= lo && a.hi <= hi }
func (a c11Iv) String() string {
	s := func(v int64) string {
		if v == math.MinInt64 || v == math.MaxInt64 {
			return map[bool]string{true: "-inf", false: "+inf"}[v < 0]
		}
		return fmt.Sprint(v)
	}
	return "[" + s(a.lo) + "," + s(a.hi) + "]"
}

func c11TypeRange(t types.Type) c11Iv {
	if b, ok := t.Underlying().(*types.Basic); ok {
		bits := map[types.BasicKind]uint{types.Uint8: 8, types.Int8: 8, types.Uint16: 16, types.Int16: 16, types.Uint32: 32, types.Int32: 32}[b.Kind()]
		switch {
		case bits > 0 && b.Info()&types.IsUnsigned != 0:
			return c11Iv{0, 1<<bits - 1}
		case bits > 0:
			return c11Iv{-(1 << (bits - 1)), 1<<(bits-1) - 1}
		case b.Info()&types.IsUnsigned != 0:
			return c11Iv{0, math.MaxInt64}
		}
	}
	return c11Iv{math.MinInt64, math.MaxInt64}
}

// rng: interval of v whenever control is in block at.
func (m *c11Model) rng(v ssa.Value, at *ssa.BasicBlock, depth int) c11Iv {
	iv := c11TypeRange(v.Type())
	hull := c11Iv{math.MaxInt64, math.MinInt64}
	join := func(r c11Iv) { hull.lo, hull.hi = min(hull.lo, r.lo), max(hull.hi, r.hi) }
	switch x := v.(type) {
	case *ssa.Const:
		if k, ok := c11Int(x); ok {
			join(c11Iv{k, k})
		} else if x.Value == nil {
			join(c11Iv{0, 0})
		}
	case *ssa.Phi:
		for i, e := range x.Edges {
			if depth >= 4 {
				break
			}
			join(m.rng(e, x.Block().Preds[i], depth+1))
		}
	case *ssa.Convert:
		join(m.rng(x.X, at, depth+1))
	case *ssa.ChangeType:
		join(m.rng(x.X, at, depth+1))
	case *ssa.Lookup:
		if vals := m.constMap(x.X); vals != nil && !x.CommaOk {
			join(c11Iv{0, 0}) // a missing key yields the zero value
			for _, e := range vals {
				join(c11Iv{e, e})
			}
		}
	}
	if hull.lo <= hull.hi && hull.within(iv.lo, iv.hi) {
		iv = hull
	}
	for _, ce := range c11EdgeConds(at) {
		op, k, ok := c11CmpWith(ce, func(x ssa.Value) bool { return x == v })
		if !ok {
			continue
		}
		switch op {
		case token.LSS:
			iv.hi = min(iv.hi, k-1)
		case token.LEQ:
			iv.hi = min(iv.hi, k)
		case token.GTR:
			iv.lo = max(iv.lo, k+1)
		case token.GEQ:
			iv.lo = max(iv.lo, k)
		case token.EQL:
			iv.lo, iv.hi = max(iv.lo, k), min(iv.hi, k)
		}
	}
	return iv
}

// constMap: v is a load of a package-level map that only its initialiser writes (no store outside
// init, every load only looked up); returns key -> value of the literal, nil when not established.
func (m *c11Model) constMap(v ssa.Value) map[int64]int64 {
	ld, ok := c11Load(v)
	if !ok {
		return nil
	}
	g, ok := ld.X.(*ssa.Global)
	if !ok || g.Pkg == nil {
		return nil
	}
	if r, ok := m.mapCache[g]; ok {
		return r
	}
	m.mapCache[g] = nil
	name := relPkg(g.Pkg.Pkg.Path()) + "." + g.Name()
	bad := false
	for _, fn := range m.p.OwnFuncs() {
		if isInitName(fnName(fn)) { // the package initialiser builds the map
			continue
		}
		e := directEffects(fn)
		bad = bad || len(e.GlobalWrites[name]) > 0 || len(e.Escapes[name]) > 0
		allInstrs(fn, func(in ssa.Instruction) {
			if u, ok := c11Load(c11AsValue(in)); ok && u.X == ssa.Value(g) {
				for _, r := range *u.Referrers() {
					lk, isLk := r.(*ssa.Lookup)
					_, isDbg := r.(*ssa.DebugRef)
					bad = bad || !(isDbg || (isLk && lk.X == ssa.Value(u))) // the map value flows where it could be updated
				}
			}
		})
	}
	expr, pk := m.p.pkgVarInit(name)
	cl, ok := expr.(*ast.CompositeLit)
	if bad || !ok || pk == nil {
		return nil
	}
	out := map[int64]int64{}
	for _, el := range cl.Elts {
		kv, ok := el.(*ast.KeyValueExpr)
		if !ok {
			return nil
		}
		k, ok1 := constInt(pk.TypesInfo, kv.Key)
		val, ok2 := constInt(pk.TypesInfo, kv.Value)
		if !ok1 || !ok2 {
			return nil
		}
		out[k] = val
	}
	m.mapCache[g] = out
	return out
}

// ---------------------------------------------------------------- R1: the must-dataflow

// c11St is the abstract state at a program point of a parser method.
type c11St struct {
	ok   bool              // reached
	K    int               // cursor+K < len holds (K = -1: nothing known)
	Eq   map[*ssa.UnOp]int // cursor == (value of load L) + Eq[L]
	Pend map[*ssa.Call]int // cursor+Pend[c] < len holds if the error result of call c was nil
}

func c11NewSt(k int) c11St { return c11St{true, k, map[*ssa.UnOp]int{}, map[*ssa.Call]int{}} }

func (s c11St) clone() c11St {
	n := c11St{s.ok, s.K, make(map[*ssa.UnOp]int, len(s.Eq)), make(map[*ssa.Call]int, len(s.Pend))}
	for k, v := range s.Eq {
		n.Eq[k] = v
	}
	for k, v := range s.Pend {
		n.Pend[k] = v
	}
	return n
}

func c11Meet(a, b c11St) c11St {
	if !a.ok || !b.ok {
		if a.ok {
			return a.clone()
		}
		return b.clone()
	}
	r := c11NewSt(min(a.K, b.K))
	for l, d := range a.Eq {
		if d2, ok := b.Eq[l]; ok && d2 == d {
			r.Eq[l] = d
		}
	}
	for c, k := range a.Pend {
		if k2, ok := b.Pend[c]; ok {
			r.Pend[c] = min(k, k2)
		}
	}
	return r
}

func c11Same(a, b c11St) bool {
	if a.ok != b.ok || a.K != b.K || len(a.Eq) != len(b.Eq) || len(a.Pend) != len(b.Pend) {
		return false
	}
	for c, k := range a.Pend {
		if k2, ok := b.Pend[c]; !ok || k2 != k {
			return false
		}
	}
	for l, d := range a.Eq {
		if d2, ok := b.Eq[l]; !ok || d2 != d {
			return false
		}
	}
	return true
}

func (s *c11St) kill() { s.K, s.Eq, s.Pend = -1, map[*ssa.UnOp]int{}, map[*ssa.Call]int{} }

type c11Flow struct {
	m    *c11Model
	recv ssa.Value
	at   map[ssa.Instruction]c11St // state before the instruction (indexes, calls, stores)
}

// decomp: v == (load L of recv.cursor) + c.
func (f *c11Flow) decomp(v ssa.Value) (*ssa.UnOp, int, bool) {
	c := 0
	for {
		switch x := v.(type) {
		case *ssa.UnOp:
			return x, c, f.recv != nil && f.m.loadOf(x, f.recv, f.m.fCur)
		case *ssa.BinOp:
			ky, oky := c11Int(x.Y)
			kx, okx := c11Int(x.X)
			small := func(k int64) bool { return k > -1<<20 && k < 1<<20 }
			switch {
			case x.Op == token.ADD && oky && small(ky):
				c, v = c+int(ky), x.X
			case x.Op == token.ADD && okx && small(kx):
				c, v = c+int(kx), x.Y
			case x.Op == token.SUB && oky && small(ky):
				c, v = c-int(ky), x.X
			default:
				return nil, 0, false
			}
		default:
			return nil, 0, false
		}
	}
}

// offset: v == current cursor + off at a point with state s.
func (f *c11Flow) offset(v ssa.Value, s c11St) (int, bool) {
	l, c, ok := f.decomp(v)
	d, known := s.Eq[l]
	return c - d, ok && known
}

// isLen: v is the length of the buffer (the length field, or len(recv.buf)).
func (f *c11Flow) isLen(v ssa.Value) bool {
	call, ok := c11Builtin(v, "len")
	return f.m.loadOf(v, f.recv, f.m.fLen) || (ok && f.m.loadOf(call.Call.Args[0], f.recv, f.m.fBuf))
}

func (f *c11Flow) step(s *c11St, in ssa.Instruction) {
	m := f.m
	switch x := in.(type) {
	case *ssa.UnOp:
		if f.recv != nil && m.loadOf(x, f.recv, m.fCur) {
			s.Eq[x] = 0
		}
	case *ssa.Store:
		base, fi, ok := m.field(x.Addr)
		switch {
		case ok && fi == m.fCur && base == f.recv:
			sh, ok := f.offset(x.Val, *s)
			if !ok || sh < 0 {
				s.kill()
				return
			}
			s.K = max(s.K-sh, -1)
			for l := range s.Eq {
				s.Eq[l] += sh
			}
			for c, k := range s.Pend {
				if s.Pend[c] = k - sh; k < sh {
					delete(s.Pend, c)
				}
			}
		case ok && fi == m.fCur, m.isPtrT(x.Addr.Type()):
			s.kill()
		}
	case ssa.CallInstruction:
		cc := x.Common()
		if _, isB := cc.Value.(*ssa.Builtin); isB {
			return
		}
		callee := cc.StaticCallee()
		if callee != nil && (!isOwn(callee) || (m.inClosure[callee] && !m.moves[callee])) {
			return // foreign code never sees the parser object (discipline check)
		}
		s.kill()
		// a helper of the closure running on the same object: what holds at its returns holds after the call
		if call, isCall := x.(*ssa.Call); isCall && callee != nil && m.inClosure[callee] && f.recv != nil && len(cc.Args) > 0 && cc.Args[0] == f.recv && m.recvOf(callee) == ssa.Value(callee.Params[0]) {
			if anyK, nilK, ok := m.summary(callee); ok {
				s.K = anyK
				if nilK > anyK {
					s.Pend[call] = nilK
				}
			}
		}
	}
}

// summary of a method of the closure (entered with nothing known): anyK — cursor+anyK < len holds at every
// return; nilK — it holds at every return whose last (error) result may be nil.
func (m *c11Model) summary(fn *ssa.Function) (anyK, nilK int, ok bool) {
	if r, done := m.sums[fn]; done {
		return r[0], r[1], r[2] == 1
	}
	m.sums[fn] = [3]int{-1, -1, 0} // in progress (recursion): no facts
	anyK, nilK = math.MaxInt32, math.MaxInt32
	for in, st := range m.flow(fn, -1, nil, nil).at {
		ret, isRet := in.(*ssa.Return)
		if !isRet {
			continue
		}
		anyK = min(anyK, st.K)
		mayBeNil := true
		if n := len(ret.Results); n > 0 {
			if call, isCall := ret.Results[n-1].(*ssa.Call); isCall && c11NoPanicExtern[c11Name(call.Call.StaticCallee())] {
				mayBeNil = false // errors.New / fmt.Errorf never return nil
			}
		}
		if mayBeNil {
			nilK = min(nilK, st.K)
		}
	}
	if anyK == math.MaxInt32 {
		anyK = -1
	}
	if nilK == math.MaxInt32 { // never returns nil: the nil branch is dead, but claim nothing beyond anyK
		nilK = anyK
	}
	m.sums[fn] = [3]int{anyK, nilK, 1}
	return anyK, nilK, true
}

// edge applies the facts of taking pred -> succ.
func (f *c11Flow) edge(s *c11St, pred, succ *ssa.BasicBlock) {
	iff, ok := pred.Instrs[len(pred.Instrs)-1].(*ssa.If)
	if !ok || pred.Succs[0] == pred.Succs[1] {
		return
	}
	f.cond(s, iff.Cond, pred.Succs[0] == succ, pred)
}

// cond applies the facts of `v == branch` to s; blk (may be nil) is the block at whose end the test happens.
func (f *c11Flow) cond(s *c11St, v ssa.Value, branch bool, blk *ssa.BasicBlock) {
	core, pos := c11Strip(condEdge{Cond: v, True: branch})
	// a bool helper of the closure that does not move the cursor (`fp.more()`), called in this very block with
	// no cursor move after it: what its result implies holds here
	if call, isCall := core.(*ssa.Call); isCall && blk != nil && call.Block() == blk {
		callee := call.Call.StaticCallee()
		if callee == nil || !f.m.inClosure[callee] || f.m.moves[callee] || f.recv == nil || len(call.Call.Args) == 0 || call.Call.Args[0] != f.recv || f.m.recvOf(callee) != ssa.Value(callee.Params[0]) {
			return
		}
		for _, in := range blk.Instrs[instrIndex(call)+1:] {
			probe := c11NewSt(0)
			probe.Eq[nil] = 0
			if f.step(&probe, in); probe.K != 0 || len(probe.Eq) == 0 { // moved or killed
				return
			}
		}
		if kT, kF, ok := f.m.boolSummary(callee); ok {
			s.K = max(s.K, map[bool]int{true: kT, false: kF}[pos])
		}
		return
	}
	op, X, Y, ok := c11Cmp(condEdge{Cond: v, True: branch})
	if ok && op == token.EQL && (c11IsNil(X) || c11IsNil(Y)) { // err == nil for the error result of a helper call
		if c11IsNil(X) {
			X = Y
		}
		call, isCall := X.(*ssa.Call)
		if ex, isEx := X.(*ssa.Extract); isEx {
			if call, isCall = ex.Tuple.(*ssa.Call); isCall && ex.Index != call.Type().(*types.Tuple).Len()-1 {
				isCall = false
			}
		}
		if k, pending := s.Pend[call]; isCall && pending && k > s.K {
			s.K = k
		}
		return
	}
	if ok && f.isLen(X) {
		X, Y, op = Y, X, c11Swap[op]
	}
	if !ok || !f.isLen(Y) || (op != token.LSS && op != token.LEQ) {
		return
	}
	k, known := f.offset(X, *s)
	if op == token.LEQ {
		k--
	}
	if known && k > s.K {
		s.K = k
	}
}

// boolSummary of a bool method of the closure that does not move the cursor (entered with nothing known):
// cursor+kT < len holds whenever it returns true, cursor+kF < len whenever it returns false.
func (m *c11Model) boolSummary(fn *ssa.Function) (kT, kF int, ok bool) {
	if r, done := m.sums[fn]; done {
		return r[0], r[1], r[2] == 1
	}
	m.sums[fn] = [3]int{-1, -1, 0}
	res := fn.Signature.Results()
	if res.Len() != 1 || !types.Identical(res.At(0).Type().Underlying(), types.Typ[types.Bool]) {
		return -1, -1, false
	}
	kT, kF = math.MaxInt32, math.MaxInt32
	f := m.flow(fn, -1, nil, nil)
	for in, st := range f.at {
		ret, isRet := in.(*ssa.Return)
		if !isRet {
			continue
		}
		for _, branch := range []bool{true, false} {
			k, isK := ret.Results[0].(*ssa.Const)
			if isK && k.Value != nil && constant.BoolVal(k.Value) != branch {
				continue // this return never yields that value
			}
			s := st.clone()
			f.cond(&s, ret.Results[0], branch, nil)
			if branch {
				kT = min(kT, s.K)
			} else {
				kF = min(kF, s.K)
			}
		}
	}
	if kT == math.MaxInt32 {
		kT = -1
	}
	if kF == math.MaxInt32 {
		kF = -1
	}
	m.sums[fn] = [3]int{kT, kF, 1}
	return kT, kF, true
}

// flow computes the fixpoint. blocked: pred -> successor whose edge is known not to be taken; havoc: block
// whose in-state is forced to "nothing known" (both used for the combinator's non-first iterations).
func (m *c11Model) flow(fn *ssa.Function, entryK int, blocked map[*ssa.BasicBlock]*ssa.BasicBlock, havoc *ssa.BasicBlock) *c11Flow {
	f := &c11Flow{m: m, recv: m.recvOf(fn), at: map[ssa.Instruction]c11St{}}
	in, out := make([]c11St, len(fn.Blocks)), make([]c11St, len(fn.Blocks))
	transfer := func(b *ssa.BasicBlock, s c11St, record bool) c11St {
		for _, ins := range b.Instrs {
			switch ins.(type) {
			case *ssa.IndexAddr, *ssa.Store, ssa.CallInstruction, *ssa.Return:
				if record {
					f.at[ins] = s.clone()
				}
			}
			f.step(&s, ins)
		}
		return s
	}
	for changed, iter := true, 0; changed && iter < 1000; iter++ {
		changed = false
		for _, b := range fn.Blocks {
			var s c11St
			if b.Index == 0 {
				s = c11NewSt(entryK)
			}
			for _, p := range b.Preds {
				if out[p.Index].ok && blocked[p] != b {
					e := out[p.Index].clone()
					f.edge(&e, p, b)
					s = c11Meet(s, e)
				}
			}
			if s.ok && b == havoc {
				s = c11NewSt(-1)
			}
			if s.ok && (!c11Same(s, in[b.Index]) || !out[b.Index].ok) {
				in[b.Index], out[b.Index], changed = s, transfer(b, s.clone(), false), true
			}
		}
	}
	for _, b := range fn.Blocks {
		if in[b.Index].ok {
			transfer(b, in[b.Index].clone(), true)
		}
	}
	return f
}

// rangeIndex: ia indexes slice S with the counter of a loop over S — I = phi(-1, I) + 1 (`for i := range S`)
// or I = phi(0, I+1) (`for i := 0; i < len(S); i++`) — under the edge I < len(S). Then I runs 0,1,2,...
// and 0 <= I < len(S). Returns the loop head.
func (m *c11Model) rangeIndex(ia *ssa.IndexAddr) (*ssa.BasicBlock, bool) {
	plusOne := func(v ssa.Value) ssa.Value {
		if bo, ok := v.(*ssa.BinOp); ok && bo.Op == token.ADD {
			if k, ok := c11Int(bo.Y); ok && k == 1 {
				return bo.X
			}
		}
		return nil
	}
	ph, _ := ia.Index.(*ssa.Phi) // form B
	start := int64(0)
	if x := plusOne(ia.Index); x != nil { // form A
		ph, _ = x.(*ssa.Phi)
		start = -1
	}
	if ph == nil {
		return nil, false
	}
	for _, e := range ph.Edges {
		k, isK := c11Int(e)
		next := e == ia.Index // form A: phi(-1, I)
		if start == 0 {
			next = plusOne(e) == ssa.Value(ph) // form B: phi(0, I+1)
		}
		if !(isK && k == start) && !next {
			return nil, false
		}
	}
	for _, ce := range c11EdgeConds(ia.Block()) {
		if op, X, Y, ok := c11Cmp(ce); ok {
			if Y == ia.Index {
				X, Y, op = Y, X, c11Swap[op]
			}
			if call, isLen := c11Builtin(Y, "len"); op == token.LSS && X == ia.Index && isLen && call.Call.Args[0] == ia.X {
				return ph.Block(), true
			}
		}
	}
	return nil, false
}

// firstOnlyEdges: edges of the combinator taken only in the first iteration — the edge on which the loop
// counter is 0, or the true edge of If(F) where F is a loop-head phi that is false on every back edge.
func (m *c11Model) firstOnlyEdges() (map[*ssa.BasicBlock]*ssa.BasicBlock, *ssa.BasicBlock, string) {
	out := map[*ssa.BasicBlock]*ssa.BasicBlock{}
	why := "no branch on a first-iteration flag (or on loop counter == 0) found"
	ld, _ := c11Load(m.dyn.Call.Value)
	ia := ld.X.(*ssa.IndexAddr)
	head, ok := m.rangeIndex(ia) // iteration k calls parser k
	if !ok {
		return out, nil, "the indirect call does not take the element at the counter of a loop over the parser list"
	}
	for _, b := range m.seq.Blocks {
		iff, ok := b.Instrs[len(b.Instrs)-1].(*ssa.If)
		if !ok || b.Succs[0] == b.Succs[1] || !head.Dominates(b) {
			continue
		}
		for i := range b.Succs {
			op, k, ok := c11CmpWith(condEdge{iff.Cond, i == 0, iff}, func(x ssa.Value) bool { return x == ia.Index })
			if ok && ((op == token.EQL && k == 0) || (op == token.LSS && k == 1) || (op == token.LEQ && k == 0)) {
				out[b] = b.Succs[i]
			}
		}
		F, ok := iff.Cond.(*ssa.Phi)
		if !ok || F.Block() != head {
			continue
		}
		var isFalse func(v ssa.Value, at *ssa.BasicBlock, depth int) bool
		isFalse = func(v ssa.Value, at *ssa.BasicBlock, depth int) bool {
			if k, ok := v.(*ssa.Const); ok && k.Value != nil && k.Value.Kind() == constant.Bool {
				return !constant.BoolVal(k.Value)
			}
			if v == ssa.Value(F) { // F itself, at a point where the false edge of If(F) was taken
				for _, ce := range c11EdgeConds(at) {
					if ce.Cond == ssa.Value(F) && !ce.True {
						return true
					}
				}
				return false
			}
			ph, ok := v.(*ssa.Phi)
			for i := 0; ok && depth < 4 && i < len(ph.Edges); i++ {
				ok = isFalse(ph.Edges[i], ph.Block().Preds[i], depth+1)
			}
			return ok && depth < 4
		}
		good := true
		for i, e := range F.Edges {
			if pred := head.Preds[i]; head.Dominates(pred) && !isFalse(e, pred, 0) { // back edge
				good = false
				why = fmt.Sprintf("flag %s is not provably false on the back edge from block %d: later iterations may take the unguarded branch", F.Comment, pred.Index)
			}
		}
		if good {
			out[b] = b.Succs[0]
		}
	}
	return out, head, why
}

// c11Ob is one enumerated potentially panicking instruction.
type c11Ob struct {
	kind   string
	in     ssa.Instruction
	ok     bool
	detail string
}

func (m *c11Model) nonNil(v ssa.Value, fn *ssa.Function) bool {
	switch x := v.(type) {
	case *ssa.Alloc, *ssa.Global, *ssa.FieldAddr, *ssa.IndexAddr:
		return true
	case *ssa.Parameter, *ssa.FreeVar:
		// receivers are the parser object (discipline check); ParseFEN's *Board is the API precondition
		return v == m.recvOf(fn) || fn == m.root
	case *ssa.UnOp:
		return m.loadOf(x, m.recvOf(fn), m.fB) // the board pointer, stored once from ParseFEN's parameter
	}
	return false
}

var c11NoPanicExtern = map[string]bool{"errors.New": true, "fmt.Errorf": true}

// enumerate lists every potentially panicking instruction of fn with its discharge.
func (m *c11Model) enumerate(fn *ssa.Function, f *c11Flow) (obs []c11Ob, derefs int) {
	add := func(kind string, in ssa.Instruction, ok bool, format string, a ...any) {
		obs = append(obs, c11Ob{kind, in, ok, fmt.Sprintf(format, a...)})
	}
	deref := func(in ssa.Instruction, v ssa.Value) {
		derefs++
		if !m.nonNil(v, fn) {
			add("deref", in, false, "dereference of %s (%T) that is not known to be non-nil", v.Name(), v)
		}
	}
	inRange := func(kind string, in ssa.Instruction, idx ssa.Value, n int64) {
		r := m.rng(idx, in.Block(), 0)
		add(kind, in, n >= 0 && r.within(0, n-1), "index %s has range %s, length %d", idx.Name(), r, n)
	}
	buf, cur, ln := m.st.Field(m.fBuf).Name(), m.st.Field(m.fCur).Name(), m.st.Field(m.fLen).Name()
	for _, b := range fn.Blocks {
		for _, in := range b.Instrs {
			switch x := in.(type) {
			case *ssa.IndexAddr:
				switch t := x.X.Type().Underlying().(type) {
				case *types.Pointer:
					deref(in, x.X)
					n := t.Elem().Underlying().(*types.Array).Len()
					if k, ok := c11Int(x.Index); !ok || k < 0 || k >= n { // constant in-range indexes cannot panic
						inRange("array-index", in, x.Index, n)
					}
				case *types.Slice:
					if f.recv == nil || !m.loadOf(x.X, f.recv, m.fBuf) {
						_, isRange := m.rangeIndex(x)
						add("slice-index", in, isRange, "index of a slice that is not the parser buffer: accepted only as the counter of a loop over that slice")
						continue
					}
					s := f.at[in]
					off, ok := f.offset(x.Index, s)
					switch {
					case !ok || off < 0:
						add(buf+"[?]", in, false, "index is not the current cursor plus a non-negative constant")
					case off > s.K:
						add(fmt.Sprintf("%s[%s+%d]", buf, cur, off), in, false, "fact %s+%d < %s does not hold on every path to this index (strongest fact: K=%d)", cur, off, ln, s.K)
					default:
						add(fmt.Sprintf("%s[%s+%d]", buf, cur, off), in, true, "%s+%d < %s holds on every path (K=%d); %s >= 0 by monotonicity", cur, off, ln, s.K, cur)
					}
				default:
					add("index", in, false, "unsupported indexed type %s", x.X.Type())
				}
			case *ssa.Index:
				n := int64(-1)
				if a, ok := x.X.Type().Underlying().(*types.Array); ok {
					n = a.Len()
				} else if s, ok := c11Str(x.X); ok {
					n = int64(len(s))
				}
				inRange("array-index", in, x.Index, n)
			case *ssa.Lookup:
				mt, isMap := x.X.Type().Underlying().(*types.Map)
				if !isMap {
					add("string-index", in, false, "string lookup is not modelled")
				} else if _, isIface := mt.Key().Underlying().(*types.Interface); isIface {
					add("map-lookup", in, false, "interface-keyed map lookup can panic on unhashable keys")
				} else {
					add("map-lookup", in, true, "lookup in a map keyed by %s never panics (nil map and missing key yield zero)", mt.Key())
				}
			case *ssa.Slice:
				if _, isPtr := x.X.Type().Underlying().(*types.Pointer); isPtr {
					deref(in, x.X)
				}
				lo, loK := c11Int(x.Low)
				hi, hiK := c11Int(x.High)
				_, isSl := x.X.Type().Underlying().(*types.Slice)
				if isSl && x.Max == nil && hiK && hi == 0 && (x.Low == nil || (loK && lo == 0)) {
					// s[:0] of a slice cannot panic
				} else if x.Low != nil || x.High != nil || x.Max != nil {
					add("slice-expr", in, false, "slice expression with bounds is not modelled")
				}
			case *ssa.BinOp:
				bt, _ := x.Y.Type().Underlying().(*types.Basic)
				k, isK := c11Int(x.Y)
				switch {
				case (x.Op == token.SHL || x.Op == token.SHR) && bt != nil && bt.Info()&types.IsUnsigned == 0 && !(isK && k >= 0):
					r := m.rng(x.Y, b, 0)
					add("shift", in, r.lo >= 0, "signed shift count %s has range %s", x.Y.Name(), r)
				case (x.Op == token.QUO || x.Op == token.REM) && bt != nil && bt.Info()&types.IsInteger != 0 && !(isK && k != 0):
					r := m.rng(x.Y, b, 0)
					add("division", in, r.lo > 0 || r.hi < 0, "divisor range %s", r)
				}
			case *ssa.UnOp:
				if x.Op == token.MUL {
					deref(in, x.X)
				} else if x.Op == token.ARROW {
					add("unsupported", in, false, "channel receive")
				}
			case *ssa.Store:
				deref(in, x.Addr)
			case *ssa.FieldAddr:
				deref(in, x.X)
			case *ssa.TypeAssert:
				if !x.CommaOk {
					add("type-assert", in, false, "single-value type assertion")
				}
			case *ssa.MapUpdate, *ssa.Panic, *ssa.MakeSlice, *ssa.Go, *ssa.Defer, *ssa.Send, *ssa.Select, *ssa.MakeChan, *ssa.SliceToArrayPointer, *ssa.MultiConvert:
				add("unsupported", in, false, "%T may panic and is not modelled", in)
			case *ssa.Call:
				cc := x.Common()
				if bi, ok := cc.Value.(*ssa.Builtin); ok {
					if !map[string]bool{"len": true, "cap": true, "append": true, "copy": true, "min": true, "max": true}[bi.Name()] {
						add("call", in, false, "builtin %s is not modelled", bi.Name())
					}
				} else if callee := cc.StaticCallee(); callee != nil && m.inClosure[callee] {
					// analysed itself
				} else if callee != nil {
					name := c11Name(callee)
					add("extern:"+name, in, c11NoPanicExtern[name], "call of %s (allow-list: errors.New, fmt.Errorf)", name)
				} else if x == m.dyn {
					add("combinator-call", in, true, "indirect call of an element of the parser list: targets are exactly the %d bound field parsers built in %s, all non-nil", len(m.parsers), fnName(m.root))
				} else {
					add("call", in, false, "dynamic call with unknown target")
				}
			}
		}
	}
	return obs, derefs
}

// discipline: the parser object is reachable only through receivers; its field addresses are only loaded /
// stored in place; the bound closures flow only into the combinator's list.
func (m *c11Model) discipline() (leaks []string) {
	for _, fn := range m.fns {
		bases := []ssa.Value{m.recvOf(fn)}
		if fn == m.root {
			bases = append(bases, m.lit)
		}
		for _, r := range bases {
			if r == nil || r.Referrers() == nil {
				continue
			}
			for _, u := range *r.Referrers() {
				ok := false
				switch x := u.(type) {
				case *ssa.FieldAddr, *ssa.DebugRef:
					ok = true
				case *ssa.Call: // receiver of a method of the closure, and nothing else
					callee := x.Call.StaticCallee()
					ok = callee != nil && m.inClosure[callee] && len(x.Call.Args) > 0 && x.Call.Args[0] == r
					for _, a := range x.Call.Args[1:] {
						ok = ok && a != r
					}
				case *ssa.MakeClosure: // the bound field parsers (their only use is the list, see c11Resolve)
					for _, w := range m.wrappers {
						ok = ok || (fn == m.root && x.Fn == ssa.Value(w))
					}
				case *ssa.UnOp: // whole copy of the literal into the variable
					ok = fn == m.root && r == ssa.Value(m.lit) && x.Op == token.MUL
					for _, u2 := range *x.Referrers() {
						st, isSt := u2.(*ssa.Store)
						ok = ok && isSt && st.Addr == m.obj
					}
				case *ssa.Store:
					ld, isLd := c11Load(x.Val)
					ok = fn == m.root && x.Addr == r && isLd && ld.X == ssa.Value(m.lit)
				}
				if !ok {
					leaks = append(leaks, fmt.Sprintf("%s: %s used by %T", fnName(fn), r.Name(), u))
				}
			}
		}
		allInstrs(fn, func(in ssa.Instruction) {
			fa, ok := in.(*ssa.FieldAddr)
			if _, _, isF := m.field(c11AsValue(in)); !ok || !isF {
				return
			}
			for _, u := range *fa.Referrers() {
				st, isSt := u.(*ssa.Store)
				_, isLd := u.(*ssa.UnOp)
				_, isDbg := u.(*ssa.DebugRef)
				if !(isLd || isDbg || (isSt && st.Val != ssa.Value(fa))) {
					leaks = append(leaks, fmt.Sprintf("%s: address of %s used by %T", fnName(fn), m.fname(fa.Field), u))
				}
			}
		})
	}
	return leaks
}

func c11R1(c *Ctx, m *c11Model) {
	const rule = "C11.R1"
	p, rootName := m.p, fnName(m.root)
	c.Note("C11.R1: parser object %s (buffer %s, length %s, cursor %s), combinator %s, field parsers %v, closure of %d functions",
		m.T.Obj().Name(), m.fname(m.fBuf), m.fname(m.fLen), m.fname(m.fCur), fnName(m.seq), c11Names(m.parsers), len(m.fns))
	verdict := func(ok bool, key string, pos token.Pos, okMsg, badMsg string) {
		if ok {
			c.Ok(rule, key, pos, "%s", okMsg)
		} else {
			c.Undec(rule, key, pos, "%s", badMsg)
		}
	}
	// (1) discipline
	leaks := m.discipline()
	verdict(len(leaks) == 0, "discipline#no-alias", m.root.Pos(),
		fmt.Sprintf("in all %d functions of the closure the parser object is used only as receiver / for in-place field access; the bound closures flow only into the combinator's list", len(m.fns)),
		"the parser object (or a field address) escapes, kill sets are unsound: "+strings.Join(leaks, "; "))
	// (2) invariant len(buf) == length field: stored once, together, in the literal; cursor stored only in the closure
	for _, fi := range []int{m.fBuf, m.fLen, m.fCur} {
		var outside []string
		for w := range p.writersOf(m.qname(fi)) {
			inCl := false
			for _, fn := range m.fns {
				inCl = inCl || (fnName(fn) == w && (fi == m.fCur || fn == m.root)) // "#escape" keys never match
			}
			if !inCl {
				outside = append(outside, w)
			}
		}
		sort.Strings(outside)
		verdict(len(outside) == 0, "invariant#writers:"+m.fname(fi), m.root.Pos(),
			fmt.Sprintf("%s is stored only in %s, nowhere else in the program", m.fname(fi), map[bool]string{true: "the parser closure", false: rootName}[fi == m.fCur]),
			fmt.Sprintf("%s is also written (or its address escapes) in %v: len(%s) == %s and the cursor facts are no longer invariants", m.fname(fi), outside, m.fname(m.fBuf), m.fname(m.fLen)))
	}
	var pair []*ssa.Store
	pairOK := true
	allInstrs(m.root, func(in ssa.Instruction) {
		if st, ok := in.(*ssa.Store); ok {
			if b, fi, ok := m.field(st.Addr); ok {
				k, isK := c11Int(st.Val)
				pairOK = pairOK && b == ssa.Value(m.lit) && (fi != m.fCur || (isK && k >= 0))
				if fi == m.fBuf || fi == m.fLen {
					pair = append(pair, st)
				}
			}
		}
	})
	if pairOK = pairOK && len(pair) == 2 && pair[0].Block() == pair[1].Block(); pairOK {
		i, j := instrIndex(pair[0]), instrIndex(pair[1])
		for _, in := range pair[0].Block().Instrs[min(i, j)+1 : max(i, j)] {
			_, isLen := c11Builtin(c11AsValue(in), "len")
			switch in.(type) {
			case *ssa.FieldAddr, *ssa.DebugRef, *ssa.Store:
			default:
				pairOK = pairOK && isLen
			}
		}
	}
	verdict(pairOK, "invariant#len-pair", m.root.Pos(),
		fmt.Sprintf("%s and %s = len(same slice) are stored back to back into the literal; cursor starts at its zero value", m.fname(m.fBuf), m.fname(m.fLen)),
		"the buffer and its length are not stored as one pair (and nothing else into the parser object) in "+rootName)
	// (3) no recursion in the closure (the stack cannot overflow)
	state, cyc := map[*ssa.Function]int{}, ""
	var dfs func(fn *ssa.Function)
	dfs = func(fn *ssa.Function) {
		state[fn] = 1
		next := func(g *ssa.Function) {
			if g != nil && m.inClosure[g] && state[g] == 1 {
				cyc = fnName(fn) + " -> " + fnName(g)
			} else if g != nil && m.inClosure[g] && state[g] == 0 {
				dfs(g)
			}
		}
		allInstrs(fn, func(in ssa.Instruction) {
			if ci, ok := in.(ssa.CallInstruction); ok {
				next(ci.Common().StaticCallee())
				for _, w := range m.wrappers {
					if in == ssa.Instruction(m.dyn) {
						next(w)
					}
				}
			}
		})
		state[fn] = 2
	}
	dfs(m.root)
	verdict(cyc == "", "closure#no-recursion", m.root.Pos(),
		fmt.Sprintf("the call graph of the closure (%d functions, indirect call resolved to the parser list) is acyclic", len(m.fns)),
		"recursive call "+cyc+": stack depth may depend on the input")
	// (4) entry facts: combinator analysis, then propagation along call sites
	entry := map[*ssa.Function]int{m.seq: -1}
	blocked, head, why := m.firstOnlyEdges()
	kCall := -1
	if st, ok := m.flow(m.seq, -1, blocked, head).at[m.dyn]; ok && len(blocked) > 0 {
		kCall = min(st.K, 0)
	}
	if len(blocked) > 0 {
		why = "a path from the loop head to the indirect call neither is first-iteration-only nor establishes cursor < len after the last cursor move"
	}
	verdict(kCall >= 0, fnName(m.seq)+"#entry-fact", m.dyn.Pos(),
		fmt.Sprintf("in every iteration but the first every path from the loop head to the indirect call takes an edge establishing %s < %s with no cursor move after it", m.fname(m.fCur), m.fname(m.fLen)),
		fmt.Sprintf("the combinator does not establish %s < %s before calling the field parsers: %s", m.fname(m.fCur), m.fname(m.fLen), why))
	set := func(fn *ssa.Function, k int) bool {
		if old, ok := entry[fn]; ok && old <= k {
			return false
		}
		entry[fn] = k
		return true
	}
	for i, w := range m.wrappers {
		set(w, map[bool]int{true: -1, false: kCall}[i == 0])
	}
	for changed, iter := true, 0; changed && iter < 50; iter++ {
		changed = false
		for _, fn := range m.fns {
			k, ok := entry[fn]
			if !ok {
				continue
			}
			f := m.flow(fn, k, nil, nil)
			m.flows[fn] = f
			for in, st := range f.at {
				if call, ok := in.(*ssa.Call); ok {
					if callee := call.Call.StaticCallee(); callee != nil && m.inClosure[callee] && m.recvOf(callee) != nil {
						ks := -1
						if len(call.Call.Args) > 0 && call.Call.Args[0] == f.recv {
							ks = min(st.K, 0) // only cursor < len is propagated
						}
						changed = set(callee, ks) || changed
					}
				}
			}
		}
	}
	for i, fn := range m.parsers {
		role := "entry fact cursor < len from the combinator"
		if entry[fn] < 0 {
			role = "no entry fact (first in the list or unguarded caller): must guard itself"
		}
		c.OkTrivial(rule, fmt.Sprintf("%s#entry@%d", fnName(fn), i), fn.Pos(), "field parser %d: %s", i, role)
	}
	// (5) enumerate and discharge
	counts, readers := map[string]int{}, map[*ssa.Function]bool{}
	derefs := 0
	for _, fn := range m.fns {
		f := m.flows[fn]
		if f == nil { // never entered with a known state (ParseFEN itself): analyse without facts
			f = m.flow(fn, -1, nil, nil)
			m.flows[fn] = f
		}
		obs, d := m.enumerate(fn, f)
		derefs += d
		ord := map[string]int{}
		for _, o := range obs {
			ord[o.kind]++
			cat := o.kind
			if strings.HasPrefix(cat, m.st.Field(m.fBuf).Name()+"[") {
				cat, readers[fn] = "byte-index", true
			}
			counts[cat]++
			verdict(o.ok, fmt.Sprintf("%s#%s@%d", fnName(fn), o.kind, ord[o.kind]), o.in.Pos(), o.detail, "cannot exclude a panic: "+o.detail)
		}
		for in, st := range f.at { // cursor stores: monotone
			s, ok := in.(*ssa.Store)
			if b, fi, isF := m.field(c11StoreAddr(s)); ok && isF && fi == m.fCur && fn != m.root {
				if sh, known := f.offset(s.Val, st); b != f.recv || !known || sh < 0 {
					c.Undec(rule, fnName(fn)+"#cursor-store", s.Pos(), "store to %s is not 'cursor + non-negative constant': non-negativity of the cursor is not established", m.fname(m.fCur))
				} else {
					counts["cursor-store"]++
				}
			}
		}
	}
	c.Ok(rule, "closure#derefs", m.root.Pos(), "%d pointer dereferences / field selections in %d functions are all on the parser object, a fresh allocation, a package-level variable, or the caller's *Board (precondition)", derefs, len(m.fns))
	// floors guard against vacuity only (today: 21 byte indexes, 5 array indexes, 1 shift, 8 cursor stores): every
	// field parser must reach a read of the buffer, and somebody must move the cursor and index the board arrays
	reading := 0
	for _, fn := range m.parsers {
		for _, g := range m.staticClosure(fn) {
			if readers[g] {
				reading++
				break
			}
		}
	}
	c.Floor(rule+".byte-index", reading, len(m.parsers), "field parsers reaching a checked index of the parser buffer")
	c.Floor(rule+".array-index", counts["array-index"]+counts["byte-index"], 7, "checked byte and array indexes")
	c.Floor(rule+".cursor-store", counts["cursor-store"], 1, "monotone cursor increments")
	c.Floor(rule+".parsers", len(m.parsers), 6, "field parsers handed to the combinator")
}

func c11StoreAddr(s *ssa.Store) ssa.Value {
	if s == nil {
		return nil
	}
	return s.Addr
}

func c11Names(fns []*ssa.Function) (out []string) {
	for _, f := range fns {
		out = append(out, f.Name())
	}
	return out
}

// ---------------------------------------------------------------- R2: install only after acceptance

// c11NilTest: the edge condition says v == nil.
func c11NilTest(ce condEdge, v ssa.Value) bool {
	op, X, Y, ok := c11Cmp(ce)
	return ok && op == token.EQL && ((X == v && c11IsNil(Y)) || (Y == v && c11IsNil(X)))
}

// c11Guard decides acceptance guards by path simulation (boolsim): atoms "errnil" (error result of call is
// nil) and "invalid" (InvalidPieceCount() on the board in question is true).
type c11Guard struct {
	fn       *ssa.Function
	classify atomClassifier
	opaque   bool      // some branch tests the parse result in a way the classifier does not understand
	val      ssa.Value // when set: `val == nil` is the atom "resnil"
}

func c11Guards(fn *ssa.Function, call *ssa.Call, sameBoard func(ssa.Value) bool, invalid string) *c11Guard {
	isErr := func(v ssa.Value) bool {
		ex, isEx := v.(*ssa.Extract)
		return v == ssa.Value(call) && call.Type().String() == "error" || (isEx && ex.Tuple == ssa.Value(call) && ex.Type().String() == "error")
	}
	g := &c11Guard{fn: fn}
	g.classify = func(v ssa.Value) (string, bool, bool) {
		switch x := v.(type) {
		case *ssa.BinOp:
			if (x.Op == token.EQL || x.Op == token.NEQ) && ((isErr(x.X) && c11IsNil(x.Y)) || (isErr(x.Y) && c11IsNil(x.X))) {
				return "errnil", x.Op == token.NEQ, true
			}
			if (x.Op == token.EQL || x.Op == token.NEQ) && g.val != nil && ((x.X == g.val && c11IsNil(x.Y)) || (x.Y == g.val && c11IsNil(x.X))) {
				return "resnil", x.Op == token.NEQ, true
			}
		case *ssa.Call:
			if isCallValueTo(x, invalid) && len(x.Call.Args) == 1 && sameBoard(x.Call.Args[0]) {
				return "invalid", false, true
			}
		}
		return "", false, false
	}
	// opaque: a condition (not an atom, not built from atoms by ! and phis) that depends on the call's results
	allInstrs(fn, func(in ssa.Instruction) {
		iff, ok := in.(*ssa.If)
		if !ok {
			return
		}
		var leafs func(v ssa.Value, depth int)
		leafs = func(v ssa.Value, depth int) {
			if _, _, ok := g.classify(v); ok || depth > 6 {
				return
			}
			switch x := v.(type) {
			case *ssa.UnOp:
				if x.Op == token.NOT {
					leafs(x.X, depth+1)
					return
				}
			case *ssa.Phi:
				if isBoolType(x) {
					for _, e := range x.Edges {
						leafs(e, depth+1)
					}
					return
				}
			case *ssa.Const:
				return
			}
			for w := range backSlice(v, sliceOpts{ThroughCalls: true, ThroughLoads: true}) {
				if ex, isEx := w.(*ssa.Extract); w == ssa.Value(call) || (isEx && ex.Tuple == ssa.Value(call)) {
					g.opaque = true
				}
			}
		}
		leafs(iff.Cond, 0)
	})
	return g
}

// report: one of the targets must not be executable on a path consistent with atom == bad (a value may be
// picked at one point and installed at another: it is enough that either point is guarded). exact=false: the
// targets over-approximate the paths in question, so a failure is only "undecided".
func (g *c11Guard) report(c *Ctx, rule, key string, targets []ssa.Instruction, exact bool, atom string, bad bool, okMsg, badMsg string) {
	complete := true
	for _, target := range targets {
		can, done := canExecuteUnder(g.fn, g.classify, nil, func(in ssa.Instruction) bool { return in == target }, map[string]bool{atom: bad}, 2)
		if complete = complete && done; !can && done {
			c.Ok(rule, key, target.Pos(), "%s", okMsg)
			return
		}
	}
	if g.opaque || !complete || !exact {
		c.Undec(rule, key, targets[0].Pos(), "%s — but %s tests the parse result through a helper or expression this rule does not interpret (or merges values on a branching edge), so the guard may be there in a form it cannot see", badMsg, fnName(g.fn))
	} else {
		c.Fail(rule, key, targets[0].Pos(), "%s", badMsg)
	}
}

// c11Pick: one of the values v can be, with the instruction whose execution means "this one was chosen": v
// itself at `at`, or through phis the incoming value at the end of the incoming block (exact only when that
// block has no other way to go).
type c11Pick struct {
	v     ssa.Value
	at    ssa.Instruction
	exact bool
}

func c11Picks(v ssa.Value, at ssa.Instruction, depth int) (out []c11Pick) {
	ph, isPhi := v.(*ssa.Phi)
	if !isPhi || depth > 4 {
		return []c11Pick{{v, at, !isPhi}}
	}
	for i, e := range ph.Edges {
		pred := ph.Block().Preds[i]
		for _, pk := range c11Picks(e, pred.Instrs[len(pred.Instrs)-1], depth+1) {
			pk.exact = pk.exact && len(pred.Succs) == 1
			out = append(out, pk)
		}
	}
	return out
}

// c11CallOf: v is the result (or one result) of a call; returns the call and the result index.
func c11CallOf(v ssa.Value) (*ssa.Call, int) {
	if ex, ok := v.(*ssa.Extract); ok {
		call, _ := ex.Tuple.(*ssa.Call)
		return call, ex.Index
	}
	call, _ := v.(*ssa.Call)
	return call, 0
}

// c11Install checks that value v, installed as the driver's board by instruction `at` of fn (label: key
// prefix), went through both acceptance tests when it comes from board.FromFEN — directly in fn, or inside a
// chess-3 helper that returns it (then: the helper's returns are checked, and a helper that can return nil
// must have its result tested against nil here). Returns the number of FromFEN-derived installs found.
func c11Install(c *Ctx, rule, label string, fn *ssa.Function, v ssa.Value, at ssa.Instruction, depth int) int {
	const fromFEN, invalid = "board.FromFEN", "board.(Board).InvalidPieceCount"
	n := 0
	for i, pk := range c11Picks(v, at, 0) {
		call, idx := c11CallOf(pk.v)
		sfx := ""
		if i > 0 {
			sfx = fmt.Sprintf("@%d", i+1)
		}
		targets := []ssa.Instruction{pk.at}
		if pk.at != at {
			targets = append(targets, at)
		}
		switch {
		case call == nil:
			// a constant, a parameter, a fresh board: not a parsed FEN as far as this rule can see
		case isCallValueTo(call, fromFEN):
			n++
			board := pk.v
			sameBoard := func(x ssa.Value) bool {
				if ld, ok := c11Load(x); ok {
					x = ld.X
				}
				return x == board
			}
			g := c11Guards(fn, call, sameBoard, invalid)
			g.report(c, rule, label+":err==nil"+sfx, targets, pk.exact, "errnil", false,
				"the FromFEN result becomes the driver's board only on paths where err == nil was established",
				"the FromFEN result can become the driver's board on a path where the error of that FromFEN call is non-nil or untested: a rejected FEN replaces the current position")
			g.report(c, rule, label+":piece-count"+sfx, targets, pk.exact, "invalid", true,
				"the FromFEN result becomes the driver's board only on paths where InvalidPieceCount() on that board was false",
				"the FromFEN result can become the driver's board on a path where InvalidPieceCount() on that board is true or untested: a position with impossible material replaces the current one")
		default:
			h := call.Call.StaticCallee()
			if h == nil || !isOwn(h) || h.Blocks == nil || depth >= 2 {
				continue
			}
			found, canNil := 0, false
			allInstrs(h, func(in ssa.Instruction) {
				ret, ok := in.(*ssa.Return)
				if !ok || idx >= len(ret.Results) {
					return
				}
				rv := returnedValue(ret, idx)
				for _, p2 := range c11Picks(rv, ret, 0) {
					canNil = canNil || c11IsNil(p2.v)
				}
				found += c11Install(c, rule, fnName(h)+"#return-board", h, rv, ret, depth+1)
			})
			n += found
			if found > 0 && canNil { // the helper reports rejection by returning nil: that must be tested here
				g := c11Guards(fn, call, func(ssa.Value) bool { return false }, "-")
				g.val = pk.v
				g.report(c, rule, label+":non-nil"+sfx, targets, pk.exact, "resnil", true,
					fmt.Sprintf("the result of %s becomes the driver's board only on paths where it was found non-nil (nil is how it reports a rejected FEN)", fnName(h)),
					fmt.Sprintf("%s returns nil for a rejected FEN and its result can become the driver's board on a path where it is nil or untested: the current position is lost", fnName(h)))
			}
		}
	}
	return n
}

// c11CallsOwnWith: fn passes v to a chess-3 function other than the FEN entry points.
func c11CallsOwnWith(fn *ssa.Function, v ssa.Value) bool {
	found := false
	allInstrs(fn, func(in ssa.Instruction) {
		if ci, ok := in.(ssa.CallInstruction); ok {
			callee := ci.Common().StaticCallee()
			for _, a := range ci.Common().Args {
				if a == v && callee != nil && isOwn(callee) && !strings.HasSuffix(c11Name(callee), "board.ParseFEN") {
					found = true
				}
			}
		}
	})
	return found
}

func c11R2(c *Ctx, p *Prog) {
	const rule = "C11.R2"
	const fromFEN, invalid, field = "board.FromFEN", "board.(Board).InvalidPieceCount", "uci.Driver.board"
	for _, a := range []string{fromFEN, invalid, "board.ParseFEN", "board.(*Board).ResetHash"} {
		if p.FuncObj(a) == nil {
			c.Anchor(rule, a)
			return
		}
	}
	stores := 0
	ws := p.writersOf(field)
	for _, w := range sortedKeys(ws) {
		for _, s := range ws[w] {
			st, ok := s.In.(*ssa.Store)
			if !ok {
				if strings.HasSuffix(w, "#escape") {
					c.Fail(rule, w, s.Pos, "address of %s escapes in %s: the board could be installed without the acceptance tests", field, w)
				}
				continue
			}
			// "under which conditions can this value become the board": on no path may err != nil or InvalidPieceCount() hold
			stores += c11Install(c, rule, w+"#install", st.Parent(), st.Val, st, 0)
		}
	}
	// parsing in place into the live board (ParseFEN(d.board, ..)): every way out of the function after the call
	// must pass the accepting edges (err == nil, then InvalidPieceCount() false) or a restore of a copy taken before
	inplace := 0
	fromLive := func(v ssa.Value) bool { // v is (derived from) a load of Driver.board
		return sliceHas(backSlice(v, sliceOpts{ThroughLoads: true}), func(w ssa.Value) bool {
			fr, ok := asFieldAddr(w)
			_, isFA := w.(*ssa.FieldAddr)
			return ok && isFA && fr.QName() == field
		})
	}
	for _, fn := range p.OwnFuncs() {
		for _, ci := range callsIn(fn, "board.ParseFEN") {
			call, ok := ci.(*ssa.Call)
			if !ok || !fromLive(call.Call.Args[0]) {
				continue
			}
			inplace++
			accepted := func(b *ssa.BasicBlock) bool {
				okErr, okCnt := false, false
				for _, ce := range c11EdgeConds(b) {
					okErr = okErr || c11NilTest(ce, call)
					if cond, pos := c11Strip(ce); !pos && isCallValueTo(cond, invalid) && fromLive(cond.(*ssa.Call).Call.Args[0]) {
						okCnt = true
					}
				}
				return okErr && okCnt
			}
			stop := func(in ssa.Instruction) bool {
				if st, ok := in.(*ssa.Store); ok { // *d.board = saved, saved loaded before the call
					ld, isLd := c11Load(st.Val)
					if _, isFA := st.Addr.(*ssa.FieldAddr); !isFA && fromLive(st.Addr) && isLd && fromLive(ld.X) && instrDominates(ld, call) {
						return true
					}
				}
				return accepted(in.Block())
			}
			leak, path := reachAvoiding(call, nil, stop)
			key := fnName(fn) + "#in-place"
			if g := c11Guards(fn, call, fromLive, invalid); leak && g.opaque {
				c.Undec(rule, key, call.Pos(), "board.ParseFEN parses into the live %s and %s tests its result in a way this rule does not interpret: cannot decide whether every rejection restores the position", field, fnName(fn))
			} else if leak {
				c.Fail(rule, key, call.Pos(), "board.ParseFEN parses into the live %s; a way out of %s (blocks %v) passes neither both acceptance edges (err == nil, InvalidPieceCount() false) nor a restore of a copy taken before the call: a rejected FEN replaces the current position", field, fnName(fn), path)
			} else {
				c.Ok(rule, key, call.Pos(), "in-place parse into %s: every way out passes both acceptance edges or restores the saved copy", field)
			}
		}
	}
	c.Floor(rule+".installs", stores+inplace, 1, "installs of a parsed FEN into "+field+" (store of a FromFEN result, or in-place ParseFEN)")
	// FromFEN hands out a board only after ParseFEN accepted and after ResetHash
	fn := p.Func(fromFEN)
	rets := 0
	allInstrs(fn, func(in ssa.Instruction) {
		ret, ok := in.(*ssa.Return)
		if !ok || len(ret.Results) != 2 || c11IsNil(returnedValue(ret, 0)) {
			return
		}
		rets++
		// the returned board(s): directly, or the non-nil edges of a phi merging the returns (named results)
		type pick struct {
			b  ssa.Value
			at ssa.Instruction // executing this instruction means this board is what gets returned
		}
		picks := []pick{{returnedValue(ret, 0), ret}}
		if ph, isPhi := picks[0].b.(*ssa.Phi); isPhi {
			picks = nil
			for i, e := range ph.Edges {
				pred := ph.Block().Preds[i]
				if _, isPhi2 := e.(*ssa.Phi); isPhi2 || (!c11IsNil(e) && len(pred.Succs) != 1) || ph.Block() != ret.Block() {
					c.Undec(rule, fromFEN+"#return:shape", ret.Pos(), "the returned board is merged from several places in a way this rule does not follow")
					return
				}
				if !c11IsNil(e) {
					picks = append(picks, pick{e, pred.Instrs[len(pred.Instrs)-1]})
				}
			}
		}
		for i, pk := range picks {
			b, sfx := pk.b, ""
			if i > 0 {
				sfx = fmt.Sprintf("@%d", i+1)
			}
			var parse *ssa.Call
			for _, pc := range callsIn(fn, "board.ParseFEN") {
				if v, isCall := pc.(*ssa.Call); isCall && v.Call.Args[0] == b {
					parse = v
				}
			}
			if parse == nil {
				c.Undec(rule, fromFEN+"#return:shape"+sfx, ret.Pos(), "the returned board is not one that a board.ParseFEN call in FromFEN filled (helper?): rule cannot decide")
				continue
			}
			g := c11Guards(fn, parse, func(ssa.Value) bool { return false }, invalid)
			g.report(c, rule, fromFEN+"#return:parse-accepted"+sfx, []ssa.Instruction{pk.at}, true, "errnil", false,
				"FromFEN returns a board only on paths where ParseFEN on that board returned nil",
				"FromFEN can return a board on a path where ParseFEN's error is non-nil or untested")
			isReset := func(in ssa.Instruction) bool {
				return isCallTo(in, "board.(*Board).ResetHash") && in.(ssa.CallInstruction).Common().Args[0] == b
			}
			// (ResetHash may also sit in a callee that always runs it: followed by mustExecuteBefore)
			direct := mustExecuteBefore(p, fn, pk.at, func(in ssa.Instruction) bool { return isCallTo(in, "board.(*Board).ResetHash") }, 2)
			leak, _ := reachAvoiding(parse, pk.at, isReset)
			switch {
			case !leak || direct:
				c.Ok(rule, fromFEN+"#return:hash-reset"+sfx, ret.Pos(), "FromFEN returns a board only after ResetHash on it (ParseFEN omits the hash; moves on a hash-less board crash)")
			case len(callsIn(fn, "board.(*Board).ResetHash")) == 0 && c11CallsOwnWith(fn, b):
				c.Undec(rule, fromFEN+"#return:hash-reset"+sfx, ret.Pos(), "no ResetHash on the returned board in FromFEN itself, but the board is handed to another chess-3 function that may do it")
			default:
				c.Fail(rule, fromFEN+"#return:hash-reset"+sfx, ret.Pos(), "FromFEN can return the board without ResetHash having run on it (ParseFEN omits the hash; moves on a hash-less board crash)")
			}
		}
	})
	c.Floor(rule+".fromfen", rets, 1, "non-nil returns of FromFEN")
}

// ---------------------------------------------------------------- R4: tools

func c11R4(c *Ctx, extract func() (*Prog, error)) {
	const rule = "C11.R4"
	if t := c.need("tuner"); t != nil {
		c11R4Epd(c, t, rule)
	}
	x, err := extract()
	if err != nil {
		c.cur = nil
		c.add("load", "config:extract-ast", 0, Undecided, false, "%v", err)
		return
	}
	c.Progs.cache["extract-ast"] = x // so that its load notes reach the evidence
	c.Use(x)
	c11R4Extract(c, x, rule)
}

func c11R4Epd(c *Ctx, p *Prog, rule string) {
	const spec = "tools/tuner/epd.Parse"
	fn, pobj := p.Func(spec), p.FuncObj("board.ParseFEN")
	if fn == nil || pobj == nil {
		c.Anchor(rule, spec)
		return
	}
	// the ParseFEN the tool links is the one of this tree (replace directive in place)
	file := p.Fset.Position(pobj.Pos()).Filename
	c.Check(strings.HasPrefix(file, RepoDir()+"/board/"), rule, spec+"#same-parser", fn.Pos(), "board.ParseFEN used by the tuner is declared in %s (must be this tree's board package, the one R1 analyses)", file)
	var line, brd *ssa.Parameter
	for _, prm := range fn.Params {
		if _, ok := prm.Type().Underlying().(*types.Slice); ok {
			line = prm
		}
		if n, _ := structOf(prm.Type()); n != nil && n.Obj().Name() == "Board" && n.Obj().Pkg().Path() == Mod+"/board" {
			brd = prm
		}
	}
	if line == nil || brd == nil {
		c.Undec(rule, spec+"#shape", fn.Pos(), "expected a byte-slice and a *board.Board parameter")
		return
	}
	// (a) every slice expression on the line is guarded by a length test
	isLen := func(v ssa.Value) bool {
		call, ok := c11Builtin(v, "len")
		return ok && call.Call.Args[0] == ssa.Value(line)
	}
	nsl := 0
	allInstrs(fn, func(in ssa.Instruction) {
		sl, ok := in.(*ssa.Slice)
		if !ok || sl.X != ssa.Value(line) {
			return
		}
		nsl++
		atLeast := int64(0) // len(line) >= atLeast holds here
		for _, ce := range c11EdgeConds(sl.Block()) {
			if op, k, ok := c11CmpWith(ce, isLen); ok && (op == token.GEQ || op == token.EQL) {
				atLeast = max(atLeast, k)
			} else if ok && op == token.GTR {
				atLeast = max(atLeast, k+1)
			}
		}
		good, known := true, sl.Max == nil
		for _, bnd := range []ssa.Value{sl.Low, sl.High} { // len(line)-k or a constant k: needs len(line) >= k
			if bnd == nil {
				continue
			}
			k, isK := c11Int(bnd)
			if bo, ok := bnd.(*ssa.BinOp); ok && bo.Op == token.SUB && isLen(bo.X) {
				k, isK = c11Int(bo.Y)
			}
			known = known && isK
			good = good && isK && k >= 0 && k <= atLeast
		}
		key := fmt.Sprintf("%s#slice@%d", spec, nsl)
		if !known {
			c.Undec(rule, key, sl.Pos(), "bounds of this slice of the input line are neither constants nor len(line)-constant: rule cannot decide")
		} else if good {
			c.Ok(rule, key, sl.Pos(), "bounds are k or len(line)-k with 0 <= k <= %d, and len(line) >= %d holds on every path here", atLeast, atLeast)
		} else {
			c.Fail(rule, key, sl.Pos(), "slice of the input line is not covered by a dominating length test (len(line) >= %d is all that holds): short lines crash the tuner", atLeast)
		}
	})
	c.Floor(rule+".slices", nsl, 1, "slice expressions on the epd line") // today 4; one is needed to cut the FEN out of the line
	// (b) the board is filled by board.ParseFEN and not written here
	var parse *ssa.Call
	wrote, other := false, false
	for _, r := range *brd.Referrers() {
		switch x := r.(type) {
		case *ssa.DebugRef:
		case *ssa.Call:
			if objName(calleeObj(x)) == "board.ParseFEN" && x.Call.Args[0] == ssa.Value(brd) {
				parse = x
			} else {
				other = true
			}
		case *ssa.FieldAddr, *ssa.Store:
			for _, r2 := range *r.(ssa.Value).Referrers() {
				_, isSt := r2.(*ssa.Store)
				wrote = wrote || isSt
			}
			if st, isSt := x.(*ssa.Store); isSt {
				wrote = wrote || st.Addr == ssa.Value(brd)
			}
		default:
			other = true
		}
	}
	switch {
	case wrote:
		c.Fail(rule, spec+"#only-ParseFEN", fn.Pos(), "epd.Parse stores into the *board.Board itself: positions must come from board.ParseFEN only")
	case parse == nil || other:
		c.Undec(rule, spec+"#only-ParseFEN", fn.Pos(), "the *board.Board out-parameter is handed to something other than a direct board.ParseFEN call (helper?): rule cannot decide who fills it")
		return
	default:
		c.Ok(rule, spec+"#only-ParseFEN", fn.Pos(), "the *board.Board out-parameter flows only into board.ParseFEN: no second FEN reader fills it")
	}
	// (c) success is reported only after ParseFEN accepted
	g := c11Guards(fn, parse, func(ssa.Value) bool { return false }, "-")
	allInstrs(fn, func(in ssa.Instruction) {
		ret, ok := in.(*ssa.Return)
		if ok && len(ret.Results) == 1 && c11IsNil(returnedValue(ret, 0)) {
			g.report(c, rule, spec+"#nil-only-after-accept", []ssa.Instruction{ret}, true, "errnil", false,
				"Parse returns nil only on paths where board.ParseFEN returned nil",
				"Parse can return nil on a path where board.ParseFEN's error is non-nil or untested: a rejected FEN is reported as parsed")
		}
	})
}

func c11Lhs0(as *ast.AssignStmt) ast.Expr {
	if as == nil || len(as.Lhs) == 0 {
		return nil
	}
	return as.Lhs[0]
}

func c11R4Extract(c *Ctx, p *Prog, rule string) {
	n, writes := 0, 0
	for _, pk := range p.Pkgs {
		info := pk.TypesInfo
		if info == nil {
			continue
		}
		name := relPkg(pk.PkgPath)
		for _, file := range pk.Syntax {
			ast.Inspect(file, func(nd ast.Node) bool { // no hand-built boards: no assignment to a field of board.Board
				var lhs []ast.Expr
				switch x := nd.(type) {
				case *ast.AssignStmt:
					lhs = x.Lhs
				case *ast.IncDecStmt:
					lhs = []ast.Expr{x.X}
				}
				for _, e := range lhs {
					for ix, ok := ast.Unparen(e).(*ast.IndexExpr); ok; ix, ok = ast.Unparen(e).(*ast.IndexExpr) {
						e = ix.X
					}
					if sel, ok := ast.Unparen(e).(*ast.SelectorExpr); ok {
						if v, ok := info.Uses[sel.Sel].(*types.Var); ok && v.IsField() && v.Pkg() != nil && v.Pkg().Path() == Mod+"/board" {
							writes++
							c.Fail(rule, name+"#board-field-write:"+v.Name(), sel.Pos(), "%s assigns board field %s directly: positions must come from board.ParseFEN only", name, v.Name())
						}
					}
				}
				return true
			})
			for _, call := range callsInNode(info, file, "board.ParseFEN") {
				n++
				// err := ParseFEN(..) as the init of, or directly followed by, a statement that tests err != nil (if, if with
				// an || chain, or a case of a tagless switch) and leaves the iteration/function in that branch
				path := enclosingPath(file, call)
				var as *ast.AssignStmt
				var next ast.Stmt
				for i := len(path) - 1; i > 0 && as == nil; i-- {
					a, ok := path[i].(*ast.AssignStmt)
					if !ok || len(a.Rhs) != 1 || a.Rhs[0] != ast.Expr(call) || len(a.Lhs) != 1 {
						continue
					}
					as = a
					if f, ok := path[i-1].(*ast.IfStmt); ok && f.Init == ast.Stmt(a) {
						next = f
					} else if sw, ok := path[i-1].(*ast.SwitchStmt); ok && sw.Init == ast.Stmt(a) {
						next = sw
					} else if blk, ok := path[i-1].(*ast.BlockStmt); ok {
						for j, s := range blk.List[:len(blk.List)-1] {
							if s == ast.Stmt(a) {
								next = blk.List[j+1]
							}
						}
					}
				}
				good := false
				if id, _ := c11Lhs0(as).(*ast.Ident); id != nil && id.Name != "_" && next != nil && info.ObjectOf(id) != nil {
					var tests func(e ast.Expr) bool // e is (an || chain containing) err != nil
					tests = func(e ast.Expr) bool {
						be, ok := ast.Unparen(e).(*ast.BinaryExpr)
						if !ok {
							return false
						}
						if be.Op == token.LOR {
							return tests(be.X) || tests(be.Y)
						}
						x, y := ast.Unparen(be.X), ast.Unparen(be.Y)
						if yi, ok := x.(*ast.Ident); ok && yi.Name == "nil" {
							x, y = y, x
						}
						xi, isID := x.(*ast.Ident)
						yi, isNil := y.(*ast.Ident)
						return be.Op == token.NEQ && isID && isNil && yi.Name == "nil" && info.ObjectOf(xi) == info.ObjectOf(id)
					}
					leaves := func(body []ast.Stmt) bool {
						if len(body) == 0 {
							return false
						}
						_, isRet := body[len(body)-1].(*ast.ReturnStmt)
						_, isBr := body[len(body)-1].(*ast.BranchStmt)
						return isRet || isBr
					}
					switch x := next.(type) {
					case *ast.IfStmt:
						good = tests(x.Cond) && leaves(x.Body.List)
					case *ast.SwitchStmt:
						for _, cl := range x.Body.List {
							cc := cl.(*ast.CaseClause)
							for _, e := range cc.List {
								good = good || (x.Tag == nil && tests(e) && leaves(cc.Body))
							}
						}
					}
				}
				key := fmt.Sprintf("%s#ParseFEN@%d", name, n)
				if good {
					c.Ok(rule, key, call.Pos(), "error of board.ParseFEN is tested with != nil and the failing branch leaves the iteration/function: a rejected FEN is never used")
				} else if id, _ := c11Lhs0(as).(*ast.Ident); as != nil && (id == nil || id.Name != "_") {
					c.Undec(rule, key, call.Pos(), "the error result of board.ParseFEN is kept, but not tested in the shape this AST-level rule knows (err != nil followed by return/continue)")
				} else {
					c.Fail(rule, key, call.Pos(), "the error result of board.ParseFEN is not tested (err != nil followed by return/continue): a half-parsed board would be used")
				}
			}
		}
	}
	if writes == 0 {
		c.Ok(rule, "tools/extract#no-board-field-writes", token.NoPos, "no assignment to a field of board.Board in tools/extract: boards are filled only by board.ParseFEN")
	}
	c.Floor(rule+".extract", n, 2, "board.ParseFEN call sites in tools/extract")
}

// ---------------------------------------------------------------- R3: same alphabets (closed-expression evaluation)

type c11Env map[ssa.Value]int64

// constTable: g is a package-level array (of integers, or of structs of integers) that nothing outside package
// initialisation stores to or takes the address of; returns rows x fields of its literal, nil when not established.
func (m *c11Model) constTable(g *ssa.Global) [][]int64 {
	if r, ok := m.tabCache[g]; ok || g.Pkg == nil {
		return r
	}
	if m.tabCache == nil {
		m.tabCache = map[*ssa.Global][][]int64{}
	}
	m.tabCache[g] = nil
	name := relPkg(g.Pkg.Pkg.Path()) + "." + g.Name()
	for _, fn := range m.p.OwnFuncs() {
		if e := directEffects(fn); !isInitName(fnName(fn)) && (len(e.GlobalWrites[name]) > 0 || len(e.Escapes[name]) > 0) {
			return nil
		}
	}
	expr, pk := m.p.pkgVarInit(name)
	cl, ok := expr.(*ast.CompositeLit)
	if !ok || pk == nil {
		return nil
	}
	var rows [][]int64
	for _, el := range cl.Elts {
		inner, isStruct := el.(*ast.CompositeLit)
		if v, ok := constInt(pk.TypesInfo, el); ok {
			rows = append(rows, []int64{v})
			continue
		}
		st, _ := pk.TypesInfo.TypeOf(el).Underlying().(*types.Struct)
		if !isStruct || st == nil {
			return nil // keyed array elements, nested tables ...: not modelled
		}
		row := make([]int64, st.NumFields())
		for j, e := range inner.Elts {
			if kv, ok := e.(*ast.KeyValueExpr); ok {
				j, e = -1, kv.Value
				for k := 0; k < st.NumFields(); k++ {
					if id, ok := kv.Key.(*ast.Ident); ok && id.Name == st.Field(k).Name() {
						j = k
					}
				}
			}
			v, ok := constInt(pk.TypesInfo, e)
			if !ok || j < 0 || j >= len(row) {
				return nil
			}
			row[j] = v
		}
		rows = append(rows, row)
	}
	m.tabCache[g] = rows
	return rows
}

var c11Ops = map[token.Token]func(a, b int64) int64{
	token.ADD: func(a, b int64) int64 { return a + b }, token.SUB: func(a, b int64) int64 { return a - b },
	token.MUL: func(a, b int64) int64 { return a * b }, token.AND: func(a, b int64) int64 { return a & b },
	token.OR: func(a, b int64) int64 { return a | b }, token.XOR: func(a, b int64) int64 { return a ^ b },
	token.AND_NOT: func(a, b int64) int64 { return a &^ b }, token.SHL: func(a, b int64) int64 { return a << uint(b&63) },
	token.SHR: func(a, b int64) int64 { return a >> uint(b&63) }, token.QUO: func(a, b int64) int64 { return a / b },
	token.REM: func(a, b int64) int64 { return a % b }, token.EQL: func(a, b int64) int64 { return c11B(a == b) },
	token.NEQ: func(a, b int64) int64 { return c11B(a != b) }, token.LSS: func(a, b int64) int64 { return c11B(a < b) },
	token.LEQ: func(a, b int64) int64 { return c11B(a <= b) }, token.GTR: func(a, b int64) int64 { return c11B(a > b) },
	token.GEQ: func(a, b int64) int64 { return c11B(a >= b) },
}

func c11B(b bool) int64 {
	if b {
		return 1
	}
	return 0
}

// c11Wrap truncates v to the width of the (narrow) integer type t.
func c11Wrap(v int64, t types.Type) int64 {
	if r := c11TypeRange(t); r.lo > math.MinInt64 && r.hi < math.MaxInt64 {
		span := r.hi - r.lo + 1
		v = ((v-r.lo)%span+span)%span + r.lo
	}
	return v
}

// eval evaluates a closed integer/boolean SSA expression under env (no memory, no calls).
func (m *c11Model) eval(v ssa.Value, env c11Env) (int64, bool) {
	if r, ok := env[v]; ok {
		return r, true
	}
	switch x := v.(type) {
	case *ssa.Const:
		if x.Value == nil {
			return 0, true
		} else if x.Value.Kind() == constant.Bool {
			return c11B(constant.BoolVal(x.Value)), true
		}
		return c11Int(x)
	case *ssa.Convert:
		r, ok := m.eval(x.X, env)
		return c11Wrap(r, x.Type()), ok
	case *ssa.ChangeType:
		return m.eval(x.X, env)
	case *ssa.UnOp:
		r, ok := m.eval(x.X, env)
		switch x.Op {
		case token.NOT:
			return 1 - r, ok
		case token.SUB:
			return c11Wrap(-r, x.Type()), ok
		case token.XOR:
			return c11Wrap(^r, x.Type()), ok
		}
	case *ssa.Index: // constant string indexed
		i, ok := m.eval(x.Index, env)
		if s, isS := c11Str(x.X); ok && isS && i >= 0 && i < int64(len(s)) {
			return int64(s[i]), true
		}
	case *ssa.Lookup: // immutable package-level map
		i, ok := m.eval(x.Index, env)
		if vals := m.constMap(x.X); ok && !x.CommaOk && vals != nil {
			return vals[i], true
		}
	case *ssa.BinOp:
		a, ok1 := m.eval(x.X, env)
		b, ok2 := m.eval(x.Y, env)
		op := c11Ops[x.Op]
		if !ok1 || !ok2 || op == nil || ((x.Op == token.QUO || x.Op == token.REM) && b == 0) || ((x.Op == token.SHL || x.Op == token.SHR) && (b < 0 || b > 62)) {
			return 0, false
		}
		return c11Wrap(op(a, b), x.Type()), true
	}
	return 0, false
}

// boardField: addr addresses field F (optionally one element) of a board.Board; with recv != nil it must be
// the board the parser fills (recv.b), otherwise any Board (the printer's copy).
func (m *c11Model) boardField(addr, recv ssa.Value) (string, ssa.Value, bool) {
	var idx ssa.Value
	if ia, ok := addr.(*ssa.IndexAddr); ok {
		addr, idx = ia.X, ia.Index
	}
	fa, ok := addr.(*ssa.FieldAddr)
	if !ok || (recv != nil && !m.loadOf(fa.X, recv, m.fB)) {
		return "", nil, false
	}
	n, st := structOf(fa.X.Type())
	if n == nil || n.Obj().Name() != "Board" || n.Obj().Pkg().Path() != Mod+"/board" {
		return "", nil, false
	}
	return st.Field(fa.Field).Name(), idx, true
}

// c11Ev is what a field parser does with one token, found by walking its CFG with the token's bytes fixed:
// branch conditions that evaluate are followed, others are explored both ways; the walk ends at a cursor
// move (token consumed) or a return.
type c11Ev struct {
	field    string // store to this Board field ...
	idx, val int64  // ... at this index, of this value (when they evaluate)
	idxOK    bool
	valOK    bool
	ret      int  // 1: returns nil, 2: returns an error
	next     bool // reached a cursor move
}

func (m *c11Model) walk(fn *ssa.Function, env c11Env) (evs []c11Ev, fuzzy bool) {
	recv := m.recvOf(fn)
	seen := map[[2]int]bool{}
	var visit func(b, pred *ssa.BasicBlock, env c11Env)
	visit = func(b, pred *ssa.BasicBlock, env c11Env) {
		pi := -1
		for i, q := range b.Preds {
			if q == pred {
				pi = i
			}
		}
		if seen[[2]int{b.Index, pi}] {
			return
		}
		seen[[2]int{b.Index, pi}] = true
		ne := c11Env{}
		for k, v := range env {
			ne[k] = v
		}
		for _, in := range b.Instrs { // phis: simultaneous assignment from the old environment
			if ph, ok := in.(*ssa.Phi); ok && pi >= 0 {
				delete(ne, ph)
				if v, ok := m.eval(ph.Edges[pi], env); ok {
					ne[ph] = v
				}
			}
		}
		env = ne
		for _, in := range b.Instrs {
			switch x := in.(type) {
			case *ssa.Store:
				if _, fi, ok := m.field(x.Addr); ok && fi == m.fCur {
					evs = append(evs, c11Ev{next: true})
					return
				}
				if name, idx, ok := m.boardField(x.Addr, recv); ok {
					e := c11Ev{field: name}
					if idx != nil {
						e.idx, e.idxOK = m.eval(idx, env)
					}
					e.val, e.valOK = m.eval(x.Val, env)
					evs = append(evs, e)
				}
			case *ssa.Call:
				if f := x.Call.StaticCallee(); f != nil && m.moves[f] {
					evs = append(evs, c11Ev{next: true})
					return
				}
			case *ssa.Return:
				evs = append(evs, c11Ev{ret: 2 - int(c11B(c11IsNil(x.Results[len(x.Results)-1])))})
				return
			case *ssa.Jump:
				visit(b.Succs[0], b, env)
			case *ssa.If:
				if v, ok := m.eval(x.Cond, env); ok {
					visit(b.Succs[1-int(v&1)], b, env)
					continue
				}
				// not evaluable: fine for cursor/length/loop-counter tests, but if the condition hangs on a call
				// result or an unbound memory cell the token's effect is not decided by this walk
				for w := range backSlice(x.Cond, sliceOpts{}) {
					call, isCall := w.(*ssa.Call)
					ld, isLd := c11Load(w)
					if _, bound := env[w]; bound {
						continue
					}
					if isCall {
						_, isB := call.Call.Value.(*ssa.Builtin)
						h := m.helperOn(call, recv)
						fuzzy = fuzzy || !(isB || (h != nil && !m.readsBuffer(h)))
					} else if isLd {
						_, isIA := ld.X.(*ssa.IndexAddr)
						fuzzy = fuzzy || isIA
					}
				}
				visit(b.Succs[0], b, env)
				visit(b.Succs[1], b, env)
			}
		}
	}
	visit(fn.Blocks[0], nil, env)
	return evs, fuzzy
}

// tokenEnv binds the loads of buf[cursor+k] (k relative to the cursor at that point, from the R1 dataflow)
// to bytes[k], and every load of a Board field to 0.
func (m *c11Model) tokenEnv(fn *ssa.Function, bytes ...int64) c11Env {
	env := c11Env{}
	f, recv := m.flows[fn], m.recvOf(fn)
	allInstrs(fn, func(in ssa.Instruction) {
		if call, isCall := in.(*ssa.Call); isCall && f != nil { // `fp.peek()`: a helper returning buf[cursor+k]
			if off, ok := m.peekOffset(call, f.recv); ok && off < len(bytes) {
				env[call] = bytes[off]
			}
			return
		}
		ld, ok := c11Load(c11AsValue(in))
		if !ok {
			return
		}
		if ia, ok := ld.X.(*ssa.IndexAddr); ok && f != nil && m.loadOf(ia.X, recv, m.fBuf) {
			if off, ok := f.offset(ia.Index, f.at[ia]); ok && off >= 0 && off < len(bytes) {
				env[ld] = bytes[off]
			}
		} else if _, _, ok := m.boardField(ld.X, recv); ok {
			env[ld] = 0
		}
	})
	return env
}

// helperOn: call invokes a method of the closure on the same parser object, and that method does not move the cursor.
func (m *c11Model) helperOn(call *ssa.Call, recv ssa.Value) *ssa.Function {
	callee := call.Call.StaticCallee()
	if callee == nil || !m.inClosure[callee] || m.moves[callee] || recv == nil || len(call.Call.Args) == 0 || call.Call.Args[0] != recv || len(callee.Params) == 0 || m.recvOf(callee) != ssa.Value(callee.Params[0]) {
		return nil
	}
	return callee
}

// peekOffset: call is such a helper whose single return yields the byte buf[cursor+k]; returns k.
func (m *c11Model) peekOffset(call *ssa.Call, recv ssa.Value) (int, bool) {
	callee := m.helperOn(call, recv)
	if callee == nil {
		return 0, false
	}
	var rets []*ssa.Return
	allInstrs(callee, func(in ssa.Instruction) {
		if r, ok := in.(*ssa.Return); ok {
			rets = append(rets, r)
		}
	})
	if len(rets) != 1 || len(rets[0].Results) != 1 {
		return 0, false
	}
	ld, ok := c11Load(rets[0].Results[0])
	if !ok {
		return 0, false
	}
	ia, ok := ld.X.(*ssa.IndexAddr)
	cf := m.flows[callee]
	if !ok || cf == nil || !m.loadOf(ia.X, cf.recv, m.fBuf) {
		return 0, false
	}
	off, ok := cf.offset(ia.Index, cf.at[ia])
	return off, ok && off >= 0
}

// readsBuffer: fn or a function of the closure it calls statically indexes the parser buffer.
func (m *c11Model) readsBuffer(fn *ssa.Function) bool {
	reads := false
	for _, g := range m.staticClosure(fn) {
		allInstrs(g, func(in ssa.Instruction) {
			if ia, ok := in.(*ssa.IndexAddr); ok && m.loadOf(ia.X, nil, m.fBuf) {
				reads = true
			}
		})
	}
	return reads
}

// cellRef: v reads column col of row idx of a package-level table: tbl[idx].f directly, through its address, or
// through a local copy of the row (`for _, r := range tbl`, `r := tbl[i]`) that is assigned exactly once, whole,
// before the read and never written field-wise.
func (m *c11Model) cellRef(v ssa.Value) (g *ssa.Global, idx ssa.Value, col int, ok bool) {
	rowOf := func(r ssa.Value) (*ssa.Global, ssa.Value) {
		if ix, ok := r.(*ssa.Index); ok { // (*tbl)[i]
			if ld, ok := c11Load(ix.X); ok {
				g, _ := ld.X.(*ssa.Global)
				return g, ix.Index
			}
		} else if ld, ok := c11Load(r); ok { // *&tbl[i]
			if ia, ok := ld.X.(*ssa.IndexAddr); ok {
				g, _ := ia.X.(*ssa.Global)
				return g, ia.Index
			}
		}
		return nil, nil
	}
	if f, isF := v.(*ssa.Field); isF {
		g, idx = rowOf(f.X)
		return g, idx, f.Field, g != nil
	}
	if _, isIx := v.(*ssa.Index); isIx { // element of a table of plain integers: (*tbl)[i]
		g, idx = rowOf(v)
		return g, idx, 0, g != nil
	}
	ld, isLd := c11Load(v)
	if !isLd {
		return nil, nil, 0, false
	}
	fa, isFA := ld.X.(*ssa.FieldAddr)
	if !isFA {
		g, idx = rowOf(v) // table of plain integers
		return g, idx, 0, g != nil
	}
	if ia, ok := fa.X.(*ssa.IndexAddr); ok {
		g, _ = ia.X.(*ssa.Global)
		return g, ia.Index, fa.Field, g != nil
	}
	al, ok := fa.X.(*ssa.Alloc)
	if !ok {
		return nil, nil, 0, false
	}
	var copyOf *ssa.Store
	for _, r := range *al.Referrers() {
		switch x := r.(type) {
		case *ssa.Store:
			if x.Addr != ssa.Value(al) || copyOf != nil {
				return nil, nil, 0, false
			}
			copyOf = x
		case *ssa.FieldAddr:
			for _, r2 := range *x.Referrers() {
				if _, isLoad := c11Load(c11AsValue(r2)); !isLoad {
					return nil, nil, 0, false
				}
			}
		case *ssa.DebugRef:
		default:
			return nil, nil, 0, false
		}
	}
	if copyOf == nil || !instrDominates(copyOf, ld) {
		return nil, nil, 0, false
	}
	g, idx = rowOf(copyOf.Val)
	return g, idx, fa.Field, g != nil
}

// c11TableEmit is the static reading of "for i over all rows of tbl, in index order: if field&tbl[i].right != 0
// (or == tbl[i].right) { write the byte tbl[i].letter }".
type c11TableEmit struct {
	rows, lrows [][]int64 // rows holding the rights / the letters (the same table, or parallel arrays of equal length)
	right, let  int       // columns
	eq          bool      // gate is field&right == right
}

// tableEmit recognises emission e (a byte write inside a loop) as such a table-driven emission gated on the
// Board field `field`. why != "": not of that shape (the caller reports undecided).
func (m *c11Model) tableEmit(e c11Emit, field string) (*c11TableEmit, string) {
	g, idx, let, ok := m.cellRef(e.val)
	if !ok || e.kind != "byte" {
		return nil, "the byte written is not a cell of a package-level table"
	}
	rows := m.constTable(g)
	n, full := fullRangeIndex(idx)
	if rows == nil || !full || n != int64(len(rows)) {
		return nil, fmt.Sprintf("%s is not an immutable literal table visited by a full-range loop 0..len-1", g.Name())
	}
	// the natural loop of that counter: no exit but the header's, and the write is not inside an inner loop
	ph, _ := stripConv(idx).(*ssa.Phi)
	if bo, ok := stripConv(idx).(*ssa.BinOp); ok {
		ph, _ = stripConv(bo.X).(*ssa.Phi)
	}
	if ph == nil {
		return nil, "loop counter not recognised"
	}
	hdr, blk := ph.Block(), e.in.Block()
	loop := map[*ssa.BasicBlock]bool{hdr: true}
	var grow func(b *ssa.BasicBlock)
	grow = func(b *ssa.BasicBlock) {
		if !loop[b] && hdr.Dominates(b) {
			loop[b] = true
			for _, p := range b.Preds {
				grow(p)
			}
		}
	}
	for _, p := range hdr.Preds {
		if hdr.Dominates(p) {
			grow(p)
		}
	}
	for b := range loop {
		for _, s := range b.Succs {
			if b != hdr && !loop[s] {
				return nil, "the loop over the table can be left before its end (break / return)"
			}
		}
	}
	again, _ := reachAvoiding(e.in, e.in, func(in ssa.Instruction) bool { return in.Block() == hdr })
	if !loop[blk] || blk == hdr || again {
		return nil, "the write is not executed at most once per iteration of the loop over the table"
	}
	// the loop itself runs unconditionally as far as memory is concerned; inside, exactly one gate
	var gates []condEdge
	for _, ce := range c11EdgeConds(blk) {
		switch in := ce.If.Block(); {
		case in == hdr:
		case loop[in]:
			gates = append(gates, ce)
		default:
			for w := range backSlice(ce.Cond, sliceOpts{ThroughCalls: true}) {
				if _, isLd := c11Load(w); isLd {
					return nil, "the loop over the table runs under a condition that depends on memory"
				}
			}
		}
	}
	if len(gates) != 1 {
		return nil, fmt.Sprintf("the write is gated by %d conditions inside the loop, expected exactly one", len(gates))
	}
	op, X, Y, ok := c11Cmp(gates[0])
	if !ok || (op != token.NEQ && op != token.EQL) {
		return nil, "gate is not an (in)equality"
	}
	if _, isAnd := X.(*ssa.BinOp); !isAnd {
		X, Y = Y, X
	}
	and, isAnd := X.(*ssa.BinOp)
	if !isAnd || and.Op != token.AND {
		return nil, "gate does not mask the field with the row's right"
	}
	a, b := and.X, and.Y
	if ld, ok := c11Load(b); ok {
		if f, _, ok := m.boardField(ld.X, nil); ok && f == field {
			a, b = b, a
		}
	}
	ld, isLd := c11Load(a)
	f, _, isBF := m.boardField(c11LoadAddr(ld), nil)
	g2, idx2, right, ok := m.cellRef(b)
	var rrows [][]int64
	if ok {
		rrows = m.constTable(g2) // the letters' own table, or a parallel array visited by the same counter
	}
	if !isLd || !isBF || f != field || !ok || idx2 != idx || (g2 == g && right == let) || len(rrows) != len(rows) {
		return nil, "gate does not combine Board." + field + " with a cell of the same row (same table, or a parallel immutable array of the same length, at the same counter) as the byte written"
	}
	if len(rows) == 0 || right >= len(rrows[0]) || let >= len(rows[0]) {
		return nil, "table columns do not match the cells read"
	}
	t := &c11TableEmit{rows: rrows, lrows: rows, right: right, let: let}
	if k, isZero := c11Int(Y); op == token.NEQ && isZero && k == 0 {
		return t, ""
	}
	if g3, idx3, col3, ok := m.cellRef(Y); op == token.EQL && ok && g3 == g2 && idx3 == idx && col3 == right {
		t.eq = true
		return t, ""
	}
	return nil, "gate is neither `field & row.right != 0` nor `field & row.right == row.right`"
}

func c11LoadAddr(ld *ssa.UnOp) ssa.Value {
	if ld == nil {
		return nil
	}
	return ld.X
}

// text: what the table-driven emission writes when the field holds x — arithmetic on the constant rows.
func (t *c11TableEmit) text(x int64) (s string) {
	for i, row := range t.rows {
		if r := row[t.right]; (!t.eq && x&r != 0) || (t.eq && r != 0 && x&r == r) {
			s += string(rune(t.lrows[i][t.let]))
		}
	}
	return s
}

// c11Emit is one piece of text the printer emits.
type c11Emit struct {
	in     ssa.Instruction
	seq    int    // order inside one call (Fprintf verbs)
	kind   string // "lit", "byte", "dec", "call" (text returned by callee(val)), "?"
	lit    string
	val    ssa.Value // byte / number / argument of callee
	callee *ssa.Function
	fields map[string]bool // Board fields the emission depends on (data or control)
}

// printerModel lists the emissions of Board.FEN: strings.Builder writes and Fprintf with %c/%d verbs.
func (m *c11Model) printerModel(fn *ssa.Function) (ems []c11Emit, bad string) {
	fieldsOf := func(v ssa.Value, blk *ssa.BasicBlock) map[string]bool {
		out := map[string]bool{}
		vals := []ssa.Value{v}
		for _, ce := range c11EdgeConds(blk) {
			vals = append(vals, ce.Cond)
		}
		for _, v := range vals {
			if v == nil {
				continue
			}
			for w := range backSlice(v, sliceOpts{ThroughCalls: true}) {
				if ld, ok := c11Load(w); ok {
					if f, _, ok := m.boardField(ld.X, nil); ok {
						out[f] = true
					}
				}
			}
		}
		return out
	}
	// scan lists the output calls of g; those of local closures and chess-3 helpers g calls are attributed to
	// the call site in the printer itself (site), which is what ordering and guards are judged by.
	var scan func(g *ssa.Function, site ssa.Instruction, depth int)
	scan = func(g *ssa.Function, site ssa.Instruction, depth int) {
		allInstrs(g, func(in ssa.Instruction) {
			call, ok := in.(*ssa.Call)
			if !ok || call.Call.StaticCallee() == nil || bad != "" {
				return
			}
			at := site
			if at == nil {
				at = in
			}
			callee := call.Call.StaticCallee()
			name, args := c11Name(callee), call.Call.Args
			add := func(e c11Emit) {
				if k, isK := c11Int(e.val); e.kind == "byte" && isK && k >= 0 && k < 128 { // WriteByte('-'): a literal
					e.kind, e.lit, e.val = "lit", string(rune(k)), nil
				}
				e.in, e.fields = at, fieldsOf(e.val, at.Block())
				if site != nil { // also what the helper's own conditions and operands depend on
					for f := range fieldsOf(e.val, in.Block()) {
						e.fields[f] = true
					}
					e.seq = len(ems)
				}
				ems = append(ems, e)
			}
			if isOwn(callee) && callee.Blocks != nil && depth < 3 && (callee.Parent() != nil || c11TakesBuilder(callee)) {
				scan(callee, at, depth+1)
				return
			}
			switch name {
			case "strings.Builder.WriteString":
				inner, isCall := args[1].(*ssa.Call)
				if s, ok := c11Str(args[1]); ok {
					add(c11Emit{kind: "lit", lit: s})
				} else if isCall && inner.Call.StaticCallee() != nil && len(inner.Call.Args) == 1 {
					e := c11Emit{kind: "call", val: inner.Call.Args[0], callee: inner.Call.StaticCallee()}
					if c11Name(e.callee) == "strconv.Itoa" {
						e.kind = "dec"
					}
					add(e)
				} else {
					add(c11Emit{kind: "?", val: args[1]})
				}
			case "strings.Builder.WriteByte", "strings.Builder.WriteRune":
				add(c11Emit{kind: "byte", val: args[1]})
			case "fmt.Fprintf":
				format, ok := c11Str(args[1])
				va := c11Varargs(args[2])
				for i, n := 0, 0; i < len(format) && ok; i, n = i+1, n+1 {
					if j := strings.IndexByte(format[i:], '%'); j != 0 { // literal run
						if j < 0 {
							j = len(format) - i
						}
						add(c11Emit{kind: "lit", lit: format[i : i+j], seq: n})
						i += j - 1
						continue
					}
					i++
					kind := ""
					if i < len(format) {
						kind = map[byte]string{'c': "byte", 'd': "dec"}[format[i]]
					}
					mi, isMI := ssa.Value(nil), false
					if len(va) > 0 {
						mi, isMI = va[0].(*ssa.MakeInterface)
					}
					if ok = kind != "" && isMI; ok {
						add(c11Emit{kind: kind, val: mi.(*ssa.MakeInterface).X, seq: n})
						va = va[1:]
					}
				}
				if !ok {
					bad = "Fprintf with a non-constant format, a verb other than %c/%d, or arguments not built in place"
				}
			default:
				if (strings.HasPrefix(name, "strings.Builder.") && name != "strings.Builder.String") || strings.HasPrefix(name, "fmt.F") {
					bad = "unmodelled output call " + name
				}
			}
		})
	}
	scan(fn, nil, 0)
	return ems, bad
}

// c11TakesBuilder: fn has a *strings.Builder / io.Writer parameter (a printing helper).
func c11TakesBuilder(fn *ssa.Function) bool {
	for _, p := range fn.Params {
		if t := p.Type().String(); t == "*strings.Builder" || t == "io.Writer" {
			return true
		}
	}
	return false
}

// c11Before: instruction a is executed before b on every path containing both, and some path contains both
// (b reachable from a, a not reachable from b).
func c11Before(a, b ssa.Instruction) bool {
	reach := func(from, to *ssa.BasicBlock) bool { // via at least one edge
		seen := map[*ssa.BasicBlock]bool{}
		var dfs func(x *ssa.BasicBlock) bool
		dfs = func(x *ssa.BasicBlock) bool {
			for _, s := range x.Succs {
				if s == to || (!seen[s] && func() bool { seen[s] = true; return dfs(s) }()) {
					return true
				}
			}
			return false
		}
		return dfs(from)
	}
	ab, ba := reach(a.Block(), b.Block()), reach(b.Block(), a.Block())
	if a.Block() == b.Block() {
		return !ab && instrIndex(a) < instrIndex(b)
	}
	return ab && !ba
}

// squareText evaluates callee(s) = fmt.Sprintf("%c%c", f(s), g(s)) (chess.Square.String) to its two bytes.
func (m *c11Model) squareText(callee *ssa.Function, s int64) ([]int64, bool) {
	var ret *ssa.Return
	n := 0
	allInstrs(callee, func(in ssa.Instruction) {
		if r, ok := in.(*ssa.Return); ok {
			ret, n = r, n+1
		}
	})
	if n != 1 || len(callee.Params) != 1 || len(ret.Results) != 1 {
		return nil, false
	}
	var va []ssa.Value
	if cv, isConv := ret.Results[0].(*ssa.Convert); isConv { // string([]byte{f(s), g(s)})
		va = c11Varargs(cv.X)
	} else if sp, ok := ret.Results[0].(*ssa.Call); ok && c11Name(sp.Call.StaticCallee()) == "fmt.Sprintf" {
		if f, _ := c11Str(sp.Call.Args[0]); f == "%c%c" {
			va = c11Varargs(sp.Call.Args[1])
		}
	}
	if len(va) != 2 {
		return nil, false
	}
	var out []int64
	for _, a := range va {
		if mi, ok := a.(*ssa.MakeInterface); ok {
			a = mi.X
		}
		if a == nil {
			return nil, false
		}
		ch, ok := m.eval(a, c11Env{callee.Params[0]: s})
		if !ok {
			return nil, false
		}
		out = append(out, ch)
	}
	return out, true
}

func c11R3(c *Ctx, m *c11Model) {
	const rule = "C11.R3"
	pr := m.p.Func("board.(Board).FEN")
	if pr == nil {
		c.Anchor(rule, "board.(Board).FEN")
		return
	}
	ems, bad := m.printerModel(pr)
	if bad != "" || len(ems) == 0 {
		c.Undec(rule, "board.(Board).FEN#model", pr.Pos(), "printer output calls not understood: %s", bad)
		return
	}
	// field group of each parser: the Board fields its closure writes; group of an emission: by its fields
	group := map[string]int{}
	for i, fn := range m.parsers {
		for k := range unionEffects(m.staticClosure(fn)).FieldWrites {
			if f, ok := strings.CutPrefix(k, "board.Board."); ok {
				group[f] = i
			}
		}
	}
	emGroup := func(e c11Emit) int {
		g := -1
		for f := range e.fields {
			if i, ok := group[f]; ok && g >= 0 && g != i {
				return -2
			} else if ok {
				g = i
			}
		}
		return g
	}
	emsOf := func(field string) (out []c11Emit) {
		for _, e := range ems {
			if i, ok := group[field]; ok && emGroup(e) == i {
				out = append(out, e)
			}
		}
		return out
	}
	parserOf := func(field string) *ssa.Function {
		if i, ok := group[field]; ok {
			return m.parsers[i]
		}
		return nil
	}
	envFor := func(field string, v int64) c11Env { // every load of that Board field in the printer = v
		env := c11Env{}
		allInstrs(pr, func(in ssa.Instruction) {
			if ld, ok := c11Load(c11AsValue(in)); ok {
				if f, _, ok := m.boardField(ld.X, nil); ok && f == field {
					env[ld] = v
				}
			}
		})
		return env
	}
	// guards: do the branch conditions controlling the emission hold under env? Conditions that do not depend
	// on memory (loop counters) are skipped. Second result false: not evaluable.
	guards := func(e c11Emit, env c11Env) (bool, bool) {
		for _, ce := range c11EdgeConds(e.in.Block()) {
			v, ok := m.eval(ce.Cond, env)
			if ok && (v != 0) != ce.True {
				return false, true
			}
			for w := range backSlice(ce.Cond, sliceOpts{ThroughCalls: true}) {
				if _, isLd := c11Load(w); isLd && !ok {
					return false, false
				}
			}
		}
		return true, true
	}
	// tokens: effect of the token `bytes` in parser fn: values stored into field, accept / reject, fuzzy
	type effect struct {
		vals, idxs     []int64
		accept, reject bool
		fuzzy          bool
	}
	tok := func(fn *ssa.Function, field string, bytes ...int64) (r effect) {
		evs, fz := m.walk(fn, m.tokenEnv(fn, bytes...))
		r.fuzzy = fz
		for _, e := range evs {
			if e.field == field {
				r.vals, r.idxs = append(r.vals, e.val), append(r.idxs, e.idx)
				r.fuzzy = r.fuzzy || !(e.valOK || e.idxOK)
			}
			r.accept, r.reject = r.accept || e.ret == 1 || e.next, r.reject || e.ret == 2
		}
		return r
	}
	report := func(key string, pos token.Pos, undec, ok bool, format string, a ...any) bool {
		switch {
		case undec:
			c.Undec(rule, key, pos, "not evaluable (helper call, unbound load or unknown emission): "+format, a...)
		case ok:
			c.Ok(rule, key, pos, format, a...)
		default:
			c.Fail(rule, key, pos, format, a...)
		}
		return ok && !undec
	}

	// (a) piece letters: printed byte as a function of (colour, piece) vs what the placement parser does with it
	if fn, es := parserOf("SquaresToPiece"), emsOf("SquaresToPiece"); fn != nil {
		var em *c11Emit
		var pieceLeaf, colorLeaf ssa.Value
		for i := range es {
			if es[i].kind == "byte" {
				em = &es[i]
			}
		}
		_, bst := structOf(pr.Params[0].Type())
		for v := range backSlice(c11EmitVal(em), sliceOpts{Stop: func(v ssa.Value) bool { _, isPhi := v.(*ssa.Phi); _, isLd := c11Load(v); return isPhi || isLd }}) {
			_, isPhi := v.(*ssa.Phi)
			if _, isLd := c11Load(v); !isPhi && !isLd {
				continue
			}
			for i := 0; i < bst.NumFields(); i++ { // leaves by type: element type of SquaresToPiece, type of STM
				if a, ok := bst.Field(i).Type().Underlying().(*types.Array); ok && bst.Field(i).Name() == "SquaresToPiece" && types.Identical(v.Type(), a.Elem()) {
					pieceLeaf = v
				} else if bst.Field(i).Name() == "STM" && types.Identical(v.Type(), bst.Field(i).Type()) {
					colorLeaf = v
				}
			}
		}
		n := 0
		for col := int64(0); col < 2 && em != nil; col++ {
			for pce := int64(1); pce <= 6; pce++ {
				ch, ok := m.eval(em.val, c11Env{pieceLeaf: pce, colorLeaf: col})
				ps, cs := tok(fn, "Pieces", ch), tok(fn, "Colors", ch)
				same := len(ps.idxs) == 1 && len(cs.idxs) == 1 && ps.idxs[0] == pce && cs.idxs[0] == col
				if report(fmt.Sprintf("pieces#color%d-piece%d", col, pce), em.in.Pos(), !ok || pieceLeaf == nil || colorLeaf == nil || ps.fuzzy || cs.fuzzy, same,
					"printer emits %q for (colour %d, piece %d); the placement parser (letter map, colour test) files that byte under pieces %v, colours %v", rune(ch), col, pce, ps.idxs, cs.idxs) {
					n++
				}
			}
		}
		c.Floor(rule+".pieces", n, 12, "piece letters agreeing")
	} else {
		c.Undec(rule, "pieces#shape", pr.Pos(), "no parser writes Board.SquaresToPiece")
	}

	// (b) castling rights: all 16 sets round-trip, canonical order
	if fn, es := parserOf("Castles"), emsOf("Castles"); fn != nil && len(es) > 0 {
		sort.SliceStable(es, func(i, j int) bool { return c11Before(es[i].in, es[j].in) })
		// emissions are either constant strings under evaluable conditions (if-chain form) or one byte per row of a
		// constant {right, letter} table written by a full-range loop (read statically, nothing is executed)
		tables, whyNot := map[int]*c11TableEmit{}, ""
		for i, e := range es {
			if e.kind != "lit" {
				var why string
				if tables[i], why = m.tableEmit(e, "Castles"); tables[i] == nil {
					whyNot = fmt.Sprintf(" — the emission at %s is neither a constant string nor a table-driven byte: %s", m.p.Rel(e.in.Pos()), why)
				}
			}
		}
		printed := func(x int64) (s string, ok bool) {
			for i, e := range es {
				if t := tables[i]; t != nil {
					s += t.text(x)
					continue
				}
				on, known := guards(e, envFor("Castles", x))
				if !known || e.kind != "lit" {
					return "", false
				}
				if on {
					s += e.lit
				}
			}
			return s, true
		}
		n := 0
		for x := int64(0); x < 16; x++ {
			s, ok := printed(x)
			back, good, fuzzy := int64(0), s != "", !ok
			for i := 0; i < len(s); i++ {
				t := tok(fn, "Castles", int64(s[i]))
				fuzzy, good = fuzzy || t.fuzzy, good && t.accept && !t.reject && len(t.vals) <= 1
				for _, v := range t.vals {
					back |= v
				}
			}
			if report(fmt.Sprintf("castling#rights=%d", x), es[0].in.Pos(), fuzzy, good && back == x, "rights %04b are printed as %q; the parser reads that back as %04b (every letter accepted: %v)%s", x, s, back, good, whyNot) {
				n++
			}
		}
		all, ok := printed(15)
		report("castling#canonical-order", es[0].in.Pos(), !ok, all == "KQkq", "all four rights are printed as %q (canonical FEN order is KQkq: text round trip)", all)
		c.Floor(rule+".castling", n, 16, "right sets round-tripping")
	} else {
		c.Undec(rule, "castling#shape", pr.Pos(), "no castling parser / emission")
	}

	// (c) side to move
	if fn, es := parserOf("STM"), emsOf("STM"); fn != nil && len(es) == 1 && es[0].kind == "byte" {
		n := 0
		for v := int64(0); v < 2; v++ {
			ch, ok := m.eval(es[0].val, envFor("STM", v))
			t := tok(fn, "STM", ch)
			if report(fmt.Sprintf("side#color%d", v), es[0].in.Pos(), !ok || t.fuzzy, len(t.vals) == 1 && t.vals[0] == v, "printer emits %q for side %d; the parser stores %v for that byte", rune(ch), v, t.vals) {
				n++
			}
		}
		c.Floor(rule+".side", n, 2, "side letters agreeing")
	} else {
		c.Undec(rule, "side#shape", pr.Pos(), "expected exactly one byte emission depending on STM")
	}

	// (d) field order: text of parser i's fields is emitted before text of parser j's fields for i < j
	seen, detail, mixed := map[int]bool{}, "", false
	for _, a := range ems {
		ga := emGroup(a)
		seen[ga], mixed = true, mixed || ga == -2
		for _, b := range ems {
			if gb := emGroup(b); ga >= 0 && ga < gb && !(c11Before(a.in, b.in) || (a.in == b.in && a.seq < b.seq)) {
				detail = fmt.Sprintf("text of field %d (%v) is not always emitted before text of field %d (%v)", ga, sortedKeys(a.fields), gb, sortedKeys(b.fields))
			}
		}
	}
	for i := range m.parsers {
		if !seen[i] {
			detail = fmt.Sprintf("nothing printed depends on what field parser %d (%s) stores", i, m.parsers[i].Name())
		}
	}
	report("order#fields", pr.Pos(), mixed, detail == "", "printer emits the %d fields in the order the parsers %v are handed to the combinator %s", len(m.parsers), c11Names(m.parsers), detail)
	c.Floor(rule+".order", len(m.parsers), 6, "fields")

	// (e) en passant square text (ranks 3 and 6 are the only valid targets), '-' for none
	if fn, es := parserOf("EnPassant"), emsOf("EnPassant"); fn != nil && len(es) > 0 {
		n := 0
		squares := []int64{0}
		for s := int64(16); s < 24; s++ {
			squares = append(squares, s, s+24)
		}
		for _, s := range squares {
			var text []int64
			known := true
			for _, e := range es {
				on, k := guards(e, envFor("EnPassant", s))
				known = known && k
				if sq, ok := []int64(nil), false; on && e.kind == "call" {
					sq, ok = m.squareText(e.callee, s)
					text, known = append(text, sq...), known && ok
				} else if on {
					known = known && e.kind == "lit"
					for i := 0; i < len(e.lit); i++ {
						text = append(text, int64(e.lit[i]))
					}
				}
			}
			for len(text) < 2 {
				text = append(text, ' ') // a one-byte text is followed by the separator
			}
			t := tok(fn, "EnPassant", text...)
			good := t.accept && ((s == 0 && len(t.vals) == 0) || (s != 0 && len(t.vals) == 1 && t.vals[0] == s))
			if report(fmt.Sprintf("enpassant#sq%d", s), es[0].in.Pos(), !known || len(text) != 2 || t.fuzzy, good, "en-passant square %d is printed as %q; the parser stores %v for that text (accepting path: %v)", s, string([]rune{rune(text[0]), rune(text[1])}), t.vals, t.accept) {
				n++
			}
		}
		c.Floor(rule+".enpassant", n, 17, "en-passant texts round-tripping")
	} else {
		c.Undec(rule, "enpassant#shape", pr.Pos(), "no en-passant parser / emission")
	}

	// (f) counters: accepted ranges cover what a valid position prints and fit the field
	for _, w := range []struct {
		field  string
		lo, hi int64
	}{{"FiftyCnt", 0, 100}, {"fullMoves", 1, math.MaxInt64}} {
		fn, key := parserOf(w.field), "counter#"+w.field
		var sts []*ssa.Store
		for _, f := range m.staticClosure(fn) {
			allInstrs(f, func(in ssa.Instruction) {
				if st, ok := in.(*ssa.Store); ok {
					if name, _, ok := m.boardField(st.Addr, m.recvOf(f)); ok && name == w.field {
						sts = append(sts, st)
					}
				}
			})
		}
		es := emsOf(w.field)
		if len(sts) != 1 || len(es) != 1 || es[0].kind != "dec" {
			c.Undec(rule, key, pr.Pos(), "expected one store of Board.%s in its parser and one decimal emission of it", w.field)
			continue
		}
		r, tr := m.rng(stripConv(sts[0].Val), sts[0].Block(), 0), c11TypeRange(sts[0].Val.Type())
		switch {
		case r.lo > w.lo || r.hi < w.hi:
			c.Fail(rule, key, sts[0].Pos(), "the parser accepts %s only in %s; every value in [%d,%d] is printable for a valid position and must be accepted", w.field, r, w.lo, w.hi)
		case !r.within(tr.lo, tr.hi) && (r.lo == math.MinInt64 || r.hi == math.MaxInt64):
			c.Undec(rule, key, sts[0].Pos(), "no dominating comparison bounds the value stored into %s on one side (range %s, field type %s): the range test is in a form this rule does not see", w.field, r, tr)
		case !r.within(tr.lo, tr.hi):
			c.Fail(rule, key, sts[0].Pos(), "accepted range %s of %s does not fit the field type (%s): the stored value differs from the text", r, w.field, tr)
		default:
			c.Ok(rule, key, sts[0].Pos(), "accepted range of %s is %s: covers [%d,%d] and fits the field type %s", w.field, r, w.lo, min(w.hi, tr.hi), tr)
		}
		// everything play can leave in the field (and Board.FEN then prints) must be accepted back
		if w.field == "FiftyCnt" {
			reach, how := fieldIncrementReach(m.p, "board.Board."+w.field, tr.hi)
			if r.hi >= reach {
				c.Ok(rule, key+"#printable", sts[0].Pos(), "the parser accepts up to %d; play can raise the clock to at most %d (%s)", r.hi, reach, how)
			} else {
				c.Fail(rule, key+"#printable", sts[0].Pos(), "the parser accepts the halfmove clock only up to %d, but play can raise it to %d (%s): the engine rejects FENs it prints itself (e.g. after 102 reversible plies `fen` prints `... 102 52` and `position fen` of that text answers `fifty move count out of range 102`)", r.hi, reach, how)
			}
		}
	}
}

// fieldIncrementReach: the largest value `field++` sites can leave in an integer
// struct field: the dominating upper bound if every increment has one, else the type's maximum.
func fieldIncrementReach(p *Prog, qname string, typeMax int64) (int64, string) {
	reach := int64(0)
	how := "no increment found"
	for _, fn := range p.OwnFuncs() {
		allInstrs(fn, func(in ssa.Instruction) {
			st, ok := in.(*ssa.Store)
			if !ok {
				return
			}
			fa, ok := st.Addr.(*ssa.FieldAddr)
			if !ok {
				return
			}
			fr, ok := asFieldAddr(fa)
			if !ok || fr.QName() != qname {
				return
			}
			bo, ok := stripConv(st.Val).(*ssa.BinOp)
			if !ok || bo.Op != token.ADD {
				return
			}
			if k, isc := constOf(bo.Y); !isc || k != 1 {
				return
			}
			bound := typeMax
			desc := "unbounded increment in " + fnName(fn)
			for _, ce := range controllingConds(st.Block()) {
				cb, ok := ce.Cond.(*ssa.BinOp)
				if !ok {
					continue
				}
				lim, isc := constOf(cb.Y)
				if !isc || !sameValue(stripConv(cb.X), stripConv(bo.X), 0) {
					continue
				}
				switch {
				case cb.Op == token.LSS && ce.True, cb.Op == token.GEQ && !ce.True:
					bound, desc = lim, fmt.Sprintf("increment guarded by < %d in %s", lim, fnName(fn))
				case cb.Op == token.LEQ && ce.True, cb.Op == token.GTR && !ce.True:
					bound, desc = lim+1, fmt.Sprintf("increment guarded by <= %d in %s", lim, fnName(fn))
				}
			}
			if bound > reach {
				reach, how = bound, desc
			}
		})
	}
	return reach, how
}

func c11EmitVal(e *c11Emit) ssa.Value {
	if e == nil {
		return nil
	}
	return e.val
}

// ---------------------------------------------------------------- mutants

func init() {
	const fen, uci, epd, ext = "board/fen.go", "uci/uci.go", "tools/tuner/epd/parser.go", "tools/extract/extract.go"
	const endCheck = "\t\t\tif fp.ix >= fp.l {\n\t\t\t\treturn errors.New(\"premature end of fen\")\n\t\t\t}\n"
	const ifChain = "\tif b.Castles&ShortWhite != 0 {\n\t\tsb.WriteString(\"K\")\n\t}\n\n\tif b.Castles&LongWhite != 0 {\n\t\tsb.WriteString(\"Q\")\n\t}\n\n\tif b.Castles&ShortBlack != 0 {\n\t\tsb.WriteString(\"k\")\n\t}\n\n\tif b.Castles&LongBlack != 0 {\n\t\tsb.WriteString(\"q\")\n\t}\n"
	const tableLoop = "\tfor _, fc := range fenCastles {\n\t\tif b.Castles&fc.right != 0 {\n\t\t\tsb.WriteByte(fc.letter)\n\t\t}\n\t}\n"
	const tableDecl = "var fenCastles = [...]struct {\n\tright  Castles\n\tletter byte\n}{{ShortWhite, 'K'}, {LongWhite, 'Q'}, {ShortBlack, 'q'}, {LongBlack, 'k'}}\n\n"
	mut := func(name, file, old, new, expect string) Mutant {
		return Mutant{Name: "C11." + name, Prop: "C11", File: file, Old: old, New: new, Expect: "C11." + expect}
	}
	quick := func(m Mutant) Mutant { m.Quick = true; return m }
	kq := mut("R3-printer-kq-swapped", fen, "if b.Castles&ShortBlack != 0 {\n\t\tsb.WriteString(\"k\")", "if b.Castles&ShortBlack != 0 {\n\t\tsb.WriteString(\"q\")", "R3/castling#rights=4")
	kq.File2, kq.Old2, kq.New2 = fen, "if b.Castles&LongBlack != 0 {\n\t\tsb.WriteString(\"q\")", "if b.Castles&LongBlack != 0 {\n\t\tsb.WriteString(\"k\")"
	addMutants(
		// R1 — each is a real crash of ParseFEN; the crashing input is given in the comment
		quick(mut("R1-ep-lookahead-off-by-one", fen, "if fp.ix+1 >= fp.l {", "if fp.ix+1 > fp.l {", "R1/board.(*fenParser).enPassant#fen[ix+1]")), // "8/8/8/8/8/8/8/8 w - e"
		quick(mut("R1-seq-end-check-dropped", fen, endCheck, "", "R1/board.(*fenParser).seq#entry-fact")),                                         // "8/8/8/8/8/8/8/8"
		mut("R1-seq-end-check-dropped-stm-crashes", fen, endCheck, "", "R1/board.(*fenParser).stm#fen[ix+0]"),                                     // same
		func() Mutant { // the space skipping moved into a helper whose end test is off by one: "8/8/8/8/8/8/8/8 " crashes in stm
			m := mut("R1-helper-end-check-off-by-one", fen, "\t\t} else {\n\t\t\tfor fp.ix < fp.l && fp.fen[fp.ix] == ' ' {\n\t\t\t\tfp.ix++\n\t\t\t}\n\n"+endCheck+"\t\t}\n",
				"\t\t} else if err := fp.skipSpaces(); err != nil {\n\t\t\treturn err\n\t\t}\n", "R1/board.(*fenParser).seq#entry-fact")
			m.File2, m.Old2 = fen, "func (fp *fenParser) seq("
			m.New2 = "func (fp *fenParser) skipSpaces() error {\n\tfor fp.ix < fp.l && fp.fen[fp.ix] == ' ' {\n\t\tfp.ix++\n\t}\n\tif fp.ix > fp.l {\n\t\treturn errors.New(\"premature end of fen\")\n\t}\n\treturn nil\n}\n\nfunc (fp *fenParser) seq("
			return m
		}(),
		func() Mutant { // a bool helper that is off by one: "8/8/8/8/8/8/8/8 w - - 0" crashes in counter
			m := mut("R1-helper-more-off-by-one", fen, "func (fp *fenParser) counter() (int, error) {\n\tcnt := 0\n\tfor fp.ix < fp.l && fp.fen[fp.ix] != ' ' {",
				"func (fp *fenParser) more() bool { return fp.ix <= fp.l }\n\nfunc (fp *fenParser) counter() (int, error) {\n\tcnt := 0\n\tfor fp.more() && fp.fen[fp.ix] != ' ' {", "R1/board.(*fenParser).counter#fen[")
			return m
		}(),
		mut("R1-first-flag-never-cleared", fen, "\t\t\tfirst = false\n", "", "R1/board.(*fenParser).seq#entry-fact"),                                                                                                                       // "8/8/8/8/8/8/8/8"
		quick(mut("R1-square-bound-off-by-one", fen, "if sq < 0 || sq > 63 {", "if sq < 0 || sq > 64 {", "R1/board.(*fenParser).position#array-index")),                                                                                    // "8p"
		mut("R1-position-loop-unguarded", fen, "for fp.ix < fp.l {\n\t\tsq :=", "for {\n\t\tsq :=", "R1/board.(*fenParser).position#fen["),                                                                                                 // "8"
		mut("R1-counter-index-before-test", fen, "for fp.ix < fp.l && fp.fen[fp.ix] != ' ' {\n\t\tif fp.fen[fp.ix] < '0'", "for fp.fen[fp.ix] != ' ' && fp.ix < fp.l {\n\t\tif fp.fen[fp.ix] < '0'", "R1/board.(*fenParser).counter#fen["), // "8/8/8/8/8/8/8/8 w - - 0"
		mut("R1-dash-lookahead-unguarded", fen, "\t\tcase '-':\n\n", "\t\tcase '-':\n\t\t\tif fp.fen[fp.ix+1] != ' ' {\n\t\t\t\treturn errors.New(\"garbage after -\")\n\t\t\t}\n\n", "R1/board.(*fenParser).cRights#fen["),                // "8/8/8/8/8/8/8/8 w -"
		mut("R1-letter-map-value-out-of-range", fen, "'Q': Queen, 'K': King,\n}", "'Q': Queen, 'K': King + 1,\n}", "R1/board.(*fenParser).position#array-index"),                                                                           // "K"
		mut("R1-letter-map-writable", fen, "type fenParser struct {", "func SetLetter(c byte, p Piece) { cToP[c] = p }\n\ntype fenParser struct {", "R1/board.(*fenParser).position#array-index"),                                          // SetLetter('K', 9); "K"
		mut("R1-length-field-rewritten", fen, "\t*b = Board{}\n\n\tif err := p.seq(", "\t*b = Board{}\n\tp.l = cap(fen)\n\n\tif err := p.seq(", "R1/invariant#len-pair"),                                                                   // any FEN in a larger buffer, truncated
		mut("R1-buffer-resliced", fen, "\t\tcase ' ':\n\t\t\treturn nil\n", "\t\tcase ' ':\n\t\t\tfp.fen = fp.fen[:fp.ix]\n\t\t\treturn nil\n", "R1/invariant#writers:fenParser.fen"),                                                      // "8/8/8/8/8/8/8/8 w"
		mut("R1-cursor-rewind", fen, "\tfp.ix++\n\n\treturn nil\n}\n\nfunc (fp *fenParser) cRights", "\tfp.ix -= 2\n\n\treturn nil\n}\n\nfunc (fp *fenParser) cRights", "R1/board.(*fenParser).stm#cursor-store"),                          // "w w" after a one-byte placement
		// R2
		quick(mut("R2-install-before-piece-count", uci, "\t\tif b.InvalidPieceCount() {\n\t\t\tfmt.Fprintln(d.err, \"invalid piece counts\")\n\t\t\treturn\n\t\t}\n\t\td.board = b\n",
			"\t\td.board = b\n\t\tif b.InvalidPieceCount() {\n\t\t\tfmt.Fprintln(d.err, \"invalid piece counts\")\n\t\t\treturn\n\t\t}\n", "R2/uci.(*Driver).handlePosition#install:piece-count")),
		mut("R2-parse-error-only-logged", uci, "\t\t\tfmt.Fprintf(d.err, \"invalid fen %v\\n\", err)\n\t\t\treturn\n", "\t\t\tfmt.Fprintf(d.err, \"invalid fen %v\\n\", err)\n", "R2/uci.(*Driver).handlePosition#install:err==nil"),
		mut("R2-parse-in-place-no-restore", uci, "\t\tb, err := board.FromFEN(fen)\n\t\tif err != nil {\n\t\t\tfmt.Fprintf(d.err, \"invalid fen %v\\n\", err)\n\t\t\treturn\n\t\t}\n\t\tif b.InvalidPieceCount() {\n\t\t\tfmt.Fprintln(d.err, \"invalid piece counts\")\n\t\t\treturn\n\t\t}\n\t\td.board = b\n",
			"\t\tsaved := *d.board\n\t\tif err := board.ParseFEN(d.board, []byte(fen)); err != nil {\n\t\t\t*d.board = saved\n\t\t\tfmt.Fprintf(d.err, \"invalid fen %v\\n\", err)\n\t\t\treturn\n\t\t}\n\t\tif d.board.InvalidPieceCount() {\n\t\t\tfmt.Fprintln(d.err, \"invalid piece counts\")\n\t\t\treturn\n\t\t}\n\t\td.board.ResetHash()\n", "R2/uci.(*Driver).handlePosition#in-place"),
		mut("R2-fromfen-without-hash", fen, "\tb.ResetHash()\n\n\treturn &b, nil", "\treturn &b, nil", "R2/board.FromFEN#return:hash-reset"),
		// R3
		quick(kq),
		func() Mutant { // table-driven printer (loop over {right, letter} rows) whose table has k and q exchanged
			m := mut("R3-table-printer-kq-swapped", fen, ifChain, tableLoop, "R3/castling#rights=4")
			m.File2, m.Old2, m.New2 = fen, "func (b Board) FEN() string {", tableDecl+"func (b Board) FEN() string {"
			return m
		}(),
		mut("R3-printer-castling-order", fen, "\tif b.Castles&ShortWhite != 0 {\n\t\tsb.WriteString(\"K\")\n\t}\n\n\tif b.Castles&LongWhite != 0 {\n\t\tsb.WriteString(\"Q\")\n\t}\n",
			"\tif b.Castles&LongWhite != 0 {\n\t\tsb.WriteString(\"Q\")\n\t}\n\n\tif b.Castles&ShortWhite != 0 {\n\t\tsb.WriteString(\"K\")\n\t}\n", "R3/castling#canonical-order"),
		mut("R3-printer-letters-permuted", fen, "\" PNBRQK pnbrqk\"", "\" PNBRQK pbnrqk\"", "R3/pieces#color1-piece2"),
		mut("R3-parser-colour-test-narrowed", fen, "if c > 'a' && c < 'z' {", "if c > 'b' && c < 'z' {", "R3/pieces#color1-piece3"),
		mut("R3-side-letters-swapped", fen, "\"wb\"[b.STM]", "\"bw\"[b.STM]", "R3/side#color"),
		mut("R3-printer-counters-swapped", fen, "b.FiftyCnt, b.fullMoves)", "b.fullMoves, b.FiftyCnt)", "R3/order#fields"),
		mut("R3-parser-counters-swapped", fen, "\t\tp.fifty,\n\t\tp.fullMoves,\n", "\t\tp.fullMoves,\n\t\tp.fifty,\n", "R3/order#fields"),
		mut("R3-square-text-zero-based-rank", "chess/square.go", "s%8+'a', s/8+'1')", "s%8+'a', s/8+'0')", "R3/enpassant#sq"),
		mut("R3-parser-ep-file-rank-transposed", fen, "fp.b.EnPassant = Square(rank*8 + file)", "fp.b.EnPassant = Square(file*8 + rank)", "R3/enpassant#sq"),
		mut("R3-halfmove-100-rejected", fen, "if cnt < 0 || cnt > 100 {", "if cnt < 0 || cnt >= 100 {", "R3/counter#FiftyCnt"),
		mut("R3-halfmove-overflows-field", fen, "if cnt < 0 || cnt > 100 {", "if cnt < 0 || cnt > 200 {", "R3/counter#FiftyCnt"),
		mut("R3-fullmove-one-rejected", fen, "if cnt < 1 {", "if cnt <= 1 {", "R3/counter#fullMoves"),
		// R4
		mut("R4-epd-length-test-weakened", epd, "if len(line) < 5 {", "if len(line) < 4 {", "R4/tools/tuner/epd.Parse#slice"),
		mut("R4-epd-parse-error-ignored", epd, "if err := board.ParseFEN(b, line[:splitIx]); err != nil {\n\t\treturn ErrLineInvalid\n\t}", "_ = board.ParseFEN(b, line[:splitIx])", "R4/tools/tuner/epd.Parse#nil-only-after-accept"),
		mut("R4-extract-parse-error-ignored", ext, "if err := board.ParseFEN(&b, fen); err != nil {\n\t\t\treturn err\n\t\t}\n\t\tb.ResetFifty()", "_ = board.ParseFEN(&b, fen)\n\t\tb.ResetFifty()", "R4/tools/extract#ParseFEN"),
	)
}
