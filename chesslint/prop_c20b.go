package main

// C20.R6: each open Chunk owns the buffer its reads refill. The client's workers hold several
// chunks of one Chunker open at once; every chunk keeps its own window (mapStart/mapEnd) over
// the buffer, so a buffer shared between chunks is refilled by one while another still slices
// lines out of it (lines delivered twice / garbage, no error). Every value stored into a Chunk
// field that is later handed to a Read/ReadAt as destination must be a slice made in the
// function that builds the Chunk.

import (
	"fmt"
	"go/types"

	"golang.org/x/tools/go/ssa"
)

func c20R6(c *Ctx, p *Prog) {
	const rule = "C20.R6"
	// buffer fields: fields of Chunk passed as the destination of a read
	bufFields := map[string]bool{}
	for _, fn := range p.OwnFuncs() {
		if relPkg(fnPkgPath(fn)) != "tools/tuner/epd" {
			continue
		}
		allInstrs(fn, func(in ssa.Instruction) {
			ci, ok := in.(ssa.CallInstruction)
			if !ok {
				return
			}
			name := ""
			if f := calleeObj(ci); f != nil {
				name = f.Name()
			} else if ci.Common().IsInvoke() {
				name = ci.Common().Method.Name()
			}
			if name != "ReadAt" && name != "Read" && name != "ReadFull" {
				return
			}
			for _, a := range ci.Common().Args {
				if _, isSlice := a.Type().Underlying().(*types.Slice); !isSlice {
					continue
				}
				for v := range backSlice(a, sliceOpts{ThroughLoads: true}) {
					if fa, ok := v.(*ssa.FieldAddr); ok {
						if fr, ok := asFieldAddr(fa); ok && fr.Struct != nil && fr.Struct.Obj().Name() == "Chunk" {
							bufFields[fr.Name()] = true
						}
					}
				}
			}
		})
	}
	if len(bufFields) == 0 {
		c.Undec(rule, "Chunk#buffer", 0, "no Chunk field used as the destination of a file read found")
		return
	}
	n := 0
	for _, fn := range p.OwnFuncs() {
		if relPkg(fnPkgPath(fn)) != "tools/tuner/epd" {
			continue
		}
		ord := 0
		for name := range bufFields {
			for _, st := range fieldStores(fn, name) {
				ord++
				n++
				key := fmt.Sprintf("%s#%s-owned@%d", fnName(fn), name, ord)
				v := stripConv(st.Val)
				for {
					if sl, ok := v.(*ssa.Slice); ok {
						v = stripConv(sl.X)
						continue
					}
					break
				}
				switch x := v.(type) {
				case *ssa.MakeSlice:
					c.Ok(rule, key, st.Pos(), "the read buffer of the new chunk is allocated for it")
				case *ssa.Alloc:
					c.Ok(rule, key, st.Pos(), "the read buffer of the new chunk is a fresh array")
				default:
					shared := ""
					for w := range backSlice(v, sliceOpts{ThroughLoads: true}) {
						switch y := w.(type) {
						case *ssa.FieldAddr:
							if fr, ok := asFieldAddr(y); ok {
								shared = fr.Name()
							}
						case *ssa.Global:
							shared = y.Name()
						}
					}
					if shared != "" {
						c.Fail(rule, key, st.Pos(), "the chunk's read buffer is taken from %s, which outlives the chunk: all chunks opened from it refill and slice the same memory, so with two chunks open at once lines are delivered from the other chunk's window", shared)
					} else {
						c.Undec(rule, key, st.Pos(), "origin of the chunk's read buffer not recognised (%T)", x)
					}
				}
			}
		}
	}
	c.Floor(rule, n, 1, "stores to a chunk's read buffer")
}

func init() {
	addMutants(
		Mutant{Name: "C20.R6-chunks-share-one-buffer", Prop: "C20", File: "tools/tuner/epd/chunker.go", Quick: true,
			Old: "\tmapBytes := make([]byte, backingBytes)\n", New: "\tmapBytes := sharedBacking\n",
			Old2: "type lineAddr struct {", New2: "var sharedBacking = make([]byte, backingBytes)\n\ntype lineAddr struct {", File2: "tools/tuner/epd/chunker.go",
			Expect: "C20.R6/"},
	)
}
