package main

import (
	"golang.org/x/tools/go/ssa"
)

// Shared PAIR specs (used by C03.R6, C06.R1, C16.R6).
var makeUndoExempt = map[string]string{
	"uci.(*Driver).applyMoves": "position set-up: moves of a UCI move list are made and intentionally never undone",
}

func pairSpecs(rule string) []pairSpec {
	return []pairSpec{
		{Rule: rule + ".make", Open: "board.(*Board).MakeMove", Close: "board.(*Board).UndoMove", ArgPairs: [][2]int{{0, 0}, {1, 1}}, TokenArg: 2, Exempt: makeUndoExempt},
		{Rule: rule + ".null", Open: "board.(*Board).MakeNullMove", Close: "board.(*Board).UndoNullMove", ArgPairs: [][2]int{{0, 0}}, TokenArg: 1},
		{Rule: rule + ".frame", Open: "move.(*Store).Push", Close: "move.(*Store).Pop", ArgPairs: [][2]int{{0, 0}}, TokenArg: -1},
		{Rule: rule + ".hstack", Open: "stack.(*Stack).Push", Close: "stack.(*Stack).Pop", ArgPairs: [][2]int{{0, 0}}, TokenArg: -1},
	}
}

// rulePairs runs the four make/undo, frame and stack pairings; floors are the
// counts confirmed by hand on the pinned tree.
func rulePairs(c *Ctx, p *Prog, rule string) {
	floors := []int{4, 1, 4, 1}
	names := []string{"MakeMove sites", "MakeNullMove sites", "move.Store.Push sites", "stack.Push sites"}
	for i, sp := range pairSpecs(rule) {
		if p.FuncObj(sp.Open) == nil {
			c.Anchor(rule, sp.Open)
			continue
		}
		if p.FuncObj(sp.Close) == nil {
			c.Anchor(rule, sp.Close)
			continue
		}
		n := checkPair(c, p, sp)
		c.Floor(sp.Rule, n, floors[i], names[i])
	}
}

func init() {
	register(&Property{
		ID: "C06",
		Explain: "Static necessary conditions for 'search returns a legal move unless the game is over; board left untouched': " +
			"(R1) every MakeMove/MakeNullMove/move-store frame/history-stack push in search, perft and the abort fallback is closed on every CFG path with the matching token; " +
			"(R2) Search.Go clears the sticky abort flag, move store and history stack before iterating; (R3) the abort fallback adopts only moves that passed the in-check filter and generates both halves; " +
			"(R4) externally supplied integers are range-checked before narrowing conversions in uci; (R5) spsa parameters agree with the constants and keep divisors/shift counts in range. " +
			"Decided over all paths of the SSA control-flow graphs; not decided: legality of the returned move for concrete positions, abort-point behaviour.",
		Assume: []string{"go/ssa and go/types model the program faithfully", "panicking exits are ignored by the pairing rule"},
		Run:    runC06,
	})
}

func runC06(c *Ctx) {
	p := c.need("default")
	if p == nil {
		return
	}
	rulePairs(c, p, "C06.R1")
	c06R2(c, p)
}

// C06.R2: in Search.Go the call to iterativeDeepen is dominated by clearing of
// aborted, ms and hstack (directly or in callees that always execute them).
func c06R2(c *Ctx, p *Prog) {
	const rule = "C06.R2"
	goFn := p.Func("search.(*Search).Go")
	if goFn == nil {
		c.Anchor(rule, "search.(*Search).Go")
		return
	}
	ids := callsIn(goFn, "search.(*Search).iterativeDeepen")
	if len(ids) == 0 {
		c.Anchor(rule, "call to iterativeDeepen in Search.Go")
		return
	}
	for _, id := range ids {
		type need struct {
			name string
			pred func(ssa.Instruction) bool
		}
		needs := []need{
			{"aborted=false", func(in ssa.Instruction) bool {
				st, ok := in.(*ssa.Store)
				if !ok {
					return false
				}
				fr, ok := asFieldAddr(st.Addr)
				if !ok || fr.QName() != "search.Search.aborted" {
					return false
				}
				v, isc := constOf(st.Val)
				return isc && v == 0
			}},
			{"ms.Clear()", func(in ssa.Instruction) bool { return isCallTo(in, "move.(*Store).Clear") }},
			{"hstack.Reset()", func(in ssa.Instruction) bool { return isCallTo(in, "stack.(*Stack).Reset") }},
		}
		for _, nd := range needs {
			if mustExecuteBefore(p, goFn, id.(ssa.Instruction), nd.pred, 3) {
				c.Ok(rule, "search.(*Search).Go#"+nd.name, id.Pos(), "%s dominates the call to iterativeDeepen", nd.name)
			} else {
				c.Fail(rule, "search.(*Search).Go#"+nd.name, id.Pos(), "iterativeDeepen is reachable in Search.Go without %s having been executed: sticky state of an aborted search survives into the next one", nd.name)
			}
		}
	}
}

// mustExecuteBefore: on every path from fn's entry to target, an instruction
// satisfying pred is executed — either directly in fn (dominating target) or
// inside a callee (own package functions, static calls) that executes it on
// every path from its entry to each return (depth-bounded).
func mustExecuteBefore(p *Prog, fn *ssa.Function, target ssa.Instruction, pred func(ssa.Instruction) bool, depth int) bool {
	for _, b := range fn.Blocks {
		for _, in := range b.Instrs {
			if in == target {
				continue
			}
			if !instrDominates(in, target) {
				continue
			}
			if pred(in) {
				return true
			}
			if call, ok := in.(*ssa.Call); ok && depth > 0 {
				if callee := call.Call.StaticCallee(); callee != nil && isOwn(callee) && callee.Blocks != nil {
					if mustExecuteInside(p, callee, pred, depth-1) {
						return true
					}
				}
			}
		}
	}
	return false
}

// mustExecuteInside: every path from entry to any return of fn executes pred.
func mustExecuteInside(p *Prog, fn *ssa.Function, pred func(ssa.Instruction) bool, depth int) bool {
	pd := newPostDom(fn)
	entry := fn.Blocks[0]
	for _, b := range fn.Blocks {
		if !pd.PostDominates(b, entry) {
			continue
		}
		for _, in := range b.Instrs {
			if pred(in) {
				return true
			}
			if call, ok := in.(*ssa.Call); ok && depth > 0 {
				if callee := call.Call.StaticCallee(); callee != nil && isOwn(callee) && callee.Blocks != nil {
					if mustExecuteInside(p, callee, pred, depth-1) {
						return true
					}
				}
			}
		}
	}
	return false
}

func init() {
	addMutants(
		Mutant{Name: "C06.R1-qs-delta-break-without-undo", Prop: "C06", File: "search/search.go", Quick: true,
			Old: "if gain+delta < alpha {\n\t\t\tb.UndoMove(m.Move, r)\n\t\t\tbreak", New: "if gain+delta < alpha {\n\t\t\tbreak",
			Expect: "C06.R1.make/search.(*Search).quiescence"},
		Mutant{Name: "C06.R1-ab-illegal-continue-without-undo", Prop: "C06", File: "search/search.go", Quick: true,
			Old: "if b.InCheck(b.STM.Flip()) {\n\t\t\tb.UndoMove(m, r)\n\t\t\tcontinue", New: "if b.InCheck(b.STM.Flip()) {\n\t\t\tcontinue",
			Expect: "C06.R1.make/search.(*Search).alphaBeta"},
		Mutant{Name: "C06.R1-qs-frame-pop-removed", Prop: "C06", File: "search/search.go",
			Old: "\ts.ms.Push()\n\tdefer s.ms.Pop()\n\n\tmovegen.GenNoisy(s.ms, b)\n\n\tdelta", New: "\ts.ms.Push()\n\n\tmovegen.GenNoisy(s.ms, b)\n\n\tdelta",
			Expect: "C06.R1.frame/search.(*Search).quiescence"},
		Mutant{Name: "C06.R1-nullmove-early-return", Prop: "C06", File: "search/search.go",
			Old: "value := -s.alphaBeta(b, -beta, -beta+1, max(d-red, 0), ply+1, CutNode, opts)\n", New: "value := -s.alphaBeta(b, -beta, -beta+1, max(d-red, 0), ply+1, CutNode, opts)\n\t\t\tif s.aborted {\n\t\t\t\treturn Inv\n\t\t\t}\n",
			Expect: "C06.R1.null/search.(*Search).alphaBeta"},
		Mutant{Name: "C06.R1-undo-wrong-token", Prop: "C06", File: "debug/perft.go",
			Old: "b.UndoMove(m.Move, r)", New: "b.UndoMove(m.Move, r&^0xff)",
			Expect: "C06.R1.make/debug.perft"},
		Mutant{Name: "C06.R1-hstack-pop-skipped-on-goto", Prop: "C06", File: "search/search.go",
			Old: "\t\tb.UndoMove(m, r)\n\t\ts.hstack.Pop()\n", New: "\t\tb.UndoMove(m, r)\n\t\tif value > alpha {\n\t\t\ts.hstack.Pop()\n\t\t}\n",
			Expect: "C06.R1.hstack/search.(*Search).alphaBeta"},
		Mutant{Name: "C06.R2-aborted-not-cleared", Prop: "C06", File: "search/state.go", Quick: true,
			Old: "\ts.hstack.Reset()\n\ts.aborted = false\n", New: "\ts.hstack.Reset()\n",
			Expect: "C06.R2/search.(*Search).Go#aborted=false"},
		Mutant{Name: "C06.R2-refresh-conditional", Prop: "C06", File: "search/search.go",
			Old: "\ts.refresh()\n\tdefer func() {", New: "\tif s.aborted {\n\t\ts.refresh()\n\t}\n\tdefer func() {",
			Expect: "C06.R2/search.(*Search).Go#ms.Clear()"},
	)
}
