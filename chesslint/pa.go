package main

// Shared piece–attack pairing rules PA.1–PA.4 (DESIGN §3.0), used by C01, C05, C09, C18.

import (
	"fmt"
	"go/token"
	"go/types"
	"sort"
	"strings"

	"golang.org/x/tools/go/ssa"
)

var attackFns = map[string]string{
	"attacks.KingMoves":        "King",
	"attacks.KnightMoves":      "Knight",
	"attacks.BishopMoves":      "Bishop",
	"attacks.RookMoves":        "Rook",
	"attacks.PawnCaptureMoves": "PawnCapture",
}

// pieceConsts maps piece constant values to names, read from package chess.
func pieceConsts(p *Prog) map[int64]string {
	out := map[int64]string{}
	for _, n := range []string{"NoPiece", "Pawn", "Knight", "Bishop", "Rook", "Queen", "King"} {
		if v, ok := p.pkgConstInt("chess." + n); ok {
			out[v] = n
		}
	}
	return out
}

// expected piece kinds whose presence on a ray/pattern of F constitutes an attack.
var paExpect = map[string][]string{
	"King":        {"King"},
	"Knight":      {"Knight"},
	"Bishop":      {"Bishop", "Queen"},
	"Rook":        {"Queen", "Rook"},
	"PawnCapture": {"Pawn"},
}

// piecesLoadKind: v is a load of Board.Pieces[const] -> piece name.
func piecesLoadKind(v ssa.Value, pcs map[int64]string) (string, bool) {
	u, ok := stripConv(v).(*ssa.UnOp)
	if !ok || u.Op != token.MUL {
		return "", false
	}
	ia, ok := u.X.(*ssa.IndexAddr)
	if !ok {
		return "", false
	}
	fr, ok := asFieldAddr(ia.X)
	if !ok || fr.Name() != "Board.Pieces" {
		return "", false
	}
	k, isc := constOf(ia.Index)
	if !isc {
		return "", false
	}
	n, ok := pcs[k]
	return n, ok
}

// pureOrOfPieces: v is an |-tree whose leaves are all Pieces[const] loads.
func pureOrOfPieces(v ssa.Value, pcs map[int64]string) ([]string, bool) {
	v = stripConv(v)
	if n, ok := piecesLoadKind(v, pcs); ok {
		return []string{n}, true
	}
	if bo, ok := v.(*ssa.BinOp); ok && bo.Op == token.OR {
		a, ok1 := pureOrOfPieces(bo.X, pcs)
		b, ok2 := pureOrOfPieces(bo.Y, pcs)
		if ok1 && ok2 {
			s := append(a, b...)
			sort.Strings(s)
			return s, true
		}
	}
	return nil, false
}

// andConjuncts collects, for value v, the other operands of the maximal chain
// of & instructions that v flows into directly (v & a & b ...). Operands under
// &^ / ^x are exclusions and are skipped. Returns also the top of the chain.
func andConjuncts(v ssa.Value) (conj []ssa.Value, top ssa.Value) {
	top = v
	for {
		refs := top.Referrers()
		if refs == nil {
			return
		}
		var next ssa.Value
		for _, r := range *refs {
			bo, ok := r.(*ssa.BinOp)
			if !ok {
				continue
			}
			switch bo.Op {
			case token.AND:
				other := bo.Y
				if bo.Y == top {
					other = bo.X
				}
				if u, ok := other.(*ssa.UnOp); ok && u.Op == token.XOR {
					// & ^x : exclusion
				} else {
					conj = append(conj, other)
				}
				next = bo
			case token.AND_NOT:
				if bo.X == top {
					next = bo
				}
			}
			if next != nil {
				break
			}
		}
		if next == nil {
			return
		}
		top = next
	}
}

// flattenAnd splits a conjunct that is itself an &-tree into its leaves.
func flattenAnd(v ssa.Value, out *[]ssa.Value) {
	if bo, ok := stripConv(v).(*ssa.BinOp); ok && bo.Op == token.AND {
		flattenAnd(bo.X, out)
		flattenAnd(bo.Y, out)
		return
	}
	*out = append(*out, v)
}

type paScope func(fn *ssa.Function) bool

func inFuncs(names ...string) paScope {
	set := map[string]bool{}
	for _, n := range names {
		set[n] = true
	}
	return func(fn *ssa.Function) bool {
		n := fnName(fn)
		if set[n] {
			return true
		}
		// package-wide scope "pkg.*"
		return set[relPkg(fnPkgPath(fn))+".*"]
	}
}

type attackCall struct {
	Fn   *ssa.Function
	Call *ssa.Call
	F    string // King/Knight/...
	Ord  int
}

func attackCalls(p *Prog, scope paScope) []attackCall {
	var out []attackCall
	for _, fn := range p.OwnFuncs() {
		if !scope(fn) {
			continue
		}
		ord := map[string]int{}
		allInstrs(fn, func(in ssa.Instruction) {
			call, ok := in.(*ssa.Call)
			if !ok {
				return
			}
			if f, ok := attackFns[objName(calleeObj(call))]; ok {
				ord[f]++
				out = append(out, attackCall{fn, call, f, ord[f]})
			}
		})
	}
	return out
}

// pa1: reverse form.
func pa1(c *Ctx, p *Prog, rule string, scope paScope) int {
	pcs := pieceConsts(p)
	n := 0
	for _, ac := range attackCalls(p, scope) {
		conj, _ := andConjuncts(ac.Call)
		var leaves []ssa.Value
		for _, cj := range conj {
			flattenAnd(cj, &leaves)
		}
		for _, lf := range leaves {
			kinds, ok := pureOrOfPieces(lf, pcs)
			if !ok {
				continue
			}
			n++
			key := fmt.Sprintf("%s#%sMoves@%d", fnName(ac.Fn), ac.F, ac.Ord)
			want := paExpect[ac.F]
			if strings.Join(kinds, ",") == strings.Join(want, ",") {
				c.Ok(rule, key, ac.Call.Pos(), "%s pattern is intersected with exactly {%s}", ac.F, strings.Join(kinds, ","))
			} else {
				c.Fail(rule, key, ac.Call.Pos(), "%s pattern is intersected with pieces {%s}; geometry requires {%s}: positions with a piece of the wrongly included/excluded kind on that line are misjudged", ac.F, strings.Join(kinds, ","), strings.Join(want, ","))
			}
		}
	}
	return n
}

// sourceKinds: piece kinds K such that v's backward slice (through phi,
// arithmetic and pure calls, not through loads) contains a load of Pieces[K].
func sourceKinds(v ssa.Value, pcs map[int64]string) []string {
	set := map[string]bool{}
	for x := range backSlice(v, sliceOpts{ThroughCalls: true}) {
		if n, ok := piecesLoadKind(x, pcs); ok {
			set[n] = true
		}
	}
	return sortedKeys(set)
}

// forward table: which attack functions generate moves of a piece kind.
var paFwd = map[string][]string{
	"Knight": {"Knight"},
	"Bishop": {"Bishop"},
	"Rook":   {"Rook"},
	"Queen":  {"Bishop", "Rook"},
	"Pawn":   {"PawnCapture"},
}

// pa2: forward form — square argument derived from Pieces[K].
func pa2(c *Ctx, p *Prog, rule string, scope paScope) int {
	pcs := pieceConsts(p)
	n := 0
	for _, ac := range attackCalls(p, scope) {
		if ac.F == "PawnCapture" {
			continue // PA.4
		}
		kinds := sourceKinds(ac.Call.Call.Args[0], pcs)
		// the king's square legitimately serves as ray origin for pin/check tests
		if len(kinds) != 1 || kinds[0] == "King" || kinds[0] == "Pawn" {
			continue
		}
		K := kinds[0]
		n++
		key := fmt.Sprintf("%s#%sMoves@%d<-%s", fnName(ac.Fn), ac.F, ac.Ord, K)
		okF := false
		for _, f := range paFwd[K] {
			if f == ac.F {
				okF = true
			}
		}
		if !okF {
			c.Fail(rule, key, ac.Call.Pos(), "moves of a %s (square taken from Pieces[%s]) are computed with %sMoves", K, K, ac.F)
			continue
		}
		if K == "Queen" {
			// must be or-ed with the sibling slider on the same square
			sib := false
			if refs := ac.Call.Referrers(); refs != nil {
				for _, r := range *refs {
					if bo, ok := r.(*ssa.BinOp); ok && bo.Op == token.OR {
						other := bo.X
						if other == ssa.Value(ac.Call) {
							other = bo.Y
						}
						if oc, ok := other.(*ssa.Call); ok {
							if f2, ok := attackFns[objName(calleeObj(oc))]; ok && f2 != ac.F && (f2 == "Bishop" || f2 == "Rook") && sameValue(oc.Call.Args[0], ac.Call.Call.Args[0], 0) {
								sib = true
							}
						}
					}
				}
			}
			if !sib {
				c.Fail(rule, key, ac.Call.Pos(), "queen moves use %sMoves without or-ing the other slider from the same square", ac.F)
				continue
			}
		}
		c.Ok(rule, key, ac.Call.Pos(), "moves of a %s are computed with %sMoves", K, ac.F)
	}
	return n
}

// pa3: switch form inside a function where `moved==K` atoms dominate the calls (IsPseudoLegal).
func pa3(c *Ctx, p *Prog, rule string, spec string) int {
	fn := p.Func(spec)
	if fn == nil {
		c.Anchor(rule, spec)
		return 0
	}
	pcs := pieceConsts(p)
	n := 0
	ord := map[string]int{}
	seenQueen := map[string]bool{}
	var queenPos token.Pos
	allInstrs(fn, func(in ssa.Instruction) {
		call, ok := in.(*ssa.Call)
		if !ok {
			return
		}
		F, ok := attackFns[objName(calleeObj(call))]
		if !ok || F == "PawnCapture" {
			return
		}
		ord[F]++
		key := fmt.Sprintf("%s#%sMoves@%d", spec, F, ord[F])
		var K string
		for _, a := range mustHold(call.Block()) {
			if a.Kind == "moved==" && a.Pol {
				K = pcs[a.Arg]
			}
		}
		if K == "" {
			c.Undec(rule, key, call.Pos(), "%sMoves call is not dominated by a case `moved piece == K`", F)
			return
		}
		n++
		want := paFwd[K]
		if K == "King" {
			want = []string{"King"}
		}
		okF := false
		for _, f := range want {
			if f == F {
				okF = true
			}
		}
		// square argument is From()
		okSq := isCallValueTo(stripConv(call.Call.Args[0]), "move.(Move).From")
		if K == "Queen" && okF {
			seenQueen[F] = true
			queenPos = call.Pos()
		}
		if !okF {
			c.Fail(rule, key, call.Pos(), "under case moved piece == %s the acceptor uses %sMoves", K, F)
		} else if !okSq {
			c.Fail(rule, key, call.Pos(), "%sMoves under case %s is not computed from the move's From() square", F, K)
		} else {
			c.Ok(rule, key, call.Pos(), "case %s uses %sMoves from From()", K, F)
		}
	})
	if len(seenQueen) > 0 && !(seenQueen["Bishop"] && seenQueen["Rook"]) {
		c.Fail(rule, spec+"#queen-both-sliders", queenPos, "case Queen uses only one slider pattern")
	}
	return n
}

// colourExpr normalises a colour value to (base, flipped).
type colourExpr struct {
	Base    string
	Flipped bool
}

func normColour(v ssa.Value) (colourExpr, bool) {
	v = stripConv(v)
	flipped := false
	for {
		if call, ok := v.(*ssa.Call); ok && objName(calleeObj(call)) == "chess.(Color).Flip" {
			v = stripConv(call.Call.Args[0])
			flipped = !flipped
			continue
		}
		if bo, ok := v.(*ssa.BinOp); ok && bo.Op == token.XOR {
			if k, isc := constOf(bo.Y); isc && k == 1 {
				v = stripConv(bo.X)
				flipped = !flipped
				continue
			}
		}
		break
	}
	if k, isc := constOf(v); isc {
		if flipped {
			k ^= 1
		}
		return colourExpr{Base: fmt.Sprintf("const%d", k)}, true
	}
	if isFieldLoad(v, "Board.STM") {
		return colourExpr{"STM", flipped}, true
	}
	if pr, ok := v.(*ssa.Parameter); ok {
		return colourExpr{"param:" + pr.Name(), flipped}, true
	}
	return colourExpr{}, false
}

// coloursLoad: v is a load of Board.Colors[c] -> normalised c.
func coloursLoad(v ssa.Value) (colourExpr, bool) {
	u, ok := stripConv(v).(*ssa.UnOp)
	if !ok || u.Op != token.MUL {
		return colourExpr{}, false
	}
	ia, ok := u.X.(*ssa.IndexAddr)
	if !ok {
		return colourExpr{}, false
	}
	fr, ok := asFieldAddr(ia.X)
	if !ok || fr.Name() != "Board.Colors" {
		return colourExpr{}, false
	}
	return normColour(ia.Index)
}

func flipColour(c colourExpr) colourExpr {
	if strings.HasPrefix(c.Base, "const") {
		if c.Base == "const0" {
			return colourExpr{Base: "const1"}
		}
		return colourExpr{Base: "const0"}
	}
	return colourExpr{c.Base, !c.Flipped}
}

// pa4: pawn capture colour agreement.
func pa4(c *Ctx, p *Prog, rule string, scope paScope) int {
	pcs := pieceConsts(p)
	n := 0
	for _, ac := range attackCalls(p, scope) {
		if ac.F != "PawnCapture" {
			continue
		}
		col, ok := normColour(ac.Call.Call.Args[1])
		if !ok {
			continue
		}
		key := fmt.Sprintf("%s#PawnCaptureMoves@%d", fnName(ac.Fn), ac.Ord)
		// reverse use: result & Colors[c'] & Pieces[Pawn]
		conj, _ := andConjuncts(ac.Call)
		var leaves []ssa.Value
		for _, cj := range conj {
			flattenAnd(cj, &leaves)
		}
		hasPawn := false
		var cols []colourExpr
		for _, lf := range leaves {
			if k, ok := piecesLoadKind(lf, pcs); ok && k == "Pawn" {
				hasPawn = true
			}
			if ce, ok := coloursLoad(lf); ok {
				cols = append(cols, ce)
			}
			// the generator's own colour sets (self = Colors[STM], them = Colors[STM.Flip()], checked by C01.R2)
			if isGenField(lf, "self") {
				cols = append(cols, colourExpr{"STM", false})
			}
			if isGenField(lf, "them") {
				cols = append(cols, colourExpr{"STM", true})
			}
		}
		if hasPawn && len(cols) == 1 {
			n++
			if cols[0] == flipColour(col) {
				c.Ok(rule, key+"#reverse", ac.Call.Pos(), "pawn attackers of colour X are found with the capture pattern of the opposite colour")
			} else {
				c.Fail(rule, key+"#reverse", ac.Call.Pos(), "pawns of colour %v that attack the square(s) are looked up with the capture pattern of colour %v; it must be the opposite colour's pattern", cols[0], col)
			}
			continue
		}
		if hasPawn && len(cols) == 0 {
			n++
			c.Undec(rule, key+"#reverse", ac.Call.Pos(), "the capture pattern is intersected with the pawns but with no colour set at this site: pawns of both colours count as attackers unless the colour is applied elsewhere")
			continue
		}
		// forward use: argument is Colors[c'] & Pieces[Pawn] (possibly through bit loops)
		arg := ac.Call.Call.Args[0]
		sl := backSlice(arg, sliceOpts{}) // a bitboard argument: bit tricks and phis only, no calls
		fwdPawn := false
		var fcols []colourExpr
		for x := range sl {
			if k, ok := piecesLoadKind(x, pcs); ok && k == "Pawn" {
				fwdPawn = true
			}
			if ce, ok := coloursLoad(x); ok {
				fcols = append(fcols, ce)
			}
		}
		if fwdPawn && len(fcols) == 1 {
			n++
			if fcols[0] == col {
				c.Ok(rule, key+"#forward", ac.Call.Pos(), "captures of colour-X pawns use colour X's capture pattern")
			} else {
				c.Fail(rule, key+"#forward", ac.Call.Pos(), "captures of pawns of colour %v are computed with colour %v's capture pattern", fcols[0], col)
			}
		}
	}
	return n
}

// pa5 (WRAP): a bitboard shifted by one file (<<1, >>1, <<7, >>7, <<9, >>9) wraps around the
// board edge unless the edge file is masked out: the file the pieces leave from on the source,
// or the file they would arrive on on the result. Constant operands (fixed castling masks) are exempt.
func pa5(c *Ctx, p *Prog, rule string, scope paScope) int {
	const aFile, hFile = uint64(0x0101010101010101), uint64(0x8080808080808080)
	isBB := func(t types.Type) bool {
		n, ok := types.Unalias(t).(*types.Named)
		return ok && n.Obj().Name() == "BitBoard"
	}
	n := 0
	for _, fn := range p.OwnFuncs() {
		if !scope(fn) || strings.Contains(fn.Synthetic, "wrapper") {
			continue
		}
		ord := 0
		allInstrs(fn, func(in ssa.Instruction) {
			sh, ok := in.(*ssa.BinOp)
			if !ok || (sh.Op != token.SHL && sh.Op != token.SHR) || !isBB(sh.Type()) {
				return
			}
			// the neighbour square by index arithmetic: 1 << (sq ± 1|7|9) steps onto the other edge file from an edge square
			if one, isOne := constOf(sh.X); isOne && one == 1 && sh.Op == token.SHL {
				if step, ok := stripConv(sh.Y).(*ssa.BinOp); ok && (step.Op == token.ADD || step.Op == token.SUB) {
					if d, isc := constOf(step.Y); isc && (d == 1 || d == 7 || d == 9) {
						if _, baseConst := stripConv(step.X).(*ssa.Const); !baseConst {
							ord++
							n++
							key := fmt.Sprintf("%s#file-shift@%d", fnName(fn), ord)
							guarded := false
							for _, ce := range controllingConds(sh.Block()) {
								for v := range backSlice(ce.Cond, sliceOpts{ThroughCalls: true}) {
									if _, ok := fileOf(v); ok {
										guarded = true
									}
								}
							}
							// masked result: & ^AFile / & ^HFile on the single-bit board
							rpos, rneg := andContext(sh)
							for _, l := range append(rpos, rneg...) {
								if kc, ok := stripConv(l).(*ssa.Const); ok && kc.Value != nil {
									u := kc.Uint64()
									if u&aFile == 0 || u&hFile == 0 || u&aFile == aFile || u&hFile == hFile {
										guarded = true
									}
								}
							}
							if guarded {
								c.Ok(rule, key, sh.Pos(), "the square stepped sideways by %d is guarded by a file test or mask", d)
							} else {
								c.Fail(rule, key, sh.Pos(), "a square index is stepped sideways by %d without a file test or mask: from an edge file the neighbour is a square on the opposite edge of the next rank", d)
							}
							return
						}
					}
				}
			}
			k, isc := constOf(sh.Y)
			if !isc || (k != 1 && k != 7 && k != 9) {
				return
			}
			if _, isConst := stripConv(sh.X).(*ssa.Const); isConst {
				return
			}
			// operands that do not come from the position (constants, package-level tables such as the
			// castling masks) are fixed sets whose geometry C01.R4 checks; only piece sets can wrap
			fromPosition := false
			// (a value loaded from a package-level table is a fixed set, whatever state picks the entry)
			stopAtTables := func(x ssa.Value) bool {
				if l, ok := x.(*ssa.UnOp); ok && l.Op == token.MUL {
					a := l.X
					for {
						if ia, ok := a.(*ssa.IndexAddr); ok {
							a = ia.X
							continue
						}
						break
					}
					if _, isG := a.(*ssa.Global); isG {
						return true
					}
				}
				return false
			}
			for v := range backSlice(sh.X, sliceOpts{ThroughLoads: true, ThroughCalls: true, Stop: stopAtTables}) {
				switch x := v.(type) {
				case *ssa.FieldAddr, *ssa.Field, *ssa.Parameter:
					fromPosition = true
				case *ssa.Call:
					if x.Call.StaticCallee() == nil {
						fromPosition = true
					}
				}
			}
			if !fromPosition {
				return
			}
			ord++
			n++
			// file increases for <<1, <<9, >>7 ; decreases for >>1, >>9, <<7
			up := (sh.Op == token.SHL && (k == 1 || k == 9)) || (sh.Op == token.SHR && k == 7)
			srcEdge, dstEdge := aFile, hFile // pieces leaving the a-file downwards arrive on the h-file
			if up {
				srcEdge, dstEdge = hFile, aFile
			}
			excludes := func(v ssa.Value, edge uint64, asNot bool) bool {
				kc, ok := stripConv(v).(*ssa.Const)
				if !ok || kc.Value == nil {
					return false
				}
				u := kc.Uint64()
				if asNot {
					return u&edge == edge
				}
				return u&edge == 0
			}
			masked := false
			var pos, neg []ssa.Value
			maskLeaves(sh.X, &pos, &neg)
			for _, l := range pos {
				if excludes(l, srcEdge, false) {
					masked = true
				}
			}
			for _, l := range neg {
				if excludes(l, srcEdge, true) {
					masked = true
				}
			}
			rpos, rneg := andContext(sh)
			for _, l := range rpos {
				if excludes(l, dstEdge, false) {
					masked = true
				}
			}
			for _, l := range rneg {
				if excludes(l, dstEdge, true) {
					masked = true
				}
			}
			key := fmt.Sprintf("%s#file-shift@%d", fnName(fn), ord)
			dir := map[bool]string{true: "towards the h-file", false: "towards the a-file"}[up]
			switch {
			case masked:
				c.Ok(rule, key, sh.Pos(), "shift by %d (%s) has the edge file masked out", k, dir)
			default:
				// a guard on the file of the operand may make the shift safe: do not call that a violation
				guarded := false
				for _, ce := range controllingConds(sh.Block()) {
					for v := range backSlice(ce.Cond, sliceOpts{ThroughCalls: true}) {
						if _, ok := fileOf(v); ok {
							guarded = true
						}
					}
				}
				if guarded {
					c.Undec(rule, key, sh.Pos(), "shift by %d (%s) without an edge-file mask, under a condition on a file: cannot decide", k, dir)
				} else {
					c.Fail(rule, key, sh.Pos(), "bitboard shifted by %d (%s) without masking the edge file on the source or the result: squares wrap around the board edge onto the opposite file of the neighbouring rank", k, dir)
				}
			}
		})
	}
	return n
}

func init() {
	addMutants(
		Mutant{Name: "C02.R7-ep-neighbours-wrap", Prop: "C02", File: "board/attacks.go", Quick: true,
			Old: "ables := ((target & ^AFileBB >> 1) | (target & ^HFileBB << 1)) & b.Pieces[Pawn] & them", New: "ables := ((target >> 1) | (target << 1)) & b.Pieces[Pawn] & them",
			Expect: "C02.R7.neighbours/board.(*Board).CanEnPassant#file-shift"},
		Mutant{Name: "C04.R6-ep-neighbours-wrap", Prop: "C04", File: "board/attacks.go",
			Old: "ables := ((target & ^AFileBB >> 1) | (target & ^HFileBB << 1)) & b.Pieces[Pawn] & them", New: "ables := ((target >> 1) | (target & ^HFileBB << 1)) & b.Pieces[Pawn] & them",
			Expect: "C04.R6.ep-capturable.neighbours/board.(*Board).CanEnPassant#file-shift"},
		Mutant{Name: "C01.R3-pawn-capture-wraps", Prop: "C01", File: "movegen/movegen.go",
			Old: "func (g generator) pawnCaptureMoves(ms *move.Store, b *board.Board) {\n\tvar (\n\t\tocc1l, occ1r BitBoard\n\t)\n\n\tif b.STM == White {\n\t\tocc1l = (g.them &^ HFileBB) >> 7\n", New: "func (g generator) pawnCaptureMoves(ms *move.Store, b *board.Board) {\n\tvar (\n\t\tocc1l, occ1r BitBoard\n\t)\n\n\tif b.STM == White {\n\t\tocc1l = g.them >> 7\n",
			Expect: "C01.R3.WRAP/movegen.(generator)."},
		Mutant{Name: "C12.R6-pawn-capture-pattern-wraps", Prop: "C12", File: "attacks/attacks.go",
			Old: "((b & ^HFileBB) << 9)", New: "((b & ^AFileBB) << 9)",
			Expect: "C12.R6.WRAP/attacks.PawnCaptureMoves#file-shift"},
	)
}
