package main

// C20 — each training position is processed exactly once per tuning epoch.
// Targets live in the separate tuner module (config "tuner"): tuning.Batches /
// tuning.Chunks (range tiling), epd.shuffleIndex / feistel (permutation of
// [0,n)), epd.NewChunker / ByLines.Read (line manifest), Chunker.Open /
// Chunk.Read (shuffled window). Roles (fields, parameters, callees) are derived
// structurally from the code, only the five entry points are anchored by name.

import (
	"fmt"
	"go/token"
	"go/types"
	"sort"
	"strings"

	"golang.org/x/tools/go/ssa"
)

const (
	c20Epd = "tools/tuner/epd"
	c20Tun = "tools/tuner/tuning"
)

func init() {
	register(&Property{
		ID: "C20",
		Explain: "Static necessary conditions for 'each training position is processed exactly once per tuning epoch' (tuner module). " +
			"R1: every iter.Seq[Range] iterator of package tuning tiles its range: start begins at the range start, the constant added to start equals the width used for end, end is clipped by min to the (loop-invariant) range end, the loop runs while start < end-of-range, (start,end) is yielded on every iteration and the only exits are loop end and yield=false. " +
			"R2: the permutation called by shuffleIndex is a Feistel network whose round is (L,R) <- (R, L xor g) with g independent of L and masked to the narrower half, half widths sum to the bits parameter, shift of the split equals the low width, the round count is an even constant, the join mirrors the split. " +
			"R3: shuffleIndex returns only values proven < n (or 0 under a guard that holds only for n <= 1), re-feeds the permutation output (optionally masked to the domain), uses a domain 2^Len64(n-1) >= n, and its call closure is free of mutable globals / nondeterminism. " +
			"R4: the reader feeding NewChunker's offsets exposes every byte it consumes from bufio.Reader (no path back to the read without returning the line; returned line is data[:len-K] with K the caller's per-line increment) — or, if offsets come from a reader-side counter, every consumed length is added to that counter. " +
			"R5: manifest entry = [curr, curr+len+K); Chunk.Read returns buf[start-mapStart : end-mapStart-K]; the refill test establishes mapStart<=start and end<=mapEnd on every non-refill path; refill sets mapStart to the ReadAt offset and mapEnd to offset+count; the line index advances by one; Open maps every ix in [start,end) through shuffleIndex(ix, len(manifest), seed independent of ix) and appends manifest[that]. " +
			"Not decided: the server/client glue (not type-checkable offline), statistical quality of the shuffle, short reads, lines longer than the buffer, a final line without '\\n' (dropped consistently by all readers).",
		Assume: []string{"go/ssa and go/types model the program faithfully", "calls are deterministic functions of their arguments when their closure has no mutable global / nondeterminism source (checked for shuffleIndex)", "(*os.File).ReadAt and bufio.Reader behave as documented"},
		Run:    runC20,
	})
}

func runC20(c *Ctx) {
	p := c.need("tuner")
	if p == nil {
		return
	}
	c20R1(c, p)
	acc := c20Manifest(c, p)
	op := c20Open(c, p, acc)
	if op.si != nil {
		c20R3(c, p, op)
	}
	c20R4(c, p, acc)
	c20Read(c, p, acc, op)
}

// ---------------------------------------------------------------- helpers

// c20LoopPhi splits a two-edge loop-header phi into entry value, back-edge value and latch block.
func c20LoopPhi(v ssa.Value) (phi *ssa.Phi, init, back ssa.Value, latch *ssa.BasicBlock, ok bool) {
	phi, isPhi := v.(*ssa.Phi)
	if !isPhi || len(phi.Edges) != 2 {
		return nil, nil, nil, nil, false
	}
	b := phi.Block()
	for i, pred := range b.Preds {
		if b.Dominates(pred) {
			if back != nil {
				return nil, nil, nil, nil, false
			}
			back, latch = phi.Edges[i], pred
		} else {
			init = phi.Edges[i]
		}
	}
	return phi, init, back, latch, back != nil && init != nil
}

// c20Lin is an integer expression flattened over + and -: sum(pos) - sum(neg) + k.
type c20Lin struct {
	pos, neg []ssa.Value
	k        int64
}

func c20Linear(v ssa.Value) c20Lin {
	var l c20Lin
	var walk func(v ssa.Value, sign int64)
	walk = func(v ssa.Value, sign int64) {
		v = stripConv(v)
		if _, isC := v.(*ssa.Const); isC {
			if k, ok := constOf(v); ok {
				l.k += sign * k
				return
			}
		}
		if b, ok := v.(*ssa.BinOp); ok && (b.Op == token.ADD || b.Op == token.SUB) {
			walk(b.X, sign)
			if b.Op == token.ADD {
				walk(b.Y, sign)
			} else {
				walk(b.Y, -sign)
			}
			return
		}
		if sign > 0 {
			l.pos = append(l.pos, v)
		} else {
			l.neg = append(l.neg, v)
		}
	}
	if v != nil {
		walk(v, 1)
	}
	return l
}

// c20Take removes and returns the first value satisfying pred.
func c20Take(list *[]ssa.Value, pred func(ssa.Value) bool) ssa.Value {
	for i, v := range *list {
		if pred(v) {
			*list = append(append([]ssa.Value{}, (*list)[:i]...), (*list)[i+1:]...)
			return v
		}
	}
	return nil
}

// c20PlusConst: v == base + k ?
func c20PlusConst(v, base ssa.Value) (int64, bool) {
	l := c20Linear(v)
	if len(l.pos) == 1 && len(l.neg) == 0 && l.pos[0] == base {
		return l.k, true
	}
	return 0, false
}

func c20Builtin(v ssa.Value, name string) (*ssa.Call, bool) {
	call, ok := stripConv(v).(*ssa.Call)
	if !ok {
		return nil, false
	}
	b, ok := call.Call.Value.(*ssa.Builtin)
	return call, ok && b.Name() == name
}

// c20LenOf returns x when v is len(x) (through conversions).
func c20LenOf(v ssa.Value) ssa.Value {
	if call, ok := c20Builtin(v, "len"); ok && len(call.Call.Args) == 1 {
		return call.Call.Args[0]
	}
	return nil
}

// c20FieldLoad: v is a load of (or Field extraction from) a struct field.
func c20FieldLoad(v ssa.Value) (fld *types.Var, base ssa.Value, ok bool) {
	switch x := v.(type) {
	case *ssa.UnOp:
		if x.Op != token.MUL {
			return nil, nil, false
		}
		if fa, isFA := x.X.(*ssa.FieldAddr); isFA {
			if _, s := structOf(fa.X.Type()); s != nil {
				return s.Field(fa.Field), fa.X, true
			}
		}
	case *ssa.Field:
		if _, s := structOf(x.X.Type()); s != nil {
			return s.Field(x.Field), x.X, true
		}
	}
	return nil, nil, false
}

func c20IsLoadOf(v ssa.Value, fld *types.Var, base ssa.Value) bool {
	f, b, ok := c20FieldLoad(stripConv(v))
	return ok && fld != nil && f == fld && b == base
}

// c20FieldStoreAddr: addr is &base.fld.
func c20FieldOfAddr(addr ssa.Value) (fld *types.Var, base ssa.Value, ok bool) {
	fa, isFA := addr.(*ssa.FieldAddr)
	if !isFA {
		return nil, nil, false
	}
	if _, s := structOf(fa.X.Type()); s != nil {
		return s.Field(fa.Field), fa.X, true
	}
	return nil, nil, false
}

// c20MaskWidth: v == (1 << w) - 1  →  w.
func c20MaskWidth(v ssa.Value) (ssa.Value, bool) {
	sub, ok := stripConv(v).(*ssa.BinOp)
	if !ok || sub.Op != token.SUB {
		return nil, false
	}
	if k, isC := constOf(sub.Y); !isC || k != 1 {
		return nil, false
	}
	shl, ok := stripConv(sub.X).(*ssa.BinOp)
	if !ok || shl.Op != token.SHL {
		return nil, false
	}
	if k, isC := constOf(shl.X); !isC || k != 1 {
		return nil, false
	}
	return shl.Y, true
}

// c20Masked splits v == part & mask(w); ok=false when v is not an AND with a recognisable mask.
func c20Masked(v ssa.Value) (part, w ssa.Value, ok bool) {
	and, isB := stripConv(v).(*ssa.BinOp)
	if !isB || and.Op != token.AND {
		return nil, nil, false
	}
	if w, ok := c20MaskWidth(and.Y); ok {
		return and.X, w, true
	}
	if w, ok := c20MaskWidth(and.X); ok {
		return and.Y, w, true
	}
	return nil, nil, false
}

// c20Rel normalises a comparison taken with the given truth value to "a <= b" (strict: "a < b").
func c20Rel(cond ssa.Value, truth bool) (a, b ssa.Value, strict, ok bool) {
	if u, isU := cond.(*ssa.UnOp); isU && u.Op == token.NOT {
		return c20Rel(u.X, !truth)
	}
	bo, isB := cond.(*ssa.BinOp)
	if !isB {
		return nil, nil, false, false
	}
	x, y := stripConv(bo.X), stripConv(bo.Y)
	switch bo.Op {
	case token.LSS:
		if truth {
			return x, y, true, true
		}
		return y, x, false, true
	case token.GTR:
		if truth {
			return y, x, true, true
		}
		return x, y, false, true
	case token.LEQ:
		if truth {
			return x, y, false, true
		}
		return y, x, true, true
	case token.GEQ:
		if truth {
			return y, x, false, true
		}
		return x, y, true, true
	}
	return nil, nil, false, false
}

// c20Stay: for a block ending in If, which truth value keeps control on the way to target.
func c20Stay(b, target *ssa.BasicBlock) (iff *ssa.If, truth, ok bool) {
	if len(b.Instrs) == 0 {
		return nil, false, false
	}
	iff, isIf := b.Instrs[len(b.Instrs)-1].(*ssa.If)
	if !isIf || b.Succs[0] == b.Succs[1] {
		return nil, false, false
	}
	t := b.Succs[0] == target || b.Succs[0].Dominates(target) && b.Succs[0] != b
	f := b.Succs[1] == target || b.Succs[1].Dominates(target) && b.Succs[1] != b
	if t == f {
		return iff, false, false
	}
	return iff, t, true
}

// c20AppendOf follows a struct value into `acc = append(acc, elem)` with acc a loop phi.
func c20AppendOf(elem ssa.Value) (acc *ssa.Phi, app *ssa.Call) {
	if elem.Referrers() == nil {
		return nil, nil
	}
	for _, r := range *elem.Referrers() {
		st, ok := r.(*ssa.Store)
		if !ok || st.Val != elem {
			continue
		}
		ia, ok := st.Addr.(*ssa.IndexAddr)
		if !ok || ia.X.Referrers() == nil {
			continue
		}
		for _, r2 := range *ia.X.Referrers() {
			sl, ok := r2.(*ssa.Slice)
			if !ok || sl.Referrers() == nil {
				continue
			}
			for _, r3 := range *sl.Referrers() {
				call, ok := c20Builtin(valueOf(r3), "append")
				if !ok || len(call.Call.Args) != 2 || call.Call.Args[1] != sl {
					continue
				}
				if phi, _, back, _, ok := c20LoopPhi(call.Call.Args[0]); ok && back == call {
					return phi, call
				}
			}
		}
	}
	return nil, nil
}

func valueOf(in ssa.Instruction) ssa.Value {
	v, _ := in.(ssa.Value)
	return v
}

// c20StoredField: the struct field into which v is stored (first one found).
func c20StoredField(v ssa.Value) *types.Var {
	if v.Referrers() == nil {
		return nil
	}
	for _, r := range *v.Referrers() {
		if st, ok := r.(*ssa.Store); ok && st.Val == v {
			if f, _, ok := c20FieldOfAddr(st.Addr); ok {
				return f
			}
		}
	}
	return nil
}

func c20OwnCallee(v ssa.Value) (*ssa.Call, *ssa.Function) {
	call, ok := stripConv(v).(*ssa.Call)
	if !ok {
		return nil, nil
	}
	fn := call.Call.StaticCallee()
	if fn == nil || !isOwn(fn) || fn.Blocks == nil {
		return nil, nil
	}
	return call, fn
}

func c20Blocks(path []int) string { return strings.Trim(fmt.Sprint(path), "[]") }

// ---------------------------------------------------------------- R1

func c20R1(c *Ctx, p *Prog) {
	const rule = "C20.R1"
	pk := p.SSAPkg(c20Tun)
	if pk == nil {
		c.Anchor(rule, c20Tun)
		return
	}
	var names []string
	for name, m := range pk.Members {
		fn, ok := m.(*ssa.Function)
		if !ok || fn.Signature.Results().Len() != 1 {
			continue
		}
		if n, ok := types.Unalias(fn.Signature.Results().At(0).Type()).(*types.Named); ok && n.Obj().Pkg() != nil &&
			n.Obj().Pkg().Path() == "iter" && n.Obj().Name() == "Seq" && n.TypeArgs().Len() == 1 {
			if s, ok := n.TypeArgs().At(0).Underlying().(*types.Struct); ok && s.NumFields() == 2 {
				names = append(names, name)
			}
		}
	}
	sort.Strings(names)
	n := 0
	for _, name := range names {
		fn := pk.Func(name)
		spec := c20Tun + "." + name
		if len(fn.AnonFuncs) != 1 {
			c.Undec(rule, spec+"#shape", fn.Pos(), "%s does not consist of exactly one iterator closure", spec)
			continue
		}
		n++
		c20Tile(c, rule, spec, fn, fn.AnonFuncs[0])
	}
	c.Floor(rule, n, 2, "iter.Seq[Range] iterators in package tuning")
}

// c20Invariant: v is a load from a captured variable that nobody can modify while the iterator runs.
func c20Invariant(outer, cl *ssa.Function, v ssa.Value) (root *ssa.FreeVar, ok bool) {
	ld, isLd := v.(*ssa.UnOp)
	if !isLd || ld.Op != token.MUL {
		return nil, false
	}
	addr := ld.X
	if fa, isFA := addr.(*ssa.FieldAddr); isFA {
		addr = fa.X
	}
	fv, isFV := addr.(*ssa.FreeVar)
	if !isFV {
		return nil, false
	}
	bad := false
	allInstrs(cl, func(in ssa.Instruction) {
		if st, ok := in.(*ssa.Store); ok {
			a := st.Addr
			if fa, ok := a.(*ssa.FieldAddr); ok {
				a = fa.X
			}
			if a == fv {
				bad = true
			}
		}
	})
	idx := -1
	for i, f := range cl.FreeVars {
		if f == fv {
			idx = i
		}
	}
	found := false
	allInstrs(outer, func(in ssa.Instruction) {
		mc, ok := in.(*ssa.MakeClosure)
		if !ok || mc.Fn != cl || idx < 0 {
			return
		}
		found = true
		al, ok := mc.Bindings[idx].(*ssa.Alloc)
		if !ok || al.Referrers() == nil {
			bad = true
			return
		}
		stores := 0
		for _, r := range *al.Referrers() {
			switch x := r.(type) {
			case *ssa.MakeClosure, *ssa.DebugRef:
			case *ssa.Store:
				if x.Addr != al {
					bad = true
				}
				stores++
			default:
				bad = true
			}
		}
		if stores != 1 {
			bad = true
		}
	})
	return fv, found && !bad
}

func c20MinLeaves(v ssa.Value, out *[]ssa.Value) {
	if call, ok := c20Builtin(v, "min"); ok {
		for _, a := range call.Call.Args {
			c20MinLeaves(a, out)
		}
		return
	}
	*out = append(*out, stripConv(v))
}

func c20Tile(c *Ctx, rule, spec string, outer, cl *ssa.Function) {
	und := func(pos token.Pos, format string, args ...any) {
		c.Undec(rule, spec+"#shape", pos, "iterator shape not understood: "+format, args...)
	}
	if len(cl.Params) != 1 {
		und(cl.Pos(), "closure has %d parameters", len(cl.Params))
		return
	}
	yield := cl.Params[0]
	var ycall *ssa.Call
	ny := 0
	allInstrs(cl, func(in ssa.Instruction) {
		if call, ok := in.(*ssa.Call); ok && call.Call.Value == yield {
			ycall = call
			ny++
		}
	})
	if ny != 1 || len(ycall.Call.Args) != 1 {
		und(cl.Pos(), "%d calls of the yield parameter (want 1)", ny)
		return
	}
	ld, ok := ycall.Call.Args[0].(*ssa.UnOp)
	var alloc *ssa.Alloc
	if ok && ld.Op == token.MUL {
		alloc, _ = ld.X.(*ssa.Alloc)
	}
	if alloc == nil || alloc.Referrers() == nil {
		und(ycall.Pos(), "yield argument is not a freshly built Range value")
		return
	}
	vals := map[string]ssa.Value{}
	dup := false
	for _, r := range *alloc.Referrers() {
		fa, ok := r.(*ssa.FieldAddr)
		if !ok || fa.Referrers() == nil {
			continue
		}
		f, _, _ := c20FieldOfAddr(fa)
		for _, r2 := range *fa.Referrers() {
			if st, ok := r2.(*ssa.Store); ok && st.Addr == fa {
				if _, seen := vals[f.Name()]; seen {
					dup = true
				}
				vals[f.Name()] = st.Val
			}
		}
	}
	startV, endV := vals["Start"], vals["End"]
	if dup || startV == nil || endV == nil {
		und(ycall.Pos(), "Start/End of the yielded Range are not each stored exactly once")
		return
	}
	phi, init, back, latch, ok := c20LoopPhi(stripConv(startV))
	if !ok {
		und(ycall.Pos(), "yielded Start is not the loop variable")
		return
	}
	// loop condition
	iff, truth, ok := c20Stay(phi.Block(), latch)
	if !ok {
		und(phi.Pos(), "loop header does not end in the loop test")
		return
	}
	a, bound, strict, ok := c20Rel(iff.Cond, truth)
	if !ok || a != phi {
		und(iff.Pos(), "loop test is not a comparison start < bound")
		return
	}
	fv, inv := c20Invariant(outer, cl, bound)
	if !inv {
		und(iff.Pos(), "loop bound is not a load of a captured variable that stays unmodified")
		return
	}
	if strict {
		c.Ok(rule, spec+"#loop-cond", iff.Pos(), "loop runs while start < bound, bound is a captured, never re-assigned value")
	} else {
		c.Undec(rule, spec+"#loop-cond", iff.Pos(), "loop runs while start <= bound: an extra (empty or out-of-range) Range is yielded at start == bound; tiling of [start,bound) not proven")
	}
	// step and width
	step, ok := c20PlusConst(back, phi)
	toEnd := stripConv(back) == stripConv(endV) // start = end: adjacent by construction
	if !ok && !toEnd {
		und(back.Pos(), "loop variable is not advanced by start += constant (or start = end)")
		return
	}
	var leaves []ssa.Value
	c20MinLeaves(endV, &leaves)
	clips, widths, unknown := 0, []int64{}, 0
	for _, l := range leaves {
		if sameValue(l, bound, 0) {
			clips++
		} else if w, ok := c20PlusConst(l, phi); ok {
			widths = append(widths, w)
		} else {
			unknown++
		}
	}
	if unknown > 0 || len(widths) == 0 {
		und(ycall.Pos(), "yielded End is not min(start+width, bound)")
		return
	}
	okW := step > 0 || toEnd
	for _, w := range widths {
		okW = okW && (w == step || toEnd && w > 0)
	}
	c.Check(okW, rule, spec+"#step-width", back.Pos(), "start advances by %d, End = start + %v (must be the same positive constant: a smaller width leaves positions unprocessed, a larger one processes positions twice)", step, widths)
	c.Check(clips > 0, rule, spec+"#clip", ycall.Pos(), "yielded End clipped to the range end by min: %d clip term(s) (without it the last Range exceeds the range and Chunker.Open rejects it)", clips)
	// init
	if k, isC := constOf(init); isC {
		_, isF := bound.(*ssa.UnOp).X.(*ssa.FieldAddr)
		c.Check(k == 0 && !isF, rule, spec+"#init", phi.Pos(), "start begins at constant %d (range is [0,bound): must be 0)", k)
	} else if f, b, ok := c20FieldLoad(init); ok && b == fv && f.Name() == "Start" {
		bf, bb, bok := c20FieldLoad(bound)
		c.Check(bok && bb == fv && bf.Name() == "End", rule, spec+"#init", phi.Pos(), "start begins at Start and runs to End of the same captured Range")
	} else {
		c.Undec(rule, spec+"#init", phi.Pos(), "initial value of start is neither 0 nor the Start field of the captured Range")
	}
	// yield on every iteration; exits
	yb := ycall.Block()
	good := yb.Dominates(latch) && phi.Block().Dominates(yb)
	staySucc := phi.Block().Succs[0]
	if !truth {
		staySucc = phi.Block().Succs[1]
	}
	var stopSucc, yifBlock *ssa.BasicBlock
	if ycall.Referrers() != nil {
		for _, r := range *ycall.Referrers() {
			if yif, ok := r.(*ssa.If); ok {
				_, cont, ok := c20Stay(yif.Block(), latch)
				if !ok || !cont {
					good = false // continuing when yield returned false / not decidable
				} else {
					stopSucc, yifBlock = yif.Block().Succs[1], yif.Block()
				}
			} else if _, isDbg := r.(*ssa.DebugRef); !isDbg {
				good = false
			}
		}
	}
	// inside the loop body the only way out is the yield=false edge
	for _, b := range cl.Blocks {
		if !staySucc.Dominates(b) {
			continue
		}
		if len(b.Succs) == 0 && !(stopSucc != nil && stopSucc.Dominates(b)) {
			good = false
		}
		for _, sc := range b.Succs {
			if !staySucc.Dominates(sc) && sc != phi.Block() && !(b == yifBlock && sc == stopSucc) {
				good = false
			}
		}
	}
	if good {
		c.Ok(rule, spec+"#yield", ycall.Pos(), "yield(start,end) is executed on every iteration, iteration continues exactly when it returns true, no other exit from the loop")
	} else {
		c.Undec(rule, spec+"#yield", ycall.Pos(), "cannot prove that every iteration yields its Range and that the loop is left only at the end or on yield=false")
	}
}

// ---------------------------------------------------------------- R5a: NewChunker's manifest (writer side)

// c20Acc describes how NewChunker derives file offsets.
type c20Acc struct {
	ok       bool
	mode     string // "acc": curr += len(line)+K ; "off": end = reader.Offset(), start = end-len(line)-K
	K        int64
	fn       *ssa.Function // NewChunker
	reader   *ssa.Function // callee that yields the lines
	rcall    *ssa.Call
	offField *types.Var // off mode: reader field returned by the offset accessor
	startF   *types.Var
	endF     *types.Var
	manifest *types.Var
}

func c20Manifest(c *Ctx, p *Prog) (acc c20Acc) {
	const rule = "C20.R5"
	spec := c20Epd + ".NewChunker"
	fn := p.Func(spec)
	if fn == nil {
		c.Anchor(rule, spec)
		return
	}
	acc.fn = fn
	key := spec + "#manifest-entry"
	und := func(pos token.Pos, format string, args ...any) {
		c.Undec(rule, key, pos, "offset bookkeeping not understood: "+format, args...)
	}
	// the line: extract #0 of a call to an own function, whose len() is used
	var line *ssa.Extract
	allInstrs(fn, func(in ssa.Instruction) {
		if call, ok := in.(*ssa.Call); ok {
			if x := c20LenOf(call); x != nil {
				if ex, ok := x.(*ssa.Extract); ok && ex.Index == 0 {
					if rc, callee := c20OwnCallee(ex.Tuple); callee != nil {
						if acc.reader != nil && acc.reader != callee {
							line = nil
							return
						}
						line, acc.reader, acc.rcall = ex, callee, rc
					}
				}
			}
		}
	})
	if line == nil || len(acc.rcall.Call.Args) == 0 {
		und(fn.Pos(), "no single line-reader call whose len(line) enters the offsets")
		return
	}
	isLen := func(v ssa.Value) bool { return c20LenOf(v) == line }
	// stores into the struct literal
	type fstore struct {
		f *types.Var
		v ssa.Value
		a ssa.Value
	}
	var lenStore *fstore
	var stores []fstore
	allInstrs(fn, func(in ssa.Instruction) {
		st, ok := in.(*ssa.Store)
		if !ok {
			return
		}
		f, base, ok := c20FieldOfAddr(st.Addr)
		if !ok {
			return
		}
		if _, isAlloc := base.(*ssa.Alloc); !isAlloc {
			return
		}
		fs := fstore{f, st.Val, base}
		stores = append(stores, fs)
		l := c20Linear(st.Val)
		for _, v := range append(append([]ssa.Value{}, l.pos...), l.neg...) {
			if isLen(v) {
				lenStore = &fs
			}
		}
	})
	if lenStore == nil {
		und(line.Pos(), "len(line) does not flow into a field of an appended struct")
		return
	}
	var other *fstore
	for i := range stores {
		if stores[i].a == lenStore.a && stores[i].f != lenStore.f {
			if other != nil {
				und(line.Pos(), "manifest entry has more than two stored fields")
				return
			}
			other = &stores[i]
		}
	}
	if other == nil {
		und(line.Pos(), "manifest entry has no second offset field")
		return
	}
	l := c20Linear(lenStore.v)
	switch {
	case c20Take(&l.pos, isLen) != nil && len(l.pos) == 1 && len(l.neg) == 0:
		// accumulate: end = curr + len(line) + K, start = curr, curr' = end
		phi, init, back, _, ok := c20LoopPhi(l.pos[0])
		if !ok {
			und(lenStore.v.Pos(), "end = v + len(line) + K where v is not a loop-carried offset")
			return
		}
		k0, isC := constOf(init)
		bl := c20Linear(back)
		sameBack := back == lenStore.v || (c20Take(&bl.pos, isLen) != nil && len(bl.pos) == 1 && bl.pos[0] == phi && len(bl.neg) == 0 && bl.k == l.k)
		if !(isC && k0 == 0) || stripConv(other.v) != phi || !sameBack {
			c.Fail(rule, key, lenStore.v.Pos(), "manifest entry is not {curr, curr+len(line)+K} with curr starting at 0 and advancing to that end: entries would overlap or leave gaps in the file")
			return
		}
		acc.mode, acc.K, acc.endF, acc.startF = "acc", l.k, lenStore.f, other.f
	case c20Take(&l.neg, isLen) != nil && len(l.neg) == 0 && len(l.pos) == 1:
		// reader-side offset: end = reader.Offset(), start = end - len(line) - K
		ocall, g := c20OwnCallee(l.pos[0])
		if g == nil || stripConv(other.v) != ocall || len(ocall.Call.Args) != 1 || ocall.Call.Args[0] != acc.rcall.Call.Args[0] || !instrDominates(acc.rcall, ocall) {
			und(lenStore.v.Pos(), "start = e - len(line) - K where e is not an offset accessor called on the same reader after the read")
			return
		}
		var fld *types.Var
		if len(g.Blocks) == 1 {
			if ret, ok := g.Blocks[0].Instrs[len(g.Blocks[0].Instrs)-1].(*ssa.Return); ok && len(ret.Results) == 1 {
				if f, b, ok := c20FieldLoad(stripConv(ret.Results[0])); ok && b == g.Params[0] {
					fld = f
				}
			}
		}
		if fld == nil {
			und(ocall.Pos(), "%s is not a plain accessor of a reader field", fnName(g))
			return
		}
		acc.mode, acc.K, acc.startF, acc.endF, acc.offField = "off", -l.k, lenStore.f, other.f, fld
	default:
		und(lenStore.v.Pos(), "field value is neither curr+len(line)+K nor offset-len(line)-K")
		return
	}
	// the entry is appended on every iteration and the result becomes the manifest
	var elem ssa.Value
	if lenStore.a.Referrers() != nil {
		for _, r := range *lenStore.a.Referrers() {
			if u, ok := r.(*ssa.UnOp); ok && u.Op == token.MUL {
				elem = u
			}
		}
	}
	if elem == nil {
		und(line.Pos(), "manifest entry is not appended")
		return
	}
	accPhi, app := c20AppendOf(elem)
	if accPhi == nil || !instrDominates(acc.rcall, app) {
		und(line.Pos(), "manifest entry is not appended to the loop-carried manifest")
		return
	}
	if acc.manifest = c20StoredField(accPhi); acc.manifest == nil {
		und(app.Pos(), "accumulated manifest is not stored into the Chunker")
		return
	}
	acc.ok = true
	if acc.K < 0 {
		c.Fail(rule, key, lenStore.v.Pos(), "per-line increment K=%d is negative", acc.K)
		return
	}
	c.Ok(rule, key, lenStore.v.Pos(), "mode %s: entry.%s/%s = [o, o+len(line)+%d) with consecutive o, line from %s, appended to Chunker.%s", acc.mode, acc.startF.Name(), acc.endF.Name(), acc.K, fnName(acc.reader), acc.manifest.Name())
	return
}

// ---------------------------------------------------------------- R5f: Chunker.Open

type c20OpenInfo struct {
	si         *ssa.Function
	xIdx, nIdx int
	chunkLines *types.Var
}

func c20Open(c *Ctx, p *Prog, acc c20Acc) (op c20OpenInfo) {
	const rule = "C20.R5"
	spec := c20Epd + ".(Chunker).Open"
	fn := p.Func(spec)
	if fn == nil {
		c.Anchor(rule, spec)
		return
	}
	key := spec + "#shuffle-map"
	und := func(pos token.Pos, format string, args ...any) {
		c.Undec(rule, key, pos, "Open not understood: "+format, args...)
	}
	var ia *ssa.IndexAddr
	var call *ssa.Call
	n := 0
	allInstrs(fn, func(in ssa.Instruction) {
		if x, ok := in.(*ssa.IndexAddr); ok {
			if cl, callee := c20OwnCallee(x.Index); callee != nil {
				ia, call, op.si = x, cl, callee
				n++
			}
		}
	})
	if n != 1 {
		op.si = nil
		und(fn.Pos(), "%d index expressions manifest[f(...)] (want 1)", n)
		return
	}
	fldM, baseM, ok := c20FieldLoad(ia.X)
	if !ok {
		und(ia.Pos(), "indexed slice is not a field of the receiver")
		return
	}
	if acc.ok && fldM != acc.manifest {
		c.Fail(rule, key, ia.Pos(), "Open indexes Chunker.%s but NewChunker fills Chunker.%s", fldM.Name(), acc.manifest.Name())
		return
	}
	op.xIdx, op.nIdx = -1, -1
	var ixPhi *ssa.Phi
	var others []ssa.Value
	for i, a := range call.Call.Args {
		a = stripConv(a)
		if phi, _, _, _, ok := c20LoopPhi(a); ok && op.xIdx < 0 {
			op.xIdx, ixPhi = i, phi
		} else if x := c20LenOf(a); x != nil && c20IsLoadOf(x, fldM, baseM) && op.nIdx < 0 {
			op.nIdx = i
		} else {
			others = append(others, a)
		}
	}
	if op.xIdx < 0 {
		c.Fail(rule, key, call.Pos(), "no argument of %s is the loop index: the chunk does not enumerate its indices", fnName(op.si))
		return
	}
	if op.nIdx < 0 {
		c.Fail(rule, key, call.Pos(), "no argument of %s is len(%s): the permutation is not over exactly the manifest's index set (lines beyond n are never processed / indices repeat)", fnName(op.si), fldM.Name())
		return
	}
	_, init, back, latch, _ := c20LoopPhi(ixPhi)
	_, lo := init.(*ssa.Parameter)
	step, okStep := c20PlusConst(back, ixPhi)
	iff, truth, okStay := c20Stay(ixPhi.Block(), latch)
	var hi ssa.Value
	strict := false
	if okStay {
		var a ssa.Value
		a, hi, strict, okStay = c20Rel(iff.Cond, truth)
		okStay = okStay && a == ixPhi
	}
	_, hiP := hi.(*ssa.Parameter)
	if !lo || !okStep || !okStay || !hiP || hi == init {
		und(ixPhi.Pos(), "index loop is not `for ix := <param>; ix < <param>; ix += k`")
		return
	}
	if step != 1 || !strict {
		c.Fail(rule, key, ixPhi.Pos(), "index loop must visit exactly start <= ix < end with step 1 (found step %d, strict=%v): the chunk ranges produced by Batches/Chunks are half-open and adjacent", step, strict)
		return
	}
	if !call.Block().Dominates(latch) {
		und(call.Pos(), "the permutation call is not executed on every iteration")
		return
	}
	for _, o := range others {
		sl := backSlice(o, sliceOpts{ThroughCalls: true, ThroughLoads: true})
		if sl[ixPhi] {
			c.Fail(rule, key, call.Pos(), "seed argument of %s depends on the loop index: different indices are mapped by different permutations", fnName(op.si))
			return
		}
	}
	// manifest[perm] is appended and becomes Chunk.chunkLines
	var elem ssa.Value
	if ia.Referrers() != nil {
		for _, r := range *ia.Referrers() {
			if u, ok := r.(*ssa.UnOp); ok && u.Op == token.MUL {
				elem = u
			}
		}
	}
	var accPhi *ssa.Phi
	var app *ssa.Call
	if elem != nil {
		accPhi, app = c20AppendOf(elem)
	}
	if accPhi == nil || accPhi.Block() != ixPhi.Block() || !app.Block().Dominates(latch) {
		und(ia.Pos(), "manifest[perm(ix)] is not appended to the chunk's line list on every iteration")
		return
	}
	if op.chunkLines = c20StoredField(accPhi); op.chunkLines == nil {
		und(app.Pos(), "collected lines are not stored into the returned Chunk")
		return
	}
	c.Ok(rule, key, call.Pos(), "for start <= ix < end (parameters, step 1): %s[%s(ix, len(%s), seed independent of ix)] appended on every iteration, result stored in Chunk.%s", fldM.Name(), fnName(op.si), fldM.Name(), op.chunkLines.Name())
	return
}

// ---------------------------------------------------------------- R3: cycle walking in shuffleIndex

func c20R3(c *Ctx, p *Prog, op c20OpenInfo) {
	const rule = "C20.R3"
	si := op.si
	spec := fnName(si)
	if op.xIdx >= len(si.Params) || op.nIdx >= len(si.Params) {
		c.Undec(rule, spec+"#shape", si.Pos(), "parameter roles do not map onto %s", spec)
		return
	}
	x, n := si.Params[op.xIdx], si.Params[op.nIdx]
	// the permutation call: own callee fed with a loop phi that starts at x
	var y *ssa.Call
	var pf *ssa.Function
	var xPhi *ssa.Phi
	var xBack ssa.Value
	pfX, cnt := -1, 0
	allInstrs(si, func(in ssa.Instruction) {
		call, callee := c20OwnCallee(valueOf(in))
		if callee == nil {
			return
		}
		for i, a := range call.Call.Args {
			if phi, init, back, _, ok := c20LoopPhi(stripConv(a)); ok && init == x {
				y, pf, xPhi, xBack, pfX = call, callee, phi, back, i
				cnt++
			}
		}
	})
	if cnt != 1 {
		c.Undec(rule, spec+"#shape", si.Pos(), "%d calls perm(x', ...) with x' a loop variable starting at the index parameter (want 1)", cnt)
		return
	}
	bitsIdx, okF := c20Feistel(c, p, pf, pfX)
	// every return is in range
	nret := 0
	for _, b := range si.Blocks {
		ret, ok := b.Instrs[len(b.Instrs)-1].(*ssa.Return)
		if !ok || len(ret.Results) != 1 {
			continue
		}
		nret++
		v := stripConv(ret.Results[0])
		conds := controllingConds(b)
		if k, isC := constOf(v); isC {
			if _, isConst := v.(*ssa.Const); isConst {
				guard := false
				for _, ce := range conds {
					if a, bb, strict, ok := c20Rel(ce.Cond, ce.True); ok && a == n {
						if lim, isC := constOf(bb); isC && (strict && lim <= 2 || !strict && lim <= 1) {
							guard = true
						}
					}
					if eq, ok := ce.Cond.(*ssa.BinOp); ok && eq.Op == token.EQL && ce.True && stripConv(eq.X) == n {
						if lim, isC := constOf(eq.Y); isC && lim <= 1 {
							guard = true
						}
					}
				}
				c.Check(k == 0 && guard, rule, spec+"#small-n", ret.Pos(), "constant %d is returned only under a guard that implies n <= 1 (for n >= 2 a constant result maps several indices to one line)", k)
				continue
			}
		}
		inRange := false
		for _, ce := range conds {
			if a, bb, strict, ok := c20Rel(ce.Cond, ce.True); ok && strict && a == v && bb == n {
				inRange = true
			}
		}
		if v != ssa.Value(y) {
			c.Undec(rule, spec+"#returns-in-range", ret.Pos(), "returned value is not the permutation output")
		} else {
			c.Check(inRange, rule, spec+"#returns-in-range", ret.Pos(), "permutation output is returned only where y < n holds (otherwise an index outside the manifest is produced and another one is never produced)")
		}
	}
	// re-feed
	part, w := xBack, ssa.Value(nil)
	if pt, mw, ok := c20Masked(xBack); ok {
		part, w = pt, mw
	}
	var bitsArg ssa.Value
	if okF && bitsIdx < len(y.Call.Args) {
		bitsArg = y.Call.Args[bitsIdx]
	}
	switch {
	case stripConv(part) != ssa.Value(y):
		c.Fail(rule, spec+"#refeed", xBack.Pos(), "on rejection the next input is not the previous permutation output: cycle walking needs x <- perm(x); any other value makes two indices collide")
	case w != nil && (bitsArg == nil || !sameValue(w, bitsArg, 0)):
		c.Undec(rule, spec+"#refeed", xBack.Pos(), "re-fed output is masked with a mask whose width is not the permutation's bit count")
	default:
		c.Ok(rule, spec+"#refeed", xBack.Pos(), "rejected output y is fed back as the next input (mask = full domain)")
	}
	_ = xPhi
	// key arguments independent of the walked value
	for i, a := range y.Call.Args {
		if i == pfX {
			continue
		}
		if sl := backSlice(a, sliceOpts{ThroughCalls: true, ThroughLoads: true}); sl[xPhi] || sl[x] {
			c.Fail(rule, spec+"#refeed", y.Pos(), "argument %d of %s depends on the walked index: not one permutation for all indices", i, fnName(pf))
		}
	}
	// domain size
	if bitsArg != nil {
		ok := false
		if lc, isCall := stripConv(bitsArg).(*ssa.Call); isCall {
			if obj := calleeObj(lc); obj != nil && obj.Pkg() != nil && obj.Pkg().Path() == "math/bits" && (obj.Name() == "Len64" || obj.Name() == "Len") && len(lc.Call.Args) == 1 {
				l := c20Linear(lc.Call.Args[0])
				ok = len(l.pos) == 1 && l.pos[0] == n && len(l.neg) == 0 && (l.k == -1 || l.k == 0)
			}
		}
		if ok {
			c.Ok(rule, spec+"#domain-size", bitsArg.Pos(), "bit count = bits.Len64(n-1) (or Len64(n)): domain 2^bits >= n for n >= 1")
		} else {
			c.Undec(rule, spec+"#domain-size", y.Pos(), "bit count passed to %s is not bits.Len64(n-1)/Len64(n): 2^bits >= n not proven (a smaller domain never produces the top indices)", fnName(pf))
		}
	}
	// purity of the closure
	fns := p.closure([]*ssa.Function{si}, nil)
	eff := unionEffects(fns)
	var bad []string
	for _, k := range sortedKeys(eff.GlobalWrites) {
		bad = append(bad, "writes "+k)
	}
	for _, k := range sortedKeys(eff.GlobalReads) {
		if len(p.nonInitGlobalWriters(k)) > 0 {
			bad = append(bad, "reads mutable "+k)
		}
	}
	for _, s := range eff.Nondet {
		bad = append(bad, s.What)
	}
	c.Check(len(bad) == 0, rule, spec+"#pure", si.Pos(), "closure of %s (%d functions) is a function of its arguments only %v — every client and every call must see the same permutation", spec, len(fns), bad)
	c.Floor(rule, nret, 2, "return statements of "+spec)
}

// ---------------------------------------------------------------- R2: Feistel rounds

func c20ExitOf(v ssa.Value, phi *ssa.Phi, init, back ssa.Value) bool {
	v = stripConv(v)
	if v == ssa.Value(phi) {
		return true
	}
	m, ok := v.(*ssa.Phi)
	if !ok {
		return false
	}
	for _, e := range m.Edges {
		if e != ssa.Value(phi) && e != init && e != back {
			return false
		}
	}
	return true
}

func c20XorLeaves(v ssa.Value, out *[]ssa.Value) {
	if b, ok := v.(*ssa.BinOp); ok && b.Op == token.XOR {
		c20XorLeaves(b.X, out)
		c20XorLeaves(b.Y, out)
		return
	}
	*out = append(*out, v)
}

// c20Feistel analyses the permutation; returns the index of its bit-count parameter.
func c20Feistel(c *Ctx, p *Prog, pf *ssa.Function, xIdx int) (bitsIdx int, okBits bool) {
	const rule = "C20.R2"
	spec := fnName(pf)
	und := func(pos token.Pos, format string, args ...any) {
		c.Undec(rule, spec+"#shape", pos, "Feistel shape not understood: "+format, args...)
	}
	defer func() { c.Floor(rule, map[bool]int{true: 1}[okBits], 1, "Feistel networks fully analysed") }()
	x := pf.Params[xIdx]
	// the swapped pair: P.back == Q
	var P, Q *ssa.Phi
	var pInit, qInit, qBack ssa.Value
	var latch *ssa.BasicBlock
	pairs := 0
	for _, b := range pf.Blocks {
		for _, in := range b.Instrs {
			ph, i1, b1, l1, ok := c20LoopPhi(valueOf(in))
			if !ok {
				continue
			}
			if q, i2, b2, _, ok := c20LoopPhi(b1); ok && q.Block() == b && q != ph {
				P, Q, pInit, qInit, qBack, latch = ph, q, i1, i2, b2, l1
				pairs++
			}
		}
	}
	if pairs == 0 {
		// the old L may have become dead: new R = R xor g(R)
		for _, b := range pf.Blocks {
			for _, in := range b.Instrs {
				if ph, _, b1, _, ok := c20LoopPhi(valueOf(in)); ok {
					var ls []ssa.Value
					c20XorLeaves(b1, &ls)
					for _, l := range ls {
						if l == ssa.Value(ph) && len(ls) > 1 {
							c.Fail(rule, spec+"#round-shape", b1.Pos(), "the loop-carried half is xored with a function of itself and the other half never enters the round: the round is not (L,R) <- (R, L xor g), L is lost and the network is not injective")
							return
						}
					}
				}
			}
		}
	}
	if pairs != 1 {
		und(pf.Pos(), "%d loop-carried pairs with L' = R (want 1)", pairs)
		return
	}
	var leaves, gs []ssa.Value
	c20XorLeaves(qBack, &leaves)
	nP := 0
	for _, l := range leaves {
		if l == ssa.Value(P) {
			nP++
		} else {
			gs = append(gs, l)
		}
	}
	if _, isX := qBack.(*ssa.BinOp); !isX || qBack.(*ssa.BinOp).Op != token.XOR {
		und(qBack.Pos(), "new R is not an xor")
		return
	}
	if !c.Check(nP == 1 && len(gs) > 0, rule, spec+"#round-shape", qBack.Pos(), "round is (L,R) <- (R, L xor g): old L occurs %d time(s) as xor operand of the new R (without it L is lost and the round is not injective)", nP) {
		return
	}
	hdr := P.Block()
	dep, mem := false, false
	for _, g := range gs {
		sl := backSlice(g, sliceOpts{ThroughCalls: true, Stop: func(v ssa.Value) bool {
			ph, ok := v.(*ssa.Phi)
			return ok && ph.Block() == hdr
		}})
		dep = dep || sl[P]
		mem = mem || sliceHas(sl, func(v ssa.Value) bool { u, ok := v.(*ssa.UnOp); return ok && u.Op == token.MUL })
	}
	if mem {
		c.Undec(rule, spec+"#g-independent-of-L", qBack.Pos(), "round function reads memory; independence of L not decided")
	} else {
		c.Check(!dep, rule, spec+"#g-independent-of-L", qBack.Pos(), "g is computed from R, the key and loop invariants, not from L (if g depends on L, (L,R) -> (R, L xor g) cannot be undone)")
	}
	// split: one half is x & mask(lowW), the other (x >> s) & mask(highW)
	type half struct {
		w, shift ssa.Value
		low      bool
	}
	split := func(init ssa.Value) (h half, ok bool) {
		part, w, ok := c20Masked(init)
		if !ok {
			return h, false
		}
		part = stripConv(part)
		if part == ssa.Value(x) {
			return half{w: w, low: true}, true
		}
		if sh, ok := part.(*ssa.BinOp); ok && sh.Op == token.SHR && stripConv(sh.X) == ssa.Value(x) {
			return half{w: w, shift: sh.Y}, true
		}
		return h, false
	}
	hp, ok1 := split(pInit)
	hq, ok2 := split(qInit)
	if !ok1 || !ok2 || hp.low == hq.low {
		und(P.Pos(), "initial halves are not x & mask and (x >> s) & mask")
		return
	}
	lo, hi := hp, hq
	if hq.low {
		lo, hi = hq, hp
	}
	// widths: one is total/c (narrow), the other total - narrow
	var total *ssa.Parameter
	var narrow, wide ssa.Value
	for _, pr := range [][2]ssa.Value{{lo.w, hi.w}, {hi.w, lo.w}} {
		a, b := stripConv(pr[0]), stripConv(pr[1])
		sub, ok := b.(*ssa.BinOp)
		if !ok || sub.Op != token.SUB || !sameValue(sub.Y, a, 0) {
			continue
		}
		t, ok := stripConv(sub.X).(*ssa.Parameter)
		if !ok {
			continue
		}
		if d, ok := a.(*ssa.BinOp); ok && stripConv(d.X) == ssa.Value(t) {
			k, isC := constOf(d.Y)
			if isC && (d.Op == token.QUO && k >= 2 || d.Op == token.SHR && k >= 1) {
				total, narrow, wide = t, a, b
			}
		}
	}
	if total == nil {
		und(P.Pos(), "half widths are not {bits/2, bits - bits/2}")
		return
	}
	for i, pr := range pf.Params {
		if pr == total {
			bitsIdx = i
		}
	}
	c.Check(hi.shift != nil && sameValue(hi.shift, lo.w, 0), rule, spec+"#half-widths", P.Pos(), "low half = x & mask(w), high half = (x >> w) & mask(bits-w) with the same w: the halves partition the bits-wide input")
	// g mask
	gOK, gBad, gUnd := 0, "", ""
	for _, g := range gs {
		_, w, ok := c20Masked(g)
		switch {
		case !ok:
			gBad = "g is xored in without being masked to the narrower half"
		case sameValue(w, narrow, 0):
			gOK++
		case sameValue(w, wide, 0):
			gBad = "g is masked to the wider half (bits - bits/2): for odd bit counts the narrow half overflows and the final masks drop a bit"
		default:
			gUnd = "mask width of g is neither half width"
		}
	}
	switch {
	case gBad != "":
		c.Fail(rule, spec+"#g-mask", qBack.Pos(), "%s", gBad)
	case gUnd != "":
		c.Undec(rule, spec+"#g-mask", qBack.Pos(), "%s", gUnd)
	default:
		c.Ok(rule, spec+"#g-mask", qBack.Pos(), "g is masked to the narrower half width (%d term(s)): half widths alternate and return to their places every two rounds", gOK)
	}
	// round count
	rounds, okR := int64(0), false
	for _, in := range hdr.Instrs {
		cphi, ci, cb, _, ok := c20LoopPhi(valueOf(in))
		if !ok {
			continue
		}
		if k, isC := constOf(ci); !isC || k != 0 {
			continue
		}
		if st, ok := c20PlusConst(cb, cphi); !ok || st != 1 {
			continue
		}
		for _, blk := range []*ssa.BasicBlock{hdr, latch} {
			iff, truth, ok := c20Stay(blk, latch)
			if blk == latch {
				iff, truth, ok = c20Stay(blk, hdr)
			}
			if !ok {
				continue
			}
			a, b, strict, ok := c20Rel(iff.Cond, truth)
			if k, isC := constOf(b); ok && strict && isC {
				if (a == ssa.Value(cphi) && blk == hdr && hdr != latch) || (a == cb && blk == latch) {
					rounds, okR = k, true
				}
			}
		}
	}
	if !okR {
		c.Undec(rule, spec+"#rounds-even", hdr.Instrs[0].Pos(), "round count is not a constant-bounded counting loop")
	} else {
		c.Check(rounds > 0 && rounds%2 == 0, rule, spec+"#rounds-even", hdr.Instrs[0].Pos(), "%d rounds: must be even — after an odd number of rounds the halves are exchanged and, for odd bit counts, the wider half is cut by the narrower mask (2^bits inputs, 2^(bits-1) outputs)", rounds)
	}
	// join
	var ret *ssa.Return
	for _, b := range pf.Blocks {
		if r, ok := b.Instrs[len(b.Instrs)-1].(*ssa.Return); ok {
			if ret != nil {
				und(r.Pos(), "more than one return")
				return
			}
			ret = r
		}
	}
	j, ok := stripConv(ret.Results[0]).(*ssa.BinOp)
	if !ok || (j.Op != token.OR && j.Op != token.ADD && j.Op != token.XOR) {
		und(ret.Pos(), "result is not (hi << s) | lo")
		return
	}
	unmask := func(v ssa.Value) (ssa.Value, ssa.Value) {
		if part, w, ok := c20Masked(v); ok {
			return stripConv(part), w
		}
		return stripConv(v), nil
	}
	var hiV, loV, hiM, loM, js ssa.Value
	for _, pr := range [][2]ssa.Value{{j.X, j.Y}, {j.Y, j.X}} {
		if sh, ok := stripConv(pr[0]).(*ssa.BinOp); ok && sh.Op == token.SHL {
			hiV, hiM = unmask(sh.X)
			loV, loM = unmask(pr[1])
			js = sh.Y
		}
	}
	if js == nil {
		und(ret.Pos(), "result has no shifted high half")
		return
	}
	pBack := ssa.Value(Q)
	var loW, hiW ssa.Value
	switch {
	case c20ExitOf(loV, P, pInit, pBack) && c20ExitOf(hiV, Q, qInit, qBack):
		loW, hiW = hp.w, hq.w
	case c20ExitOf(loV, Q, qInit, qBack) && c20ExitOf(hiV, P, pInit, pBack):
		loW, hiW = hq.w, hp.w
	default:
		und(ret.Pos(), "joined values are not the two halves after the last round")
		return
	}
	jOK := sameValue(js, loW, 0) && (loM == nil || sameValue(loM, loW, 0)) && (hiM == nil || sameValue(hiM, hiW, 0))
	c.Check(jOK, rule, spec+"#join", ret.Pos(), "result = (hi << w_lo) | lo where w_lo is the width of the half placed low and optional masks have the halves' own widths (otherwise halves overlap or lose bits for odd bit counts)")
	okBits = true
	return
}

// ---------------------------------------------------------------- R4: every consumed byte is visible to the offset bookkeeping

var c20LineReads = map[string]bool{"ReadSlice": true, "ReadBytes": true, "ReadString": true}
var c20Harmless = map[string]bool{"Buffered": true, "Size": true, "Peek": true}

func c20IsBufioReader(t types.Type) bool {
	if pt, ok := t.Underlying().(*types.Pointer); ok {
		t = pt.Elem()
	}
	n, ok := types.Unalias(t).(*types.Named)
	return ok && n.Obj().Pkg() != nil && n.Obj().Pkg().Path() == "bufio" && n.Obj().Name() == "Reader"
}

func c20IsNilConst(v ssa.Value) bool {
	k, ok := v.(*ssa.Const)
	return ok && k.Value == nil
}

func c20R4(c *Ctx, p *Prog, acc c20Acc) {
	const rule = "C20.R4"
	if !acc.ok {
		c.Undec(rule, c20Epd+".NewChunker#reader", token.NoPos, "NewChunker's offset bookkeeping was not recognised (see C20.R5), so the reader obligations cannot be instantiated")
		c.Floor(rule, 0, 1, "line readers analysed")
		return
	}
	F := acc.reader
	name := fnName(F)
	var sources []*ssa.Call
	unknown := ""
	allInstrs(F, func(in ssa.Instruction) {
		ci, ok := in.(ssa.CallInstruction)
		if !ok {
			return
		}
		obj := calleeObj(ci)
		if obj == nil {
			return
		}
		sig := obj.Type().(*types.Signature)
		if sig.Recv() != nil && c20IsBufioReader(sig.Recv().Type()) {
			call, isCall := in.(*ssa.Call)
			switch {
			case isCall && c20LineReads[obj.Name()]:
				sources = append(sources, call)
			case !c20Harmless[obj.Name()]:
				unknown = obj.Name()
			}
		} else if callee := ci.Common().StaticCallee(); callee != nil && isOwn(callee) {
			for _, a := range ci.Common().Args {
				if c20IsBufioReader(a.Type()) {
					unknown = "helper " + fnName(callee)
				}
			}
		}
	})
	if unknown != "" || len(sources) == 0 {
		c.Undec(rule, name+"#shape", F.Pos(), "%s consumes input through %q / %d line reads: consumption not understood", name, unknown, len(sources))
		c.Floor(rule, 0, 1, "line readers analysed")
		return
	}
	isErrReturn := func(in ssa.Instruction) bool {
		r, ok := in.(*ssa.Return)
		return ok && len(r.Results) == 2 && !c20IsNilConst(r.Results[1])
	}
	for i, S := range sources {
		sfx := ""
		if i > 0 {
			sfx = fmt.Sprintf("@%d", i+1)
		}
		var D ssa.Value
		for _, r := range *S.Referrers() {
			if ex, ok := r.(*ssa.Extract); ok && ex.Index == 0 {
				D = ex
			}
		}
		meth := calleeObj(S).Name()
		// accounting store (reader-side offset mode): recv.off = recv.off + len(D)
		accounted := func(in ssa.Instruction) bool {
			st, ok := in.(*ssa.Store)
			if !ok || acc.mode != "off" || D == nil {
				return false
			}
			f, base, ok := c20FieldOfAddr(st.Addr)
			if !ok || f != acc.offField || base != ssa.Value(F.Params[0]) {
				return false
			}
			l := c20Linear(st.Val)
			return l.k == 0 && len(l.neg) == 0 && len(l.pos) == 2 &&
				c20Take(&l.pos, func(v ssa.Value) bool { return c20LenOf(v) == D }) != nil && c20IsLoadOf(l.pos[0], f, base)
		}
		if acc.mode == "acc" {
			key := name + "#skipped-line" + sfx
			leak := ""
			for _, T := range sources {
				if ok, path := reachAvoiding(S, T, nil); ok {
					leak = fmt.Sprintf("path (blocks %s) from bufio.Reader.%s back to a read without returning the line", c20Blocks(path), meth)
					break
				}
			}
			if leak != "" {
				c.Fail(rule, key, S.Pos(), "%s: the bytes of that line are consumed but invisible to %s, which advances its file offset only by len(line)+%d per returned line — every later manifest entry is shifted by the skipped bytes", leak, fnName(acc.fn), acc.K)
			} else {
				c.Ok(rule, key, S.Pos(), "every path from bufio.Reader.%s leaves %s (returning the line or an error) before reading again", meth, name)
			}
		} else {
			key := name + "#unaccounted-bytes" + sfx
			stop := func(in ssa.Instruction) bool { return accounted(in) || isErrReturn(in) }
			leak := ""
			if ok, path := reachAvoiding(S, nil, stop); ok {
				leak = fmt.Sprintf("path (blocks %s) from bufio.Reader.%s to a successful return", c20Blocks(path), meth)
			}
			for _, T := range sources {
				if ok, path := reachAvoiding(S, T, accounted); ok && leak == "" {
					leak = fmt.Sprintf("path (blocks %s) from bufio.Reader.%s back to a read", c20Blocks(path), meth)
				}
			}
			if leak != "" {
				c.Fail(rule, key, S.Pos(), "%s without adding len(data) to %s, which %s uses as the file offset: offsets drift by the unaccounted bytes", leak, acc.offField.Name(), fnName(acc.fn))
			} else {
				c.Ok(rule, key, S.Pos(), "len(data) of every bufio.Reader.%s is added to %s on every path to a successful return or to the next read", meth, acc.offField.Name())
			}
		}
	}
	// returned line = data[:len(data)-K]
	nret := 0
	for _, b := range F.Blocks {
		ret, ok := b.Instrs[len(b.Instrs)-1].(*ssa.Return)
		if !ok || len(ret.Results) != 2 {
			continue
		}
		if !c20IsNilConst(ret.Results[1]) {
			if c20IsNilConst(ret.Results[0]) {
				c.Note("C20.R4: %s returns (nil, err) at %s: data delivered together with an error (a final line without '\\n') is dropped; the caller stops there, no later offset depends on it — such a line is not part of the training set for any reader", name, p.Rel(ret.Pos()))
			}
			continue
		}
		nret++
		key := name + "#returned-line"
		sl, ok := ret.Results[0].(*ssa.Slice)
		var src *ssa.Call
		if ok {
			if ex, isEx := sl.X.(*ssa.Extract); isEx && ex.Index == 0 {
				for _, S := range sources {
					if ex.Tuple == ssa.Value(S) {
						src = S
					}
				}
			}
		}
		if src == nil {
			c.Undec(rule, key, ret.Pos(), "successful return does not return a slice of the data just read")
			continue
		}
		if sl.Low != nil {
			if k, isC := constOf(sl.Low); !isC || k != 0 {
				c.Fail(rule, key, ret.Pos(), "returned line does not start at the first consumed byte: leading bytes are consumed but not counted")
				continue
			}
		}
		kr := int64(0)
		if sl.High != nil {
			l := c20Linear(sl.High)
			if !(len(l.pos) == 1 && len(l.neg) == 0 && c20LenOf(l.pos[0]) == sl.X) {
				c.Undec(rule, key, ret.Pos(), "upper bound of the returned line is not len(data)-K")
				continue
			}
			kr = -l.k
		}
		c.Check(kr == acc.K, rule, key, ret.Pos(), "returned line = data[:len(data)-%d]; %s accounts len(line)+%d bytes per line (must agree, else each line shifts all later offsets)", kr, fnName(acc.fn), acc.K)
	}
	c.Floor(rule, nret, 1, "successful returns of "+name)
}

// ---------------------------------------------------------------- R5b-e: Chunk.Read (reader side)

// c20Paths enumerates simple block paths from -> to that avoid a block.
func c20Paths(from, to, avoid *ssa.BasicBlock, limit int) (out [][]*ssa.BasicBlock, ok bool) {
	var cur []*ssa.BasicBlock
	on := map[*ssa.BasicBlock]bool{}
	ok = true
	var dfs func(b *ssa.BasicBlock)
	dfs = func(b *ssa.BasicBlock) {
		if b == avoid || on[b] || !ok {
			return
		}
		cur = append(cur, b)
		on[b] = true
		if b == to {
			out = append(out, append([]*ssa.BasicBlock{}, cur...))
			if len(out) > limit {
				ok = false
			}
		} else {
			for _, s := range b.Succs {
				dfs(s)
			}
		}
		on[b] = false
		cur = cur[:len(cur)-1]
	}
	dfs(from)
	return out, ok
}

func c20Read(c *Ctx, p *Prog, acc c20Acc, op c20OpenInfo) {
	const rule = "C20.R5"
	spec := c20Epd + ".(*Chunk).Read"
	fn := p.Func(spec)
	if fn == nil {
		c.Anchor(rule, spec)
		return
	}
	n := 0
	defer func() { c.Floor(rule, n, 4, "reader-side obligations of "+spec) }()
	if !acc.ok {
		c.Undec(rule, spec+"#slice-bounds", fn.Pos(), "writer side (NewChunker) not recognised; reader/writer agreement cannot be decided")
		return
	}
	recv := ssa.Value(fn.Params[0])
	var sl *ssa.Slice
	var sret *ssa.Return
	cnt := 0
	for _, b := range fn.Blocks {
		if ret, ok := b.Instrs[len(b.Instrs)-1].(*ssa.Return); ok && len(ret.Results) == 2 && c20IsNilConst(ret.Results[1]) {
			cnt++
			sl, _ = ret.Results[0].(*ssa.Slice)
			sret = ret
		}
	}
	if cnt != 1 || sl == nil || sl.Low == nil || sl.High == nil {
		c.Undec(rule, spec+"#slice-bounds", fn.Pos(), "no single successful return of buf[lo:hi]")
		return
	}
	// bounds: lo = A.start - recv.G ; hi = A.end - recv.G - K
	lo, hi := c20Linear(sl.Low), c20Linear(sl.High)
	var A ssa.Value
	var G *types.Var
	if len(lo.pos) == 1 && len(lo.neg) == 1 && len(hi.pos) == 1 && len(hi.neg) == 1 {
		f1, a1, ok1 := c20FieldLoad(lo.pos[0])
		f2, a2, ok2 := c20FieldLoad(hi.pos[0])
		g1, b1, ok3 := c20FieldLoad(lo.neg[0])
		g2, b2, ok4 := c20FieldLoad(hi.neg[0])
		if ok1 && ok2 && ok3 && ok4 && a1 == a2 && b1 == recv && b2 == recv && g1 == g2 {
			A, G = a1, g1
			good := f1 == acc.startF && f2 == acc.endF && lo.k == 0 && -hi.k == acc.K
			c.Check(good, rule, spec+"#slice-bounds", sl.Pos(), "returns buf[a.%s-%s+%d : a.%s-%s-%d]; the manifest entry is [start, start+len+%d): the line without its terminator is buf[start-%s : end-%s-%d]", f1.Name(), G.Name(), lo.k, f2.Name(), G.Name(), -hi.k, acc.K, G.Name(), G.Name(), acc.K)
			n++
		}
	}
	if A == nil {
		c.Undec(rule, spec+"#slice-bounds", sl.Pos(), "slice bounds are not field(a)-field(chunk)[-K] over one line address a")
		return
	}
	isStoreTo := func(f *types.Var) func(ssa.Instruction) bool {
		return func(in ssa.Instruction) bool {
			st, ok := in.(*ssa.Store)
			if !ok {
				return false
			}
			g, b, ok := c20FieldOfAddr(st.Addr)
			return ok && g == f && b == recv
		}
	}
	// loads of the window start used in the bounds must not be stale
	for _, v := range []ssa.Value{lo.neg[0], hi.neg[0]} {
		ld := v.(ssa.Instruction)
		allInstrs(fn, func(in ssa.Instruction) {
			if isStoreTo(G)(in) {
				r1, _ := reachAvoiding(ld, in, nil)
				r2, _ := reachAvoiding(in, sl, nil)
				if r1 && r2 {
					c.Fail(rule, spec+"#slice-bounds-fresh", ld.Pos(), "%s is read before a store to it that can still happen before the slice is taken: stale window start", G.Name())
				}
			}
		})
	}
	// a = chunkLines[ix]; ix advances by one before the successful return
	var elem ssa.Value
	if al, ok := A.(*ssa.Alloc); ok && al.Referrers() != nil {
		for _, r := range *al.Referrers() {
			if st, ok := r.(*ssa.Store); ok && st.Addr == ssa.Value(al) {
				if u, ok := st.Val.(*ssa.UnOp); ok && u.Op == token.MUL {
					elem = u.X
				}
			}
		}
	} else {
		elem = A
	}
	advOK := false
	if ia, ok := elem.(*ssa.IndexAddr); ok {
		fl, bl, ok1 := c20FieldLoad(ia.X)
		fi, bi, ok2 := c20FieldLoad(ia.Index)
		if ok1 && ok2 && bl == recv && bi == recv && (op.chunkLines == nil || fl == op.chunkLines) {
			allInstrs(fn, func(in ssa.Instruction) {
				if st, ok := in.(*ssa.Store); ok && isStoreTo(fi)(in) {
					l := c20Linear(st.Val)
					if l.k == 1 && len(l.pos) == 1 && len(l.neg) == 0 && c20IsLoadOf(l.pos[0], fi, recv) && instrDominates(st, sret) && instrDominates(ia, st) {
						advOK = true
					}
				}
			})
		}
	}
	if advOK {
		c.Ok(rule, spec+"#advance", sret.Pos(), "the line address is chunkLines[ix] and ix is incremented by one on the way to the successful return")
		n++
	} else {
		c.Undec(rule, spec+"#advance", sret.Pos(), "cannot show that the returned line is chunkLines[ix] with ix advanced by exactly one per successful Read")
	}
	// refill: ReadAt(buf, a.start); G = a.start; H = a.start + count
	var rd *ssa.Call
	nrd := 0
	allInstrs(fn, func(in ssa.Instruction) {
		if call, ok := in.(*ssa.Call); ok {
			if obj := calleeObj(call); obj != nil && obj.Name() == "ReadAt" && (obj.Pkg() == nil || !strings.HasPrefix(obj.Pkg().Path(), Mod)) {
				rd = call
				nrd++
			}
		}
	})
	if nrd != 1 || len(rd.Call.Args) < 2 {
		c.Undec(rule, spec+"#refill-window", fn.Pos(), "%d ReadAt calls (want 1)", nrd)
		return
	}
	args := rd.Call.Args
	bufArg, offArg := args[len(args)-2], args[len(args)-1]
	var count ssa.Value
	for _, r := range *rd.Referrers() {
		if ex, ok := r.(*ssa.Extract); ok && ex.Index == 0 {
			count = ex
		}
	}
	bf, bb, okb := c20FieldLoad(bufArg)
	sf, sb, oks := c20FieldLoad(sl.X)
	var H *types.Var
	gOK := false
	allInstrs(fn, func(in ssa.Instruction) {
		st, ok := in.(*ssa.Store)
		if !ok || !instrDominates(rd, st) {
			return
		}
		f, b, ok := c20FieldOfAddr(st.Addr)
		if !ok || b != recv {
			return
		}
		l := c20Linear(st.Val)
		if f == G && l.k == 0 && len(l.pos) == 1 && len(l.neg) == 0 && c20IsLoadOf(l.pos[0], acc.startF, A) {
			gOK = true
		}
		if count != nil && f != G && l.k == 0 && len(l.neg) == 0 && len(l.pos) == 2 &&
			c20Take(&l.pos, func(v ssa.Value) bool { return v == count }) != nil && c20IsLoadOf(l.pos[0], acc.startF, A) {
			H = f
		}
	})
	winOK := okb && oks && bf == sf && bb == recv && sb == recv && c20IsLoadOf(offArg, acc.startF, A) && gOK && H != nil
	if winOK {
		r1, _ := reachAvoiding(rd, sl, isStoreTo(G))
		r2, _ := reachAvoiding(rd, sl, isStoreTo(H))
		winOK = !r1 && !r2
	}
	if !winOK {
		c.Undec(rule, spec+"#refill-window", rd.Pos(), "refill is not ReadAt(buf, a.%s) followed on every path to the slice by window-start = a.%s and window-end = a.%s + count, with buf the sliced buffer", acc.startF.Name(), acc.startF.Name(), acc.startF.Name())
		return
	}
	c.Ok(rule, spec+"#refill-window", rd.Pos(), "refill reads the sliced buffer at offset a.%s and records the window [%s, %s) = [a.%s, a.%s+count)", acc.startF.Name(), G.Name(), H.Name(), acc.startF.Name(), acc.startF.Name())
	n++
	// refill test: every path that skips the refill establishes G <= a.start and a.end <= H
	paths, ok := c20Paths(fn.Blocks[0], sl.Block(), rd.Block(), 256)
	if !ok {
		c.Undec(rule, spec+"#refill-test", sl.Pos(), "too many paths")
		return
	}
	bad := ""
	for _, path := range paths {
		covS, covE := false, false
		var ids []int
		for i, b := range path {
			ids = append(ids, b.Index)
			if i+1 == len(path) {
				break
			}
			iff, ok := b.Instrs[len(b.Instrs)-1].(*ssa.If)
			if !ok || b.Succs[0] == b.Succs[1] {
				continue
			}
			x, y, _, ok := c20Rel(iff.Cond, path[i+1] == b.Succs[0])
			if !ok {
				continue
			}
			if c20IsLoadOf(x, G, recv) && c20IsLoadOf(y, acc.startF, A) {
				covS = true
			}
			if c20IsLoadOf(x, acc.endF, A) && c20IsLoadOf(y, H, recv) {
				covE = true
			}
		}
		if !covS || !covE {
			bad = fmt.Sprintf("path (blocks %s) reaches the slice without refill and without establishing %s <= a.%s (%v) and a.%s <= %s (%v)", c20Blocks(ids), G.Name(), acc.startF.Name(), covS, acc.endF.Name(), H.Name(), covE)
		}
	}
	c.Check(bad == "", rule, spec+"#refill-test", sl.Pos(), "the buffer is reused only when it covers the whole [a.%s, a.%s): %d non-refill path(s) checked %s — otherwise bytes of another region are returned as this line", acc.startF.Name(), acc.endF.Name(), len(paths), bad)
	n++
}

// ---------------------------------------------------------------- mutants

func init() {
	const chunker, bylines, batch = "tools/tuner/epd/chunker.go", "tools/tuner/epd/by_lines.go", "tools/tuner/tuning/batch.go"
	addMutants(
		// R1
		Mutant{Name: "C20.R1-batches-step-off-by-one", Prop: "C20", File: batch, Quick: true,
			Old: "start < numEntries; start += NumLinesInBatch {", New: "start < numEntries; start += NumLinesInBatch - 1 {",
			Expect: "C20.R1/tools/tuner/tuning.Batches#step-width"},
		Mutant{Name: "C20.R1-chunks-inclusive-end", Prop: "C20", File: batch,
			Old: "end := min(start+numLinesInChunk, batch.End)", New: "end := min(start+numLinesInChunk-1, batch.End)",
			Expect: "C20.R1/tools/tuner/tuning.Chunks#step-width"},
		Mutant{Name: "C20.R1-chunks-unclipped", Prop: "C20", File: batch,
			Old: "end := min(start+numLinesInChunk, batch.End)", New: "end := start + numLinesInChunk",
			Expect: "C20.R1/tools/tuner/tuning.Chunks#clip"},
		Mutant{Name: "C20.R1-chunks-start-at-zero", Prop: "C20", File: batch,
			Old: "for start := batch.Start; start < batch.End;", New: "for start := 0; start < batch.End;",
			Expect: "C20.R1/tools/tuner/tuning.Chunks#init"},
		Mutant{Name: "C20.R1-batches-skip-small-tail", Prop: "C20", File: batch,
			Old: "\t\t\tend := min(start+NumLinesInBatch, numEntries)\n", New: "\t\t\tend := min(start+NumLinesInBatch, numEntries)\n\t\t\tif end-start < NumChunksInBatch {\n\t\t\t\tcontinue\n\t\t\t}\n",
			Expect: "C20.R1/tools/tuner/tuning.Batches#yield"},
		// R2
		Mutant{Name: "C20.R2-xor-right-instead-of-left", Prop: "C20", File: chunker, Quick: true,
			Old: "left, right = right, left^f", New: "left, right = right, right^f",
			Expect: "C20.R2/tools/tuner/epd.feistel#round-shape"},
		Mutant{Name: "C20.R2-round-function-of-left", Prop: "C20", File: chunker,
			Old: "f := roundFunc(right, k) & leftMask", New: "f := roundFunc(left, k) & leftMask",
			Expect: "C20.R2/tools/tuner/epd.feistel#g-independent-of-L"},
		Mutant{Name: "C20.R2-odd-round-count", Prop: "C20", File: chunker, Quick: true,
			Old: "const rounds = 4", New: "const rounds = 3",
			Expect: "C20.R2/tools/tuner/epd.feistel#rounds-even"},
		Mutant{Name: "C20.R2-g-masked-to-wide-half", Prop: "C20", File: chunker,
			Old: "f := roundFunc(right, k) & leftMask", New: "f := roundFunc(right, k) & rightMask",
			Expect: "C20.R2/tools/tuner/epd.feistel#g-mask"},
		Mutant{Name: "C20.R2-join-shift-by-other-half", Prop: "C20", File: chunker,
			Old: "return ((right & rightMask) << half) | (left & leftMask)", New: "return ((right & rightMask) << (bits - half)) | (left & leftMask)",
			Expect: "C20.R2/tools/tuner/epd.feistel#join"},
		Mutant{Name: "C20.R2-split-shift-by-other-half", Prop: "C20", File: chunker,
			Old: "right := (x >> half) & rightMask", New: "right := (x >> (bits - half)) & rightMask",
			Expect: "C20.R2/tools/tuner/epd.feistel#half-widths"},
		// R3
		Mutant{Name: "C20.R3-refeed-next-input", Prop: "C20", File: chunker, Quick: true,
			Old: "x = y & mask", New: "x = (x + 1) & mask",
			Expect: "C20.R3/tools/tuner/epd.shuffleIndex#refeed"},
		Mutant{Name: "C20.R3-accept-y-equal-n", Prop: "C20", File: chunker,
			Old: "if y < n {", New: "if y <= n {",
			Expect: "C20.R3/tools/tuner/epd.shuffleIndex#returns-in-range"},
		Mutant{Name: "C20.R3-domain-too-small", Prop: "C20", File: chunker,
			Old: "bitsNeeded := bits.Len64(n - 1)", New: "bitsNeeded := bits.Len64(n >> 1)",
			Expect: "C20.R3/tools/tuner/epd.shuffleIndex#domain-size"},
		Mutant{Name: "C20.R3-guard-swallows-n2", Prop: "C20", File: chunker,
			Old: "if n <= 1 {", New: "if n <= 2 {",
			Expect: "C20.R3/tools/tuner/epd.shuffleIndex#small-n"},
		Mutant{Name: "C20.R3-seed-salted-by-global-counter", Prop: "C20", File: chunker,
			Old: "func roundFunc(x, k uint64) uint64 {\n\tz := x + k\n", New: "var salt uint64\n\nfunc roundFunc(x, k uint64) uint64 {\n\tsalt++\n\tz := x + k + salt\n",
			Expect: "C20.R3/tools/tuner/epd.shuffleIndex#pure"},
		// R4 (the #skipped-line obligation fires on the unchanged tree — defect F-4 — and is its own positive control)
		Mutant{Name: "C20.R4-strip-crlf", Prop: "C20", File: bylines, Quick: true,
			Old: "return bytes[:len(bytes)-1], nil", New: "return bytes[:len(bytes)-2], nil",
			Expect: "C20.R4/tools/tuner/epd.(*ByLines).Read#returned-line"},
		// F-4 (fixed in /repo 2ce1af3): the two ways the defect can come back
		Mutant{Name: "C20.R4-F4-counter-only-on-returned-lines", Prop: "C20", File: bylines, Quick: true,
			Old: "\t\tb.pos += int64(len(bytes))\n\t\tif err != nil {\n\t\t\treturn nil, err\n\t\t}\n\n\t\tif len(bytes) > 1 {\n", New: "\t\tif err != nil {\n\t\t\treturn nil, err\n\t\t}\n\n\t\tif len(bytes) > 1 {\n\t\t\tb.pos += int64(len(bytes))\n",
			Expect: "C20.R4/tools/tuner/epd.(*ByLines).Read#unaccounted-bytes"},
		Mutant{Name: "C20.R4-F4-reverted-accumulate-in-chunker", Prop: "C20", File: chunker,
			Old: "\t\tend := byLines.Offset()\n\t\tstart := end - int64(len(line)) - 1 // -1 for '\\n'\n\t\tlineManifest = append(lineManifest, lineAddr{start, end})\n", New: "\t\tend := curr + int64(len(line)) + 1\n\t\tlineManifest = append(lineManifest, lineAddr{curr, end})\n\t\tcurr = end\n",
			File2: chunker, Old2: "\tlineManifest := make([]lineAddr, 0)\n\tfor {", New2: "\tlineManifest := make([]lineAddr, 0)\n\tcurr := int64(0)\n\tfor {",
			Expect: "C20.R4/tools/tuner/epd.(*ByLines).Read#skipped-line"},
		// R5
		Mutant{Name: "C20.R5-read-keeps-newline", Prop: "C20", File: chunker, Quick: true,
			Old: "addr.end-c.mapStart-1]", New: "addr.end-c.mapStart]",
			Expect: "C20.R5/tools/tuner/epd.(*Chunk).Read#slice-bounds"},
		Mutant{Name: "C20.R5-manifest-forgets-newline", Prop: "C20", File: chunker,
			Old: "start := end - int64(len(line)) - 1 // -1", New: "start := end - int64(len(line)) // -1",
			Expect: "C20.R5/tools/tuner/epd.(*Chunk).Read#slice-bounds"},
		Mutant{Name: "C20.R5-refill-test-covers-start-only", Prop: "C20", File: chunker,
			Old: "c.mapEnd < addr.end {", New: "c.mapEnd < addr.start {",
			Expect: "C20.R5/tools/tuner/epd.(*Chunk).Read#refill-test"},
		Mutant{Name: "C20.R5-window-end-assumes-full-read", Prop: "C20", File: chunker,
			Old: "c.mapEnd = addr.start + int64(cnt)", New: "_ = cnt\n\t\tc.mapEnd = addr.start + backingBytes",
			Expect: "C20.R5/tools/tuner/epd.(*Chunk).Read#refill-window"},
		Mutant{Name: "C20.R5-open-permutes-over-chunk-end", Prop: "C20", File: chunker,
			Old: "shuffleIndex(uint64(ix), uint64(len(c.lineManifest)), uint64(epoch))", New: "shuffleIndex(uint64(ix), uint64(end), uint64(epoch))",
			Expect: "C20.R5/tools/tuner/epd.(Chunker).Open#shuffle-map"},
		Mutant{Name: "C20.R5-open-inclusive-end", Prop: "C20", File: chunker,
			Old: "for ix := start; ix < end; ix++ {", New: "for ix := start; ix <= end && ix < len(c.lineManifest); ix++ {",
			Expect: "C20.R5/tools/tuner/epd.(Chunker).Open#shuffle-map"},
		Mutant{Name: "C20.R5-read-does-not-advance-on-refill", Prop: "C20", File: chunker,
			Old: "\tc.chunkLinesIx++\n\treturn c.mapBytes", New: "\tif c.mapStart != addr.start {\n\t\tc.chunkLinesIx++\n\t}\n\treturn c.mapBytes",
			Expect: "C20.R5/tools/tuner/epd.(*Chunk).Read#advance"},
	)
}
