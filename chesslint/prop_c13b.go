package main

// C13.R8: while a search runs, the interrupt goroutine recognises stop / quit / isready /
// ponderhit through firstWord; otherwise commands are split with strings.Fields. The two must
// agree on what ends a command word: every separator byte firstWord knows is used both to
// skip leading blanks and to end the word, and blank and tab are among them. Otherwise
// `stop\t` is executed when idle but ignored during a search (no bestmove, no readyok).

import (
	"fmt"
	"go/constant"
	"go/token"
	"sort"

	"golang.org/x/tools/go/ssa"
)

func c13R8(c *Ctx, p *Prog) {
	const rule = "C13.R8"
	fn := p.Func("uci.firstWord")
	if fn == nil {
		c.Anchor(rule, "uci.firstWord")
		return
	}
	type group struct {
		what string
		set  map[byte]bool
		pos  token.Pos
	}
	var groups []*group
	byKey := map[ssa.Value]*group{}
	allInstrs(fn, func(in ssa.Instruction) {
		switch x := in.(type) {
		case *ssa.BinOp:
			if x.Op != token.EQL && x.Op != token.NEQ {
				return
			}
			for _, pr := range [][2]ssa.Value{{x.X, x.Y}, {x.Y, x.X}} {
				var idx ssa.Value
				switch lk := stripConv(pr[0]).(type) {
				case *ssa.Lookup:
					idx = lk.Index
				case *ssa.Index:
					idx = lk.Index
				default:
					continue
				}
				k, isc := constOf(pr[1])
				if !isc || k < 0 || k > 255 {
					continue
				}
				key := stripConv(idx)
				g := byKey[key]
				if g == nil {
					g = &group{what: "byte scan", set: map[byte]bool{}, pos: x.Pos()}
					byKey[key] = g
					groups = append(groups, g)
				}
				g.set[byte(k)] = true
			}
		case *ssa.Call:
			f := calleeObj(x)
			if f == nil || f.Pkg() == nil || (f.Pkg().Path() != "strings" && f.Pkg().Path() != "bytes") {
				return
			}
			switch f.Name() {
			case "Fields":
				groups = append(groups, &group{what: "strings.Fields", set: map[byte]bool{' ': true, '\t': true, '\n': true, '\r': true, '\v': true, '\f': true}, pos: x.Pos()})
				return
			}
			for _, a := range x.Call.Args[1:] {
				kc, ok := a.(*ssa.Const)
				if !ok || kc.Value == nil {
					continue
				}
				g := &group{what: f.Pkg().Name() + "." + f.Name(), set: map[byte]bool{}, pos: x.Pos()}
				switch kc.Value.Kind() {
				case constant.String:
					for _, b := range []byte(constant.StringVal(kc.Value)) {
						g.set[b] = true
					}
				case constant.Int:
					if v, ok := constant.Int64Val(kc.Value); ok && v >= 0 && v < 256 {
						g.set[byte(v)] = true
					}
				}
				if len(g.set) > 0 {
					groups = append(groups, g)
				}
			}
		}
	})
	if len(groups) == 0 {
		c.Undec(rule, "firstWord#separators", fn.Pos(), "no separator bytes recognised in firstWord")
		return
	}
	all := map[byte]bool{}
	for _, g := range groups {
		for b := range g.set {
			all[b] = true
		}
	}
	show := func(m map[byte]bool) string {
		var bs []int
		for b := range m {
			bs = append(bs, int(b))
		}
		sort.Ints(bs)
		s := ""
		for _, b := range bs {
			s += fmt.Sprintf("%q ", rune(b))
		}
		return s
	}
	// strings.Fields alone is complete by itself
	bad := ""
	var badPos token.Pos
	for _, g := range groups {
		if g.what == "strings.Fields" {
			continue
		}
		for b := range all {
			if !g.set[b] && (b == ' ' || b == '\t') {
				bad = fmt.Sprintf("%s treats only %sas separators while another step of firstWord also knows %s", g.what, show(g.set), show(all))
				badPos = g.pos
			}
		}
	}
	if bad == "" && (!all[' '] || !all['\t']) {
		bad = fmt.Sprintf("firstWord separates on %sonly; the command splitter (strings.Fields) also separates on blank and tab", show(all))
		badPos = fn.Pos()
	}
	if bad != "" {
		c.Fail(rule, "firstWord#separators", badPos, "%s: a command word followed by that byte is recognised when idle but not during a search", bad)
	} else {
		c.Ok(rule, "firstWord#separators", fn.Pos(), "every step of firstWord separates on %s(%d steps)", show(all), len(groups))
	}
}

func init() {
	addMutants(
		Mutant{Name: "C13.R8-first-word-ends-at-blank-only", Prop: "C13", File: "uci/uci.go", Quick: true,
			Old: "\tfor i < len(s) && s[i] != ' ' && s[i] != '\\t' {\n", New: "\tfor i < len(s) && s[i] != ' ' {\n",
			Expect: "C13.R8/firstWord#separators"},
	)
}

// C13.R9: `stop`, `quit` and end of input reach a running search only as close(stop); the search
// notices through the non-blocking poll in Search.abort, which is called at every node. The poll must
// happen on every call (once the search is not already aborted and a stop channel exists): a poll
// made to depend on anything else — a node-count throttle, a depth — can stop happening altogether
// (the node counter is frozen at the budget while pondering), and then the driver never answers.
func c13R9(c *Ctx, p *Prog) {
	const rule = "C13.R9"
	fn := p.Func("search.(*Search).abort")
	if fn == nil {
		c.Anchor(rule, "search.(*Search).abort")
		return
	}
	n := 0
	allInstrs(fn, func(in ssa.Instruction) {
		sel, ok := in.(*ssa.Select)
		if !ok {
			return
		}
		// polls the stop channel?
		polls := false
		for _, st := range sel.States {
			for v := range backSlice(st.Chan, sliceOpts{ThroughLoads: true}) {
				if fa, ok := v.(*ssa.FieldAddr); ok {
					if fr, ok := asFieldAddr(fa); ok && fr.Name() == "Options.Stop" {
						polls = true
					}
				}
			}
		}
		if !polls {
			return
		}
		n++
		bad := ""
		for _, ce := range controllingConds(sel.Block()) {
			okCond := false
			for v := range backSlice(ce.Cond, sliceOpts{ThroughLoads: true}) {
				if fa, ok := v.(*ssa.FieldAddr); ok {
					if fr, ok := asFieldAddr(fa); ok && (fr.Name() == "Options.Stop" || fr.Name() == "Search.aborted") {
						okCond = true
					}
				}
			}
			// a condition mentioning anything else as well is a throttle
			for v := range backSlice(ce.Cond, sliceOpts{ThroughLoads: true}) {
				if fa, ok := v.(*ssa.FieldAddr); ok {
					if fr, ok := asFieldAddr(fa); ok && fr.Name() != "Options.Stop" && fr.Name() != "Search.aborted" {
						okCond = false
						bad = fr.Name()
					}
				}
			}
			if !okCond && bad == "" {
				bad = "a condition on something other than the stop channel and the aborted flag"
			}
		}
		if !sel.Blocking && bad == "" {
			c.Ok(rule, "abort#poll-every-call", sel.Pos(), "the stop channel is polled (non-blocking) on every call of abort that is not already aborted")
		} else if sel.Blocking {
			c.Fail(rule, "abort#poll-every-call", sel.Pos(), "the stop poll blocks: the search would wait for a stop instead of searching")
		} else {
			c.Fail(rule, "abort#poll-every-call", sel.Pos(), "the stop channel is polled only under a condition on %s: when that condition stops holding (the node counter is frozen at the budget while pondering) stop/quit/EOF are never seen and no bestmove is printed", bad)
		}
	})
	c.Floor(rule, n, 1, "polls of the stop channel in Search.abort")
}

func init() {
	addMutants(
		Mutant{Name: "C13.R9-stop-poll-throttled-by-node-count", Prop: "C13", File: "search/search.go",
			Old: "\tif opts.Stop != nil {\n\t\tselect {", New: "\tif opts.Stop != nil && opts.Counters.Nodes&1023 == 0 {\n\t\tselect {",
			Expect: "C13.R9/abort#poll-every-call"},
	)
}
