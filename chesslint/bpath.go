package main

// Enumeration of block-simple paths through one function, with phi values and
// branch conditions resolved against the path taken. Rules that have to decide
// "what does this variable hold when we get there, and what is known then" use
// it instead of matching one arrangement of stores/ifs, so the verdict is the
// same for the named-result (alloc) form, the phi form, switch vs if chains,
// hoisted locals and merged or split conditions.

import (
	"go/token"

	"golang.org/x/tools/go/ssa"
)

type pathCond struct {
	V    ssa.Value // the condition with negations stripped and on-path phis resolved
	True bool
	At   int // index into Blocks of the branching block
}

type bpath struct {
	Blocks []*ssa.BasicBlock
	Conds  []pathCond
	End    string          // "return" | "panic" | "arrive"
	Arrive *ssa.BasicBlock // for "arrive": the stop block or the block already on the path
	pos    map[*ssa.BasicBlock]int
}

// resolve follows phis whose block was entered on this path to the value selected by the incoming edge.
//
// A phi used at path position `at` denotes the on-path entry of its block only if that block was entered at or
// before `at`; otherwise it is the value of an earlier execution (before the path began) and stays opaque.
func (p *bpath) resolve(v ssa.Value) ssa.Value { return p.resolveAt(v, len(p.Blocks)-1) }

func (p *bpath) resolveAt(v ssa.Value, use int) ssa.Value {
	for i := 0; i < 256; i++ {
		ph, ok := v.(*ssa.Phi)
		if !ok {
			return v
		}
		at, on := p.pos[ph.Block()]
		if !on || at == 0 || at > use {
			return v
		}
		use = at - 1
		prev := p.Blocks[at-1]
		found := false
		for k, pr := range ph.Block().Preds {
			if pr == prev {
				v = ph.Edges[k]
				found = true
				break
			}
		}
		if !found {
			return v
		}
	}
	return v
}

// edgeValue: the value phi ph (in block `to`) takes when `to` is entered from the last block of the path.
func (p *bpath) edgeValue(ph *ssa.Phi) ssa.Value {
	last := p.Blocks[len(p.Blocks)-1]
	for k, pr := range ph.Block().Preds {
		if pr == last {
			return p.resolveAt(ph.Edges[k], len(p.Blocks)-1)
		}
	}
	return ph
}

// enumBlockPaths walks every block-simple path from start. stop(from,to) ends a path on arrival at `to`.
// Branches whose condition resolves to a constant on the path are pruned. Returns false if the budget ran out.
func enumBlockPaths(start *ssa.BasicBlock, stop func(from, to *ssa.BasicBlock) bool, budget int, visit func(*bpath)) bool {
	// what is known on entry to start: the conditions controlling it
	known := map[ssa.Value]bool{}
	for _, ce := range controllingConds(start) {
		v, truth := ce.Cond, ce.True
		for {
			if u, ok := v.(*ssa.UnOp); ok && u.Op == token.NOT {
				v, truth = u.X, !truth
				continue
			}
			break
		}
		known[v] = truth
	}
	n := 0
	p := &bpath{pos: map[*ssa.BasicBlock]int{}}
	var walk func(b *ssa.BasicBlock) bool
	finish := func(end string, arrive *ssa.BasicBlock) {
		q := &bpath{Blocks: append([]*ssa.BasicBlock(nil), p.Blocks...), Conds: append([]pathCond(nil), p.Conds...), End: end, Arrive: arrive, pos: map[*ssa.BasicBlock]int{}}
		for k, v := range p.pos {
			q.pos[k] = v
		}
		visit(q)
	}
	step := func(from, to *ssa.BasicBlock) bool {
		if _, on := p.pos[to]; on || (stop != nil && stop(from, to)) {
			finish("arrive", to)
			return true
		}
		return walk(to)
	}
	walk = func(b *ssa.BasicBlock) bool {
		n++
		if n > budget {
			return false
		}
		p.pos[b] = len(p.Blocks)
		p.Blocks = append(p.Blocks, b)
		defer func() {
			delete(p.pos, b)
			p.Blocks = p.Blocks[:len(p.Blocks)-1]
		}()
		if len(b.Instrs) == 0 {
			return true
		}
		switch t := b.Instrs[len(b.Instrs)-1].(type) {
		case *ssa.Return:
			finish("return", nil)
		case *ssa.Panic:
			finish("panic", nil)
		case *ssa.Jump:
			return step(b, b.Succs[0])
		case *ssa.If:
			v, neg := ssa.Value(t.Cond), false
			for i := 0; i < 64; i++ {
				if u, ok := v.(*ssa.UnOp); ok && u.Op == token.NOT {
					v, neg = u.X, !neg
					continue
				}
				if r := p.resolve(v); r != v {
					v = r
					continue
				}
				break
			}
			if kv, isKnown := known[v]; isKnown {
				if _, isPhi := v.(*ssa.Phi); isPhi {
					if kv != neg {
						return step(b, b.Succs[0])
					}
					return step(b, b.Succs[1])
				}
			}
			if k, isc := v.(*ssa.Const); isc {
				kv, _ := constOf(k)
				if (kv != 0) != neg {
					return step(b, b.Succs[0])
				}
				return step(b, b.Succs[1])
			}
			// the same condition value tested again on this path has the same outcome (each instruction runs at most
			// once on a block-simple path)
			decided := false
			var prevTruth bool
			for _, pc := range p.Conds {
				if pc.V == v {
					decided, prevTruth = true, pc.True
					break
				}
			}
			if decided {
				if prevTruth != neg {
					return step(b, b.Succs[0])
				}
				return step(b, b.Succs[1])
			}
			// a comparison with nil of a value this path has already compared with nil is decided
			if bo, ok := v.(*ssa.BinOp); ok && (bo.Op == token.EQL || bo.Op == token.NEQ) {
				if k, isNil := bo.Y.(*ssa.Const); isNil && k.Value == nil {
					x := p.resolve(bo.X)
					for _, pc := range p.Conds {
						b2, ok := pc.V.(*ssa.BinOp)
						if !ok || (b2.Op != token.EQL && b2.Op != token.NEQ) {
							continue
						}
						if k2, isNil2 := b2.Y.(*ssa.Const); !isNil2 || k2.Value != nil {
							continue
						}
						if p.resolveAt(b2.X, pc.At) != x {
							continue
						}
						wasNil := pc.True == (b2.Op == token.EQL)
						condTrue := wasNil == (bo.Op == token.EQL)
						p.Conds = append(p.Conds, pathCond{v, condTrue, len(p.Blocks) - 1})
						var ok2 bool
						if condTrue != neg {
							ok2 = step(b, b.Succs[0])
						} else {
							ok2 = step(b, b.Succs[1])
						}
						p.Conds = p.Conds[:len(p.Conds)-1]
						return ok2
					}
				}
			}
			for _, truth := range []bool{true, false} {
				p.Conds = append(p.Conds, pathCond{v, truth != neg, len(p.Blocks) - 1})
				succ := b.Succs[1]
				if truth {
					succ = b.Succs[0]
				}
				ok := step(b, succ)
				p.Conds = p.Conds[:len(p.Conds)-1]
				if !ok {
					return false
				}
			}
		default:
			for _, s := range b.Succs {
				if !step(b, s) {
					return false
				}
			}
		}
		return true
	}
	return walk(start)
}

// instrsOnPath calls f for every instruction executed on the path in order; for the first block only those after `after` (if non-nil).
func (p *bpath) instrsOnPath(after ssa.Instruction, f func(in ssa.Instruction, at int)) {
	for i, b := range p.Blocks {
		started := !(i == 0 && after != nil)
		for _, in := range b.Instrs {
			if !started {
				if in == after {
					started = true
				}
				continue
			}
			f(in, i)
		}
	}
}
