package main

// Classification of the xor terms that make up a Zobrist hash value, shared by
// C04.R3 (paired toggles), C04.R4 (from-scratch vs incremental) and C10.R3.

import (
	"fmt"
	"go/token"
	"go/types"

	"golang.org/x/tools/go/ssa"
)

type hashTerm struct {
	Kind   string      // pieces | stm | castling | ep | base | unknown
	Idx    []ssa.Value // index operands (outermost first)
	Enable ssa.Value   // index into hashEnable when the term is masked, else nil
	Val    ssa.Value   // the term itself
	Xor    *ssa.BinOp  // xor instruction that folds the term in (nil for the chain's root)
}

func collectXorTerms(v ssa.Value) []hashTerm {
	var out []hashTerm
	seen := map[ssa.Value]bool{}
	var walk func(v ssa.Value, parent *ssa.BinOp)
	walk = func(v ssa.Value, parent *ssa.BinOp) {
		if v == nil {
			return
		}
		switch x := v.(type) {
		case *ssa.BinOp:
			if x.Op == token.XOR {
				if seen[v] {
					return
				}
				seen[v] = true
				walk(x.X, x)
				walk(x.Y, x)
				return
			}
		case *ssa.Phi:
			if seen[v] {
				return
			}
			seen[v] = true
			for _, e := range x.Edges {
				walk(e, parent)
			}
			return
		}
		if seen[v] {
			return
		}
		seen[v] = true
		out = append(out, classifyTerm(v, parent))
	}
	walk(v, nil)
	return out
}

func globalName(g *ssa.Global) string {
	if g.Pkg != nil {
		return relPkg(g.Pkg.Pkg.Path()) + "." + g.Name()
	}
	return g.Name()
}

// loadChain: v is a load (or value Index) rooted at a global; returns the
// global's name and the index operands outermost first.
func loadChain(v ssa.Value) (string, []ssa.Value, bool) {
	var idx []ssa.Value
	switch x := v.(type) {
	case *ssa.Index:
		// value index into an array copy: t = *global ; t[i]
		if l, ok := x.X.(*ssa.UnOp); ok && l.Op == token.MUL {
			if g, ok := l.X.(*ssa.Global); ok {
				return globalName(g), []ssa.Value{x.Index}, true
			}
		}
		return "", nil, false
	case *ssa.UnOp:
		if x.Op != token.MUL {
			return "", nil, false
		}
		a := x.X
		for {
			switch y := a.(type) {
			case *ssa.IndexAddr:
				idx = append([]ssa.Value{y.Index}, idx...)
				a = y.X
			case *ssa.Global:
				return globalName(y), idx, true
			default:
				return "", nil, false
			}
		}
	}
	return "", nil, false
}

func classifyTerm(v ssa.Value, parent *ssa.BinOp) hashTerm {
	t := hashTerm{Kind: "unknown", Val: v, Xor: parent}
	core := v
	if bo, ok := v.(*ssa.BinOp); ok && bo.Op == token.AND {
		for _, pair := range [][2]ssa.Value{{bo.X, bo.Y}, {bo.Y, bo.X}} {
			if g, idx, ok := loadChain(pair[1]); ok && g == "board.hashEnable" && len(idx) == 1 {
				core = pair[0]
				t.Enable = idx[0]
			}
		}
	}
	if c, ok := core.(*ssa.Const); ok {
		if v, ok := constOf(c); ok && v == 0 {
			t.Kind = "base"
			return t
		}
	}
	if call, ok := core.(*ssa.Call); ok {
		switch objName(calleeObj(call)) {
		case "board.(*Board).addPiece", "board.(*Board).removePiece":
			t.Kind = "pieces"
			t.Idx = call.Call.Args[1:]
			return t
		case "board.(*Board).Hash":
			t.Kind = "base"
			return t
		}
	}
	if l, ok := core.(*ssa.UnOp); ok && l.Op == token.MUL {
		if ia, ok := l.X.(*ssa.IndexAddr); ok && isFieldLoad(ia.X, "Board.hashes") {
			t.Kind = "base"
			return t
		}
	}
	if g, idx, ok := loadChain(core); ok {
		t.Idx = idx
		switch g {
		case "board.piecesRand":
			t.Kind = "pieces"
		case "board.stmRand":
			t.Kind = "stm"
		case "board.castlingRand":
			t.Kind = "castling"
		case "board.epFileRand":
			t.Kind = "ep"
		}
	}
	return t
}

// fileOf: if v computes the file of a square x (x.File(), x&7, x%8), returns x.
func fileOf(v ssa.Value) (ssa.Value, bool) {
	v = stripConv(v)
	switch x := v.(type) {
	case *ssa.Call:
		if objName(calleeObj(x)) == "chess.(Square).File" && len(x.Call.Args) == 1 {
			return x.Call.Args[0], true
		}
	case *ssa.BinOp:
		if c, ok := constOf(x.Y); ok {
			if (x.Op == token.AND && c == 7) || (x.Op == token.REM && c == 8) {
				return x.X, true
			}
		}
	}
	return nil, false
}

// bitTest: does v test bit i of w?  Forms: (w>>i)&1 ; w&(1<<i) ; either compared != 0.
func bitTest(v ssa.Value) (w ssa.Value, bit ssa.Value, ok bool) {
	v = stripConv(v)
	bo, isb := v.(*ssa.BinOp)
	if !isb {
		return nil, nil, false
	}
	if bo.Op == token.NEQ {
		if c, isc := constOf(bo.Y); isc && c == 0 {
			return bitTest(bo.X)
		}
	}
	if bo.Op == token.EQL {
		// (w>>i)&1 == 1
		if c, isc := constOf(bo.Y); isc && c == 1 {
			if inner, ok := stripConv(bo.X).(*ssa.BinOp); ok && inner.Op == token.AND {
				if one, isc := constOf(inner.Y); isc && one == 1 {
					return bitTest(bo.X)
				}
			}
		}
	}
	if bo.Op != token.AND {
		return nil, nil, false
	}
	for _, pr := range [][2]ssa.Value{{bo.X, bo.Y}, {bo.Y, bo.X}} {
		a, b := stripConv(pr[0]), stripConv(pr[1])
		// (w >> i) & 1
		if c, isc := constOf(b); isc && c == 1 {
			if sh, ok := a.(*ssa.BinOp); ok && sh.Op == token.SHR {
				return sh.X, sh.Y, true
			}
		}
		// w & (1 << i)
		if sh, ok := b.(*ssa.BinOp); ok && sh.Op == token.SHL {
			if c, isc := constOf(sh.X); isc && c == 1 {
				return a, sh.Y, true
			}
		}
	}
	return nil, nil, false
}

func sameIdx(a, b ssa.Value) bool {
	ca, oka := constOf(a)
	cb, okb := constOf(b)
	if oka && okb {
		return ca == cb
	}
	return sameValue(a, b, 0)
}

func arrayLenOfGlobal(p *Prog, name string) int {
	for _, pk := range p.SSA.AllPackages() {
		for _, m := range pk.Members {
			if g, ok := m.(*ssa.Global); ok && globalName(g) == name {
				if pt, ok := g.Type().(*types.Pointer); ok {
					if at, ok := pt.Elem().Underlying().(*types.Array); ok {
						return int(at.Len())
					}
				}
			}
		}
	}
	return -1
}

func describeIdx(idx []ssa.Value) string {
	s := ""
	for _, i := range idx {
		if c, ok := constOf(i); ok {
			s += fmt.Sprintf("[%d]", c)
		} else {
			s += "[" + i.Name() + "]"
		}
	}
	return s
}

// fullRangeIndex: v is the index variable of a loop that visits 0..n-1 exactly
// (go/ssa's rangeindex form `i' = i+1` from -1 with `i' < n`, or the classic
// `i` from 0 with `i < n`, step 1). Returns n.
func fullRangeIndex(v ssa.Value) (int64, bool) {
	v = stripConv(v)
	// rangeindex form: v = phi + 1, phi = [-1, v], cond v < n
	if bo, ok := v.(*ssa.BinOp); ok && bo.Op == token.ADD {
		if one, isc := constOf(bo.Y); isc && one == 1 {
			if ph, ok := stripConv(bo.X).(*ssa.Phi); ok && len(ph.Edges) >= 2 {
				init, okInit := int64(0), false
				for _, e := range ph.Edges {
					if k, isc := constOf(e); isc {
						init, okInit = k, true
					} else if stripConv(e) != ssa.Value(bo) {
						return 0, false
					}
				}
				if okInit && init == -1 {
					return loopBound(ph.Block(), v)
				}
			}
		}
	}
	// classic form: v = phi [0, phi+1], cond phi < n
	if ph, ok := v.(*ssa.Phi); ok && len(ph.Edges) == 2 {
		for i, e := range ph.Edges {
			if k, isc := constOf(e); isc && k == 0 {
				if bo, ok := stripConv(ph.Edges[1-i]).(*ssa.BinOp); ok && bo.Op == token.ADD && stripConv(bo.X) == ssa.Value(ph) {
					if one, isc := constOf(bo.Y); isc && one == 1 {
						if n, ok := loopBound(ph.Block(), v); ok {
							return n, true
						}
						// rotated form (go/ssa's `for i := range n`): the test `phi+1 < n` sits at the bottom of the body
						// and leads back to it; the entry is guarded by the constant test `0 < n`
						blk := bo.Block()
						if len(blk.Instrs) > 0 {
							if iff, ok := blk.Instrs[len(blk.Instrs)-1].(*ssa.If); ok && blk.Succs[0] == ph.Block() {
								if cmp, ok := iff.Cond.(*ssa.BinOp); ok && cmp.Op == token.LSS && stripConv(cmp.X) == ssa.Value(bo) {
									if n, isc := constOf(cmp.Y); isc && n > 0 {
										return n, true
									}
								}
							}
						}
					}
				}
			}
		}
	}
	return 0, false
}

// loopBound: the loop header block ends in `if idx < n` (n constant) entering the body on true.
func loopBound(hdr *ssa.BasicBlock, idx ssa.Value) (int64, bool) {
	if len(hdr.Instrs) == 0 {
		return 0, false
	}
	iff, ok := hdr.Instrs[len(hdr.Instrs)-1].(*ssa.If)
	if !ok {
		return 0, false
	}
	bo, ok := iff.Cond.(*ssa.BinOp)
	if !ok || bo.Op != token.LSS || stripConv(bo.X) != stripConv(idx) {
		return 0, false
	}
	n, isc := constOf(bo.Y)
	if !isc {
		// len(array) of a fixed-size array is constant-folded; len(slice) is not accepted
		return 0, false
	}
	return n, true
}
