package main

// C12 — attack tables equal ray-walking geometry (data clauses only).
//
// The checker never runs chess-3 code. It (1) recognises, in the SSA of the
// lookup and fill functions, the multiply-shift index expression and the
// package-level tables it reads, (2) evaluates the composite literals of those
// tables with go/constant and (3) decides constant-data facts about them with
// its own reference geometry (c12Ref*).

import (
	"fmt"
	"go/token"
	"go/types"
	"math/bits"
	"sort"
	"strings"

	"golang.org/x/tools/go/ssa"
)

func init() {
	register(&Property{
		ID: "C12",
		Explain: "Constant-data and structural necessary conditions of 'attack tables equal ray-walking geometry'. " +
			"R1: the eight literal tables are stored only by the package initialiser (so the literals are the run-time values) and the three computed tables only during initialisation. " +
			"R2: the lookup expression T[sq][((occ&mask[sq])*magic[sq])>>(K-shift[sq])] is recognised in the SSA of BishopMoves/RookMoves; with the checker's own ray walker, for each of the 64 squares and EVERY subset of the literal mask: the mask contains every square whose occupancy can change the geometric result, the index stays inside the table row, and two subsets share an index only if their geometric attack sets are equal — exactly the condition under which some fill makes the lookup right for all 2^64 occupancies. " +
			"R3: kingMoves/knightMoves (as read by KingMoves/KnightMoves) equal the offset-with-file-wrap definition on all 64 squares. " +
			"R4: the fill of each slider table is recognised (one store, carry-rippler over the mask, all 64 squares, value = calc<Piece>Attacks(sq, occ) of the same piece and occupancy); replaying that fill on the literals with the reference walker standing in for calc*Attacks and then the recognised lookup returns the geometric set for every subset. " +
			"R5: every read of attacks.InBetween outside package attacks has both end squares and-ed off before it is used as a square set. " +
			"R7: the fill of InBetween is decided for the recognised coordinate-walk form: four nested full-range loops over file/rank of A and B (or two over the squares) left only by their tests, every iteration storing to InBetween[sq(A)][sq(B)]; which store executes is selected by fileA==fileB, rankA==rankB, |dFile|==|dRank| only, the non-empty store exactly for aligned pairs; the stored set is the accumulation of 1<<(rank*8+file) over a walk from A by (Signum(dFile), Signum(dRank)) while != B, plus the bit of B. Any other way of filling the table (index differences, slider lookups, order-dependent copies, extra skips) is undecided, never a violation. " +
			"Not decided: correctness of calcBishopAttacks/calcRookAttacks and of the pawn shift expressions beyond their edge handling (code, not data); chess.Abs/chess.Signum are taken at their names.",
		Assume: []string{
			"square numbering is rank*8+file (anchored on chess.A1/H1/A8/H8 constants)",
			"R4 only: calcBishopAttacks/calcRookAttacks compute the ray walk (not decided here)",
			"go/ssa and go/types model the program faithfully",
		},
		Run: runC12,
	})
}

const c12Pkg = "attacks"

func runC12(c *Ctx) {
	p := c.need("default")
	if p == nil {
		return
	}
	if !c12Numbering(c, p) {
		return
	}
	// pawn capture patterns are shift expressions, not tables: at least their edge handling is decided
	c.Floor("C12.R6.WRAP", pa5(c, p, "C12.R6.WRAP", inFuncs("attacks.*")), 2, "one-file bitboard shifts in package attacks")
	readers := []*c12Reader{
		c12MatchReader(c, p, "attacks.BishopMoves", true, "attacks.calcBishopAttacks", "attacks.calcRookAttacks"),
		c12MatchReader(c, p, "attacks.RookMoves", false, "attacks.calcRookAttacks", "attacks.calcBishopAttacks"),
	}
	leapers := []*c12Leaper{
		c12MatchLeaper(c, p, "attacks.KingMoves", c12KingOffs),
		c12MatchLeaper(c, p, "attacks.KnightMoves", c12KnightOffs),
	}
	var seen []*ssa.Global
	for _, r := range readers {
		if r != nil {
			seen = append(seen, r.table, r.ix.mask, r.ix.magic, r.ix.shift)
		}
	}
	for _, l := range leapers {
		if l != nil {
			seen = append(seen, l.table)
		}
	}
	w := c12CollectWriters(p)
	c12R1(c, p, w, seen)
	n2, n4 := 0, 0
	for _, r := range readers {
		if r == nil {
			continue
		}
		n2 += c12R2(c, p, r)
		n4 += c12R4(c, p, w, r)
	}
	c.Floor("C12.R2", n2, 128, "(slider, square) pairs enumerated over all mask subsets")
	c.Floor("C12.R4", n4, 2, "slider table fills recognised and replayed")
	n3 := 0
	for _, l := range leapers {
		if l != nil {
			n3 += c12R3(c, p, l)
		}
	}
	c.Floor("C12.R3", n3, 128, "leaper table cells compared with geometry")
	c12R5(c, p)
	c12R7(c, p)
}

// ---------------------------------------------------------------- geometry

var (
	c12Diag       = [4][2]int{{1, 1}, {1, -1}, {-1, 1}, {-1, -1}}
	c12Orth       = [4][2]int{{1, 0}, {-1, 0}, {0, 1}, {0, -1}}
	c12KingOffs   = [][2]int{{1, 0}, {1, 1}, {0, 1}, {-1, 1}, {-1, 0}, {-1, -1}, {0, -1}, {1, -1}}
	c12KnightOffs = [][2]int{{1, 2}, {2, 1}, {2, -1}, {1, -2}, {-1, -2}, {-2, -1}, {-2, 1}, {-1, 2}}
)

func c12On(f, r int) bool { return f >= 0 && f < 8 && r >= 0 && r < 8 }

// c12RefSlider: squares reached walking each ray up to and including the first occupied square.
func c12RefSlider(diag bool, sq int, occ uint64) uint64 {
	dirs := c12Orth
	if diag {
		dirs = c12Diag
	}
	var out uint64
	for _, d := range dirs {
		for f, r := (sq&7)+d[0], (sq>>3)+d[1]; c12On(f, r); f, r = f+d[0], r+d[1] {
			b := uint64(1) << uint(r*8+f)
			out |= b
			if occ&b != 0 {
				break
			}
		}
	}
	return out
}

// c12Relevant: the ray squares that have a further ray square behind them —
// exactly the squares whose occupancy can change c12RefSlider.
func c12Relevant(diag bool, sq int) uint64 {
	dirs := c12Orth
	if diag {
		dirs = c12Diag
	}
	var out uint64
	for _, d := range dirs {
		for f, r := (sq&7)+d[0], (sq>>3)+d[1]; c12On(f+d[0], r+d[1]); f, r = f+d[0], r+d[1] {
			out |= uint64(1) << uint(r*8+f)
		}
	}
	return out
}

func c12RefLeaper(sq int, offs [][2]int) uint64 {
	var out uint64
	for _, o := range offs {
		if f, r := (sq&7)+o[0], (sq>>3)+o[1]; c12On(f, r) {
			out |= uint64(1) << uint(r*8+f)
		}
	}
	return out
}

func c12Sq(sq int) string { return fmt.Sprintf("%c%d", 'a'+sq&7, 1+sq>>3) }

func c12Squares(bb uint64) string {
	var s []string
	for ; bb != 0; bb &= bb - 1 {
		s = append(s, c12Sq(bits.TrailingZeros64(bb)))
	}
	return "{" + strings.Join(s, ",") + "}"
}

// c12Subsets enumerates every subset of mask (carry-rippler), starting with start.
func c12Subsets(mask, start uint64, f func(s uint64)) {
	for s := start & mask; ; {
		f(s)
		if s = (s - mask) & mask; s == start&mask {
			return
		}
	}
}

// c12Steps: the carry-rippler from start, n steps (n < 0: the whole cycle).
func c12Steps(mask, start uint64, n int64, f func(s uint64)) {
	if n < 0 {
		c12Subsets(mask, start, f)
		return
	}
	for s := start & mask; n > 0; n-- {
		f(s)
		s = (s - mask) & mask
	}
}

func c12Numbering(c *Ctx, p *Prog) bool {
	const rule = "C12.R3"
	want := map[string]int64{"chess.A1": 0, "chess.H1": 7, "chess.A8": 56, "chess.H8": 63, "chess.Squares": 64}
	for _, k := range sortedKeys(want) {
		v, ok := p.pkgConstInt(k)
		if !ok {
			c.Anchor(rule, k)
			return false
		}
		if v != want[k] {
			c.Undec(rule, "square-numbering", token.NoPos, "%s = %d, the reference geometry assumes %d (square = rank*8+file): geometry rules cannot decide", k, v, want[k])
			return false
		}
	}
	c.OkTrivial(rule, "square-numbering", token.NoPos, "chess.A1=0, H1=7, A8=56, H8=63, Squares=64: square = rank*8+file as the reference geometry assumes")
	return true
}

// ---------------------------------------------------------------- SSA shapes

func c12IntBits(t types.Type) (n int, unsigned, ok bool) {
	b, isB := t.Underlying().(*types.Basic)
	if !isB || b.Info()&types.IsInteger == 0 {
		return 0, false, false
	}
	switch b.Kind() {
	case types.Int8, types.Uint8:
		n = 8
	case types.Int16, types.Uint16:
		n = 16
	case types.Int32, types.Uint32:
		n = 32
	default:
		n = 64
	}
	return n, b.Info()&types.IsUnsigned != 0, true
}

// c12Env binds the parameters of a chess-3 helper that is being looked
// through to the arguments of the call (values of the caller's context, up).
type c12Env struct {
	fn   *ssa.Function
	args []ssa.Value
	up   *c12Env
	// for a closure: the values bound to its free variables, in the context the closure was made in
	free    []ssa.Value
	freeCtx *c12Env
}

// c12V is an SSA value together with the helper context it occurs in.
type c12V struct {
	v   ssa.Value
	env *c12Env
}

func c12Top(v ssa.Value) c12V { return c12V{v: v} }

// c12Res resolves a value to the expression that defines it:
//   - renamings and integer conversions that cannot lose bits are stripped
//     (anyInt: every integer conversion — a board square 0..63 survives them all);
//   - a parameter of a helper being looked through is replaced by the argument;
//   - a static call of a chess-3 function with exactly one return of one value is
//     replaced by the returned expression, parameters bound to the arguments
//     (extraction of a sub-expression into a helper is transparent, depth <= 4).
func c12Res(x c12V, anyInt bool) c12V {
	for {
		switch t := x.v.(type) {
		case *ssa.ChangeType:
			x.v = t.X
		case *ssa.Convert:
			d, _, a := c12IntBits(t.Type())
			s, _, b := c12IntBits(t.X.Type())
			if !a || !b || (!anyInt && d < s) {
				return x
			}
			x.v = t.X
		case *ssa.Parameter:
			if x.env == nil || t.Parent() != x.env.fn {
				return x
			}
			i := 0
			for i < len(x.env.fn.Params) && x.env.fn.Params[i] != t {
				i++
			}
			if i >= len(x.env.args) {
				return x
			}
			x = c12V{x.env.args[i], x.env.up}
		case *ssa.FreeVar:
			if x.env == nil || t.Parent() != x.env.fn {
				return x
			}
			i := 0
			for i < len(x.env.fn.FreeVars) && x.env.fn.FreeVars[i] != t {
				i++
			}
			if i >= len(x.env.free) {
				return x
			}
			x = c12V{x.env.free[i], x.env.freeCtx}
		case *ssa.UnOp:
			if t.Op != token.MUL {
				return x
			}
			// a variable kept in a cell because a closure captures it (new T; one store; loads): its one value
			if _, direct := t.X.(*ssa.FieldAddr); !direct {
				ptr := c12Res(c12V{t.X, x.env}, false)
				if al, isAl := ptr.v.(*ssa.Alloc); isAl {
					if v, ok := c12CellValue(al); ok {
						x = c12V{v, ptr.env}
						continue
					}
				}
				return x
			}
			// s.f read back from a non-escaping local struct (a composite literal, or a by-value parameter go/ssa spills)
			fa, isFA := t.X.(*ssa.FieldAddr)
			if !isFA {
				return x
			}
			al, isAl := fa.X.(*ssa.Alloc)
			if !isAl {
				return x
			}
			v, ok := c12AllocField(al, fa.Field, t, x.env, 0)
			if !ok {
				return x
			}
			x = v
		case *ssa.Field:
			v, ok := c12StructField(c12V{t.X, x.env}, t.Field, 0)
			if !ok {
				return x
			}
			x = v
		case *ssa.Call:
			callee := t.Call.StaticCallee()
			if t.Call.IsInvoke() || callee == nil || !isOwn(callee) || callee.Blocks == nil || len(t.Call.Args) != len(callee.Params) || len(callee.FreeVars) != 0 {
				return x
			}
			depth := 0
			for e := x.env; e != nil; e = e.up {
				if e.fn == callee {
					return x
				}
				depth++
			}
			ret := c12SingleReturn(callee)
			if ret == nil || depth >= 4 {
				return x
			}
			x = c12V{ret, &c12Env{fn: callee, args: t.Call.Args, up: x.env}}
		default:
			return x
		}
	}
}

// c12CellValue: local al (possibly a heap cell shared with closures) is
// assigned exactly once, before every other use, and is otherwise only loaded —
// here and in the closures that capture it: every load yields that value.
func c12CellValue(al *ssa.Alloc) (ssa.Value, bool) {
	if al.Referrers() == nil {
		return nil, false
	}
	var store *ssa.Store
	for _, r := range *al.Referrers() {
		if st, ok := r.(*ssa.Store); ok {
			if st.Addr != ssa.Value(al) || store != nil {
				return nil, false
			}
			store = st
		}
	}
	if store == nil {
		return nil, false
	}
	var readOnly func(fn *ssa.Function, i, depth int) bool
	readOnly = func(fn *ssa.Function, i, depth int) bool {
		if fn == nil || i >= len(fn.FreeVars) || depth > 3 {
			return false
		}
		fv := fn.FreeVars[i]
		if fv.Referrers() == nil {
			return true
		}
		for _, r := range *fv.Referrers() {
			switch x := r.(type) {
			case *ssa.DebugRef:
			case *ssa.UnOp:
				if x.Op != token.MUL {
					return false
				}
			case *ssa.MakeClosure:
				inner, _ := x.Fn.(*ssa.Function)
				for k, b := range x.Bindings {
					if b == ssa.Value(fv) && !readOnly(inner, k, depth+1) {
						return false
					}
				}
			default:
				return false
			}
		}
		return true
	}
	for _, r := range *al.Referrers() {
		switch x := r.(type) {
		case *ssa.Store, *ssa.DebugRef:
			continue
		case *ssa.UnOp:
			if x.Op != token.MUL {
				return nil, false
			}
		case *ssa.MakeClosure:
			inner, _ := x.Fn.(*ssa.Function)
			for k, b := range x.Bindings {
				if b == ssa.Value(al) && !readOnly(inner, k, 0) {
					return nil, false
				}
			}
		default:
			return nil, false
		}
		if !instrDominates(store, r) {
			return nil, false
		}
	}
	return store.Val, true
}

// c12StructField: field f of the struct value sv, when sv is a whole-struct load
// of a non-escaping local whose field f has exactly one dominating source.
func c12StructField(sv c12V, f int, depth int) (c12V, bool) {
	sv = c12Res(sv, false)
	if ld, ok := sv.v.(*ssa.UnOp); ok && ld.Op == token.MUL {
		if al, ok := ld.X.(*ssa.Alloc); ok {
			return c12AllocField(al, f, ld, sv.env, depth)
		}
	}
	return sv, false
}

// c12AllocField: the value field f of local al holds at use: the value of the
// single store to &al.f, or field f of the single whole-struct store to al;
// the store must dominate use and al's address must not leave the function.
func c12AllocField(al *ssa.Alloc, f int, use ssa.Instruction, env *c12Env, depth int) (c12V, bool) {
	if al.Heap || depth > 4 || al.Referrers() == nil {
		return c12V{}, false
	}
	var fieldStore, whole *ssa.Store
	for _, r := range *al.Referrers() {
		switch x := r.(type) {
		case *ssa.DebugRef:
		case *ssa.UnOp:
			if x.Op != token.MUL {
				return c12V{}, false
			}
		case *ssa.Store:
			if x.Addr != ssa.Value(al) || whole != nil {
				return c12V{}, false
			}
			whole = x
		case *ssa.FieldAddr:
			if x.Referrers() == nil {
				return c12V{}, false
			}
			for _, r2 := range *x.Referrers() {
				switch y := r2.(type) {
				case *ssa.DebugRef:
				case *ssa.UnOp:
					if y.Op != token.MUL {
						return c12V{}, false
					}
				case *ssa.Store:
					if y.Addr != ssa.Value(x) {
						return c12V{}, false
					}
					if x.Field == f {
						if fieldStore != nil {
							return c12V{}, false
						}
						fieldStore = y
					}
				default:
					return c12V{}, false
				}
			}
		default:
			return c12V{}, false
		}
	}
	if (fieldStore != nil) == (whole != nil) {
		return c12V{}, false
	}
	if fieldStore != nil {
		if fieldStore.Parent() != use.Parent() || !instrDominates(fieldStore, use) {
			return c12V{}, false
		}
		return c12V{fieldStore.Val, env}, true
	}
	if whole.Parent() != use.Parent() || !instrDominates(whole, use) {
		return c12V{}, false
	}
	return c12StructField(c12V{whole.Val, env}, f, depth+1)
}

// c12Bin: x resolves to a binary operation op; operands in x's context.
func c12Bin(x c12V, op token.Token) (b *ssa.BinOp, l, r c12V, ok bool) {
	x = c12Res(x, false)
	b, ok = x.v.(*ssa.BinOp)
	if !ok || b.Op != op {
		return nil, l, r, false
	}
	return b, c12V{b.X, x.env}, c12V{b.Y, x.env}, true
}

// c12TableLoad: x is G[i] for a package-level array G; i resolved.
func c12TableLoad(x c12V) (*ssa.Global, ssa.Value, bool) {
	x = c12Res(x, false)
	u, ok := x.v.(*ssa.UnOp)
	if !ok || u.Op != token.MUL {
		return nil, nil, false
	}
	ia, ok := u.X.(*ssa.IndexAddr)
	if !ok {
		return nil, nil, false
	}
	g, ok := c12Res(c12V{ia.X, x.env}, false).v.(*ssa.Global) // directly, or a pointer parameter bound to &G
	if !ok {
		return nil, nil, false
	}
	return g, c12Res(c12V{ia.Index, x.env}, true).v, true
}

// c12RowCell: addr is &T[i][j] for a package-level two-dimensional array T
// (T, or the row &T[i], possibly reaching a helper as a pointer argument).
func c12RowCell(addr c12V) (t *ssa.Global, i ssa.Value, j c12V, ok bool) {
	addr = c12Res(addr, false)
	in, ok := addr.v.(*ssa.IndexAddr)
	if !ok {
		return
	}
	o := c12Res(c12V{in.X, addr.env}, false)
	if sl, isSl := o.v.(*ssa.Slice); isSl && sl.Low == nil {
		o = c12Res(c12V{sl.X, o.env}, false) // row[:] (or row[:n]) aliases the row from its first cell
	}
	out, ok := o.v.(*ssa.IndexAddr)
	if !ok {
		return nil, nil, j, false
	}
	t, ok = c12Res(c12V{out.X, o.env}, false).v.(*ssa.Global)
	return t, c12Res(c12V{out.Index, o.env}, true).v, c12V{in.Index, addr.env}, ok
}

// c12Index is the recognised index expression
//
//	((occ [& mask[sq]]) * magic[sq]) >> (K - shift[sq])
type c12Index struct {
	mask, magic, shift *ssa.Global // mask == nil: occupancy is not and-ed
	K                  int64
	cntBits            int // width and signedness of the type K-shift is computed in
	cntSigned          bool
	occ, sq            ssa.Value // resolved into the context of the function analysed
}

func (ix *c12Index) String() string {
	m := "occ"
	if ix.mask != nil {
		m = "(occ&" + ix.mask.Name() + "[sq])"
	}
	return fmt.Sprintf("(%s*%s[sq])>>(%d-%s[sq])", m, ix.magic.Name(), ix.K, ix.shift.Name())
}

func c12MatchIndex(v c12V) (*c12Index, string) {
	_, shX, shY, ok := c12Bin(v, token.SHR)
	if !ok {
		return nil, "the index is not a right shift"
	}
	mul, mX, mY, ok := c12Bin(shX, token.MUL)
	if !ok {
		return nil, "the shifted value is not a product"
	}
	if n, u, ok := c12IntBits(mul.Type()); !ok || n != 64 || !u {
		return nil, "the product is not computed in a 64-bit unsigned type"
	}
	ix := &c12Index{}
	var sqs []ssa.Value
	gx, sx, okx := c12TableLoad(mX)
	gy, sy, oky := c12TableLoad(mY)
	var occPart c12V
	switch {
	case okx && !oky:
		ix.magic, occPart, sqs = gx, mY, append(sqs, sx)
	case oky && !okx:
		ix.magic, occPart, sqs = gy, mX, append(sqs, sy)
	default:
		return nil, "cannot tell multiplier table and occupancy apart in the product"
	}
	ix.occ = c12Res(occPart, false).v
	if _, aX, aY, ok := c12Bin(occPart, token.AND); ok {
		if g, s, ok := c12TableLoad(aX); ok {
			ix.mask, ix.occ, sqs = g, c12Res(aY, false).v, append(sqs, s)
		} else if g, s, ok := c12TableLoad(aY); ok {
			ix.mask, ix.occ, sqs = g, c12Res(aX, false).v, append(sqs, s)
		}
	}
	sub, sX, sY, ok := c12Bin(shY, token.SUB)
	if !ok {
		return nil, "the shift count is not K - shift[sq]"
	}
	k, isConst := c12Res(sX, false).v.(*ssa.Const)
	g, s, okS := c12TableLoad(sY)
	if !isConst || !okS {
		return nil, "the shift count is not constant - table[sq]"
	}
	ix.K, _ = constOf(k)
	ix.shift, sqs = g, append(sqs, s)
	n, u, isInt := c12IntBits(sub.Type())
	if !isInt {
		return nil, "the shift count is not an integer"
	}
	ix.cntBits, ix.cntSigned = n, !u
	for _, q := range sqs {
		if q != sqs[0] {
			return nil, "the tables in the index are not indexed by the same square"
		}
	}
	ix.sq = sqs[0]
	return ix, ""
}

// eval computes the index for occupancy s on literal data, with Go's
// semantics for the recognised shape. bad != "" means the expression panics.
func (ix *c12Index) eval(mask, magic, shift, s uint64) (idx uint64, bad string) {
	if ix.mask != nil {
		s &= mask
	}
	cnt := uint64(ix.K) - shift
	if ix.cntBits < 64 {
		cnt &= 1<<uint(ix.cntBits) - 1
	}
	if ix.cntSigned && cnt>>uint(ix.cntBits-1) != 0 {
		return 0, "negative shift count"
	}
	if cnt >= 64 {
		return 0, ""
	}
	return (s * magic) >> cnt, ""
}

// c12Literal evaluates the composite literal initialising the package-level
// array g (unsigned integer elements, at least 64 of them after zero padding).
func c12Literal(p *Prog, g *ssa.Global) ([]uint64, error) {
	name := globalName(g)
	at, ok := g.Type().(*types.Pointer).Elem().Underlying().(*types.Array)
	if !ok {
		return nil, fmt.Errorf("%s is not an array", name)
	}
	if _, u, ok := c12IntBits(at.Elem()); !ok || !u {
		return nil, fmt.Errorf("%s does not have unsigned integer elements", name)
	}
	if at.Len() < 64 {
		return nil, fmt.Errorf("%s has %d elements, fewer than 64 squares", name, at.Len())
	}
	expr, pk := p.pkgVarInit(name)
	if expr == nil || pk == nil {
		return nil, fmt.Errorf("%s has no initialiser expression", name)
	}
	vals, shape, err := literalInts(pk.TypesInfo, expr)
	if err != nil {
		return nil, fmt.Errorf("%s: %v", name, err)
	}
	if len(shape) != 1 {
		return nil, fmt.Errorf("%s: literal is not one-dimensional", name)
	}
	for int64(len(vals)) < at.Len() {
		vals = append(vals, 0)
	}
	return vals, nil
}

type c12Data struct{ mask, magic, shift []uint64 }

func c12LoadData(p *Prog, ix *c12Index, mask *ssa.Global) (*c12Data, error) {
	d := &c12Data{}
	var err error
	if d.mask, err = c12Literal(p, mask); err != nil {
		return nil, err
	}
	if d.magic, err = c12Literal(p, ix.magic); err != nil {
		return nil, err
	}
	if d.shift, err = c12Literal(p, ix.shift); err != nil {
		return nil, err
	}
	return d, nil
}

// c12Reader is a recognised slider lookup function.
type c12Reader struct {
	spec            string
	diag            bool
	calc, otherCalc string
	fn              *ssa.Function
	table           *ssa.Global
	rowLen          int
	ix              *c12Index
}

func c12SingleReturn(fn *ssa.Function) ssa.Value {
	var res ssa.Value
	n := 0
	allInstrs(fn, func(in ssa.Instruction) {
		if r, ok := in.(*ssa.Return); ok {
			n++
			if len(r.Results) == 1 {
				res = r.Results[0]
			}
		}
	})
	if n != 1 {
		return nil
	}
	return res
}

func c12MatchReader(c *Ctx, p *Prog, spec string, diag bool, calc, other string) *c12Reader {
	const rule = "C12.R2"
	fn := p.Func(spec)
	if fn == nil || len(fn.Params) != 2 {
		c.Anchor(rule, spec)
		return nil
	}
	undec := func(why string) *c12Reader {
		c.Undec(rule, spec+"#lookup-shape", fn.Pos(), "%s is not of the shape return T[from][((occ&mask[from])*magic[from])>>(K-shift[from])]: %s — the data rules cannot be instantiated", spec, why)
		return nil
	}
	res := c12SingleReturn(fn)
	if res == nil {
		return undec("not exactly one return of one value")
	}
	rv := c12Res(c12Top(res), false)
	ld, ok := rv.v.(*ssa.UnOp)
	if !ok || ld.Op != token.MUL {
		return undec("the result is not a table load")
	}
	t, row, idx, ok := c12RowCell(c12V{ld.X, rv.env})
	if !ok {
		return undec("the result is not loaded from a two-dimensional package-level array")
	}
	ix, why := c12MatchIndex(idx)
	if ix == nil {
		return undec(why)
	}
	if ix.mask == nil {
		return undec("the occupancy is not and-ed with a mask table, the index depends on all 64 bits")
	}
	if row != ssa.Value(fn.Params[0]) || ix.sq != ssa.Value(fn.Params[0]) || ix.occ != ssa.Value(fn.Params[1]) {
		return undec("row, tables and occupancy are not the function's (square, occupancy) parameters")
	}
	outer, ok := t.Type().(*types.Pointer).Elem().Underlying().(*types.Array)
	if !ok {
		return undec("the table is not an array")
	}
	inner, ok := outer.Elem().Underlying().(*types.Array)
	if !ok || outer.Len() < 64 {
		return undec("the table is not a [>=64][N] array")
	}
	c.Ok(rule, spec+"#lookup-shape", fn.Pos(), "%s returns %s[from][%s], row length %d (read from the SSA, through locals and conversions)", spec, t.Name(), ix, inner.Len())
	return &c12Reader{spec: spec, diag: diag, calc: calc, otherCalc: other, fn: fn, table: t, rowLen: int(inner.Len()), ix: ix}
}

// ---------------------------------------------------------------- R1

// c12PtrUse follows a pointer into a table (an address handed to a chess-3
// helper): stores through it are writes, loads are harmless, anything that
// lets the pointer out of sight is unknown.
func c12PtrUse(v ssa.Value, seen map[ssa.Value]bool, depth int) (writes []ssa.Instruction, unknown bool) {
	if seen[v] {
		return nil, false
	}
	seen[v] = true
	if v.Referrers() == nil || depth > 6 {
		return nil, true
	}
	sub := func(x ssa.Value) {
		w, u := c12PtrUse(x, seen, depth+1)
		writes, unknown = append(writes, w...), unknown || u
	}
	for _, r := range *v.Referrers() {
		switch x := r.(type) {
		case *ssa.DebugRef:
		case *ssa.IndexAddr, *ssa.FieldAddr, *ssa.ChangeType, *ssa.Slice, *ssa.Phi:
			sub(x.(ssa.Value))
		case *ssa.UnOp:
			// a load: value copy (a loaded slice header would alias, tables are arrays)
			if _, isSlice := x.Type().Underlying().(*types.Slice); isSlice || x.Op != token.MUL {
				unknown = true
			}
		case *ssa.BinOp:
			if x.Op != token.EQL && x.Op != token.NEQ {
				unknown = true
			}
		case *ssa.Store:
			if x.Addr == v {
				writes = append(writes, x)
			} else {
				unknown = true
			}
		case ssa.CallInstruction:
			callee := x.Common().StaticCallee()
			if callee == nil || !isOwn(callee) || callee.Blocks == nil || x.Common().IsInvoke() || len(x.Common().Args) != len(callee.Params) {
				unknown = true
				continue
			}
			for k, a := range x.Common().Args {
				if a == v {
					sub(callee.Params[k])
				}
			}
		default:
			unknown = true
		}
	}
	return
}

// c12WSite is a store/escape site of a table; Via is the call that handed the
// table's address to the helper containing the store (nil for a direct store).
type c12WSite struct {
	site
	Via ssa.CallInstruction
}

// c12CollectWriters: one EFFECT pass over all chess-3 functions; for every
// package-level variable the sites that store to it or let its address escape
// (What == "escape"). Same data as p.globalWriters, computed once — except
// that an address passed to a chess-3 helper is followed into the helper:
// only stores through it count as writes, a read-only helper is not a writer.
func c12CollectWriters(p *Prog) map[string][]c12WSite {
	out := map[string][]c12WSite{}
	for _, fn := range p.OwnFuncs() {
		e := directEffects(fn)
		for g, ss := range e.GlobalWrites {
			for _, s := range ss {
				out[g] = append(out[g], c12WSite{site: s})
			}
		}
		for g, ss := range e.Escapes {
			for _, s := range ss {
				if ci, ok := s.In.(ssa.CallInstruction); ok {
					var writes []ssa.Instruction
					unknown, found := false, false
					callee := ci.Common().StaticCallee()
					for k, a := range ci.Common().Args {
						if _, ga, _ := rootOfAddrIfAddr(a); ga != g {
							continue
						}
						found = true
						if callee == nil || !isOwn(callee) || callee.Blocks == nil || ci.Common().IsInvoke() || k >= len(callee.Params) {
							unknown = true
							continue
						}
						w, u := c12PtrUse(callee.Params[k], map[ssa.Value]bool{}, 0)
						writes, unknown = append(writes, w...), unknown || u
					}
					if found && !unknown {
						for _, w := range writes {
							out[g] = append(out[g], c12WSite{site{Fn: w.Parent(), Pos: w.Pos(), In: w, What: "store through pointer"}, ci})
						}
						continue
					}
				}
				s.What = "escape"
				out[g] = append(out[g], c12WSite{site: s})
			}
		}
	}
	return out
}

func c12R1(c *Ctx, p *Prog, w map[string][]c12WSite, seen []*ssa.Global) {
	const rule = "C12.R1"
	names := map[string]bool{}
	for _, g := range []string{"kingMoves", "knightMoves", "bishopMasks", "rookMasks", "bishopShifts", "rookShifts", "bishopMagics", "rookMagics", "bishopAttacks", "rookAttacks", "InBetween"} {
		names[c12Pkg+"."+g] = true
		if !p.hasGlobal(c12Pkg + "." + g) {
			c.Anchor(rule, c12Pkg+"."+g)
			delete(names, c12Pkg+"."+g)
		}
	}
	for _, g := range seen {
		names[globalName(g)] = true
	}
	n := 0
	for _, g := range sortedKeys(names) {
		n++
		var out, esc []string
		for _, s := range w[g] {
			if p.initOnly(s.Fn) {
				continue
			}
			if s.What == "escape" {
				esc = append(esc, fmt.Sprintf("%s (%s)", fnName(s.Fn), p.Rel(s.Pos)))
			} else {
				out = append(out, fmt.Sprintf("%s %s(%s)", fnName(s.Fn), s.What, p.Rel(s.Pos)))
			}
		}
		switch {
		case len(out) > 0:
			c.Fail(rule, "immutable:"+g, p.globalPos(g), "%s is stored after package initialisation by %v", g, out)
		case len(esc) > 0:
			c.Undec(rule, "immutable:"+g, p.globalPos(g), "the address of %s leaves sight after package initialisation in %v (not a chess-3 helper that only loads through it): an unknown party may write the table", g, esc)
		default:
			c.Ok(rule, "immutable:"+g, p.globalPos(g), "%s is stored only during package initialisation; its address is handed only to chess-3 helpers that load through it", g)
		}
		if expr, _ := p.pkgVarInit(g); expr == nil {
			continue // computed table: its fill is R4's business
		}
		// literal table: the composite literal is the run-time value only if nobody
		// but the synthetic package initialiser stores to it
		var patch []string
		for _, s := range w[g] {
			// (a declared func init() has the same symbolic name as the synthetic initialiser)
			if s.Fn.Pkg == nil || s.Fn != s.Fn.Pkg.Func("init") || s.What == "escape" {
				patch = append(patch, fmt.Sprintf("%s %s(%s)", fnName(s.Fn), s.What, p.Rel(s.Pos)))
			}
		}
		if len(patch) == 0 {
			c.Ok(rule, "literal:"+g, p.globalPos(g), "%s is stored only by the package initialiser: its composite literal is the run-time content", g)
		} else {
			c.Undec(rule, "literal:"+g, p.globalPos(g), "%s is also stored by %v: the composite literal judged by R2/R3/R4 is not the run-time content", g, patch)
		}
	}
	c.Floor(rule, n, 11, "attack tables")
}

// ---------------------------------------------------------------- R2

func c12R2(c *Ctx, p *Prog, r *c12Reader) int {
	const rule = "C12.R2"
	d, err := c12LoadData(p, r.ix, r.ix.mask)
	if err != nil {
		c.Undec(rule, r.spec+"#literals", r.fn.Pos(), "cannot evaluate the tables read by %s as literals: %v", r.spec, err)
		return 0
	}
	cell := make([]uint64, r.rowLen)
	owner := make([]uint64, r.rowLen)
	used := make([]bool, r.rowLen)
	n, subsets := 0, 0
	for sq := 0; sq < 64; sq++ {
		key := r.spec + "@" + c12Sq(sq)
		pos := p.globalPos(globalName(r.ix.magic))
		mask, magic, shift := d.mask[sq], d.magic[sq], d.shift[sq]
		n++
		if miss := c12Relevant(r.diag, sq) &^ mask; miss != 0 {
			b := miss & -miss
			c.Fail(rule, key, p.globalPos(globalName(r.ix.mask)), "%s[%s]=%#016x lacks relevant square(s) %s: occupancies 0 and %#x get the same index but the geometric attack sets differ (%#x vs %#x)",
				r.ix.mask.Name(), c12Sq(sq), mask, c12Squares(miss), b, c12RefSlider(r.diag, sq, 0), c12RefSlider(r.diag, sq, b))
			continue
		}
		if bits.OnesCount64(mask) > 16 {
			c.Undec(rule, key, pos, "%s[%s] has %d bits: more than 2^16 subsets, not enumerated", r.ix.mask.Name(), c12Sq(sq), bits.OnesCount64(mask))
			continue
		}
		clear(used)
		msg := ""
		c12Subsets(mask, 0, func(s uint64) {
			subsets++
			if msg != "" {
				return
			}
			idx, bad := r.ix.eval(mask, magic, shift, s)
			ref := c12RefSlider(r.diag, sq, s)
			switch {
			case bad != "":
				msg = fmt.Sprintf("%s: the lookup panics for every occupancy (K=%d, shift=%d)", bad, r.ix.K, shift)
			case idx >= uint64(r.rowLen):
				msg = fmt.Sprintf("occupancy %#x indexes cell %d of a row of %d (magic %#016x, shift %d): the lookup panics", s, idx, r.rowLen, magic, shift)
			case used[idx] && cell[idx] != ref:
				msg = fmt.Sprintf("destructive collision: occupancies %#x and %#x both index cell %d (magic %#016x, shift %d) but their geometric attack sets differ (%#x vs %#x): whatever the fill stores, one lookup is wrong", owner[idx], s, idx, magic, shift, cell[idx], ref)
			default:
				used[idx], cell[idx], owner[idx] = true, ref, s
			}
		})
		if msg != "" {
			c.Fail(rule, key, pos, "%s, square %s: %s", r.spec, c12Sq(sq), msg)
		} else {
			c.Ok(rule, key, pos, "%s, square %s: mask ⊇ relevant squares, all %d subsets index inside the row of %d, colliding subsets have equal geometric attack sets", r.spec, c12Sq(sq), 1<<uint(bits.OnesCount64(mask)), r.rowLen)
		}
	}
	c.Note("C12.R2: %s: %d mask subsets enumerated", r.spec, subsets)
	return n
}

// ---------------------------------------------------------------- R3

type c12Leaper struct {
	spec  string
	fn    *ssa.Function
	table *ssa.Global
	offs  [][2]int
}

func c12MatchLeaper(c *Ctx, p *Prog, spec string, offs [][2]int) *c12Leaper {
	const rule = "C12.R3"
	fn := p.Func(spec)
	if fn == nil || len(fn.Params) != 1 {
		c.Anchor(rule, spec)
		return nil
	}
	if res := c12SingleReturn(fn); res != nil {
		if g, idx, ok := c12TableLoad(c12Top(res)); ok && idx == ssa.Value(fn.Params[0]) {
			return &c12Leaper{spec: spec, fn: fn, table: g, offs: offs}
		}
	}
	c.Undec(rule, spec+"#lookup-shape", fn.Pos(), "%s is not of the shape return table[from]: the leaper table cannot be identified", spec)
	return nil
}

func c12R3(c *Ctx, p *Prog, l *c12Leaper) int {
	const rule = "C12.R3"
	vals, err := c12Literal(p, l.table)
	if err != nil {
		c.Undec(rule, l.spec+"#literals", l.fn.Pos(), "cannot evaluate the table read by %s: %v", l.spec, err)
		return 0
	}
	pos := p.globalPos(globalName(l.table))
	for sq := 0; sq < 64; sq++ {
		want := c12RefLeaper(sq, l.offs)
		c.Check(vals[sq] == want, rule, l.spec+"@"+c12Sq(sq), pos, "%s[%s] = %#016x %s, geometry (offsets with file wrap excluded) gives %#016x %s",
			l.table.Name(), c12Sq(sq), vals[sq], c12Squares(vals[sq]), want, c12Squares(want))
	}
	return 64
}

// ---------------------------------------------------------------- R4

// c12LiveSuccs: the successors of b, without the edge a constant condition
// never takes (range-over-int emits the pre-test 0 < N unfolded).
func c12LiveSuccs(b *ssa.BasicBlock) []*ssa.BasicBlock {
	if len(b.Instrs) == 0 || len(b.Succs) != 2 {
		return b.Succs
	}
	iff, ok := b.Instrs[len(b.Instrs)-1].(*ssa.If)
	if !ok {
		return b.Succs
	}
	cmp, ok := iff.Cond.(*ssa.BinOp)
	if !ok {
		return b.Succs
	}
	_, xConst := cmp.X.(*ssa.Const)
	_, yConst := cmp.Y.(*ssa.Const)
	x, okx := constOf(cmp.X)
	y, oky := constOf(cmp.Y)
	if !xConst || !yConst || !okx || !oky {
		return b.Succs
	}
	var t bool
	switch cmp.Op {
	case token.LSS:
		t = x < y
	case token.LEQ:
		t = x <= y
	case token.GTR:
		t = x > y
	case token.GEQ:
		t = x >= y
	case token.EQL:
		t = x == y
	case token.NEQ:
		t = x != y
	default:
		return b.Succs
	}
	if t {
		return b.Succs[:1]
	}
	return b.Succs[1:]
}

// c12OnEveryPath: every (live) control-flow path from from to to passes through b.
func c12OnEveryPath(from, b, to *ssa.BasicBlock) bool {
	if b == from || b == to {
		return true
	}
	seen := map[*ssa.BasicBlock]bool{b: true, from: true}
	stack := []*ssa.BasicBlock{from}
	for len(stack) > 0 {
		cur := stack[len(stack)-1]
		stack = stack[:len(stack)-1]
		for _, n := range c12LiveSuccs(cur) {
			if n == to {
				return false
			}
			if !seen[n] {
				seen[n] = true
				stack = append(stack, n)
			}
		}
	}
	return true
}

// c12SqLoop recognises row as the counter of a loop sq = 0; sq < N; sq++.
func c12SqLoop(row ssa.Value) (sq *ssa.Phi, latch *ssa.BasicBlock, bound int64) {
	sq, latch, start, bound, _ := c12CountLoop(row)
	if sq == nil || start != 0 {
		return nil, nil, -1
	}
	return sq, latch, bound
}

// c12CountLoop recognises v as the counter of a loop i = K0; i < N; i++ (range N
// or classic for; <=, != and swapped operands accepted): the phi, the block
// that jumps back to it, K0, N (-1 when no loop test is found) and whether the
// test is made on the counter itself (loop header) rather than on i+1 (latch).
func c12CountLoop(v0 ssa.Value) (sq *ssa.Phi, latch *ssa.BasicBlock, start, bound int64, headerTest bool) {
	sq, latch, start, bound, headerTest, _ = c12CountLoopTest(v0)
	return
}

// c12CountLoopTest is c12CountLoop, also returning the If that is the loop test:
// the one at the bottom of the latch testing i+1 and jumping back to the header
// on true (go/ssa's rotated range-over-int form), else the one at the bottom
// of the header testing i. Comparisons of the counter elsewhere in the body are
// not loop tests.
func c12CountLoopTest(v0 ssa.Value) (sq *ssa.Phi, latch *ssa.BasicBlock, start, bound int64, headerTest bool, test *ssa.If) {
	bound = -1
	sq, ok := v0.(*ssa.Phi)
	if !ok || len(sq.Edges) != 2 || len(sq.Block().Preds) != 2 {
		return nil, nil, 0, -1, false, nil
	}
	testOf := func(b *ssa.BasicBlock, v ssa.Value) (int64, *ssa.If) {
		if len(b.Instrs) == 0 {
			return -1, nil
		}
		iff, ok := b.Instrs[len(b.Instrs)-1].(*ssa.If)
		if !ok {
			return -1, nil
		}
		cmp, ok := iff.Cond.(*ssa.BinOp)
		if !ok {
			return -1, nil
		}
		// v < K, v != K, K > v  → K ;  v <= K, K >= v → K+1
		kx, xc := constOf(cmp.X)
		ky, yc := constOf(cmp.Y)
		switch {
		case cmp.X == v && yc && (cmp.Op == token.LSS || cmp.Op == token.NEQ):
			return ky, iff
		case cmp.X == v && yc && cmp.Op == token.LEQ:
			return ky + 1, iff
		case cmp.Y == v && xc && (cmp.Op == token.GTR || cmp.Op == token.NEQ):
			return kx, iff
		case cmp.Y == v && xc && cmp.Op == token.GEQ:
			return kx + 1, iff
		}
		return -1, nil
	}
	for i, e := range sq.Edges {
		inc, ok := e.(*ssa.BinOp)
		k0, isC := constOf(sq.Edges[1-i])
		if !ok || inc.Op != token.ADD || inc.X != ssa.Value(sq) || !isC {
			continue
		}
		start = k0
		if k1, ok := constOf(inc.Y); !ok || k1 != 1 {
			continue
		}
		latch = sq.Block().Preds[i]
		if n, iff := testOf(latch, inc); iff != nil && latch.Succs[0] == sq.Block() {
			bound, test = n, iff
		} else if n, iff := testOf(sq.Block(), sq); iff != nil {
			bound, test, headerTest = n, iff, true
		}
		return sq, latch, start, bound, headerTest, test
	}
	return nil, nil, 0, -1, false, nil
}

func c12R4(c *Ctx, p *Prog, w map[string][]c12WSite, r *c12Reader) int {
	const rule = "C12.R4"
	tname := globalName(r.table)
	sites := w[tname]
	shape := r.spec + "#fill-shape"
	if len(sites) != 1 || sites[0].What == "escape" {
		var where []string
		for _, s := range sites {
			where = append(where, fmt.Sprintf("%s %s(%s)", fnName(s.Fn), s.What, p.Rel(s.Pos)))
		}
		c.Undec(rule, shape, p.globalPos(tname), "%s is stored (or its address escapes) at %d sites %v; exactly one fill store is understood", tname, len(sites), where)
		return 0
	}
	fn := sites[0].Fn // the function containing the store
	outer := fn       // the function that owns the square loop
	st, _ := sites[0].In.(*ssa.Store)
	undec := func(why string, a ...any) int {
		c.Undec(rule, shape, sites[0].Pos, "fill of %s in %s: %s", tname, fnName(fn), fmt.Sprintf(why, a...))
		return 0
	}
	if st == nil {
		return undec("the write is not a plain store")
	}
	// the fill loop may live in a helper that receives the row (and mask, magic,
	// shift, ray walker) as arguments: analyse the helper in the context of that call
	var env *c12Env
	via := sites[0].Via
	if via != nil {
		if via.Common().StaticCallee() != fn || len(via.Common().Args) != len(fn.Params) {
			return undec("the store is reached through more than one helper level from %s", fnName(via.Parent()))
		}
		env = &c12Env{fn: fn, args: via.Common().Args}
		outer = via.Parent()
	}
	in := func(v ssa.Value) c12V { return c12V{v, env} }
	_, row, idx, ok := c12RowCell(in(st.Addr))
	if !ok {
		return undec("the store does not address %s[sq][index]", r.table.Name())
	}
	ix, why := c12MatchIndex(idx)
	if ix == nil {
		return undec("index not recognised: %s", why)
	}
	if ix.sq != row {
		return undec("row and tables are indexed by different values")
	}
	// --- occupancy: carry-rippler phi
	occ, ok := ix.occ.(*ssa.Phi)
	if !ok || len(occ.Edges) != 2 {
		return undec("the occupancy in the index is not a loop variable")
	}
	var enumMask *ssa.Global
	isMask := func(v c12V) bool {
		g, s, ok := c12TableLoad(v)
		if ok && s == row && (enumMask == nil || enumMask == g) {
			enumMask = g
			return true
		}
		return false
	}
	nextOf := func(v ssa.Value) bool { // v == (occ - mask) & mask, possibly computed by a helper
		_, aX, aY, ok := c12Bin(in(v), token.AND)
		if !ok {
			return false
		}
		for _, o := range [][2]c12V{{aX, aY}, {aY, aX}} {
			saved := enumMask
			if _, sX, sY, ok := c12Bin(o[0], token.SUB); ok && c12Res(sX, false).v == ssa.Value(occ) && isMask(sY) && isMask(o[1]) {
				return true
			}
			enumMask = saved
		}
		return false
	}
	ni := -1
	for i, e := range occ.Edges {
		if ni < 0 && nextOf(e) {
			ni = i
		}
	}
	if ni < 0 || enumMask == nil {
		return undec("the occupancy is not advanced by the carry-rippler occ = (occ - mask[sq]) & mask[sq]")
	}
	next, start := occ.Edges[ni], occ.Edges[1-ni]
	isStart := func(v ssa.Value) (full, ok bool) {
		if isMask(in(v)) {
			return true, true
		}
		if k, isC := constOf(c12Res(in(v), false).v); isC && k == 0 {
			return false, true
		}
		return false, false
	}
	startFull, ok := isStart(start)
	if !ok {
		return undec("the enumeration starts neither at the full mask nor at the empty set")
	}
	if ix.mask != nil && ix.mask != enumMask {
		return undec("the index masks with %s but the enumeration runs over %s", ix.mask.Name(), enumMask.Name())
	}
	// --- loop exit: next == start leaves, otherwise straight back to the header
	var exit *ssa.If
	var carried, carriedBody *ssa.BasicBlock
	for _, ref := range *next.Referrers() {
		cmp, ok := ref.(*ssa.BinOp)
		if !ok || (cmp.Op != token.EQL && cmp.Op != token.NEQ) {
			continue
		}
		other := cmp.Y
		if cmp.X != next {
			other = cmp.X
		}
		if full, ok := isStart(other); !ok || full != startFull {
			continue
		}
		for _, r2 := range *cmp.Referrers() {
			if iff, ok := r2.(*ssa.If); ok {
				leave, back := iff.Block().Succs[0], iff.Block().Succs[1]
				if cmp.Op == token.NEQ {
					leave, back = back, leave
				}
				if back == occ.Block() && leave != occ.Block() && occ.Block().Preds[ni] == iff.Block() {
					exit = iff
				}
			}
			// condition-carried loop: for more := true; more; more = next != start { … }
			// (or done := false; !done; done = next == start): a bool phi in the header,
			// its value from the latch is the comparison, the first turn is unconditional
			ph, isPhi := r2.(*ssa.Phi)
			hb := occ.Block()
			if !isPhi || ph.Block() != hb || len(ph.Edges) != 2 || ph.Edges[ni] != ssa.Value(cmp) || len(hb.Instrs) == 0 {
				continue
			}
			iff, isIf := hb.Instrs[len(hb.Instrs)-1].(*ssa.If)
			first, isC := ph.Edges[1-ni].(*ssa.Const)
			if !isIf || iff.Cond != ssa.Value(ph) || !isC {
				continue
			}
			k, _ := constOf(first)
			body, leave := hb.Succs[0], hb.Succs[1]
			if cmp.Op == token.EQL {
				body, leave = leave, body
			}
			lt := hb.Preds[ni]
			if (k != 0) == (cmp.Op == token.NEQ) && (body == lt || body.Dominates(lt)) && leave != hb && !body.Dominates(leave) && body != leave {
				carried, carriedBody = lt, body
			}
		}
	}
	iters := int64(-1) // -1: the whole cycle of subsets; otherwise a constant number of steps
	exitBlk := (*ssa.BasicBlock)(nil)
	if exit != nil {
		exitBlk = exit.Block()
	} else if carried != nil {
		if !(st.Block() == carriedBody || carriedBody.Dominates(st.Block())) {
			return undec("the store is not in the body of the condition-carried enumeration loop")
		}
		exitBlk = carried
	} else {
		// counted enumeration: for i := K0; i < N; i++ { store; occ = next }
		for _, instr := range occ.Block().Instrs {
			cnt, isPhi := instr.(*ssa.Phi)
			if !isPhi {
				break
			}
			if cp, cl, k0, n, hdr := c12CountLoop(cnt); cp != nil && cnt != occ && n >= 0 && cl == occ.Block().Preds[ni] {
				body := st.Block() != occ.Block() // header-tested: the store must be in the body, not before the test
				if hdr && !body {
					continue
				}
				iters, exitBlk = max(n-k0, 0), cl
			}
		}
		if exitBlk == nil {
			return undec("neither a loop exit 'next occupancy == starting occupancy' nor a constant iteration count found")
		}
	}
	if !(st.Block() == occ.Block() || occ.Block().Dominates(st.Block())) || !(st.Block() == exitBlk || st.Block().Dominates(exitBlk)) {
		return undec("the store is not executed on every iteration of the enumeration")
	}
	// the enumeration runs for every square: it (or the call of the helper containing
	// it) lies on every path round the square loop
	sqPhi, latch, bound := c12SqLoop(row)
	inLoop := func(b *ssa.BasicBlock) bool { return sqPhi != nil && c12OnEveryPath(sqPhi.Block(), b, latch) }
	if via == nil {
		if sqPhi != nil && !inLoop(occ.Block()) {
			return undec("the enumeration is not executed for every square of the square loop")
		}
	} else {
		if sqPhi != nil && !inLoop(via.Block()) {
			return undec("the call of %s is not executed for every square of the square loop", fnName(fn))
		}
		if !newPostDom(fn).PostDominates(occ.Block(), fn.Blocks[0]) {
			return undec("%s does not run the enumeration on every call", fnName(fn))
		}
	}
	c.Ok(rule, shape, st.Pos(), "%s: single store %s[sq][%s] inside the carry-rippler over %s[sq] (start %s, %s)", fnName(fn), r.table.Name(), ix, enumMask.Name(), map[bool]string{true: "full mask", false: "empty set"}[startFull], map[bool]string{true: "exit when the next subset equals the start", false: fmt.Sprintf("exactly %d steps", iters)}[iters < 0])

	// --- stored value
	vkey := r.spec + "#fill-value"
	call, _ := st.Val.(*ssa.Call)
	// the ray walker called: static, a function-valued parameter bound at the helper's call, or
	// reached through wrappers/closures that do nothing but return one call (func(occ) { return calc(sq, occ) })
	var calcFn *types.Func
	var cargs []ssa.Value
	cctx := env
	for cc, depth := call, 0; cc != nil && !cc.Call.IsInvoke() && depth < 3; depth++ {
		fv := c12Res(c12V{cc.Call.Value, cctx}, false)
		var f *ssa.Function
		var free []ssa.Value
		switch t := fv.v.(type) {
		case *ssa.Function:
			f = t
		case *ssa.MakeClosure:
			f, _ = t.Fn.(*ssa.Function)
			free = t.Bindings
		}
		if f == nil {
			break
		}
		calcFn, cargs = fnObj(f), cc.Call.Args
		if n := objName(calcFn); calcFn != nil && (n == r.calc || n == r.otherCalc) {
			break
		}
		inner, isCall := c12SingleReturn(f).(*ssa.Call)
		if !isCall || f.Blocks == nil || len(cc.Call.Args) != len(f.Params) || !isOwn(f) {
			break
		}
		cctx = &c12Env{fn: f, args: cc.Call.Args, up: cctx, free: free, freeCtx: fv.env}
		cc, calcFn = inner, nil
	}
	cin := func(v ssa.Value) c12V { return c12V{v, cctx} }
	if calcFn == nil {
		c.Undec(rule, vkey, st.Pos(), "the value stored into %s is not the result of a call whose callee can be resolved", tname)
	} else if name := objName(calcFn); name == r.otherCalc {
		c.Fail(rule, vkey, call.Pos(), "%s fills %s (read by %s) with %s: the other slider's ray walker", fnName(outer), tname, r.spec, name)
	} else if name != r.calc || len(cargs) != 2 {
		c.Undec(rule, vkey, call.Pos(), "%s fills %s with %s, expected %s(sq, occ)", fnName(outer), tname, name, r.calc)
	} else {
		a1 := c12Res(cin(cargs[1]), false).v
		if _, aX, aY, ok := c12Bin(cin(cargs[1]), token.AND); ok { // occ & mask == occ
			if isMask(aY) {
				a1 = c12Res(aX, false).v
			} else if isMask(aX) {
				a1 = c12Res(aY, false).v
			}
		}
		if c12Res(cin(cargs[0]), true).v == row && a1 == ssa.Value(occ) {
			c.Ok(rule, vkey, call.Pos(), "%s stores %s(sq, occ) with the same square as the row and the same occupancy as the index", fnName(fn), name)
		} else {
			c.Undec(rule, vkey, call.Pos(), "%s(…) is not called with the row's square and the occupancy used in the index: a cell would receive the attack set of another square/occupancy", name)
		}
	}

	// --- square loop covers 0..63
	qkey := r.spec + "#square-loop"
	switch {
	case bound < 0:
		c.Undec(rule, qkey, outer.Pos(), "%s: the square loop is not of the shape sq = 0; sq < N (or <= N-1, != N); sq++", fnName(outer))
	case bound != 64:
		c.Fail(rule, qkey, outer.Pos(), "%s fills squares 0..%d, the board has squares 0..63", fnName(outer), bound-1)
	default:
		c.Ok(rule, qkey, outer.Pos(), "%s fills every square 0..63", fnName(outer))
	}
	c.Check(p.initOnly(fn) && p.initOnly(outer), rule, r.spec+"#fill-runs-at-init", outer.Pos(), "%s is called, and only from package initialisation", fnName(outer))

	// --- replay the fill on the literals, then the lookup
	rkey := r.spec + "#roundtrip"
	rd, err1 := c12LoadData(p, r.ix, r.ix.mask)
	wd, err2 := c12LoadData(p, ix, enumMask)
	if err1 != nil || err2 != nil {
		c.Undec(rule, rkey, st.Pos(), "cannot evaluate the literals: %v %v", err1, err2)
		return 1
	}
	cell := make([]uint64, r.rowLen)
	set := make([]bool, r.rowLen)
	total := 0
	for sq := 0; sq < 64; sq++ {
		if bits.OnesCount64(wd.mask[sq]) > 16 || bits.OnesCount64(rd.mask[sq]) > 16 {
			c.Undec(rule, rkey, st.Pos(), "mask of %s wider than 16 bits: not enumerated", c12Sq(sq))
			return 1
		}
		clear(set)
		msg := ""
		first := uint64(0)
		if startFull {
			first = wd.mask[sq]
		}
		c12Steps(wd.mask[sq], first, iters, func(s uint64) {
			idx, bad := ix.eval(wd.mask[sq], wd.magic[sq], wd.shift[sq], s)
			if bad != "" || idx >= uint64(r.rowLen) {
				if msg == "" {
					msg = fmt.Sprintf("the fill panics at occupancy %#x (index %d, row of %d) %s", s, idx, r.rowLen, bad)
				}
				return
			}
			cell[idx], set[idx] = c12RefSlider(r.diag, sq, s), true
		})
		c12Subsets(rd.mask[sq], 0, func(s uint64) {
			total++
			idx, bad := r.ix.eval(rd.mask[sq], rd.magic[sq], rd.shift[sq], s)
			if msg != "" || bad != "" || idx >= uint64(r.rowLen) {
				return // out-of-range lookups are R2's finding
			}
			if want := c12RefSlider(r.diag, sq, s); !set[idx] {
				msg = fmt.Sprintf("lookup of occupancy %#x reads cell %d which the fill never writes (stays 0, geometry says %#x)", s, idx, want)
			} else if cell[idx] != want {
				msg = fmt.Sprintf("lookup of occupancy %#x reads cell %d where the fill last stored the attack set %#x of another occupancy, geometry says %#x", s, idx, cell[idx], want)
			}
		})
		if msg != "" {
			c.Fail(rule, rkey, st.Pos(), "square %s: fill index %s vs lookup index %s: %s", c12Sq(sq), ix, r.ix, msg)
			return 1
		}
	}
	c.Ok(rule, rkey, st.Pos(), "replaying the fill (%s, enumeration over %s) with the reference ray walker and then the lookup (%s) returns the geometric attack set for all %d (square, subset) pairs", ix, enumMask.Name(), r.ix, total)
	return 1
}

// ---------------------------------------------------------------- R5

func c12R5(c *Ctx, p *Prog) {
	const rule = "C12.R5"
	const gname = c12Pkg + ".InBetween"
	pk := p.SSAPkg(c12Pkg)
	if pk == nil || !p.hasGlobal(gname) {
		c.Anchor(rule, gname)
		return
	}
	g := pk.Members["InBetween"].(*ssa.Global)
	n := 0
	for _, fn := range p.OwnFuncs() {
		if fnPkgPath(fn) == Mod+"/"+c12Pkg {
			continue
		}
		ord := 0
		allInstrs(fn, func(in ssa.Instruction) {
			uses := false
			for _, op := range in.Operands(nil) {
				if *op == ssa.Value(g) {
					uses = true
				}
			}
			if !uses {
				return
			}
			ord++
			key := fmt.Sprintf("%s#InBetween-read%d", fnName(fn), ord)
			outer, ok := in.(*ssa.IndexAddr)
			if !ok || outer.Referrers() == nil {
				c.Undec(rule, key, in.Pos(), "%s uses attacks.InBetween other than by reading InBetween[a][b]", fnName(fn))
				return
			}
			for _, r1 := range *outer.Referrers() {
				inner, ok := r1.(*ssa.IndexAddr)
				if _, dbg := r1.(*ssa.DebugRef); dbg {
					continue
				}
				if !ok || inner.X != ssa.Value(outer) {
					c.Undec(rule, key, r1.Pos(), "%s takes a whole row or an address of attacks.InBetween", fnName(fn))
					continue
				}
				for _, r2 := range *inner.Referrers() {
					ld, ok := r2.(*ssa.UnOp)
					if _, dbg := r2.(*ssa.DebugRef); dbg {
						continue
					}
					if !ok || ld.Op != token.MUL {
						c.Undec(rule, key, r2.Pos(), "%s does something other than loading attacks.InBetween[a][b]", fnName(fn))
						continue
					}
					n++
					c12EndsMasked(c, p, rule, key, fn, ld, [2]ssa.Value{outer.Index, inner.Index})
				}
			}
		})
	}
	c.Floor(rule, n, 1, "reads of attacks.InBetween outside package attacks")
}

func c12OrTerms(v ssa.Value, out []ssa.Value) []ssa.Value {
	v = stripConv(v)
	if b, ok := v.(*ssa.BinOp); ok && b.Op == token.OR {
		return c12OrTerms(b.Y, c12OrTerms(b.X, out))
	}
	return append(out, v)
}

// c12Covers: the bitboard term always contains the bit of square end —
// term == 1<<end, end == term.LowestSet(), or term == BitBoardFromSquares(…end…).
func c12Covers(term, end ssa.Value) bool {
	end = stripConv(end)
	if call, ok := end.(*ssa.Call); ok && objName(calleeObj(call)) == "chess.(BitBoard).LowestSet" && len(call.Call.Args) == 1 && sameValue(call.Call.Args[0], term, 0) {
		return true
	}
	if shl, ok := term.(*ssa.BinOp); ok && shl.Op == token.SHL {
		if k, isC := constOf(shl.X); isC && k == 1 && sameValue(shl.Y, end, 0) {
			return true
		}
	}
	// chess.BitBoardFromSquares(..., end, ...): the variadic slice is a fresh array
	if call, ok := term.(*ssa.Call); ok && objName(calleeObj(call)) == "chess.BitBoardFromSquares" && len(call.Call.Args) == 1 {
		if sl, ok := call.Call.Args[0].(*ssa.Slice); ok {
			if arr, ok := sl.X.(*ssa.Alloc); ok && arr.Referrers() != nil {
				for _, r := range *arr.Referrers() {
					if ia, ok := r.(*ssa.IndexAddr); ok && ia.Referrers() != nil {
						for _, r2 := range *ia.Referrers() {
							if st, ok := r2.(*ssa.Store); ok && st.Addr == ssa.Value(ia) && sameValue(st.Val, end, 0) {
								return true
							}
						}
					}
				}
			}
		}
	}
	return false
}

// c12CallSites lists the static call sites of fn in chess-3; complete is false
// when fn is also used as a value (unknown callers).
func c12CallSites(p *Prog, fn *ssa.Function) (sites []ssa.CallInstruction, complete bool) {
	complete = true
	for _, f := range p.OwnFuncs() {
		allInstrs(f, func(in ssa.Instruction) {
			if ci, ok := in.(ssa.CallInstruction); ok && ci.Common().StaticCallee() == fn {
				sites = append(sites, ci)
				for _, a := range ci.Common().Args {
					if a == ssa.Value(fn) {
						complete = false
					}
				}
				return
			}
			for _, op := range in.Operands(nil) {
				if *op == ssa.Value(fn) {
					complete = false
				}
			}
		})
	}
	return
}

func c12ParamIndex(fn *ssa.Function, v ssa.Value) int {
	for i, q := range fn.Params {
		if ssa.Value(q) == stripConv(v) {
			return i
		}
	}
	return -1
}

// c12EndsMasked follows the loaded value through and-operations — also out of
// a helper that returns it and into a chess-3 helper it is passed to together
// with the end squares; every other use must see both end squares removed.
func c12EndsMasked(c *Ctx, p *Prog, rule, key string, fn *ssa.Function, ld ssa.Value, ends [2]ssa.Value) {
	type state struct {
		ends    [2]ssa.Value
		covered [2]bool
		unknown bool // something not understood was and-ed off / a context could not be followed
	}
	type sink struct {
		in      ssa.Instruction
		missing int
		unknown bool
	}
	var sinks []sink
	paths := 0
	absorb := func(st state, terms []ssa.Value) state {
		for _, t := range terms {
			c0, c1 := c12Covers(t, st.ends[0]), c12Covers(t, st.ends[1])
			st.covered[0], st.covered[1] = st.covered[0] || c0, st.covered[1] || c1
			// a removed term that is not recognisably the bitboard of one end square
			// may or may not contain a missing end: undecided rather than violated
			st.unknown = st.unknown || !(c0 || c1)
		}
		return st
	}
	var walk func(v ssa.Value, st state, depth int)
	walk = func(v ssa.Value, st state, depth int) {
		miss := 0
		for _, ok := range st.covered {
			if !ok {
				miss++
			}
		}
		if miss == 0 {
			paths++
			return
		}
		if v.Referrers() == nil || depth > 8 {
			sinks = append(sinks, sink{nil, miss, true})
			return
		}
		for _, r := range *v.Referrers() {
			switch x := r.(type) {
			case *ssa.DebugRef:
				continue
			case *ssa.BinOp:
				if x.Op == token.AND {
					other := x.Y
					if x.Y == v {
						other = x.X
					}
					nst := st
					if u, ok := stripConv(other).(*ssa.UnOp); ok && u.Op == token.XOR {
						nst = absorb(st, c12OrTerms(u.X, nil))
					}
					walk(x, nst, depth+1)
					continue
				}
				if x.Op == token.AND_NOT && x.X == v {
					walk(x, absorb(st, c12OrTerms(x.Y, nil)), depth+1)
					continue
				}
			case *ssa.ChangeType:
				walk(x, st, depth+1)
				continue
			case *ssa.Return:
				// the helper returns the (partly) unmasked set: the callers must finish the job
				sites, complete := c12CallSites(p, x.Parent())
				if len(x.Results) == 1 && complete && len(sites) > 0 && depth < 6 {
					for _, cs := range sites {
						call, isCall := cs.(*ssa.Call)
						if !isCall {
							continue // go/defer: result discarded
						}
						nst, ok := st, true
						for i := range nst.ends {
							if nst.covered[i] {
								continue
							}
							if k := c12ParamIndex(x.Parent(), nst.ends[i]); k >= 0 && k < len(call.Call.Args) {
								nst.ends[i] = call.Call.Args[k]
							} else {
								ok = false
							}
						}
						if !ok {
							sinks = append(sinks, sink{x, miss, true})
							continue
						}
						walk(call, nst, depth+2)
					}
					continue
				}
				sinks = append(sinks, sink{x, miss, true})
				continue
			case ssa.CallInstruction:
				// passed to a chess-3 helper together with the end squares: follow the parameter
				callee := x.Common().StaticCallee()
				if callee != nil && isOwn(callee) && callee.Blocks != nil && !x.Common().IsInvoke() && len(x.Common().Args) == len(callee.Params) && depth < 6 {
					nst, ok, at := st, true, -1
					for j, a := range x.Common().Args {
						if a == v {
							at = j
						}
					}
					for i := range nst.ends {
						if nst.covered[i] {
							continue
						}
						k := -1
						for j, a := range x.Common().Args {
							if sameValue(a, nst.ends[i], 0) {
								k = j
							}
						}
						if k < 0 {
							ok = false
						} else {
							nst.ends[i] = callee.Params[k]
						}
					}
					if ok && at >= 0 {
						walk(callee.Params[at], nst, depth+2)
						continue
					}
				}
			}
			sinks = append(sinks, sink{r, miss, st.unknown})
		}
	}
	walk(ld, state{ends: ends}, 0)
	if len(sinks) == 0 {
		c.Ok(rule, key, ld.Pos(), "%s: attacks.InBetween[a][b] is and-ed with the complement of both end squares on all %d use path(s) before any other use", fnName(fn), paths)
		return
	}
	for _, s := range sinks {
		what, hard := "an unknown use", false
		switch x := s.in.(type) {
		case ssa.CallInstruction:
			// BitBoard's own helpers (Count, LowestSet, …) may legitimately see the inclusive set
			f := calleeObj(x)
			what, hard = "a call argument", !(f != nil && f.Pkg() != nil && relPkg(f.Pkg().Path()) == "chess")
		case *ssa.Return:
			what = "a value returned to callers that cannot be followed"
		case *ssa.Store:
			what, hard = "a stored value", true
		case *ssa.BinOp:
			what, hard = "an operand of "+x.Op.String(), x.Op == token.OR
		case *ssa.Phi:
			what = "a merged value"
		}
		pos := ld.Pos()
		if s.in != nil && s.in.Pos().IsValid() {
			pos = s.in.Pos()
		}
		if hard && !s.unknown {
			c.Fail(rule, key, pos, "%s: attacks.InBetween[a][b] (stored inclusive of both end squares) becomes %s with %d end square(s) not and-ed off: the end squares are treated as squares in between", fnName(fn), what, s.missing)
		} else {
			why := "this use is not understood"
			if s.unknown {
				why = "a term that is and-ed off is not recognisable as the bitboard of an end square (1<<sq, the board sq was taken from with LowestSet, BitBoardFromSquares), or the value leaves the function in a way that is not followed"
			}
			c.Undec(rule, key, pos, "%s: attacks.InBetween[a][b] becomes %s with %d end square(s) not provably and-ed off; %s", fnName(fn), what, s.missing, why)
		}
	}
}

// ---------------------------------------------------------------- R7

// C12.R7 — the fill of the in-between table. Decided for the recognised
// coordinate-walk form only (policy as R4): the form is recognised
// structurally, each part is its own obligation; any other way of filling the
// table is undecided, a violation is reported only where a fully recognised
// part is itself wrong. Nothing is executed or tabulated: the only enumeration
// is over the checker's own definition of the recognised alignment predicates.

// c12Key names a coordinate: the counter of a full-range loop over 0..7
// (part 0), or the file ('f') / rank ('r') of the counter of a full-range loop
// over the squares 0..63.
type c12Key struct {
	phi  *ssa.Phi
	part byte
}

type c12Pt struct{ file, rank c12Key }

func (k c12Key) String() string {
	n := k.phi.Comment
	if n == "" || strings.HasPrefix(n, "rangeint") {
		n = k.phi.Name()
	}
	switch k.part {
	case 'f':
		return "file(" + n + ")"
	case 'r':
		return "rank(" + n + ")"
	}
	return n
}

// c12Counter: v is the counter of a loop 0..n-1 (n = 8 or 64).
func c12Counter(v ssa.Value, n int64) *ssa.Phi {
	if ph, _, start, bound, _ := c12CountLoop(v); ph != nil && start == 0 && bound == n {
		return ph
	}
	return nil
}

// c12Coord resolves x to a coordinate key.
func c12Coord(x c12V) (c12Key, bool) {
	x = c12Res(x, true)
	if ph := c12Counter(x.v, 8); ph != nil {
		return c12Key{ph, 0}, true
	}
	b, ok := x.v.(*ssa.BinOp)
	if !ok {
		return c12Key{}, false
	}
	k, isC := constOf(c12Res(c12V{b.Y, x.env}, true).v)
	if _, lit := c12Res(c12V{b.Y, x.env}, true).v.(*ssa.Const); !isC || !lit {
		return c12Key{}, false
	}
	in := c12V{b.X, x.env}
	if b.Op == token.AND && k == 7 { // (s>>3)&7 is s>>3 for a square
		if key, ok := c12Coord(in); ok && key.part == 'r' {
			return key, true
		}
	}
	sq := c12Counter(c12Res(in, true).v, 64)
	if sq == nil {
		return c12Key{}, false
	}
	switch {
	case b.Op == token.AND && k == 7, b.Op == token.REM && k == 8:
		return c12Key{sq, 'f'}, true
	case b.Op == token.SHR && k == 3, b.Op == token.QUO && k == 8:
		return c12Key{sq, 'r'}, true
	}
	return c12Key{}, false
}

// c12SqParts: x is rank*8+file in one of the spellings (<<3 or *8, + or |);
// returns the file and the rank operand.
func c12SqParts(x c12V) (lo, hi c12V, ok bool) {
	x = c12Res(x, true)
	b, isB := x.v.(*ssa.BinOp)
	if !isB || (b.Op != token.ADD && b.Op != token.OR) {
		return lo, hi, false
	}
	times8 := func(v c12V) (c12V, bool) {
		v = c12Res(v, true)
		m, ok := v.v.(*ssa.BinOp)
		if !ok {
			return v, false
		}
		kx, xc := constOf(c12Res(c12V{m.X, v.env}, true).v)
		ky, yc := constOf(c12Res(c12V{m.Y, v.env}, true).v)
		switch {
		case m.Op == token.SHL && yc && ky == 3, m.Op == token.MUL && yc && ky == 8:
			return c12V{m.X, v.env}, true
		case m.Op == token.MUL && xc && kx == 8:
			return c12V{m.Y, v.env}, true
		}
		return v, false
	}
	if h, ok := times8(c12V{b.X, x.env}); ok {
		return c12V{b.Y, x.env}, h, true
	}
	if h, ok := times8(c12V{b.Y, x.env}); ok {
		return c12V{b.X, x.env}, h, true
	}
	return lo, hi, false
}

// c12SqExpr: x denotes the square of a point given by coordinate keys.
func c12SqExpr(x c12V) (c12Pt, bool) {
	if sq := c12Counter(c12Res(x, true).v, 64); sq != nil {
		return c12Pt{c12Key{sq, 'f'}, c12Key{sq, 'r'}}, true
	}
	lo, hi, ok := c12SqParts(x)
	if !ok {
		return c12Pt{}, false
	}
	f, okf := c12Coord(lo)
	r, okr := c12Coord(hi)
	counters := f.part == 0 && r.part == 0 && f.phi != r.phi
	ofSquare := f.part == 'f' && r.part == 'r' && f.phi == r.phi
	if !okf || !okr || !(counters || ofSquare) {
		return c12Pt{}, false
	}
	return c12Pt{f, r}, true
}

// c12BitOf: x is BitBoard(1) << inner.
func c12BitOf(x c12V) (c12V, bool) {
	x = c12Res(x, false)
	if shl, ok := x.v.(*ssa.BinOp); ok && shl.Op == token.SHL {
		if k, isC := constOf(c12Res(c12V{shl.X, x.env}, false).v); isC && k == 1 {
			return c12V{shl.Y, x.env}, true
		}
	}
	return x, false
}

func c12OrSplit(x c12V, out []c12V) []c12V {
	x = c12Res(x, false)
	if b, ok := x.v.(*ssa.BinOp); ok && b.Op == token.OR {
		return c12OrSplit(c12V{b.Y, x.env}, c12OrSplit(c12V{b.X, x.env}, out))
	}
	return append(out, x)
}

// c12NatLoop: the blocks of the natural loop of the back edge latch -> hdr.
func c12NatLoop(hdr, latch *ssa.BasicBlock) map[*ssa.BasicBlock]bool {
	in := map[*ssa.BasicBlock]bool{hdr: true}
	stack := []*ssa.BasicBlock{latch}
	for len(stack) > 0 {
		b := stack[len(stack)-1]
		stack = stack[:len(stack)-1]
		if in[b] {
			continue
		}
		in[b] = true
		stack = append(stack, b.Preds...)
	}
	return in
}

// c12OnlyTestExits: the counting loop of phi is left only through its own loop
// test (no break, return, goto or labelled continue cuts its range short).
func c12OnlyTestExits(phi *ssa.Phi, latch *ssa.BasicBlock) (bool, string) {
	_, _, _, _, _, test := c12CountLoopTest(phi)
	loop := c12NatLoop(phi.Block(), latch)
	for b := range loop {
		for _, s := range c12LiveSuccs(b) {
			if loop[s] {
				continue
			}
			if test == nil || b != test.Block() || s != b.Succs[1] {
				return false, fmt.Sprintf("block %d leaves the loop of %s other than through the loop test (break, return, goto or labelled continue)", b.Index, c12Key{phi, 0})
			}
		}
	}
	return true, ""
}

// c12Geo evaluates the recognised alignment predicates by the checker's own definition.
func c12Geo(fa, ra, fb, rb int) (atoms map[string]bool, aligned bool) {
	abs := func(x int) int {
		if x < 0 {
			return -x
		}
		return x
	}
	df, dr := fa-fb, ra-rb
	atoms = map[string]bool{"F": df == 0, "R": dr == 0, "D": abs(df) == abs(dr), "D1": df == dr, "D2": df == -dr}
	return atoms, df == 0 || dr == 0 || abs(df) == abs(dr)
}

// c12Consistent: over all pairs of squares whose recognised predicates take the
// decided values: is some pair aligned, is some pair unaligned (with witnesses).
func c12Consistent(asg map[string]bool) (al, un string) {
	for a := 0; a < 64; a++ {
		for b := 0; b < 64; b++ {
			atoms, aligned := c12Geo(a&7, a>>3, b&7, b>>3)
			ok := true
			for k, v := range asg {
				ok = ok && atoms[k] == v
			}
			if !ok {
				continue
			}
			// (a pair with no square strictly in between may rightly get the empty set: ends are disregarded)
			far := (a&7)-(b&7) > 1 || (b&7)-(a&7) > 1 || (a>>3)-(b>>3) > 1 || (b>>3)-(a>>3) > 1
			if aligned && far && al == "" {
				al = c12Sq(a) + "-" + c12Sq(b)
			} else if !aligned && un == "" {
				un = c12Sq(a) + "-" + c12Sq(b)
			}
		}
	}
	return
}

func c12Asg(asg map[string]bool) string {
	names := map[string]string{"F": "fileA==fileB", "R": "rankA==rankB", "D": "|dFile|==|dRank|", "D1": "dFile==dRank", "D2": "dFile==-dRank"}
	var s []string
	for _, k := range sortedKeys(asg) {
		if asg[k] {
			s = append(s, names[k])
		} else {
			s = append(s, "!("+names[k]+")")
		}
	}
	return strings.Join(s, " && ")
}

func c12Signed(x c12V, name string) (c12V, bool) {
	x = c12Res(x, false)
	call, ok := x.v.(*ssa.Call)
	if !ok || len(call.Call.Args) != 1 || objName(calleeObj(call)) != name {
		return x, false
	}
	return c12V{call.Call.Args[0], x.env}, true
}

// c12Diff: x is u - v for two coordinates.
func c12Diff(x c12V) (u, v c12Key, ok bool) {
	_, l, r, isSub := c12Bin(x, token.SUB)
	if !isSub {
		return u, v, false
	}
	u, ok1 := c12Coord(l)
	v, ok2 := c12Coord(r)
	return u, v, ok1 && ok2
}

type c12IterPath struct {
	stores  []*ssa.Store
	asg     map[string]bool
	unknown []string
}

// c12R7 is exported to other properties (C09 uses the table as a premise).
func c12R7(c *Ctx, p *Prog) {
	const rule = "C12.R7"
	const gname = c12Pkg + ".InBetween"
	n := 0
	defer func() { c.Floor(rule, n, 1, "fill of attacks.InBetween analysed") }()
	pk := p.SSAPkg(c12Pkg)
	if pk == nil || !p.hasGlobal(gname) {
		c.Anchor(rule, gname)
		return
	}
	g := pk.Members["InBetween"].(*ssa.Global)
	// --- the fill: all stores directly in one function, which never reads the table
	var fn *ssa.Function
	var stores []*ssa.Store
	for _, s := range c12CollectWriters(p)[gname] {
		st, isStore := s.In.(*ssa.Store)
		if s.What != "" || s.Via != nil || !isStore || (fn != nil && fn != s.Fn) {
			c.Undec(rule, "fill-site", s.Pos, "%s is written in more than one function, through a pointer or its address escapes (%s %s): only a direct fill in one function is understood", gname, fnName(s.Fn), s.What)
			return
		}
		fn, stores = s.Fn, append(stores, st)
	}
	if fn == nil {
		c.Anchor(rule, "a store to "+gname)
		return
	}
	n = 1
	key := fnName(fn)
	reads := 0
	for _, f := range withClosures(fn) {
		allInstrs(f, func(in ssa.Instruction) {
			if u, ok := in.(*ssa.UnOp); ok && u.Op == token.MUL {
				if _, gl, _ := rootOfAddr(u.X); gl == gname {
					reads++
				}
			}
		})
	}
	if reads > 0 {
		c.Undec(rule, key+"#fill-site", fn.Pos(), "%s reads %s while filling it (%d loads): what a cell receives depends on the order of the fill, which is not decided", key, gname, reads)
		return
	}
	c.OkTrivial(rule, key+"#fill-site", fn.Pos(), "%s is the only writer of %s (%d direct stores) and does not read it", key, gname, len(stores))

	// --- the two points: every store addresses InBetween[sq(A)][sq(B)]
	var A, B c12Pt
	for i, st := range stores {
		var a, b c12Pt
		ok := false
		if in, isIA := st.Addr.(*ssa.IndexAddr); isIA {
			if out, isOut := in.X.(*ssa.IndexAddr); isOut && out.X == ssa.Value(g) {
				var ok1, ok2 bool
				a, ok1 = c12SqExpr(c12Top(out.Index))
				b, ok2 = c12SqExpr(c12Top(in.Index))
				ok = ok1 && ok2
			}
		}
		if !ok || (i > 0 && (a != A || b != B)) {
			c.Undec(rule, key+"#domain", st.Pos(), "%s: a store does not address %s[rankA*8+fileA][rankB*8+fileB] for the coordinates (or squares) of full-range counting loops, or two stores address different cells: the coordinate-walk form is not recognised", key, gname)
			return
		}
		A, B = a, b
	}
	// --- domain: four full-range loops over 0..7 (or two over the squares), properly nested, left only by their tests
	loops := map[*ssa.Phi]*ssa.BasicBlock{}
	for _, k := range []c12Key{A.file, A.rank, B.file, B.rank} {
		_, latch, _, _, _ := c12CountLoop(k.phi)
		loops[k.phi] = latch
	}
	coordForm := A.file.part == 0 && B.file.part == 0 && len(loops) == 4
	squareForm := A.file.part == 'f' && B.file.part == 'f' && len(loops) == 2
	if !coordForm && !squareForm {
		c.Undec(rule, key+"#domain", fn.Pos(), "%s: the two points are not given by four distinct coordinate loops or two distinct square loops (A=(%s,%s), B=(%s,%s))", key, A.file, A.rank, B.file, B.rank)
		return
	}
	var order []*ssa.Phi
	for ph := range loops {
		order = append(order, ph)
	}
	sort.Slice(order, func(i, j int) bool {
		if order[i].Block() != order[j].Block() {
			return order[i].Block().Dominates(order[j].Block())
		}
		return order[i].Pos() < order[j].Pos()
	})
	domainOK := true
	headers := map[*ssa.BasicBlock]bool{}
	for i, ph := range order {
		headers[ph.Block()] = true
		if ok, why := c12OnlyTestExits(ph, loops[ph]); !ok {
			c.Undec(rule, key+"#domain", ph.Pos(), "%s: %s — some (A, B) pairs may never be reached", key, why)
			domainOK = false
		}
		if i > 0 {
			out := order[i-1]
			if out.Block() == ph.Block() || !c12OnEveryPath(out.Block(), ph.Block(), loops[out]) || !c12NatLoop(out.Block(), loops[out])[ph.Block()] {
				c.Undec(rule, key+"#domain", ph.Pos(), "%s: the loop of %s is not run in full on every iteration of the loop of %s", key, c12Key{ph, 0}, c12Key{out, 0})
				domainOK = false
			}
		}
	}
	if !domainOK {
		return
	}
	if coordForm {
		c.Ok(rule, key+"#domain", fn.Pos(), "%s: four nested full-range loops over 0..7 (fileA=%s, rankA=%s, fileB=%s, rankB=%s), each left only by its loop test; every store addresses %s[rankA*8+fileA][rankB*8+fileB]", key, A.file, A.rank, B.file, B.rank, gname)
	} else {
		c.Ok(rule, key+"#domain", fn.Pos(), "%s: two nested full-range loops over the squares 0..63 (A=%s, B=%s), each left only by its loop test; every store addresses %s[A][B]", key, c12Key{A.file.phi, 0}, c12Key{B.file.phi, 0}, gname)
	}

	// --- one iteration of the innermost body, path by path
	inner := order[len(order)-1]
	hdr, latch := inner.Block(), loops[inner]
	isCounter := func(v ssa.Value) bool {
		v = stripConv(v)
		if inc, ok := v.(*ssa.BinOp); ok && inc.Op == token.ADD {
			v = stripConv(inc.X)
		}
		ph, ok := v.(*ssa.Phi)
		return ok && loops[ph] != nil
	}
	isWalkPhi := func(v ssa.Value) bool {
		ph, ok := c12Res(c12Top(v), true).v.(*ssa.Phi)
		return ok && loops[ph] == nil && !headers[ph.Block()]
	}
	// classify: alignment atom, loop control / walk test (ignored), or unknown
	classify := func(v ssa.Value) (atom string, neg bool, kind int) { // kind 0 atom, 1 ignore, 2 unknown
		cmp, ok := v.(*ssa.BinOp)
		if !ok {
			return "", false, 2
		}
		_, xLit := stripConv(cmp.X).(*ssa.Const)
		_, yLit := stripConv(cmp.Y).(*ssa.Const)
		if isWalkPhi(cmp.X) || isWalkPhi(cmp.Y) || (isCounter(cmp.X) && yLit) || (isCounter(cmp.Y) && xLit) {
			return "", false, 1 // the test of a counting loop or of the walk loop
		}
		if cmp.Op != token.EQL && cmp.Op != token.NEQ {
			return "", false, 2
		}
		neg = cmp.Op == token.NEQ
		x, y := c12Top(cmp.X), c12Top(cmp.Y)
		if kx, ok1 := c12Coord(x); ok1 {
			if ky, ok2 := c12Coord(y); ok2 {
				switch {
				case (kx == A.file && ky == B.file) || (kx == B.file && ky == A.file):
					return "F", neg, 0
				case (kx == A.rank && ky == B.rank) || (kx == B.rank && ky == A.rank):
					return "R", neg, 0
				}
			}
			return "", false, 2
		}
		sign := func(u, v c12Key) (file bool, s int, ok bool) {
			switch {
			case u == A.file && v == B.file:
				return true, 1, true
			case u == B.file && v == A.file:
				return true, -1, true
			case u == A.rank && v == B.rank:
				return false, 1, true
			case u == B.rank && v == A.rank:
				return false, -1, true
			}
			return false, 0, false
		}
		// dFile == 0 / dRank == 0
		for _, o := range [][2]c12V{{x, y}, {y, x}} {
			if k, isC := constOf(c12Res(o[1], true).v); isC && k == 0 {
				if _, lit := c12Res(o[1], true).v.(*ssa.Const); lit {
					if u, v, ok := c12Diff(o[0]); ok {
						if f, _, okS := sign(u, v); okS && f {
							return "F", neg, 0
						} else if okS {
							return "R", neg, 0
						}
					}
					return "", false, 2
				}
			}
		}
		if ax, okx := c12Signed(x, "chess.Abs"); okx {
			if ay, oky := c12Signed(y, "chess.Abs"); oky {
				u1, v1, ok1 := c12Diff(ax)
				u2, v2, ok2 := c12Diff(ay)
				if ok1 && ok2 {
					f1, _, s1 := sign(u1, v1)
					f2, _, s2 := sign(u2, v2)
					if s1 && s2 && f1 != f2 {
						return "D", neg, 0
					}
				}
			}
			return "", false, 2
		}
		u1, v1, ok1 := c12Diff(x)
		u2, v2, ok2 := c12Diff(y)
		if ok1 && ok2 {
			f1, s1, k1 := sign(u1, v1)
			f2, s2, k2 := sign(u2, v2)
			if k1 && k2 && f1 != f2 {
				if s1*s2 > 0 {
					return "D1", neg, 0
				}
				return "D2", neg, 0
			}
		}
		return "", false, 2
	}
	var paths []c12IterPath
	complete := enumBlockPaths(hdr, func(from, to *ssa.BasicBlock) bool { return headers[to] }, 200000, func(bp *bpath) {
		if bp.End != "arrive" || !headers[bp.Arrive] {
			return // a turn of an inner loop, or the way out of the function
		}
		at, passes := bp.pos[latch]
		if !passes {
			return // the loop test failed before the body: not an iteration
		}
		ip := c12IterPath{asg: map[string]bool{}}
		for _, pc := range bp.Conds {
			if pc.At > at {
				break
			}
			if cmp, ok := pc.V.(*ssa.BinOp); ok {
				_, xl := cmp.X.(*ssa.Const)
				_, yl := cmp.Y.(*ssa.Const)
				if xl && yl { // range-over-int pre-test 0 < n: a dead edge is no path
					if live := c12LiveSuccs(bp.Blocks[pc.At]); len(live) == 1 && (live[0] == bp.Blocks[pc.At].Succs[0]) != pc.True {
						return
					}
					continue
				}
			}
			atom, neg, kind := classify(pc.V)
			switch kind {
			case 0:
				val := pc.True != neg
				if old, seen := ip.asg[atom]; seen && old != val {
					return // contradictory: infeasible
				}
				ip.asg[atom] = val
			case 2:
				ip.unknown = append(ip.unknown, fmt.Sprintf("%s at %s", pc.V.String(), p.Rel(pc.V.Pos())))
			}
		}
		bp.instrsOnPath(nil, func(in ssa.Instruction, i int) {
			if st, ok := in.(*ssa.Store); ok && i <= at {
				if _, gl, _ := rootOfAddr(st.Addr); gl == gname {
					ip.stores = append(ip.stores, st)
				}
			}
		})
		paths = append(paths, ip)
	})
	if !complete || len(paths) == 0 {
		c.Undec(rule, key+"#coverage", fn.Pos(), "%s: the paths through one iteration of the innermost loop could not be enumerated (%d found)", key, len(paths))
		return
	}
	// coverage: nothing but the recognised alignment predicates decides what an iteration stores
	covOK := true
	for _, ip := range paths {
		if len(ip.unknown) > 0 || len(ip.stores) > 1 {
			what := "no store"
			pos := fn.Pos()
			if len(ip.stores) > 0 {
				what, pos = fmt.Sprintf("%d store(s)", len(ip.stores)), ip.stores[0].Pos()
			}
			c.Undec(rule, key+"#coverage", pos, "%s: an iteration with %s is governed by condition(s) other than fileA==fileB, rankA==rankB, |dFile|==|dRank| (%s) or stores twice: which pairs are skipped or filled differently is not decided", key, what, strings.Join(ip.unknown, "; "))
			covOK = false
			break
		}
	}
	if !covOK {
		return
	}
	c.Ok(rule, key+"#coverage", fn.Pos(), "%s: each of the %d paths through one iteration stores at most once to %s[A][B] and is selected by the recognised alignment predicates only", key, len(paths), gname)

	// alignment: non-zero exactly for aligned pairs
	segs := map[*ssa.Store]bool{}
	alignOK, feasible := true, 0
	said := map[string]bool{}
	for _, ip := range paths {
		al, un := c12Consistent(ip.asg)
		if al == "" && un == "" {
			continue // no pair takes this path
		}
		feasible++
		nonzero := false
		pos := fn.Pos()
		if len(ip.stores) == 1 {
			pos = ip.stores[0].Pos()
			if k, isC := constOf(ip.stores[0].Val); !isC || k != 0 {
				nonzero = true
				segs[ip.stores[0]] = true
			}
		}
		if tag := fmt.Sprint(nonzero, c12Asg(ip.asg)); said[tag] {
			continue // the same case reached through another loop exit
		} else {
			said[tag] = true
		}
		switch {
		case nonzero && un != "":
			c.Fail(rule, key+"#alignment", pos, "%s: under %s a non-empty set is stored although unaligned pairs take this path, e.g. %s", key, c12Asg(ip.asg), un)
			alignOK = false
		case !nonzero && al != "":
			c.Fail(rule, key+"#alignment", pos, "%s: under %s the cell is left/set empty although aligned pairs take this path, e.g. %s: their in-between squares are lost", key, c12Asg(ip.asg), al)
			alignOK = false
		}
	}
	if alignOK {
		c.Ok(rule, key+"#alignment", fn.Pos(), "%s: over %d feasible paths the non-empty store executes exactly when fileA==fileB || rankA==rankB || |dFile|==|dRank|, the other pairs get 0 (or keep the zero value)", key, feasible)
	}

	// walk: what the non-empty store holds
	if len(segs) == 0 {
		c.Undec(rule, key+"#walk", fn.Pos(), "%s: no store of a non-empty set found", key)
		return
	}
	for _, st := range stores {
		if !segs[st] {
			continue
		}
		verdict, msg := c12MatchWalk(st, A, B)
		switch verdict {
		case 0:
			c.Ok(rule, key+"#walk", st.Pos(), "%s: %s", key, msg)
		case 1:
			c.Undec(rule, key+"#walk", st.Pos(), "%s: %s", key, msg)
		default:
			c.Fail(rule, key+"#walk", st.Pos(), "%s: %s", key, msg)
		}
	}
}

// c12MatchWalk recognises the stored value as the accumulation of the squares
// visited walking from A towards B, together with B. verdict: 0 ok, 1 not
// recognised (undecided), 2 recognised and wrong.
func c12MatchWalk(st *ssa.Store, A, B c12Pt) (verdict int, msg string) {
	var acc *ssa.Phi
	bitOf := map[c12Pt]bool{} // end squares or-ed in besides the walk
	for _, t := range c12OrSplit(c12Top(st.Val), nil) {
		if in, ok := c12BitOf(t); ok {
			pt, isPt := c12SqExpr(in)
			if !isPt || (pt != A && pt != B) {
				return 1, "the stored set contains a bit that is neither of the two end squares: not the recognised walk"
			}
			bitOf[pt] = true
			continue
		}
		ph, ok := t.v.(*ssa.Phi)
		if !ok || acc != nil {
			return 1, fmt.Sprintf("the stored value is not (accumulator of a walk loop) | bit(B): term %s", t.v)
		}
		acc = ph
	}
	if acc == nil || len(acc.Edges) != 2 {
		return 1, "the stored value has no accumulator carried round a walk loop"
	}
	W := acc.Block()
	// the accumulator: init 0 or bit(B); each turn ors bit(rank'*8+file') of the current walk coordinates
	li := -1
	var bitIn c12V
	for i, e := range acc.Edges {
		terms := c12OrSplit(c12Top(e), nil)
		if len(terms) != 2 {
			continue
		}
		for k := range terms {
			if terms[k].v == ssa.Value(acc) {
				if in, ok := c12BitOf(terms[1-k]); ok {
					li, bitIn = i, in
				}
			}
		}
	}
	if li < 0 {
		return 1, "the accumulator is not advanced by result |= 1 << (rank*8+file)"
	}
	init := c12Res(c12Top(acc.Edges[1-li]), false)
	if k, isC := constOf(init.v); !isC || k != 0 {
		in, ok := c12BitOf(init)
		pt, isPt := c12SqExpr(in)
		if !ok || !isPt || (pt != A && pt != B) {
			return 1, "the accumulator starts neither empty nor with the bit of an end square"
		}
		bitOf[pt] = true
	}
	lo, hi, ok := c12SqParts(bitIn)
	if !ok {
		return 1, "the walk steps a square index (1 << sq), not (file, rank) coordinates: a step that wraps round the board edge is not excluded"
	}
	fW, ok1 := c12Res(lo, true).v.(*ssa.Phi)
	rW, ok2 := c12Res(hi, true).v.(*ssa.Phi)
	if !ok1 || !ok2 || fW.Block() != W || rW.Block() != W || fW == rW || len(fW.Edges) != 2 || len(rW.Edges) != 2 {
		return 1, "the visited square is not built from two coordinates carried round the walk loop"
	}
	// orientation: the walk may run from A to B or from B to A; it is judged from the end it starts at
	if s0, okS := c12Coord(c12Top(fW.Edges[1-li])); okS && (s0 == B.file || s0 == B.rank) {
		A, B = B, A
	}
	latch := W.Preds[li]
	loop := c12NatLoop(W, latch)
	if loop[st.Block()] {
		return 1, "the store is inside the walk loop"
	}
	// start and step of each coordinate
	check := func(ph *ssa.Phi, a, b c12Key, what string) (int, string) {
		start, okS := c12Coord(c12Top(ph.Edges[1-li]))
		if !okS || start != a {
			return 1, fmt.Sprintf("the %s of the walk does not start at the %s of the same end square as the other coordinate", what, what)
		}
		_, l, r, isAdd := c12Bin(c12Top(ph.Edges[li]), token.ADD)
		if !isAdd {
			return 1, fmt.Sprintf("the %s of the walk is not advanced by an addition", what)
		}
		step := r
		if c12Res(r, true).v == ssa.Value(ph) {
			step = l
		} else if c12Res(l, true).v != ssa.Value(ph) {
			return 1, fmt.Sprintf("the %s of the walk is not advanced by %s += step", what, what)
		}
		arg, isSig := c12Signed(c12Res(step, true), "chess.Signum")
		if !isSig {
			return 1, fmt.Sprintf("the %s step is not chess.Signum(%sB - %sA)", what, what, what)
		}
		u, v, isDiff := c12Diff(arg)
		switch {
		case isDiff && u == b && v == a:
			return 0, ""
		case isDiff && u == a && v == b:
			return 2, fmt.Sprintf("the %s step is the sign of (start - end): the walk moves away from the end square it is compared with (%s %s)", what, a, b)
		case isDiff && (u == A.file || u == A.rank || u == B.file || u == B.rank) && (v == A.file || v == A.rank || v == B.file || v == B.rank):
			return 2, fmt.Sprintf("the %s step is the sign of %s - %s, not of %sB - %sA", what, u, v, what, what)
		}
		return 1, fmt.Sprintf("the %s step is not chess.Signum(%sB - %sA)", what, what, what)
	}
	transposed := false
	if s, okS := c12Coord(c12Top(fW.Edges[1-li])); okS && (s == A.rank || s == B.rank) {
		if s2, ok2 := c12Coord(c12Top(rW.Edges[1-li])); ok2 && (s2 == A.file || s2 == B.file) {
			transposed = true
		}
	}
	if transposed {
		return 2, "the visited square is built as file*8+rank: the collected squares are mirrored on the a1-h8 diagonal"
	}
	if v, m := check(fW, A.file, B.file, "file"); v != 0 {
		return v, m
	}
	if v, m := check(rW, A.rank, B.rank, "rank"); v != 0 {
		return v, m
	}
	// the loop test: go on exactly while (file', rank') != (fileB, rankB)
	verdict, msg = 0, ""
	turns, leaves := 0, 0
	complete := enumBlockPaths(W, func(from, to *ssa.BasicBlock) bool { return !loop[to] }, 20000, func(bp *bpath) {
		if verdict != 0 {
			return
		}
		if bp.End != "arrive" {
			verdict, msg = 1, "the walk loop contains a return"
			return
		}
		asg := map[string]bool{}
		for _, pc := range bp.Conds {
			cmp, ok := pc.V.(*ssa.BinOp)
			if !ok || (cmp.Op != token.EQL && cmp.Op != token.NEQ) {
				verdict, msg = 1, fmt.Sprintf("the walk loop is governed by a condition that is not a comparison of the walk coordinates with B: %s", pc.V)
				return
			}
			x, y := c12Res(c12Top(cmp.X), true).v, c12Res(c12Top(cmp.Y), true).v
			if y == ssa.Value(fW) || y == ssa.Value(rW) {
				x, y = y, x
			}
			k, isK := c12Coord(c12Top(y))
			atom := ""
			switch {
			case isK && x == ssa.Value(fW) && k == B.file:
				atom = "WF"
			case isK && x == ssa.Value(rW) && k == B.rank:
				atom = "WR"
			default:
				verdict, msg = 1, fmt.Sprintf("the walk loop is governed by a condition that is not file'==fileB / rank'==rankB: %s", pc.V)
				return
			}
			val := pc.True != (cmp.Op == token.NEQ)
			if old, seen := asg[atom]; seen && old != val {
				return
			}
			asg[atom] = val
		}
		atB := asg["WF"] && asg["WR"]
		notAtB := (c12Has(asg, "WF") && !asg["WF"]) || (c12Has(asg, "WR") && !asg["WR"])
		if bp.Arrive == W {
			turns++
			if !notAtB && verdict == 0 {
				verdict, msg = 2, "the walk loop takes another turn on a path that does not establish (file', rank') != (fileB, rankB): it can step past B"
			}
		} else {
			leaves++
			if !atB && verdict == 0 {
				verdict, msg = 2, "the walk loop is left on a path that does not establish file'==fileB && rank'==rankB: for a pair that differs in one coordinate only (or in both) it stops before reaching B and in-between squares are lost"
			}
		}
	})
	if verdict != 0 {
		return verdict, msg
	}
	if !complete || turns == 0 || leaves == 0 {
		return 1, "the paths of the walk loop could not be enumerated"
	}
	if !bitOf[B] {
		return 1, fmt.Sprintf("the stored set is the walk from one end up to but without the other: the bit of the end square (%s, %s) is not or-ed in — not the recognised closed segment (harmless only for a consumer that masks both ends, see R5)", B.file, B.rank)
	}
	return 0, fmt.Sprintf("the stored set is the accumulation of 1<<(rank'*8+file') over the walk (file', rank') starting at one end, stepping by the signs of the coordinate differences towards the other end exactly while it is not reached, together with the bit of that end: the closed segment between A and B")
}

func c12Has(m map[string]bool, k string) bool { _, ok := m[k]; return ok }

// ---------------------------------------------------------------- mutants

func init() {
	const tab, atk, brd = "attacks/tables.go", "attacks/attacks.go", "board/attacks.go"
	addMutants(
		// R1
		Mutant{Name: "C12.R1-magic-tunable-at-runtime", Prop: "C12", File: atk, Quick: true,
			Old: "func KingMoves(from Square) BitBoard {", New: "func SetRookMagic(sq Square, m BitBoard) { rookMagics[sq] = m }\n\nfunc KingMoves(from Square) BitBoard {",
			Expect: "C12.R1/immutable:attacks.rookMagics"},
		Mutant{Name: "C12.R1-consumer-caches-into-inbetween", Prop: "C12", File: brd,
			Old: "\tdefenders = b.Block(blocked, b.STM)\n", New: "\tattacks.InBetween[kingSq][aSq] = blocked\n\tdefenders = b.Block(blocked, b.STM)\n",
			Expect: "C12.R1/immutable:attacks.InBetween"},
		Mutant{Name: "C12.R1-literal-patched-in-init", Prop: "C12", File: tab,
			Old: "\tinitBishopMagic()\n\tinitRookMagic()\n", New: "\tknightMoves[A1] |= 1 << C2\n\tinitBishopMagic()\n\tinitRookMagic()\n",
			Expect: "C12.R1/literal:attacks.knightMoves"},
		Mutant{Name: "C12.R1-table-written-through-helper-pointer", Prop: "C12", File: atk,
			Old:    "func KingMoves(from Square) BitBoard {",
			New:    "func patch(t *[64]BitBoard, sq Square, v BitBoard) { t[sq] |= v }\n\n// Tune lets a GUI widen a mask.\nfunc Tune(sq Square, v BitBoard) { patch(&rookMasks, sq, v) }\n\nfunc KingMoves(from Square) BitBoard {",
			Expect: "C12.R1/immutable:attacks.rookMasks"},
		// R2
		Mutant{Name: "C12.R2-rook-magic-bit-flipped", Prop: "C12", File: tab, Quick: true,
			Old: "0x2900804000800030", New: "0x2900804000800010", Expect: "C12.R2/attacks.RookMoves@a5"},
		Mutant{Name: "C12.R2-bishop-magic-bit-flipped", Prop: "C12", File: tab,
			Old: "0x000a018008008042", New: "0x000a018008008040", Expect: "C12.R2/attacks.BishopMoves@d4"},
		Mutant{Name: "C12.R2-bishop-mask-shortened", Prop: "C12", File: tab,
			Old: "0x0020100a000a1000, 0x0040221400142200,", New: "0x0020100a000a1000, 0x0000221400142200,", Expect: "C12.R2/attacks.BishopMoves@d4"},
		Mutant{Name: "C12.R2-lookup-shift-off-by-one", Prop: "C12", File: atk, Quick: true,
			Old: "return rookAttacks[from][((occ&mask)*magic)>>(64-shift)]", New: "return rookAttacks[from][((occ&mask)*magic)>>(63-shift)]",
			Expect: "C12.R2/attacks.RookMoves@"},
		Mutant{Name: "C12.R2-row-too-short", Prop: "C12", File: tab,
			Old: "var bishopAttacks [64][512]BitBoard", New: "var bishopAttacks [64][256]BitBoard", Expect: "C12.R2/attacks.BishopMoves@"},
		Mutant{Name: "C12.R2-lookup-unmasked", Prop: "C12", File: atk,
			Old: "return bishopAttacks[from][((occ&mask)*magic)>>(64-shift)]", New: "_ = mask\n\treturn bishopAttacks[from][(occ*magic)>>(64-shift)]",
			Expect: "C12.R2/attacks.BishopMoves#lookup-shape"},
		Mutant{Name: "C12.R2-index-helper-extracted-with-wrong-shift", Prop: "C12", File: atk,
			Old:    "return bishopAttacks[from][((occ&mask)*magic)>>(64-shift)]",
			New:    "return bishopAttacks[from][magicIndex(occ, mask, magic, shift)]\n}\n\nfunc magicIndex(occ, mask, magic BitBoard, bits byte) BitBoard {\n\treturn ((occ & mask) * magic) >> (63 - bits)",
			Expect: "C12.R2/attacks.BishopMoves@"},
		// R3
		Mutant{Name: "C12.R3-king-h1-wraps-to-a-file", Prop: "C12", File: tab, Quick: true,
			Old: "0x000000000000e0a0, 0x000000000000c040,", New: "0x000000000000e0a0, 0x000000000000c140,", Expect: "C12.R3/attacks.KingMoves@h1"},
		Mutant{Name: "C12.R3-knight-g1-loses-e2", Prop: "C12", File: tab,
			Old: "0x0000000000a01000, 0x0000000000402000,", New: "0x0000000000a00000, 0x0000000000402000,", Expect: "C12.R3/attacks.KnightMoves@g1"},
		// R4
		Mutant{Name: "C12.R4-bishop-table-filled-with-rook-walker", Prop: "C12", File: tab, Quick: true,
			Old: "attacks := calcBishopAttacks(sq, occ)", New: "attacks := calcRookAttacks(sq, occ)", Expect: "C12.R4/attacks.BishopMoves#fill-value"},
		Mutant{Name: "C12.R4-occupancy-advanced-before-store", Prop: "C12", File: tab,
			Old: "\t\t\trookAttacks[sq][(occ*magic)>>(64-shift)] = attacks\n\t\t\tocc = (occ - mask) & mask\n", New: "\t\t\tocc = (occ - mask) & mask\n\t\t\trookAttacks[sq][(occ*magic)>>(64-shift)] = attacks\n",
			Expect: "C12.R4/attacks.RookMoves#fill-"},
		Mutant{Name: "C12.R4-fill-uses-other-magics", Prop: "C12", File: tab,
			Old: "\t\tmagic := rookMagics[sq]\n\t\tshift := rookShifts[sq]\n\t\tocc := mask\n", New: "\t\tmagic := bishopMagics[sq]\n\t\tshift := rookShifts[sq]\n\t\tocc := mask\n",
			Expect: "C12.R4/attacks.RookMoves#roundtrip"},
		Mutant{Name: "C12.R4-last-square-not-filled", Prop: "C12", File: tab,
			Old: "func initRookMagic() {\n\tfor sq := range Squares {", New: "func initRookMagic() {\n\tfor sq := range Squares - 1 {",
			Expect: "C12.R4/attacks.RookMoves#square-loop"},
		Mutant{Name: "C12.R4-descending-enumeration-skips-empty", Prop: "C12", File: tab,
			Old: "\t\t\tbishopAttacks[sq][(occ*magic)>>(64-shift)] = attacks\n\t\t\tocc = (occ - mask) & mask\n\n\t\t\tif occ == mask {", New: "\t\t\tbishopAttacks[sq][(occ*magic)>>(64-shift)] = attacks\n\t\t\tocc = (occ - 1) & mask\n\n\t\t\tif occ == 0 {",
			Expect: "C12.R4/attacks.BishopMoves#fill-shape"},
		Mutant{Name: "C12.R4-counted-fill-one-step-short", Prop: "C12", File: tab,
			Old:    "\t\tshift := bishopShifts[sq]\n\t\tocc := mask\n\n\t\tfor {\n\t\t\tattacks := calcBishopAttacks(sq, occ)\n\t\t\tbishopAttacks[sq][(occ*magic)>>(64-shift)] = attacks\n\t\t\tocc = (occ - mask) & mask\n\n\t\t\tif occ == mask {\n\n\t\t\t\tbreak\n\t\t\t}\n\t\t}\n",
			New:    "\t\tshift := bishopShifts[sq]\n\t\tocc := BitBoard(0)\n\n\t\tfor i := 1; i < len(bishopAttacks[sq]); i++ {\n\t\t\tbishopAttacks[sq][(occ*magic)>>(64-shift)] = calcBishopAttacks(sq, occ)\n\t\t\tocc = (occ - mask) & mask\n\t\t}\n",
			Expect: "C12.R4/attacks.BishopMoves#roundtrip"},
		Mutant{Name: "C12.R4-shared-fill-helper-gets-other-walker", Prop: "C12", File: tab,
			Old:    "func initBishopMagic() {\n\tfor sq := range Squares {\n\t\tmask := bishopMasks[sq]\n\t\tmagic := bishopMagics[sq]\n\t\tshift := bishopShifts[sq]\n\t\tocc := mask\n\n\t\tfor {\n\t\t\tattacks := calcBishopAttacks(sq, occ)\n\t\t\tbishopAttacks[sq][(occ*magic)>>(64-shift)] = attacks\n\t\t\tocc = (occ - mask) & mask\n\n\t\t\tif occ == mask {\n\n\t\t\t\tbreak\n\t\t\t}\n\t\t}\n\t}\n}\n\nfunc initRookMagic() {\n\tfor sq := range Squares {\n\t\tmask := rookMasks[sq]\n\t\tmagic := rookMagics[sq]\n\t\tshift := rookShifts[sq]\n\t\tocc := mask\n\n\t\tfor {\n\t\t\tattacks := calcRookAttacks(sq, occ)\n\t\t\trookAttacks[sq][(occ*magic)>>(64-shift)] = attacks\n\t\t\tocc = (occ - mask) & mask\n\n\t\t\tif occ == mask {\n\n\t\t\t\tbreak\n\t\t\t}\n\t\t}\n\t}\n}\n\n",
			New:    "func fillMagic(table []BitBoard, sq Square, mask, magic BitBoard, shift byte, calc func(Square, BitBoard) BitBoard) {\n\tocc := mask\n\n\tfor {\n\t\ttable[(occ*magic)>>(64-shift)] = calc(sq, occ)\n\t\tocc = (occ - mask) & mask\n\n\t\tif occ == mask {\n\t\t\tbreak\n\t\t}\n\t}\n}\n\nfunc initBishopMagic() {\n\tfor sq := range Squares {\n\t\tfillMagic(bishopAttacks[sq][:], sq, bishopMasks[sq], bishopMagics[sq], bishopShifts[sq], calcRookAttacks)\n\t}\n}\n\nfunc initRookMagic() {\n\tfor sq := range Squares {\n\t\tfillMagic(rookAttacks[sq][:], sq, rookMasks[sq], rookMagics[sq], rookShifts[sq], calcRookAttacks)\n\t}\n}\n\n",
			Expect: "C12.R4/attacks.BishopMoves#fill-value"},
		Mutant{Name: "C12.R4-struct-parameterised-fill-gets-other-magics", Prop: "C12", File: tab,
			Old:    "func initBishopMagic() {\n\tfor sq := range Squares {\n\t\tmask := bishopMasks[sq]\n\t\tmagic := bishopMagics[sq]\n\t\tshift := bishopShifts[sq]\n\t\tocc := mask\n\n\t\tfor {\n\t\t\tattacks := calcBishopAttacks(sq, occ)\n\t\t\tbishopAttacks[sq][(occ*magic)>>(64-shift)] = attacks\n\t\t\tocc = (occ - mask) & mask\n\n\t\t\tif occ == mask {\n\n\t\t\t\tbreak\n\t\t\t}\n\t\t}\n\t}\n}\n\nfunc initRookMagic() {\n\tfor sq := range Squares {\n\t\tmask := rookMasks[sq]\n\t\tmagic := rookMagics[sq]\n\t\tshift := rookShifts[sq]\n\t\tocc := mask\n\n\t\tfor {\n\t\t\tattacks := calcRookAttacks(sq, occ)\n\t\t\trookAttacks[sq][(occ*magic)>>(64-shift)] = attacks\n\t\t\tocc = (occ - mask) & mask\n\n\t\t\tif occ == mask {\n\n\t\t\t\tbreak\n\t\t\t}\n\t\t}\n\t}\n}\n\n",
			New:    "// magicEntry describes the magic hashing of a single square of a sliding piece.\ntype magicEntry struct {\n\tmask  BitBoard\n\tmagic BitBoard\n\tshift byte\n}\n\n// fillMagic populates table, the attack table of a slider on sq, by\n// enumerating all subsets of the relevancy mask, the full mask first, then the\n// empty set and upwards.\nfunc fillMagic(sq Square, e magicEntry, table []BitBoard, calc func(Square, BitBoard) BitBoard) {\n\tocc := e.mask\n\n\tfor more := true; more; more = occ != e.mask {\n\t\ttable[(occ*e.magic)>>(64-e.shift)] = calc(sq, occ)\n\t\tocc = (occ - e.mask) & e.mask\n\t}\n}\n\nfunc initBishopMagic() {\n\tfor sq := range Squares {\n\t\te := magicEntry{mask: bishopMasks[sq], magic: rookMagics[sq], shift: bishopShifts[sq]}\n\t\tfillMagic(sq, e, bishopAttacks[sq][:], calcBishopAttacks)\n\t}\n}\n\nfunc initRookMagic() {\n\tfor sq := range Squares {\n\t\te := magicEntry{mask: rookMasks[sq], magic: rookMagics[sq], shift: rookShifts[sq]}\n\t\tfillMagic(sq, e, rookAttacks[sq][:], calcRookAttacks)\n\t}\n}\n\n",
			Expect: "C12.R4/attacks.BishopMoves#roundtrip"},
		// R7
		Mutant{Name: "C12.R7-distance-below-3-skipped", Prop: "C12", File: tab, Quick: true,
			Old:    "\t\t\t\t\tif (fileA == fileB) || (rankA == rankB) || (Abs(fileA-fileB) == Abs(rankA-rankB)) {\n",
			New:    "\t\t\t\t\tif max(Abs(fileA-fileB), Abs(rankA-rankB)) < 3 {\n\t\t\t\t\t\tcontinue\n\t\t\t\t\t}\n\n\t\t\t\t\tif (fileA == fileB) || (rankA == rankB) || (Abs(fileA-fileB) == Abs(rankA-rankB)) {\n",
			Expect: "C12.R7/attacks.initInBetween#coverage"},
		Mutant{Name: "C12.R7-symmetric-half-copied", Prop: "C12", File: tab,
			Old:    "\t\t\t\t\tif (fileA == fileB) || (rankA == rankB) || (Abs(fileA-fileB) == Abs(rankA-rankB)) {\n",
			New:    "\t\t\t\t\tif rankB > rankA {\n\t\t\t\t\t\tInBetween[(rankA<<3)+fileA][(rankB<<3)+fileB] = InBetween[(rankB<<3)+fileB][(rankA<<3)+fileA]\n\t\t\t\t\t\tcontinue\n\t\t\t\t\t}\n\n\t\t\t\t\tif (fileA == fileB) || (rankA == rankB) || (Abs(fileA-fileB) == Abs(rankA-rankB)) {\n",
			Expect: "C12.R7/attacks.initInBetween#fill-site"},
		Mutant{Name: "C12.R7-step-sign-reversed", Prop: "C12", File: tab, Quick: true,
			Old:    "fileD := Signum(fileB - fileA)",
			New:    "fileD := Signum(fileA - fileB)",
			Expect: "C12.R7/attacks.initInBetween#walk"},
		Mutant{Name: "C12.R7-walk-starts-at-B", Prop: "C12", File: tab,
			Old:    "iterF := fileA\n\t\t\t\t\t\titerR := rankA\n",
			New:    "iterF := fileB\n\t\t\t\t\t\titerR := rankB\n",
			Expect: "C12.R7/attacks.initInBetween#walk"},
		Mutant{Name: "C12.R7-end-bit-dropped", Prop: "C12", File: tab,
			Old:    "\t\t\t\t\t\t\tresult | (BitBoard(1) << ((rankB << 3) + fileB))\n",
			New:    "\t\t\t\t\t\t\tresult\n",
			Expect: "C12.R7/attacks.initInBetween#walk"},
		Mutant{Name: "C12.R7-alignment-by-index-difference", Prop: "C12", File: tab,
			Old:    "(Abs(fileA-fileB) == Abs(rankA-rankB)) {",
			New:    "(((rankB<<3)+fileB-(rankA<<3)-fileA)%9 == 0) || (((rankB<<3)+fileB-(rankA<<3)-fileA)%7 == 0) {",
			Expect: "C12.R7/attacks.initInBetween#coverage"},
		Mutant{Name: "C12.R7-diagonals-not-aligned", Prop: "C12", File: tab,
			Old:    "(fileA == fileB) || (rankA == rankB) || (Abs(fileA-fileB) == Abs(rankA-rankB)) {",
			New:    "(fileA == fileB) || (rankA == rankB) {",
			Expect: "C12.R7/attacks.initInBetween#alignment"},
		Mutant{Name: "C12.R7-only-one-diagonal-direction", Prop: "C12", File: tab,
			Old:    "(Abs(fileA-fileB) == Abs(rankA-rankB)) {",
			New:    "(fileA-fileB == rankA-rankB) {",
			Expect: "C12.R7/attacks.initInBetween#alignment"},
		Mutant{Name: "C12.R7-walk-stops-when-one-coordinate-matches", Prop: "C12", File: tab,
			Old:    "for iterF != fileB || iterR != rankB {",
			New:    "for iterF != fileB && iterR != rankB {",
			Expect: "C12.R7/attacks.initInBetween#walk"},
		Mutant{Name: "C12.R7-last-rank-not-visited", Prop: "C12", File: tab,
			Old:    "for rankB = range 8 {",
			New:    "for rankB = range 7 {",
			Expect: "C12.R7/attacks.initInBetween#domain"},
		Mutant{Name: "C12.R7-transposed-bit", Prop: "C12", File: tab,
			Old:    "result |= (BitBoard(1) << ((iterR << 3) + iterF))",
			New:    "result |= (BitBoard(1) << ((iterF << 3) + iterR))",
			Expect: "C12.R7/attacks.initInBetween#walk"},
		// R5
		Mutant{Name: "C12.R5-attacker-square-not-masked", Prop: "C12", File: brd, Quick: true,
			Old: "blocked := attacks.InBetween[kingSq][aSq] & ^(king | attacker)", New: "blocked := attacks.InBetween[kingSq][aSq] & ^king",
			Expect: "C12.R5/board.(*Board).IsCheckmate"},
		Mutant{Name: "C12.R5-wrapper-returns-raw-caller-forgets-attacker", Prop: "C12", File: brd,
			Old: "blocked := attacks.InBetween[kingSq][aSq] & ^(king | attacker)", New: "blocked := rawBetween(kingSq, aSq) & ^king",
			File2: brd, Old2: "func (b *Board) InCheck(who Color) bool {", New2: "func rawBetween(a, b Square) BitBoard { return attacks.InBetween[a][b] }\n\nfunc (b *Board) InCheck(who Color) bool {",
			Expect: "C12.R5/board.rawBetween"},
		Mutant{Name: "C12.R5-ends-not-masked", Prop: "C12", File: brd,
			Old: "blocked := attacks.InBetween[kingSq][aSq] & ^(king | attacker)", New: "blocked := attacks.InBetween[kingSq][aSq]",
			Expect: "C12.R5/board.(*Board).IsCheckmate"},
	)
}
