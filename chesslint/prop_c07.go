package main

import (
	"fmt"
	"go/constant"
	"go/token"
	"go/types"
	"sort"
	"strings"

	"golang.org/x/tools/go/ssa"
)

func init() {
	register(&Property{
		ID: "C07",
		Explain: "Static necessary conditions for 'reported variations are legal lines and agree with the move played'. " +
			"R1: alphaBeta clears its PV slot (setNull(ply)) before any return and before any descent. " +
			"R2: pv.insert(ply, m) is called only with the move whose child search just returned, after that move has been undone, only on the value > alpha ∧ value < beta path, and every flow-graph path from that MakeMove to the splice passes a descent or a `value <= alpha` exit (the copied row was written for this move); insert writes the move at bufIx(ply), copies the child's line from bufIx(ply+1) with the child's length and records length+1; the buffers have the triangular size. " +
			"R3: in iterativeDeepen the adopted move/ponder and the printed pv both come from pv.active() with no search call in between, only after the aspiration loop exited with a score strictly inside the window; ponder is cleared whenever the line is shorter than two moves and on the abort fallback. " +
			"R4: the depth printed is the outer loop variable, and every cycle through the report passes the depth increment (at most one report per depth). " +
			"Not decided: legality of PV moves (depends on run-time table contents), bufIx arithmetic.",
		Assume: []string{"go/ssa models the program faithfully"},
		Run:    runC07,
	})
}

func c07Premises(c *Ctx, p *Prog) {
	// a move read from the transposition table is searched (and can head a reported line) only if
	// IsPseudoLegal accepts it: the acceptor must not accept what the generator would never emit
	c.As("C05.R", "C07.R6.table-move-gate:R", func() { c05R1R4(c, p); c05R2(c, p) })
}

func runC07(c *Ctx) {
	p := c.need("default")
	if p == nil {
		return
	}
	c07R1R2(c, p)
	c07Insert(c, p)
	c07Rows(c, p)
	c07R3R4(c, p, false)
	// a line is only legal from the root if the search leaves the board as it found it
	rulePairs(c, p, "C07.R5")
	c07Premises(c, p)
}

// varargValues returns the values packed into the variadic slice argument v.
func varargValues(v ssa.Value) []ssa.Value {
	sl, ok := v.(*ssa.Slice)
	if !ok {
		return nil
	}
	al, ok := sl.X.(*ssa.Alloc)
	if !ok || al.Referrers() == nil {
		return nil
	}
	var out []ssa.Value
	for _, r := range *al.Referrers() {
		if ia, ok := r.(*ssa.IndexAddr); ok && ia.Referrers() != nil {
			for _, rr := range *ia.Referrers() {
				if st, ok := rr.(*ssa.Store); ok && st.Addr == ia {
					x := st.Val
					if mi, ok := x.(*ssa.MakeInterface); ok {
						x = mi.X
					}
					out = append(out, x)
				}
			}
		}
	}
	return out
}

// plyParam: the parameter P of alphaBeta such that recursive calls pass P+1 in its position.
func plyParam(fn *ssa.Function) *ssa.Parameter {
	for _, ci := range callsIn(fn, "search.(*Search).alphaBeta") {
		for i, a := range ci.Common().Args {
			if bo, ok := stripConv(a).(*ssa.BinOp); ok && bo.Op == token.ADD {
				if k, isc := constOf(bo.Y); isc && k == 1 {
					if pr, ok := stripConv(bo.X).(*ssa.Parameter); ok && i < len(fn.Params) && fn.Params[i] == pr {
						return pr
					}
				}
			}
		}
	}
	return nil
}

func c07R1R2(c *Ctx, p *Prog) {
	const r1, r2 = "C07.R1", "C07.R2"
	fn := p.Func("search.(*Search).alphaBeta")
	if fn == nil {
		c.Anchor(r1, "search.(*Search).alphaBeta")
		return
	}
	ply := plyParam(fn)
	if ply == nil {
		c.Undec(r1, "alphaBeta#ply", fn.Pos(), "cannot identify the ply parameter (recursive calls passing p+1 in p's position)")
		return
	}
	// R1
	sets := callsIn(fn, "search.(*pv).setNull")
	var clear ssa.Instruction
	for _, s := range sets {
		if stripConv(s.Common().Args[1]) == ssa.Value(ply) {
			clear = s.(ssa.Instruction)
		}
	}
	if clear == nil {
		c.Fail(r1, "alphaBeta#entry-clear", fn.Pos(), "alphaBeta never clears the PV slot of its own ply: a line left there by a sibling subtree is spliced behind a different move")
	} else {
		bad := ""
		live := reachableBlocks(fn)
		allInstrs(fn, func(in ssa.Instruction) {
			if bad != "" || !live[in.Block().Index] {
				return // (the synthetic recover block of a function with defers is not a normal path)
			}
			_, isRet := in.(*ssa.Return)
			desc := isCallTo(in, "search.(*Search).alphaBeta") || isCallTo(in, "search.(*Search).quiescence")
			if (isRet || desc) && !instrDominates(clear, in) {
				bad = p.Rel(in.Pos())
			}
		})
		c.Check(bad == "", r1, "alphaBeta#entry-clear", clear.Pos(), "setNull(ply) dominates every return and every descent %s", bad)
	}
	// R2: splice site
	ins := callsIn(fn, "search.(*pv).insert")
	for _, in := range ins {
		a := in.Common().Args
		okPly := stripConv(a[1]) == ssa.Value(ply)
		// the move is the one made and undone
		var mk ssa.CallInstruction
		for _, m := range callsIn(fn, "board.(*Board).MakeMove") {
			if sameValue(m.Common().Args[1], a[2], 0) {
				mk = m
			}
		}
		c.Check(okPly && mk != nil, r2, "alphaBeta#insert-args", in.Pos(), "insert(ply, m) is given the node's own ply and the move that was played at this node")
		if mk != nil {
			open, _ := reachAvoiding(mk.(ssa.Instruction), in.(ssa.Instruction), func(x ssa.Instruction) bool { return isCallTo(x, "board.(*Board).UndoMove") })
			c.Check(!open, r2, "alphaBeta#insert-after-undo", in.Pos(), "the splice happens after the move has been undone (never between make and undo)")
			// after the child search returned: some descent call dominates... at least reaches it
			child := false
			for _, d := range callsIn(fn, "search.(*Search).alphaBeta") {
				if r, _ := reachAvoiding(d.(ssa.Instruction), in.(ssa.Instruction), nil); r {
					child = true
				}
			}
			c.Check(child, r2, "alphaBeta#insert-after-child", in.Pos(), "the splice follows the child search of that move")
		}
		// value > alpha and value < beta
		var gtAlpha, ltBeta bool
		var val ssa.Value
		for _, ce := range controllingConds(in.Block()) {
			bo, ok := ce.Cond.(*ssa.BinOp)
			if !ok {
				continue
			}
			switch {
			case (bo.Op == token.GTR && ce.True) || (bo.Op == token.LEQ && !ce.True):
				if rootsAtParam(bo.Y, fn, scoreParam(fn, 0)) {
					gtAlpha, val = true, bo.X
				}
			}
		}
		for _, ce := range controllingConds(in.Block()) {
			bo, ok := ce.Cond.(*ssa.BinOp)
			if !ok || val == nil || bo.X != val {
				continue
			}
			if ((bo.Op == token.GEQ && !ce.True) || (bo.Op == token.LSS && ce.True)) && rootsAtParam(bo.Y, fn, scoreParam(fn, 1)) {
				ltBeta = true
			}
		}
		if gtAlpha && mk != nil {
			// the child's row holds the line of THIS move only if a child search ran for it: every path from
			// the MakeMove to the splice passes a descent, or an edge on which the value is known to be <= alpha
			// (so the splice's own `value > alpha` cannot hold). Correlated boolean flags (`fullSearched`) are
			// resolved per incoming edge of their phi.
			var alphaV ssa.Value
			for _, ce := range controllingConds(in.Block()) {
				if bo, ok := ce.Cond.(*ssa.BinOp); ok && bo.X == val && ((bo.Op == token.GTR && ce.True) || (bo.Op == token.LEQ && !ce.True)) {
					alphaV = bo.Y
				}
			}
			via := c07BypassPath(p, fn, mk.(ssa.Instruction), in.(ssa.Instruction), alphaV, val)
			if strings.Contains(via, "?flag ") {
				c.Undec(r2, "alphaBeta#insert-child-searched", in.Pos(), "a path from MakeMove to the splice without a child search could not be excluded: it branches on a boolean flag whose value on that path is not a constant (%s)", via)
			} else {
				c.Check(via == "", r2, "alphaBeta#insert-child-searched", in.Pos(), "a path from MakeMove to the splice runs no child search for the move and is not closed by a `value <= alpha` exit (%s): the row of ply+1 then still holds a sibling's line, which is spliced behind this move", via)
			}
		}
		c.Check(gtAlpha && ltBeta, r2, "alphaBeta#insert-window", in.Pos(), "the splice happens only when the child's value raised alpha and stayed below beta (value > alpha: %v, value < beta: %v)", gtAlpha, ltBeta)
	}
	c.Floor(r2, len(ins), 1, "pv.insert call sites in alphaBeta")
	// no other caller of insert
	for _, f := range p.OwnFuncs() {
		if f != fn && len(callsIn(f, "search.(*pv).insert")) > 0 {
			c.Fail(r2, fnName(f)+"#insert", f.Pos(), "pv.insert is called outside alphaBeta")
		}
	}
}

// rootsAtParam: v is the parameter named name or a phi chain rooted at it / at values derived in the loop.
// c07BypassPath searches the flow graph of fn for a path from the instruction after `from` to `to` that
// passes no descent (alphaBeta, quiescence, or an own function calling them), no other MakeMove, and no
// edge on which some value is known to be <= alpha. It returns a description of the first such path
// ("" if there is none). A branch on a boolean phi of its own block is followed only in the direction
// the incoming edge's constant dictates.
func c07BypassPath(p *Prog, fn *ssa.Function, from, to ssa.Instruction, alpha, val ssa.Value) string {
	isVal := map[ssa.Value]bool{} // the spliced value and everything merged into it by phis
	var grow func(v ssa.Value)
	grow = func(v ssa.Value) {
		if v == nil || isVal[v] {
			return
		}
		isVal[v] = true
		if ph, ok := v.(*ssa.Phi); ok {
			for _, e := range ph.Edges {
				grow(e)
			}
		}
	}
	grow(val)
	descends := func(x ssa.Instruction) bool {
		if isCallTo(x, "search.(*Search).alphaBeta") || isCallTo(x, "search.(*Search).quiescence") {
			return true
		}
		if ci, ok := x.(ssa.CallInstruction); ok {
			if cal := ci.Common().StaticCallee(); cal != nil && cal.Pkg == fn.Pkg && cal.Blocks != nil {
				return len(callsIn(cal, "search.(*Search).alphaBeta"))+len(callsIn(cal, "search.(*Search).quiescence")) > 0
			}
		}
		return false
	}
	type st struct {
		b, pred int
		env     string
	}
	seen := map[st]bool{}
	flags := map[*ssa.Phi]bool{} // boolean phis whose value on the current path is a known constant
	envKey := func() string {
		var ks []string
		for ph, v := range flags {
			ks = append(ks, fmt.Sprintf("%s=%v", ph.Name(), v))
		}
		sort.Strings(ks)
		return strings.Join(ks, ",")
	}
	memo := map[st]string{}
	pess := true // pessimistic pass: a branch on an unresolved flag must be bypassable on both sides
	var walk func(b *ssa.BasicBlock, start, pred int, trail []string) string
	walk = func(b *ssa.BasicBlock, start, pred int, trail []string) (res string) {
		if start == 0 {
			// entering b over the edge from its pred-th predecessor fixes its boolean phis
			type sv struct {
				ph     *ssa.Phi
				v, had bool
			}
			var saved []sv
			for _, x := range b.Instrs {
				ph, isPhi := x.(*ssa.Phi)
				if !isPhi {
					break
				}
				old, had := flags[ph]
				saved = append(saved, sv{ph, old, had})
				delete(flags, ph)
				if pred >= 0 && pred < len(ph.Edges) {
					if k, isK := ph.Edges[pred].(*ssa.Const); isK && k.Value != nil && k.Value.Kind() == constant.Bool {
						flags[ph] = constant.BoolVal(k.Value)
					} else if q, isQ := ph.Edges[pred].(*ssa.Phi); isQ {
						if v, known := flags[q]; known {
							flags[ph] = v
						}
					}
				}
			}
			defer func() {
				for _, e := range saved {
					if e.had {
						flags[e.ph] = e.v
					} else {
						delete(flags, e.ph)
					}
				}
			}()
			key := st{b.Index, pred, envKey()}
			if r, done := memo[key]; done {
				return r
			}
			if seen[key] {
				return ""
			}
			seen[key] = true
			defer func() { memo[key] = res }()
		}
		for _, x := range b.Instrs[start:] {
			if x == to {
				return strings.Join(trail, " -> ")
			}
			if descends(x) || (x != from && isCallTo(x, "board.(*Board).MakeMove")) {
				return ""
			}
		}
		succs := b.Succs
		if iff, ok := b.Instrs[len(b.Instrs)-1].(*ssa.If); ok && len(succs) == 2 {
			cond, pos := iff.Cond, true
			for {
				u, isNot := cond.(*ssa.UnOp)
				if !isNot || u.Op != token.NOT {
					break
				}
				cond, pos = u.X, !pos
			}
			skip := [2]bool{}
			if bo, ok := cond.(*ssa.BinOp); ok && alpha != nil {
				leqTrue := (bo.Op == token.LEQ && bo.Y == alpha && isVal[bo.X]) || (bo.Op == token.GEQ && bo.X == alpha && isVal[bo.Y])
				leqFalse := (bo.Op == token.GTR && bo.Y == alpha && isVal[bo.X]) || (bo.Op == token.LSS && bo.X == alpha && isVal[bo.Y])
				if leqTrue {
					skip[b2i(!pos)] = true // successor 0 is taken when the (un-negated) condition holds
				}
				if leqFalse {
					skip[b2i(pos)] = true
				}
			}
			if ph, ok := cond.(*ssa.Phi); ok {
				if fv, known := flags[ph]; known {
					v := fv == pos      // truth of the branch condition
					skip[b2i(v)] = true // the other successor is infeasible on this path
				} else if pess {
					r0 := walk(succs[0], 0, predIndex(succs[0], b), trail)
					r1 := walk(succs[1], 0, predIndex(succs[1], b), trail)
					if r0 != "" && r1 != "" {
						return r0
					}
					return ""
				} else {
					trail = append(trail[:len(trail):len(trail)], "?flag "+ph.Comment)
				}
			}
			for i, s := range succs {
				if skip[i] {
					continue
				}
				if r := walk(s, 0, predIndex(s, b), append(trail[:len(trail):len(trail)], p.Rel(iff.Pos())+map[int]string{0: ":true", 1: ":false"}[i])); r != "" {
					return r
				}
			}
			return ""
		}
		for _, s := range succs {
			if r := walk(s, 0, predIndex(s, b), trail); r != "" {
				return r
			}
		}
		return ""
	}
	b := from.Block()
	for i, x := range b.Instrs {
		if x == from {
			if r := walk(b, i+1, -1, []string{p.Rel(from.Pos())}); r != "" {
				return r // a bypass whatever the unresolved flags are
			}
			pess, seen, memo = false, map[st]bool{}, map[st]string{}
			return walk(b, i+1, -1, []string{p.Rel(from.Pos())}) // a bypass for some value of them: carries "?flag"
		}
	}
	return ""
}

func b2i(b bool) int {
	if b {
		return 1
	}
	return 0
}

func predIndex(s, b *ssa.BasicBlock) int {
	for i, q := range s.Preds {
		if q == b {
			return i
		}
	}
	return -1
}

func rootsAtParam(v ssa.Value, fn *ssa.Function, name string) bool {
	for x := range backSlice(v, sliceOpts{}) {
		if pr, ok := x.(*ssa.Parameter); ok && pr.Name() == name {
			return true
		}
	}
	return false
}

func c07Insert(c *Ctx, p *Prog) {
	const rule = "C07.R2"
	fn := p.Func("search.(*pv).insert")
	if fn == nil {
		c.Anchor(rule, "search.(*pv).insert")
		return
	}
	if len(fn.Params) != 3 {
		c.Undec(rule, "insert#params", fn.Pos(), "expected (pv, ply, m)")
		return
	}
	ply, m := fn.Params[1], fn.Params[2]
	isBufIx := func(v ssa.Value, plus int64) bool {
		call, ok := stripConv(v).(*ssa.Call)
		if !ok || objName(calleeObj(call)) != "search.bufIx" {
			return false
		}
		a := stripConv(call.Call.Args[0])
		if plus == 0 {
			return a == ssa.Value(ply)
		}
		bo, ok := a.(*ssa.BinOp)
		if !ok || bo.Op != token.ADD || stripConv(bo.X) != ssa.Value(ply) {
			return false
		}
		k, isc := constOf(bo.Y)
		return isc && k == plus
	}
	var okMove, okLen bool
	var sawCopy, dstKnown, srcKnown bool
	var dstOff, srcPlus int64
	var sawLen, lenKnown bool
	var lenPlus, lenPly int64
	// plyOffset: v is ply+k
	plyOffset := func(v ssa.Value) (int64, bool) {
		v = stripConv(v)
		if v == ssa.Value(ply) {
			return 0, true
		}
		if bo, ok := v.(*ssa.BinOp); ok && bo.Op == token.ADD && stripConv(bo.X) == ssa.Value(ply) {
			if k, isc := constOf(bo.Y); isc {
				return k, true
			}
		}
		return 0, false
	}
	// lineLenOf: v is the length of the line stored for ply+k: depth[ply+k], or len(h(ply+k)) with h handing out
	// moves[bufIx(q) : bufIx(q)+depth[q]] for its parameter q
	var lineLenOf func(v ssa.Value) (int64, bool)
	lineLenOf = func(v ssa.Value) (int64, bool) {
		v = stripConv(v)
		if l, ok := v.(*ssa.UnOp); ok && l.Op == token.MUL {
			if ia2, ok := l.X.(*ssa.IndexAddr); ok {
				if fr, ok := asFieldAddr(ia2.X); ok && fr.Name() == "pv.depth" {
					return plyOffset(ia2.Index)
				}
			}
		}
		call, ok := v.(*ssa.Call)
		if !ok {
			return 0, false
		}
		bi, isB := call.Call.Value.(*ssa.Builtin)
		if !isB || bi.Name() != "len" {
			return 0, false
		}
		hc, ok := stripConv(call.Call.Args[0]).(*ssa.Call)
		if !ok {
			return 0, false
		}
		h := hc.Call.StaticCallee()
		if h == nil || !isOwn(h) || h.Blocks == nil {
			return 0, false
		}
		as := resultAssignments(h, 0)
		if len(as) != 1 {
			return 0, false
		}
		sl, ok := as[0].Val.(*ssa.Slice)
		if !ok || sl.High == nil {
			return 0, false
		}
		// High - Low == depth[q]
		var lenV ssa.Value
		if sl.Low == nil {
			lenV = sl.High
		} else if hb, ok := stripConv(sl.High).(*ssa.BinOp); ok && hb.Op == token.ADD {
			for _, pr := range [][2]ssa.Value{{hb.X, hb.Y}, {hb.Y, hb.X}} {
				if sameValue(pr[0], sl.Low, 0) {
					lenV = pr[1]
				}
			}
		}
		if lenV == nil {
			return 0, false
		}
		ld, ok := stripConv(lenV).(*ssa.UnOp)
		if !ok || ld.Op != token.MUL {
			return 0, false
		}
		ia2, ok := ld.X.(*ssa.IndexAddr)
		if !ok {
			return 0, false
		}
		if fr, ok := asFieldAddr(ia2.X); !ok || fr.Name() != "pv.depth" {
			return 0, false
		}
		for pi, par := range h.Params {
			if stripConv(ia2.Index) == ssa.Value(par) && pi < len(hc.Call.Args) {
				if sl.Low == nil {
					// moves[0:depth[q]] is the line of ply 0 only
					if k, isc := constOf(hc.Call.Args[pi]); !isc || k != 0 {
						return 0, false
					}
				}
				return plyOffset(hc.Call.Args[pi])
			}
		}
		return 0, false
	}
	allInstrs(fn, func(in ssa.Instruction) {
		switch x := in.(type) {
		case *ssa.Store:
			ia, ok := x.Addr.(*ssa.IndexAddr)
			if !ok {
				return
			}
			fr, ok := asFieldAddr(ia.X)
			if !ok {
				return
			}
			switch fr.Name() {
			case "pv.moves":
				if isBufIx(ia.Index, 0) && x.Val == ssa.Value(m) {
					okMove = true
				}
			case "pv.depth":
				if stripConv(ia.Index) == ssa.Value(ply) {
					sawLen = true
					v := stripConv(x.Val)
					if k, ok := lineLenOf(v); ok {
						// the child's length without the +1 (or some other line's length)
						lenKnown, lenPlus, lenPly = true, 0, k
					} else if bo, ok := v.(*ssa.BinOp); ok && bo.Op == token.ADD {
						for _, pr := range [][2]ssa.Value{{bo.X, bo.Y}, {bo.Y, bo.X}} {
							if c1, isc := constOf(pr[1]); isc {
								if k, ok := lineLenOf(stripConv(pr[0])); ok {
									lenKnown, lenPlus, lenPly = true, c1, k
								}
							}
						}
					}
					okLen = lenKnown && lenPlus == 1 && lenPly == 1
				}
			}
		case *ssa.Call:
			if bi, ok := x.Call.Value.(*ssa.Builtin); ok && bi.Name() == "copy" {
				sawCopy = true
				// destination: moves[bufIx(ply)+k:]
				if dst, ok := x.Call.Args[0].(*ssa.Slice); ok && dst.Low != nil {
					if isBufIx(dst.Low, 0) {
						dstOff, dstKnown = 0, true
					} else if dl, okd := stripConv(dst.Low).(*ssa.BinOp); okd && dl.Op == token.ADD && isBufIx(dl.X, 0) {
						if k, isc := constOf(dl.Y); isc {
							dstOff, dstKnown = k, true
						}
					}
				}
				// source: moves[bufIx(ply+k):…], directly or through a helper returning the line stored for a ply
				switch src := x.Call.Args[1].(type) {
				case *ssa.Slice:
					if src.Low != nil {
						for k := int64(0); k <= 2; k++ {
							if isBufIx(src.Low, k) {
								srcPlus, srcKnown = k, true
							}
						}
					}
				case *ssa.Call:
					h := src.Call.StaticCallee()
					if h != nil && isOwn(h) && h.Blocks != nil && len(h.Params) >= 2 {
						as := resultAssignments(h, 0)
						if len(as) == 1 {
							if sl, ok := as[0].Val.(*ssa.Slice); ok && sl.Low != nil {
								if call, ok := stripConv(sl.Low).(*ssa.Call); ok && objName(calleeObj(call)) == "search.bufIx" {
									for pi, par := range h.Params {
										if stripConv(call.Call.Args[0]) == ssa.Value(par) && pi < len(src.Call.Args) {
											a := stripConv(src.Call.Args[pi])
											if a == ssa.Value(ply) {
												srcPlus, srcKnown = 0, true
											} else if bo, ok := a.(*ssa.BinOp); ok && bo.Op == token.ADD && stripConv(bo.X) == ssa.Value(ply) {
												if k, isc := constOf(bo.Y); isc {
													srcPlus, srcKnown = k, true
												}
											}
										}
									}
								}
							}
						}
					}
				}
			}
		}
	})
	c.Check(okMove, rule, "insert#move-at-own-slot", fn.Pos(), "insert stores m at moves[bufIx(ply)]")
	switch {
	case !sawCopy || !dstKnown || !srcKnown:
		c.Undec(rule, "insert#copy-child-line", fn.Pos(), "the copy of the child's line is not of a recognised form (copy call: %v, destination offset known: %v, source ply known: %v)", sawCopy, dstKnown, srcKnown)
	case dstOff == 1 && srcPlus == 1:
		c.Ok(rule, "insert#copy-child-line", fn.Pos(), "insert copies the child's line from bufIx(ply+1) to bufIx(ply)+1")
	default:
		c.Fail(rule, "insert#copy-child-line", fn.Pos(), "insert copies the line stored for ply+%d to bufIx(ply)+%d; the child's line (ply+1) belongs behind the move at bufIx(ply)+1", srcPlus, dstOff)
	}
	switch {
	case okLen:
		c.Ok(rule, "insert#length", fn.Pos(), "insert records depth[ply] = depth[ply+1] + 1")
	case !sawLen:
		viaHelper := false
		for _, f := range p.closure([]*ssa.Function{fn}, nil) {
			if f != fn && len(directEffects(f).FieldWrites["search.pv.depth"]) > 0 {
				viaHelper = true
			}
		}
		if viaHelper {
			c.Undec(rule, "insert#length", fn.Pos(), "insert records the new length through a helper; the form is not decided")
		} else {
			c.Fail(rule, "insert#length", fn.Pos(), "insert never records the new length in depth[ply]")
		}
	case !lenKnown:
		c.Undec(rule, "insert#length", fn.Pos(), "the length insert records in depth[ply] is not of a recognised form (depth[ply+1] + 1, or the length of the child's line + 1)")
	default:
		c.Fail(rule, "insert#length", fn.Pos(), "insert records depth[ply] = (length of the line stored for ply+%d) + %d; the new line is the move followed by the child's line: depth[ply+1] + 1", lenPly, lenPlus)
	}
	// buffer sizes
	pk := p.Pkg("search")
	mp, ok := p.pkgConstInt("chess.MaxPlies")
	if pk != nil && ok {
		if tn, ok := pk.Types.Scope().Lookup("pv").(*types.TypeName); ok {
			if st, ok := tn.Type().Underlying().(*types.Struct); ok {
				for i := 0; i < st.NumFields(); i++ {
					f := st.Field(i)
					at, ok := f.Type().Underlying().(*types.Array)
					if !ok {
						continue
					}
					switch f.Name() {
					case "moves":
						c.Check(at.Len() == mp*(mp+1)/2, rule, "pv#moves-size", f.Pos(), "moves buffer holds the triangular %d*(%d+1)/2 = %d entries (has %d)", mp, mp, mp*(mp+1)/2, at.Len())
					case "depth":
						c.Check(at.Len() == mp, rule, "pv#depth-size", f.Pos(), "depth buffer has MaxPlies = %d entries (has %d)", mp, at.Len())
					}
				}
			}
		}
	}
}

func c07R3R4(c *Ctx, p *Prog, strictPonder bool) {
	const r3, r4 = "C07.R3", "C07.R4"
	fn := p.Func("search.(*Search).iterativeDeepen")
	if fn == nil {
		c.Anchor(r3, "search.(*Search).iterativeDeepen")
		return
	}
	// result allocs by name
	mv, pd := namedResult(fn, 1), namedResult(fn, 2)
	// the PV report
	var report *ssa.Call
	var reports []*ssa.Call
	allInstrs(fn, func(in ssa.Instruction) {
		call, ok := in.(*ssa.Call)
		if !ok {
			return
		}
		if f := calleeObj(call); f == nil || f.Pkg() == nil || f.Pkg().Path() != "fmt" {
			return
		}
		for _, v := range varargValues(call.Call.Args[len(call.Call.Args)-1]) {
			if isCallValueTo(v, "search.pvInfo") {
				report = call
				reports = append(reports, call)
			}
		}
	})
	if report == nil {
		c.Undec(r3, "iterativeDeepen#report", fn.Pos(), "no fmt print of pvInfo(...) found")
		return
	}
	// report reads pv.active()
	okSrc := false
	for _, v := range varargValues(report.Call.Args[len(report.Call.Args)-1]) {
		if call, ok := v.(*ssa.Call); ok && objName(calleeObj(call)) == "search.pvInfo" {
			okSrc = isCallValueTo(call.Call.Args[0], "search.(*pv).active")
		}
	}
	c.Check(okSrc, r3, "iterativeDeepen#report-source", report.Pos(), "the reported variation is pv.active()")
	// the iteration boundary: increment of the loop counter printed by the report
	isDepthIncr := func(x ssa.Instruction) bool {
		bo, ok := x.(*ssa.BinOp)
		if !ok || bo.Op != token.ADD {
			return false
		}
		if k, isc := constOf(bo.Y); !isc || k != 1 {
			return false
		}
		ph, ok := stripConv(bo.X).(*ssa.Phi)
		if !ok {
			return false
		}
		for _, v := range varargValues(report.Call.Args[len(report.Call.Args)-1]) {
			if stripConv(v) == ssa.Value(ph) {
				return true
			}
		}
		return false
	}
	_ = mv
	_ = pd
	c07Adoption(c, p, fn, reports, isDepthIncr, strictPonder)

	// R4
	for i, rp := range reports {
		c07R4(c, p, fn, rp, i+1)
	}
}

func c07R4(c *Ctx, p *Prog, fn *ssa.Function, report *ssa.Call, ord int) {
	r4 := "C07.R4"
	vals := varargValues(report.Call.Args[len(report.Call.Args)-1])
	key := fmt.Sprintf("iterativeDeepen#report@%d", ord)
	var depthPhi *ssa.Phi
	var incr ssa.Instruction
	for _, v := range vals {
		if ph, ok := stripConv(v).(*ssa.Phi); ok && len(ph.Edges) == 2 {
			for i, e := range ph.Edges {
				if k, isc := constOf(e); isc && k == 0 {
					if bo, ok := stripConv(ph.Edges[1-i]).(*ssa.BinOp); ok && bo.Op == token.ADD && stripConv(bo.X) == ssa.Value(ph) {
						if one, isc := constOf(bo.Y); isc && one == 1 {
							depthPhi, incr = ph, bo
						}
					}
				}
			}
		}
	}
	if depthPhi == nil {
		c.Fail(r4, key+"#report-depth", report.Pos(), "the report does not print a loop counter that starts at 0 and grows by one per iteration")
		return
	}
	c.Ok(r4, key+"#report-depth", report.Pos(), "printed depth is the outer loop variable (0, +1 per iteration)")
	again, _ := reachAvoiding(report, report, func(x ssa.Instruction) bool { return x == incr })
	c.Check(!again, r4, key+"#one-report-per-depth", report.Pos(), "every cycle through the report passes the depth increment: reported depths strictly increase")
	// the alphaBeta depth argument is the same variable
	okD := false
	for _, ci := range callsIn(fn, "search.(*Search).alphaBeta") {
		for _, a := range ci.Common().Args {
			if stripConv(a) == ssa.Value(depthPhi) {
				okD = true
			}
		}
	}
	c.Check(okD, r4, key+"#searched-depth", report.Pos(), "the depth searched is the depth reported")
	_ = constant.MakeBool
	_ = strings.Contains
}

func reaches(a, b ssa.Instruction) bool {
	r, _ := reachAvoiding(a, b, nil)
	return r
}

// windowOK: bool phi ph can become true only on edges controlled by
// sample > alpha (¬ sample <= alpha) and sample < beta (¬ sample >= beta).
func windowOK(ph *ssa.Phi, sample ssa.Value, seen map[ssa.Value]bool) bool {
	if seen[ph] {
		return true
	}
	seen[ph] = true
	found := false
	for i, e := range ph.Edges {
		if k, isc := constOf(e); isc {
			if k == 0 {
				continue
			}
			pred := ph.Block().Preds[i]
			var notLow, notHigh bool
			for _, ce := range append(controllingConds(pred), edgeCond(pred, ph.Block())...) {
				bo, ok := ce.Cond.(*ssa.BinOp)
				if !ok || bo.X != sample {
					continue
				}
				if (bo.Op == token.LEQ && !ce.True) || (bo.Op == token.GTR && ce.True) {
					notLow = true
				}
				if (bo.Op == token.GEQ && !ce.True) || (bo.Op == token.LSS && ce.True) {
					notHigh = true
				}
			}
			if !notLow || !notHigh {
				return false
			}
			found = true
			continue
		}
		if p2, ok := e.(*ssa.Phi); ok {
			if !windowOK(p2, sample, seen) {
				return false
			}
			found = true
			continue
		}
		return false
	}
	return found
}

func init() {
	addMutants(
		Mutant{Name: "C07.R2-row-index-integer-division-moved", Prop: "C07", File: "search/pv.go",
			Old: "\treturn int(ply)*MaxPlies - int(ply)*int(ply-1)/2\n", New: "\treturn int(ply) * (MaxPlies - int(ply-1)/2)\n",
			Expect: "C07.R2/bufIx#rows-disjoint"},
		Mutant{Name: "C07.R1-clear-after-quiescence-handoff", Prop: "C07", File: "search/search.go", Quick: true,
			Old: "\ts.pv.setNull(ply)\n\n\tif d == 0 || ply >= MaxPlies-1 {\n\t\treturn s.quiescence(b, alpha, beta, ply, opts)\n\t}\n", New: "\tif d == 0 || ply >= MaxPlies-1 {\n\t\treturn s.quiescence(b, alpha, beta, ply, opts)\n\t}\n\n\ts.pv.setNull(ply)\n",
			Expect: "C07.R1/alphaBeta#entry-clear"},
		Mutant{Name: "C07.R2-drawn-child-not-searched", Prop: "C07", File: "search/search.go",
			Old: "\t\tfullSearched := false\n", New: "\t\tfullSearched := false\n\t\tif b.FiftyCnt >= 100 || b.Threefold() >= 2 {\n\t\t\tgoto Fin\n\t\t}\n",
			Expect: "C07.R2/alphaBeta#insert-child-searched"},
		Mutant{Name: "C07.R2-insert-before-undo", Prop: "C07", File: "search/search.go",
			Old: "\tFin:\n\n\t\tb.UndoMove(m, r)\n\t\ts.hstack.Pop()\n", New: "\tFin:\n\t\tif value > alpha && value < beta {\n\t\t\ts.pv.insert(ply, m)\n\t\t}\n\n\t\tb.UndoMove(m, r)\n\t\ts.hstack.Pop()\n",
			Expect: "C07.R2/alphaBeta#insert-after-undo"},
		Mutant{Name: "C07.R2-insert-on-fail-high-too", Prop: "C07", File: "search/search.go", Quick: true,
			Old: "\t\tif value > alpha {\n\t\t\tif value >= beta {", New: "\t\tif value > alpha {\n\t\t\ts.pv.insert(ply, m)\n\t\t\tif value >= beta {",
			Expect: "C07.R2/alphaBeta#insert-window"},
		Mutant{Name: "C07.R2-insert-wrong-ply", Prop: "C07", File: "search/search.go",
			Old: "\t\t\ts.pv.insert(ply, m)\n\t\t} else {", New: "\t\t\ts.pv.insert(ply+1, m)\n\t\t} else {",
			Expect: "C07.R2/alphaBeta#insert-args"},
		Mutant{Name: "C07.R2-copy-from-own-slot", Prop: "C07", File: "search/pv.go",
			Old: "\tj := bufIx(ply + 1)\n", New: "\tj := bufIx(ply) + 1\n",
			Expect: "C07.R2/insert#copy-child-line"},
		Mutant{Name: "C07.R2-length-not-extended", Prop: "C07", File: "search/pv.go",
			Old: "\tpv.depth[ply] = l + 1\n", New: "\tpv.depth[ply] = l\n",
			Expect: "C07.R2/insert#length"},
		Mutant{Name: "C07.R3-ponder-kept-on-short-line", Prop: "C07", File: "search/search.go", Quick: true,
			Old: "\t\t\tmove = s.pv.active()[0]\n\t\t\t// in case we have a short PV, clear ponder from previous iteration, as\n\t\t\t// there is no guarantee the ponder move is still legal after move.\n\t\t\tponder = 0\n", New: "\t\t\tmove = s.pv.active()[0]\n",
			Expect: "C07.R3/iterativeDeepen#adoption#ponder"},
		Mutant{Name: "C07.R3-adopt-inside-aspiration-loop", Prop: "C07", File: "search/search.go",
			Old: "\t\t\tscoreSample = s.alphaBeta(b, alpha, beta, idD, 0, PVNode, opts)\n", New: "\t\t\tscoreSample = s.alphaBeta(b, alpha, beta, idD, 0, PVNode, opts)\n\t\t\tif len(s.pv.active()) > 0 {\n\t\t\t\tmove = s.pv.active()[0]\n\t\t\t\tponder = 0\n\t\t\t}\n",
			Expect: "C07.R3/iterativeDeepen#adoption"},
		Mutant{Name: "C07.R3-window-accepts-beta", Prop: "C07", File: "search/search.go",
			Old: "\t\t\tcase scoreSample >= beta:\n", New: "\t\t\tcase scoreSample > beta:\n",
			Expect: "C07.R3/iterativeDeepen#adoption#inside-window"},
		Mutant{Name: "C07.R4-report-inside-aspiration-loop", Prop: "C07", File: "search/search.go",
			Old: "\t\t\tscoreSample = s.alphaBeta(b, alpha, beta, idD, 0, PVNode, opts)\n", New: "\t\t\tscoreSample = s.alphaBeta(b, alpha, beta, idD, 0, PVNode, opts)\n\t\t\tif opts.Output != nil {\n\t\t\t\tfmt.Fprintf(opts.Output, \"info depth %d score %s pv %s\\n\", idD, scoreSample, pvInfo(s.pv.active()))\n\t\t\t}\n",
			Expect: "C07.R"},
	)
}

func reachableBlocks(fn *ssa.Function) map[int]bool {
	seen := map[int]bool{}
	var walk func(b *ssa.BasicBlock)
	walk = func(b *ssa.BasicBlock) {
		if seen[b.Index] {
			return
		}
		seen[b.Index] = true
		for _, s := range b.Succs {
			walk(s)
		}
	}
	walk(fn.Blocks[0])
	return seen
}

// scoreParam names the i-th parameter of type Score (alpha is the first, beta the second).
func scoreParam(fn *ssa.Function, i int) string {
	k := 0
	for _, pr := range fn.Params {
		if n, ok := types.Unalias(pr.Type()).(*types.Named); ok && n.Obj().Name() == "Score" {
			if k == i {
				return pr.Name()
			}
			k++
		}
	}
	return "?"
}

// c07Adoption decides, per path from a root search call to the end of the iteration (or the return),
// what the result move and ponder hold and what is known about the line and the window.
func c07Adoption(c *Ctx, p *Prog, fn *ssa.Function, reports []*ssa.Call, isDepthIncr func(ssa.Instruction) bool, strictPonder bool) {
	const r3 = "C07.R3"
	_, mvPhis, mvAlloc := resultWeb(fn, 1)
	_, pdPhis, pdAlloc := resultWeb(fn, 2)
	isActive := func(v ssa.Value) bool { return isCallValueTo(stripConv(v), "search.(*pv).active") }
	// the outer loop header: block of the phi that a depth increment feeds
	var hdr *ssa.BasicBlock
	allInstrs(fn, func(in ssa.Instruction) {
		if isDepthIncr(in) {
			hdr = stripConv(in.(*ssa.BinOp).X).(*ssa.Phi).Block()
		}
	})
	if hdr == nil {
		c.Undec(r3, "iterativeDeepen#adoption", fn.Pos(), "outer iteration loop not identified")
		return
	}
	isReport := func(in ssa.Instruction) bool {
		for _, r := range reports {
			if in == ssa.Instruction(r) {
				return true
			}
		}
		return false
	}
	type res struct {
		bad   string
		pos   token.Pos
		count int
	}
	checks := map[string]*res{}
	note := func(key string, ok bool, pos token.Pos, why string) {
		r := checks[key]
		if r == nil {
			r = &res{}
			checks[key] = r
		}
		r.count++
		if !ok && r.bad == "" {
			r.bad, r.pos = why, pos
		}
	}
	undec := map[string]string{}
	nAdopt, nPonder, nPaths := 0, 0, 0
	complete := true
	searches := callsIn(fn, "search.(*Search).alphaBeta")
	for _, sc := range searches {
		sample, _ := sc.(ssa.Value)
		args := sc.Common().Args
		if len(args) < 4 {
			continue
		}
		alpha, beta := args[2], args[3]
		start := sc.Block()
		ok := enumBlockPaths(start, func(from, to *ssa.BasicBlock) bool { return to == hdr }, 200000, func(bp *bpath) {
			if bp.End == "panic" {
				return
			}
			if bp.End == "arrive" && bp.Arrive != hdr && bp.Arrive != start {
				// closing an inner loop: covered by the paths that leave it
				inner := true
				for _, ph := range []map[*ssa.Phi]bool{mvPhis, pdPhis} {
					for q := range ph {
						if q.Block() == bp.Arrive {
							inner = false
						}
					}
				}
				if inner {
					return
				}
			}
			nPaths++
			// events on the path
			var mvV, pdV ssa.Value // nil = unchanged
			reportAt, searchAfter := -1, []int{}
			var adoptLoadAt []int
			ord := 0
			var reportCall *ssa.Call
			bp.instrsOnPath(sc.(ssa.Instruction), func(in ssa.Instruction, at int) {
				ord++
				switch x := in.(type) {
				case *ssa.Store:
					if mvAlloc != nil && x.Addr == ssa.Value(mvAlloc) {
						mvV = bp.resolveAt(x.Val, at)
					}
					if pdAlloc != nil && x.Addr == ssa.Value(pdAlloc) {
						pdV = bp.resolveAt(x.Val, at)
					}
				case *ssa.Call:
					if isReport(x) {
						reportAt, reportCall = ord, x
					}
					switch objName(calleeObj(x)) {
					case "search.(*Search).alphaBeta", "search.(*Search).quiescence":
						searchAfter = append(searchAfter, ord)
					}
				case *ssa.UnOp:
					if x.Op == token.MUL {
						if ia, ok := x.X.(*ssa.IndexAddr); ok && isActive(ia.X) {
							adoptLoadAt = append(adoptLoadAt, ord)
						}
					}
				}
			})
			final := func(i int, phis map[*ssa.Phi]bool, al *ssa.Alloc, cur ssa.Value) ssa.Value {
				if al != nil {
					return cur
				}
				var v ssa.Value
				if bp.End == "return" {
					last := bp.Blocks[len(bp.Blocks)-1]
					ret := last.Instrs[len(last.Instrs)-1].(*ssa.Return)
					if i >= len(ret.Results) {
						return nil
					}
					v = bp.resolve(returnedValue(ret, i))
				} else {
					for q := range phis {
						if q.Block() == bp.Arrive {
							v = bp.edgeValue(q)
						}
					}
					if v == nil {
						return nil
					}
				}
				if q, ok := v.(*ssa.Phi); ok && phis[q] {
					return nil // the value the region started with
				}
				return v
			}
			mvV = final(1, mvPhis, mvAlloc, mvV)
			pdV = final(2, pdPhis, pdAlloc, pdV)
			classify := func(v ssa.Value) (string, int64) {
				if v == nil {
					return "unchanged", 0
				}
				if k, isc := constOf(v); isc && k == 0 {
					return "zero", 0
				}
				if l, ok := stripConv(v).(*ssa.UnOp); ok && l.Op == token.MUL {
					if ia, ok := l.X.(*ssa.IndexAddr); ok && isActive(ia.X) {
						if k, isc := constOf(ia.Index); isc {
							return "line", k
						}
					}
				}
				if moveOrigin(v, []string{"move.(*Store).Frame"}, map[ssa.Value]bool{}, 0) == nil {
					return "fallback", 0
				}
				if call, ok := stripConv(v).(*ssa.Call); ok {
					if h := call.Call.StaticCallee(); h != nil && isOwn(h) && relPkg(fnPkgPath(h)) == "search" && objName(calleeObj(call)) != "search.(*pv).active" {
						return "fallback", 0
					}
				}
				return "other", 0
			}
			mk, mi := classify(mvV)
			pk, pi := classify(pdV)
			// what the path knows: length of the line, score against the window
			lo, hi := int64(0), int64(1<<30)
			relA, relB := "", "" // relation of sample to alpha / beta: lt le gt ge
			for _, pc := range bp.Conds {
				bo, ok := pc.V.(*ssa.BinOp)
				if !ok {
					continue
				}
				x, y, op := stripConv(bo.X), stripConv(bo.Y), bo.Op
				if lc, ok := y.(*ssa.Call); ok {
					if bi, ok := lc.Call.Value.(*ssa.Builtin); ok && bi.Name() == "len" {
						x, y, op = y, x, swapCmp(op)
					}
				}
				if lc, ok := x.(*ssa.Call); ok {
					if bi, ok := lc.Call.Value.(*ssa.Builtin); ok && bi.Name() == "len" && isActive(lc.Call.Args[0]) {
						if k, isc := constOf(y); isc {
							if !pc.True {
								op = negCmp(op)
							}
							switch op {
							case token.EQL:
								lo, hi = max(lo, k), min(hi, k)
							case token.NEQ:
								if k == lo {
									lo++
								}
								if k == hi {
									hi--
								}
							case token.LSS:
								hi = min(hi, k-1)
							case token.LEQ:
								hi = min(hi, k)
							case token.GTR:
								lo = max(lo, k+1)
							case token.GEQ:
								lo = max(lo, k)
							}
						}
						continue
					}
				}
				if sample == nil {
					continue
				}
				if y == sample {
					x, y, op = y, x, swapCmp(op)
				}
				if x != sample {
					continue
				}
				if !pc.True {
					op = negCmp(op)
				}
				rel := map[token.Token]string{token.LSS: "lt", token.LEQ: "le", token.GTR: "gt", token.GEQ: "ge"}[op]
				if rel == "" {
					continue
				}
				if y == stripConv(alpha) {
					relA = rel
				}
				if y == stripConv(beta) {
					relB = rel
				}
			}
			pos := sc.Pos()
			if mvV != nil && mvV.Pos().IsValid() {
				pos = mvV.Pos()
			}
			switch mk {
			case "line":
				nAdopt++
				note("iterativeDeepen#adoption#first-move", mi == 0, pos, "the adopted move is pv.active()["+itoa(mi)+"], not the first move of the line")
				if lo < 1 {
					undec["iterativeDeepen#adoption#first-move"] = "the line is indexed on a path that does not establish it is non-empty"
				}
				switch pk {
				case "zero":
					note("iterativeDeepen#adoption#ponder", true, pos, "")
				case "line":
					nPonder++
					note("iterativeDeepen#adoption#ponder", pi == 1 && lo >= 2, pos, "with the move, ponder is set to pv.active()["+itoa(pi)+"] on a path that only knows the line has at least "+itoa(lo)+" move(s)")
				case "unchanged":
					note("iterativeDeepen#adoption#ponder", false, pos, "a new move is adopted while the ponder move of an earlier iteration is kept (it need not be legal after the new move)")
				default:
					undec["iterativeDeepen#adoption#ponder"] = "ponder value on an adoption path not recognised"
				}
				switch {
				case relA == "gt" && relB == "lt":
					note("iterativeDeepen#adoption#inside-window", true, pos, "")
				case relA == "" && relB == "":
					undec["iterativeDeepen#adoption#inside-window"] = "no comparison of the search result with the window bounds found on an adoption path"
				default:
					note("iterativeDeepen#adoption#inside-window", false, pos, "the result is adopted on a path where the score is only known to be "+orq(relA)+" alpha and "+orq(relB)+" beta: a fail-low/fail-high line would be played")
				}
				// no search between reading the line and reporting it
				if reportAt >= 0 && len(adoptLoadAt) > 0 {
					a, b := adoptLoadAt[0], reportAt
					if a > b {
						a, b = b, a
					}
					clean := true
					for _, s := range searchAfter {
						if s > a && s < b {
							clean = false
						}
					}
					note("iterativeDeepen#adoption#no-search-before-report", clean, pos, "a search call runs between adopting the move and reporting the variation")
				}
				if bp.Arrive == start && bp.End == "arrive" {
					note("iterativeDeepen#adoption#no-search-before-report", false, pos, "the root is searched again after a move was adopted and before the iteration is reported")
				}
			case "unchanged":
				switch pk {
				case "unchanged":
				case "zero":
					// harmless for the legality of what is returned; but the result is then no longer the one of the
					// last completed iteration, so a search cut short by a hard budget answers differently from the
					// same search ended by a soft limit after the same number of nodes
					// (clearing it while the move is known to be the null move changes nothing)
					moveIsNull := false
					for _, pc := range bp.Conds {
						bo, ok := pc.V.(*ssa.BinOp)
						if !ok || (bo.Op != token.EQL && bo.Op != token.NEQ) {
							continue
						}
						if k, isc := constOf(bo.Y); !isc || k != 0 {
							continue
						}
						x := stripConv(bo.X)
						isMove := false
						if l, ok := x.(*ssa.UnOp); ok && l.Op == token.MUL && mvAlloc != nil && l.X == ssa.Value(mvAlloc) {
							isMove = true
						}
						if q, ok := x.(*ssa.Phi); ok && mvPhis[q] {
							isMove = true
						}
						if isMove && pc.True == (bo.Op == token.EQL) {
							moveIsNull = true
						}
					}
					if strictPonder && !moveIsNull {
						note("iterativeDeepen#result-of-last-iteration", false, sc.Pos(), "the ponder move is cleared on a path that keeps the move of the last completed iteration: how the search was ended (hard budget/stop vs soft limit) changes the result although score, move and node count are the same")
					}
				case "line", "fallback":
					note("iterativeDeepen#adoption#ponder", false, sc.Pos(), "ponder is replaced on a path that keeps the previous move")
				}
				if strictPonder && pk == "unchanged" {
					note("iterativeDeepen#result-of-last-iteration", true, sc.Pos(), "")
				}
				// a non-empty line reported without adopting its first move
				if reportAt >= 0 && reportCall != nil && bp.End != "return" || (reportAt >= 0 && bp.End == "return") {
					if hi >= 1 && relA == "gt" && relB == "lt" {
						note("iterativeDeepen#adoption#reported", false, reportCall.Pos(), "a variation that may be non-empty is reported on a path that does not adopt its first move: the move finally returned is not the first move of the most recent reported variation")
					} else {
						note("iterativeDeepen#adoption#reported", true, sc.Pos(), "")
					}
				}
			case "fallback":
				note("iterativeDeepen#fallback-adoption", pk == "zero", pos, "a move adopted outside the PV must clear the ponder move (ponder is "+pk+")")
			case "zero":
				// result reset to the null move: only acceptable if nothing had been adopted — left to C06
			default:
				undec["iterativeDeepen#adoption#first-move"] = "value assigned to the result move not recognised"
			}
			if mk == "line" && reportAt >= 0 {
				note("iterativeDeepen#adoption#reported", true, pos, "")
			}
		})
		if !ok {
			complete = false
		}
	}
	if !complete {
		c.Undec(r3, "iterativeDeepen#adoption", fn.Pos(), "path enumeration exceeded its budget")
		return
	}
	if strictPonder {
		if r := checks["iterativeDeepen#result-of-last-iteration"]; r != nil && r.bad != "" {
			c.Fail(r3, "iterativeDeepen#result-of-last-iteration", r.pos, "%s", r.bad)
		} else if r != nil {
			c.Ok(r3, "iterativeDeepen#result-of-last-iteration", fn.Pos(), "on every path that keeps the move of the last completed iteration its ponder move is kept too (%d paths)", r.count)
		}
	}
	keys := []string{"iterativeDeepen#adoption#first-move", "iterativeDeepen#adoption#ponder", "iterativeDeepen#adoption#inside-window", "iterativeDeepen#adoption#no-search-before-report", "iterativeDeepen#adoption#reported", "iterativeDeepen#fallback-adoption"}
	for _, k := range keys {
		r := checks[k]
		switch {
		case r != nil && r.bad != "":
			c.Fail(r3, k, r.pos, "%s", r.bad)
		case undec[k] != "":
			c.Undec(r3, k, fn.Pos(), "%s", undec[k])
		case r != nil:
			c.Ok(r3, k, fn.Pos(), "holds on all %d paths from the root search call that concern it", r.count)
		default:
			c.Undec(r3, k, fn.Pos(), "no path from the root search call exercises this obligation (%d paths)", nPaths)
		}
	}
	c.Floor(r3, nAdopt, 1, "paths adopting the first move of the PV")
	c.Floor(r3+".ponder", nPonder, 1, "paths setting ponder from the PV")
}

func orq(s string) string {
	if s == "" {
		return "unrelated to"
	}
	return s
}

func itoa(i int64) string { return fmt.Sprintf("%d", i) }

func swapCmp(op token.Token) token.Token {
	switch op {
	case token.LSS:
		return token.GTR
	case token.LEQ:
		return token.GEQ
	case token.GTR:
		return token.LSS
	case token.GEQ:
		return token.LEQ
	}
	return op
}

func negCmp(op token.Token) token.Token {
	switch op {
	case token.LSS:
		return token.GEQ
	case token.LEQ:
		return token.GTR
	case token.GTR:
		return token.LEQ
	case token.GEQ:
		return token.LSS
	case token.EQL:
		return token.NEQ
	case token.NEQ:
		return token.EQL
	}
	return op
}

// evalArith tabulates a branch-free integer function of one parameter: the returned expression is a tree of
// constants, conversions and + - * / % << >> & | ^ over the parameter. This is constant evaluation of a
// closed-form index formula over its finite domain (no control flow is executed); anything else is not evaluated.
func evalArith(fn *ssa.Function, arg int64) (int64, bool) {
	if fn == nil || len(fn.Blocks) != 1 || len(fn.Params) != 1 {
		return 0, false
	}
	ret, ok := fn.Blocks[0].Instrs[len(fn.Blocks[0].Instrs)-1].(*ssa.Return)
	if !ok || len(ret.Results) != 1 {
		return 0, false
	}
	sizes := types.SizesFor("gc", "amd64")
	wrap := func(v int64, t types.Type) int64 {
		bt, ok := t.Underlying().(*types.Basic)
		if !ok || bt.Info()&types.IsInteger == 0 {
			return v
		}
		bits := uint(sizes.Sizeof(bt)) * 8
		if bits >= 64 {
			return v
		}
		m := int64(1)<<bits - 1
		v &= m
		if bt.Info()&types.IsUnsigned == 0 && v>>(bits-1) != 0 {
			v -= int64(1) << bits
		}
		return v
	}
	var ev func(v ssa.Value, depth int) (int64, bool)
	ev = func(v ssa.Value, depth int) (int64, bool) {
		if depth > 40 {
			return 0, false
		}
		switch x := v.(type) {
		case *ssa.Parameter:
			return wrap(arg, x.Type()), true
		case *ssa.Const:
			k, ok := constOf(x)
			return k, ok
		case *ssa.Convert:
			a, ok := ev(x.X, depth+1)
			return wrap(a, x.Type()), ok
		case *ssa.ChangeType:
			return ev(x.X, depth+1)
		case *ssa.BinOp:
			a, ok1 := ev(x.X, depth+1)
			b, ok2 := ev(x.Y, depth+1)
			if !ok1 || !ok2 {
				return 0, false
			}
			var r int64
			switch x.Op {
			case token.ADD:
				r = a + b
			case token.SUB:
				r = a - b
			case token.MUL:
				r = a * b
			case token.QUO:
				if b == 0 {
					return 0, false
				}
				r = a / b
			case token.REM:
				if b == 0 {
					return 0, false
				}
				r = a % b
			case token.SHL:
				if b < 0 || b > 62 {
					return 0, false
				}
				r = a << uint(b)
			case token.SHR:
				if b < 0 || b > 62 {
					return 0, false
				}
				r = a >> uint(b)
			case token.AND:
				r = a & b
			case token.OR:
				r = a | b
			case token.XOR:
				r = a ^ b
			default:
				return 0, false
			}
			return wrap(r, x.Type()), true
		}
		return 0, false
	}
	return ev(ret.Results[0], 0)
}

// c07Rows: the PV buffer is triangular: the line stored for ply p can hold MaxPlies-p moves, so the row
// starts bufIx(p) must leave that much room before the next row, stay inside the buffer and start at 0.
func c07Rows(c *Ctx, p *Prog) {
	const rule = "C07.R2"
	fn := p.Func("search.bufIx")
	mp, ok := p.pkgConstInt("chess.MaxPlies")
	if fn == nil || !ok {
		c.Anchor(rule, "search.bufIx / chess.MaxPlies")
		return
	}
	// length of pv.moves
	movesLen := int64(-1)
	if pk := p.Pkg("search"); pk != nil {
		if tn, ok := pk.Types.Scope().Lookup("pv").(*types.TypeName); ok {
			if st, ok := tn.Type().Underlying().(*types.Struct); ok {
				for i := 0; i < st.NumFields(); i++ {
					if at, ok := st.Field(i).Type().Underlying().(*types.Array); ok && st.Field(i).Name() == "moves" {
						movesLen = at.Len()
					}
				}
			}
		}
	}
	starts := make([]int64, mp)
	for q := int64(0); q < mp; q++ {
		v, ok := evalArith(fn, q)
		if !ok {
			c.Undec(rule, "bufIx#rows-disjoint", fn.Pos(), "bufIx is not a branch-free arithmetic function of the ply: the row layout is not tabulated")
			return
		}
		starts[q] = v
	}
	bad := ""
	if starts[0] != 0 {
		bad = fmt.Sprintf("row 0 starts at %d", starts[0])
	}
	for q := int64(0); q+1 < mp && bad == ""; q++ {
		if starts[q+1] < starts[q]+(mp-q) {
			bad = fmt.Sprintf("row %d starts at %d and can hold %d moves, but row %d already starts at %d: a long line at ply %d overwrites the line of ply %d (the tail insert copies from)", q, starts[q], mp-q, q+1, starts[q+1], q, q+1)
		}
	}
	if bad == "" && movesLen >= 0 && starts[mp-1]+1 > movesLen {
		bad = fmt.Sprintf("the last row starts at %d, beyond the %d-entry buffer", starts[mp-1], movesLen)
	}
	if bad == "" {
		c.Ok(rule, "bufIx#rows-disjoint", fn.Pos(), "tabulated for ply 0..%d: row p starts at bufIx(p) and has room for MaxPlies-p moves before row p+1; all rows lie inside the buffer", mp-1)
	} else {
		c.Fail(rule, "bufIx#rows-disjoint", fn.Pos(), "%s", bad)
	}
}
