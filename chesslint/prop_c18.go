package main

// C18 — exchange evaluation (heur.SEE) matches the capture-sequence minimax it
// approximates. The swap loop of SEE is modelled from its SSA form: the loop
// header's phi nodes (occupancy, attacker set, running balance, parity flag),
// the chain of `stmAttackers & Pieces[K] != 0` tests, the per-side `start`
// markers, and what every capture branch sends round the back edge.

import (
	"fmt"
	"go/ast"
	"go/token"
	"go/types"
	"sort"
	"strings"

	"golang.org/x/tools/go/ssa"
)

func init() {
	register(&Property{
		ID: "C18",
		Explain: "Static necessary conditions for 'heur.SEE(b, m, t) answers whether the minimax over least-valuable-attacker capture sequences on the target square is >= t', decided on a model of the swap loop built from SSA (loop-header phis, test chain, back edges), never from text; all matching is on normalised expressions (conversions dropped, &^ = & ^, swapped/negated comparisons, commutative operands sorted) in which calls of single-block pure chess-3 helpers are replaced by what they return, so helper extraction, hoisting and De Morgan rewrites do not change a verdict. " +
			"R1: every attack pattern in SEE is intersected with exactly the piece kinds that move that way, pawn attackers use the opposite colour's capture pattern, and the initial attacker set covers both pawn colours, knight, both slider kinds and king. " +
			"R2: one loop iteration is simulated along every path for every value the per-side marker can hold (its loads, locals fed from it, stores and all comparisons among them evaluated concretely, so switch/fallthrough, if-chains over a `phase` local and range tests read the same); on every arrival a kind is tested only when every strictly cheaper kind (PieceValues read from the literal) is exhausted for the side to move, either by a failed test in this iteration or by a `start` marker value that is stored only where that exhaustion holds and only encodes kinds whose attacker set cannot grow by x-ray; Pawn..Queen are all tested; the king is decided last through `attackers & occ &^ Colors[stm] != 0`, used as a branch condition or as a value inside the returned expression; a back edge without capture is never taken for any marker value. " +
			"R3: each capture branch subtracts a value equal to PieceValues of the tested kind from the running balance, removes exactly the lowest bit of the tested set from the occupancy, leaves early iff balance < parity (0 for the defender's turn, 1 for the attacker's) returning the parity's verdict; parity flips once per capture. " +
			"R4: after a Pawn/Bishop/Queen capture diagonal sliders, after a Rook/Queen capture orthogonal sliders are re-read from the target square with the updated occupancy and or-ed to the carried set; every selection and the king test mask the attacker set with the current occupancy. " +
			"R5: the mover leaves the occupancy before the first attacker computation, an en-passant victim leaves it at CaptureSq; SEE returns false before the loop iff PieceValues[piece on CaptureSq] + promoVal - threshold < 0 and true iff PieceValues[mover] - PieceValues[captured] + threshold <= 0 (the loop needs a positive balance on entry), the balance entering the loop is that same risk-minus-gain term, promoVal = PieceValues[promo]-PieceValues[Pawn] only for promotions; the first reply is by the opponent and sides alternate. " +
			"R6: RankNoisy's SEE threshold is provably <= 0 (constant or min(0, …)) and every test in quiescence that drops a move on its Weight alone splits at a bound <= heur.Captures, so no capture SEE judged good is pruned by rank. " +
			"A departure is reported as a violation only when every part of the loop it depends on was understood; otherwise (helper extraction, other marker representation, unknown branch in the chain) the verdict is 'undecided'. " +
			"Not decided: equality with the minimax for concrete positions, pins, promotions inside the exchange, monotonicity in the threshold, the sign bands of RankNoisy's return (C16).",
		Assume: []string{"go/ssa models SEE faithfully", "Board.CaptureSq/IsEnPassant/Color.Flip and the Move accessors mean what their names say (C01/C02)", "nothing reachable from SEE stores to the Board (checked with the effect engine; otherwise undecided)"},
		Run:    runC18,
	})
}

func runC18(c *Ctx) {
	p := c.need("default")
	if p == nil {
		return
	}
	see := p.Func("heur.SEE")
	if see == nil {
		c.Anchor("C18.model", "heur.SEE")
	} else {
		// pairing sites are looked for in SEE and in every chess-3 function it (transitively) calls,
		// so that slider lookups moved into helpers still count and are still checked
		in := map[*ssa.Function]bool{}
		for _, f := range p.closure([]*ssa.Function{see}, nil) {
			in[f] = true
		}
		scope := func(fn *ssa.Function) bool { return in[fn] }
		n1 := pa1(c, p, "C18.R1.PA1", scope)
		c.Floor("C18.R1.PA1", n1, 5, "attack-pattern ∩ piece-set sites reachable from SEE (one per pattern kind is the minimum; 11 when nothing is shared)")
		n4 := pa4(c, p, "C18.R1.PA4", scope)
		c.Floor("C18.R1.PA4", n4, 1, "reverse pawn-capture lookups reachable from SEE")
		if m := c18Build(c, p, see); m != nil {
			m.r1init(c)
			m.r2(c)
			m.r3(c)
			m.r4(c)
			m.r5(c)
		}
	}
	c18R6(c, p)
}

// ---------- expression view of SSA values ----------
//
// Every rule below matches on c18E trees, not on raw SSA: conversions are dropped, `x &^ y` is
// `x & ^y`, `a > b` is `b < a`, `!(a < b)` is `b <= a`, loads are classified by what they load, and a
// call to a single-block side-effect-free chess-3 function is replaced by the expression it returns with
// parameters bound to the arguments (helper extraction and inlining look the same). Equality of
// expressions is structural with commutative operands sorted.

type c18E struct {
	op, name string
	a        []*c18E
	k        int64
	v        ssa.Value
	ks       string
}

type c18Env struct{ bind map[*ssa.Parameter]*c18E }

type c18MK struct {
	v   ssa.Value
	env *c18Env
}

type c18B struct {
	memo  map[c18MK]*c18E
	depth int
}

// calls that are the vocabulary of the rules and therefore never looked into
var c18Atoms = map[string]bool{"move.(Move).From": true, "move.(Move).To": true, "move.(Move).Promo": true,
	"board.(*Board).CaptureSq": true, "board.(*Board).IsEnPassant": true, "chess.(Color).Flip": true}

func (b *c18B) e(v ssa.Value, env *c18Env) *c18E {
	if v == nil {
		return &c18E{op: "opaque"}
	}
	mk := c18MK{v, env}
	if x, ok := b.memo[mk]; ok {
		return x
	}
	x := b.build(v, env)
	if x.v == nil {
		x.v = v
	}
	b.memo[mk] = x
	return x
}

// c18Inlinable: fn is one straight-line block of pure instructions returning one value.
func c18Inlinable(fn *ssa.Function) *ssa.Return {
	if fn == nil || !isOwn(fn) || len(fn.Blocks) != 1 || c18Atoms[fnName(fn)] || relPkg(fnPkgPath(fn)) == "attacks" {
		return nil
	}
	for _, in := range fn.Blocks[0].Instrs {
		switch x := in.(type) {
		case *ssa.BinOp, *ssa.UnOp, *ssa.FieldAddr, *ssa.IndexAddr, *ssa.Convert, *ssa.ChangeType, *ssa.Call, *ssa.DebugRef, *ssa.Field, *ssa.Index:
		case *ssa.Return:
			if len(x.Results) == 1 {
				return x
			}
			return nil
		default:
			return nil
		}
	}
	return nil
}

func (b *c18B) build(v ssa.Value, env *c18Env) *c18E {
	bin := func(op string, x, y ssa.Value) *c18E { return &c18E{op: op, a: []*c18E{b.e(x, env), b.e(y, env)}} }
	un := func(op string, x *c18E) *c18E { return &c18E{op: op, a: []*c18E{x}} }
	switch x := v.(type) {
	case *ssa.Convert:
		return b.e(x.X, env)
	case *ssa.ChangeType:
		return b.e(x.X, env)
	case *ssa.Const:
		if k, ok := constOf(x); ok {
			return &c18E{op: "const", k: k}
		}
	case *ssa.Parameter:
		if env != nil {
			if y, ok := env.bind[x]; ok {
				return y
			}
		}
		return &c18E{op: "param"}
	case *ssa.Phi:
		return &c18E{op: "phi"}
	case *ssa.BinOp:
		switch x.Op {
		case token.AND:
			return bin("and", x.X, x.Y)
		case token.OR:
			return bin("or", x.X, x.Y)
		case token.XOR:
			return bin("xor", x.X, x.Y)
		case token.ADD:
			return bin("add", x.X, x.Y)
		case token.SUB:
			return bin("sub", x.X, x.Y)
		case token.SHL:
			return bin("shl", x.X, x.Y)
		case token.EQL:
			return bin("eq", x.X, x.Y)
		case token.NEQ:
			return bin("ne", x.X, x.Y)
		case token.LSS:
			return bin("lt", x.X, x.Y)
		case token.LEQ:
			return bin("le", x.X, x.Y)
		case token.GTR:
			return bin("lt", x.Y, x.X)
		case token.GEQ:
			return bin("le", x.Y, x.X)
		case token.AND_NOT:
			n := un("not", b.e(x.Y, env))
			n.v = x
			return &c18E{op: "and", a: []*c18E{b.e(x.X, env), n}}
		}
	case *ssa.UnOp:
		switch x.Op {
		case token.XOR:
			return un("not", b.e(x.X, env))
		case token.SUB:
			return un("neg", b.e(x.X, env))
		case token.NOT:
			y := b.e(x.X, env)
			switch y.op {
			case "lt":
				return &c18E{op: "le", a: []*c18E{y.a[1], y.a[0]}}
			case "le":
				return &c18E{op: "lt", a: []*c18E{y.a[1], y.a[0]}}
			case "eq":
				return &c18E{op: "ne", a: y.a}
			case "ne":
				return &c18E{op: "eq", a: y.a}
			}
			return un("lnot", y)
		case token.MUL:
			return b.load(x, env)
		}
	case *ssa.Call:
		var args []*c18E
		for _, a := range x.Call.Args {
			args = append(args, b.e(a, env))
		}
		if bi, ok := x.Call.Value.(*ssa.Builtin); ok {
			return &c18E{op: "call", name: "builtin." + bi.Name(), a: args}
		}
		callee := x.Call.StaticCallee()
		if callee == nil || x.Call.IsInvoke() {
			return &c18E{op: "opaque"}
		}
		if ret := c18Inlinable(callee); ret != nil && b.depth < 6 && len(callee.Params) == len(args) {
			ne := &c18Env{bind: map[*ssa.Parameter]*c18E{}}
			for i, pr := range callee.Params {
				ne.bind[pr] = args[i]
			}
			b.depth++
			r := b.e(ret.Results[0], ne)
			b.depth--
			return r
		}
		return &c18E{op: "call", name: fnName(callee), a: args}
	}
	return &c18E{op: "opaque"}
}

// load classifies *addr by what is loaded.
func (b *c18B) load(u *ssa.UnOp, env *c18Env) *c18E {
	switch ad := u.X.(type) {
	case *ssa.IndexAddr:
		idx := []*c18E{b.e(ad.Index, env)}
		switch base := ad.X.(type) {
		case *ssa.Global:
			return &c18E{op: "glob", name: globalName(base), a: idx}
		case *ssa.Alloc:
			return &c18E{op: "elem", a: idx, v: base}
		}
		if fr, ok := asFieldAddr(ad.X); ok {
			switch fr.Name() {
			case "Board.Pieces":
				return &c18E{op: "pieces", a: idx}
			case "Board.Colors":
				return &c18E{op: "colors", a: idx}
			case "Board.SquaresToPiece":
				return &c18E{op: "stp", a: idx}
			}
			return &c18E{op: "fieldelem", name: fr.QName(), a: idx}
		}
	case *ssa.FieldAddr:
		if fr, ok := asFieldAddr(ad); ok {
			return &c18E{op: "field", name: fr.Name()}
		}
	}
	return &c18E{op: "opaque"}
}

func c18ValName(v ssa.Value) string {
	if v == nil {
		return "?"
	}
	if f := v.Parent(); f != nil {
		return v.Name() + "@" + f.Name()
	}
	return v.Name()
}

var c18Assoc = map[string]bool{"and": true, "or": true, "xor": true, "add": true}

// leaves flattens nested applications of the associative operator op.
func (e *c18E) leaves(op string, out *[]*c18E) {
	if e.op == op && c18Assoc[op] {
		for _, a := range e.a {
			a.leaves(op, out)
		}
		return
	}
	*out = append(*out, e)
}

func (e *c18E) key() string {
	if e.ks != "" {
		return e.ks
	}
	var parts []string
	switch {
	case e.op == "const":
		e.ks = fmt.Sprintf("#%d", e.k)
		return e.ks
	case e.op == "param" || e.op == "phi" || e.op == "opaque":
		e.ks = e.op + ":" + c18ValName(e.v)
		return e.ks
	case c18Assoc[e.op]:
		var ls []*c18E
		e.leaves(e.op, &ls)
		seen := map[string]bool{}
		for _, l := range ls {
			if k := l.key(); !seen[k] || (e.op != "and" && e.op != "or") { // x&x = x, x|x = x
				parts = append(parts, k)
				seen[k] = true
			}
		}
		sort.Strings(parts)
	default:
		for _, a := range e.a {
			parts = append(parts, a.key())
		}
		if e.op == "eq" || e.op == "ne" {
			sort.Strings(parts)
		}
	}
	nm := e.name
	if e.op == "elem" {
		nm = c18ValName(e.v)
	}
	e.ks = e.op + ":" + nm + "(" + strings.Join(parts, ",") + ")"
	return e.ks
}

func c18Same(a, b *c18E) bool { return a != nil && b != nil && (a == b || a.key() == b.key()) }

func (e *c18E) isConst(k int64) bool { return e.op == "const" && e.k == k }

func (e *c18E) pos() token.Pos {
	if e.v != nil && e.v.Pos().IsValid() {
		return e.v.Pos()
	}
	for _, a := range e.a {
		if p := a.pos(); p.IsValid() {
			return p
		}
	}
	return token.NoPos
}

// andLeaves flattens an &-tree into positive and complemented conjuncts.
func (e *c18E) andLeaves() (pos, neg []*c18E) {
	var ls []*c18E
	e.leaves("and", &ls)
	for _, l := range ls {
		if l.op == "not" {
			neg = append(neg, l.a[0])
		} else {
			pos = append(pos, l)
		}
	}
	return
}

func (e *c18E) orLeaves() []*c18E {
	var ls []*c18E
	e.leaves("or", &ls)
	return ls
}

func c18Keys(es []*c18E) string {
	var s []string
	seen := map[string]bool{}
	for _, e := range es {
		if !seen[e.key()] {
			s = append(s, e.key())
		}
		seen[e.key()] = true
	}
	sort.Strings(s)
	return strings.Join(s, ",")
}

// piecesKind: e is Board.Pieces[const].
func (e *c18E) piecesKind() (int64, bool) {
	if e.op == "pieces" && e.a[0].op == "const" {
		return e.a[0].k, true
	}
	return 0, false
}

// pieceSet: e is an |-combination of Pieces[const] loads.
func (e *c18E) pieceSet() bool {
	for _, l := range e.orLeaves() {
		if _, ok := l.piecesKind(); !ok {
			return false
		}
	}
	return true
}

// attackCall: e is a call of an attacks.* pattern function -> its kind (pa.go's table).
func (e *c18E) attackCall() (string, bool) {
	if e.op != "call" {
		return "", false
	}
	F, ok := attackFns[e.name]
	return F, ok
}

// ---------- model ----------

type c18Test struct {
	kind       int64
	name       string
	T          *c18E   // tested set: stmAttackers & Pieces[kind]
	rest       []*c18E // its other conjuncts
	restKey    string
	iff        *ssa.If
	taken, els *ssa.BasicBlock
	backs      []int // indices into H.Preds of back edges dominated by taken
}

type c18Model struct {
	p                       *Prog
	b                       *c18B
	fn                      *ssa.Function
	pB, pM, pThr            *ssa.Parameter
	pcs                     map[int64]string
	val                     map[int64]int64 // piece kind -> PieceValues[kind]
	H                       *ssa.BasicBlock
	entryIx                 int
	backIx                  []int
	stmE                    *c18E // colour whose attackers are selected in this iteration
	att, occ, swap, res     *ssa.Phi
	attE, occE, swapE, resE *c18E
	resEntry                int64
	tests, oddTests         []*c18Test
	promoNote               string
	phiSel                  map[*ssa.Phi]ssa.Value // phis resolved along the edge currently followed by retTable
	kingE                   *c18E                  // "enemy attackers remain" comparison assumed to have value kingV by parEval
	kingV                   int64
}

func (m *c18Model) x(v ssa.Value) *c18E { return m.b.e(v, nil) }

// c18Pos: a source position for an If (the SSA If itself carries none).
func c18Pos(iff *ssa.If) token.Pos {
	if p := iff.Cond.Pos(); p.IsValid() {
		return p
	}
	return c18BlockPos(iff.Block())
}

func c18BlockPos(b *ssa.BasicBlock) token.Pos {
	for i := len(b.Instrs) - 1; i >= 0; i-- {
		if p := b.Instrs[i].Pos(); p.IsValid() {
			return p
		}
	}
	for _, pr := range b.Preds {
		if iff, ok := c18Last(pr).(*ssa.If); ok && iff.Cond.Pos().IsValid() {
			return iff.Cond.Pos()
		}
	}
	return b.Parent().Pos()
}

func c18Last(b *ssa.BasicBlock) ssa.Instruction {
	if len(b.Instrs) == 0 {
		return nil
	}
	return b.Instrs[len(b.Instrs)-1]
}

// zeroTest: the If compares X with 0; returns X and the successors taken when X != 0 / X == 0.
func (m *c18Model) zeroTest(iff *ssa.If) (x *c18E, nz, z *ssa.BasicBlock, ok bool) {
	ce := m.x(iff.Cond)
	if (ce.op != "eq" && ce.op != "ne") || len(ce.a) != 2 {
		return nil, nil, nil, false
	}
	switch {
	case ce.a[1].isConst(0):
		x = ce.a[0]
	case ce.a[0].isConst(0):
		x = ce.a[1]
	default:
		return nil, nil, nil, false
	}
	b := iff.Block()
	if ce.op == "ne" {
		return x, b.Succs[0], b.Succs[1], true
	}
	return x, b.Succs[1], b.Succs[0], true
}

type c18Guard struct {
	cond  *c18E
	truth bool
}

// edgeGuards: branch conditions known to hold when control flows along P -> B.
func (b *c18B) edgeGuards(P, B *ssa.BasicBlock) []c18Guard {
	var gs []c18Guard
	for _, ce := range controllingConds(P) {
		gs = append(gs, c18Guard{b.e(ce.Cond, nil), ce.True})
	}
	if iff, ok := c18Last(P).(*ssa.If); ok && P.Succs[0] != P.Succs[1] {
		if P.Succs[0] == B {
			gs = append(gs, c18Guard{b.e(iff.Cond, nil), true})
		} else if P.Succs[1] == B {
			gs = append(gs, c18Guard{b.e(iff.Cond, nil), false})
		}
	}
	return gs
}

func (m *c18Model) edgeGuards(P, B *ssa.BasicBlock) []c18Guard { return m.b.edgeGuards(P, B) }

// flipOf: e is the other colour of x, written x.Flip(), x ^ 1 or 1 - x.
func c18FlipOf(e *c18E) (*c18E, bool) {
	switch {
	case e.op == "call" && e.name == "chess.(Color).Flip" && len(e.a) == 1:
		return e.a[0], true
	case e.op == "xor" && e.a[1].isConst(1):
		return e.a[0], true
	case e.op == "xor" && e.a[0].isConst(1):
		return e.a[1], true
	case e.op == "sub" && e.a[0].isConst(1):
		return e.a[1], true
	}
	return nil, false
}

func c18Build(c *Ctx, p *Prog, see *ssa.Function) *c18Model {
	const rule = "C18.model"
	m := &c18Model{p: p, b: &c18B{memo: map[c18MK]*c18E{}}, fn: see, pcs: pieceConsts(p), val: map[int64]int64{}}
	if len(m.fn.Params) != 3 {
		c.Undec(rule, "heur.SEE#signature", m.fn.Pos(), "expected SEE(board, move, threshold)")
		return nil
	}
	m.pB, m.pM, m.pThr = m.fn.Params[0], m.fn.Params[1], m.fn.Params[2]
	// the model treats Board loads as loop-invariant: nothing reachable from SEE may store to the board
	eff := unionEffects(p.closure([]*ssa.Function{m.fn}, nil))
	for _, k := range sortedKeys(eff.FieldWrites) {
		if strings.HasPrefix(k, "board.Board.") {
			c.Undec(rule, "heur.SEE#writes:"+k, eff.FieldWrites[k][0].Pos, "SEE (transitively) stores to %s: the swap-loop model assumes an unchanged board", k)
			return nil
		}
	}
	// piece values from the literal; the literal is the run-time value only if nobody writes the array later
	expr, pk := p.pkgVarInit("heur.PieceValues")
	if expr == nil || pk == nil {
		c.Anchor(rule, "heur.PieceValues (initialiser)")
		return nil
	}
	vals, err := c18Literal(pk.TypesInfo, expr)
	if err != nil || len(vals) < 7 {
		c.Undec(rule, "heur.PieceValues#literal", expr.Pos(), "PieceValues is not a flat literal of >= 7 integer constants (%v)", err)
		return nil
	}
	if w := p.nonInitGlobalWriters("heur.PieceValues"); len(w) > 0 {
		c.Undec(rule, "heur.PieceValues#writers", expr.Pos(), "PieceValues is written or escapes after initialisation (%v): the literal is not the value SEE reads", w)
		return nil
	}
	if len(m.pcs) != 7 {
		c.Anchor(rule, "chess piece constants NoPiece..King")
		return nil
	}
	for k := range m.pcs {
		if k >= 0 && int(k) < len(vals) {
			m.val[k] = int64(vals[k])
		}
	}
	// capture tests: `rest & Pieces[K] != 0`
	byRest := map[string][]*c18Test{}
	for _, b := range m.fn.Blocks {
		iff, ok := c18Last(b).(*ssa.If)
		if !ok {
			continue
		}
		x, nz, z, ok := m.zeroTest(iff)
		if !ok || nz == z {
			continue
		}
		pos, neg := x.andLeaves()
		kind, nk := int64(-1), 0
		var rest []*c18E
		dup := map[string]bool{}
		for _, lf := range pos {
			if k, ok := lf.piecesKind(); ok {
				kind = k
				nk++
			} else if !dup[lf.key()] {
				rest = append(rest, lf)
				dup[lf.key()] = true
			}
		}
		if nk != 1 || len(neg) != 0 || len(rest) == 0 || m.pcs[kind] == "" {
			continue
		}
		t := &c18Test{kind: kind, name: m.pcs[kind], T: x, rest: rest, restKey: c18Keys(rest), iff: iff, taken: nz, els: z}
		byRest[t.restKey] = append(byRest[t.restKey], t)
	}
	best := ""
	for k, ts := range byRest {
		if len(ts) > len(byRest[best]) || (len(ts) == len(byRest[best]) && k < best) {
			best = k
		}
	}
	if best == "" {
		c.Undec(rule, "heur.SEE#tests", m.fn.Pos(), "no `set & Pieces[K] != 0` test found in SEE: capture loop not recognisable")
		return nil
	}
	m.tests = byRest[best]
	for k, ts := range byRest {
		if k != best {
			m.oddTests = append(m.oddTests, ts...)
		}
	}
	// the selected set: attackers & occ & Colors[stm] with attackers, occ phis of one loop header
	var phis []*ssa.Phi
	var col []*c18E
	rest := m.tests[0].rest
	for _, lf := range rest {
		if ph, ok := lf.v.(*ssa.Phi); ok && lf.op == "phi" && ph.Parent() == m.fn {
			phis = append(phis, ph)
		} else if lf.op == "colors" {
			col = append(col, lf.a[0])
		}
	}
	at := c18Pos(m.tests[0].iff)
	if len(rest) != 3 || len(phis) != 2 || len(col) != 1 || phis[0].Block() != phis[1].Block() {
		c.Undec(rule, "heur.SEE#selection", at, "the tested attacker set is not `attackers(phi) & occ(phi) & Colors[stm]` (%d conjuncts, %d loop-carried, %d colour sets): `attackers &= occ` before the selection cannot be established", len(rest), len(phis), len(col))
		return nil
	}
	m.stmE = col[0]
	m.H = phis[0].Block()
	m.entryIx = -1
	for i, pr := range m.H.Preds {
		if m.H.Dominates(pr) {
			m.backIx = append(m.backIx, i)
		} else if m.entryIx >= 0 {
			m.entryIx = -2
		} else {
			m.entryIx = i
		}
	}
	if m.entryIx < 0 || len(m.backIx) == 0 {
		c.Undec(rule, "heur.SEE#loop", at, "the block carrying the attacker/occupancy phis is not a loop header with a single entry")
		return nil
	}
	for _, t := range append(append([]*c18Test{}, m.tests...), m.oddTests...) {
		if !m.H.Dominates(t.iff.Block()) {
			c.Undec(rule, "heur.SEE#tests", c18Pos(t.iff), "a piece-kind test lies outside the capture loop")
			return nil
		}
		for _, i := range m.backIx {
			if t.taken.Dominates(m.H.Preds[i]) {
				t.backs = append(t.backs, i)
			}
		}
	}
	// which phi is the occupancy: its entry value evaluates to "all pieces minus squares"
	_, ok0 := m.occEval(m.x(phis[0].Edges[m.entryIx]), 0)
	_, ok1 := m.occEval(m.x(phis[1].Edges[m.entryIx]), 0)
	switch {
	case ok0 && !ok1:
		m.occ, m.att = phis[0], phis[1]
	case ok1 && !ok0:
		m.occ, m.att = phis[1], phis[0]
	default:
		c.Undec(rule, "heur.SEE#occ", at, "cannot tell occupancy from attacker set: neither/both loop-carried conjuncts start as Colors[0]|Colors[1] minus square bits")
		return nil
	}
	m.occE, m.attE = m.x(m.occ), m.x(m.att)
	// running balance (some back edge is `value - phi`) and parity (constant entry, one flipped value on all back edges)
	for _, in := range m.H.Instrs {
		ph, ok := in.(*ssa.Phi)
		if !ok || ph == m.occ || ph == m.att {
			continue
		}
		phE := m.x(ph)
		if f := map[string]int{}; m.swap == nil {
			m.lin(m.x(ph.Edges[m.entryIx]), 1, f, 0)
			if f["thr"] != 0 { // the balance is the loop-carried value that starts from the threshold
				m.swap, m.swapE = ph, phE
			}
		}
		if e, ok := constOf(ph.Edges[m.entryIx]); ok && m.res == nil && (e == 0 || e == 1) {
			nv := m.x(ph.Edges[m.backIx[0]])
			same := nv != phE
			for _, i := range m.backIx {
				same = same && c18Same(m.x(ph.Edges[i]), nv)
			}
			if same {
				m.res, m.resE, m.resEntry = ph, phE, e
				v0, k0 := m.parEval(nv, 0)
				v1, k1 := m.parEval(nv, 1)
				if !k0 || !k1 || v0 != 1 || v1 != 0 {
					m.res, m.resE = nil, nil
				}
			}
		}
	}
	return m
}

// c18Literal reads a one-dimensional array/slice literal of integer constants, keyed (`Pawn: 100`) or
// not; as in the language an element without key follows its predecessor, elements not mentioned are 0.
func c18Literal(info *types.Info, e ast.Expr) ([]uint64, error) {
	cl, ok := ast.Unparen(e).(*ast.CompositeLit)
	if !ok {
		return nil, fmt.Errorf("not a composite literal")
	}
	var vals []uint64
	next := int64(0)
	for _, el := range cl.Elts {
		if kv, ok := el.(*ast.KeyValueExpr); ok {
			k, isc := constInt(info, kv.Key)
			if !isc || k < 0 || k > 1<<16 {
				return nil, fmt.Errorf("element key is not a small integer constant")
			}
			next, el = k, kv.Value
		}
		v, isc := constUint(info, el)
		if !isc {
			return nil, fmt.Errorf("element %d is not an integer constant", next)
		}
		for int64(len(vals)) <= next {
			vals = append(vals, 0)
		}
		vals[next] = v
		next++
	}
	return vals, nil
}

// ---------- symbolic helpers ----------

func (m *c18Model) isParam(e *c18E, p *ssa.Parameter) bool {
	return e.op == "param" && e.v == ssa.Value(p)
}

// sqRole: e is m.From() / m.To() / b.CaptureSq(m) of SEE's own move and board.
func (m *c18Model) sqRole(e *c18E) string {
	if e.op != "call" {
		return ""
	}
	switch e.name {
	case "move.(Move).From":
		if len(e.a) == 1 && m.isParam(e.a[0], m.pM) {
			return "from"
		}
	case "move.(Move).To":
		if len(e.a) == 1 && m.isParam(e.a[0], m.pM) {
			return "to"
		}
	case "board.(*Board).CaptureSq":
		if len(e.a) == 2 && m.isParam(e.a[0], m.pB) && m.isParam(e.a[1], m.pM) {
			return "capture"
		}
	}
	return ""
}

// bitRoles: e is 1<<sq or an |-combination of such -> roles of the squares.
func (m *c18Model) bitRoles(e *c18E) ([]string, bool) {
	var out []string
	for _, l := range e.orLeaves() {
		if l.op != "shl" || !l.a[0].isConst(1) {
			return nil, false
		}
		r := m.sqRole(l.a[1])
		if r == "" {
			return nil, false
		}
		out = append(out, r)
	}
	return out, true
}

type c18OccAlt struct {
	removed map[string]bool
	guards  []c18Guard
}

// occEval: e = (Colors[0]|Colors[1]) with square bits removed, possibly merged by phis.
func (m *c18Model) occEval(e *c18E, depth int) ([]c18OccAlt, bool) {
	if depth > 8 {
		return nil, false
	}
	remove := func(x *c18E, bits []*c18E) ([]c18OccAlt, bool) {
		var rs []string
		for _, bt := range bits {
			r, ok := m.bitRoles(bt)
			if !ok {
				return nil, false
			}
			rs = append(rs, r...)
		}
		alts, ok := m.occEval(x, depth+1)
		if !ok {
			return nil, false
		}
		for i := range alts {
			nr := map[string]bool{}
			for k := range alts[i].removed {
				nr[k] = true
			}
			for _, r := range rs {
				nr[r] = true
			}
			alts[i].removed = nr
		}
		return alts, true
	}
	switch e.op {
	case "or":
		ls := e.orLeaves()
		// `| 1<<To()` only adds the target square: neither the lookups from it nor attackers & occ see that bit
		var rest []*c18E
		for _, l := range ls {
			if rs, ok := m.bitRoles(l); !ok || len(rs) != 1 || rs[0] != "to" {
				rest = append(rest, l)
			}
		}
		if len(rest) == 1 && len(ls) > 1 {
			return m.occEval(rest[0], depth+1)
		}
		ls = rest
		if len(ls) == 2 && ls[0].op == "colors" && ls[1].op == "colors" && ls[0].a[0].op == "const" && ls[1].a[0].op == "const" &&
			ls[0].a[0].k+ls[1].a[0].k == 1 && ls[0].a[0].k*ls[1].a[0].k == 0 {
			return []c18OccAlt{{removed: map[string]bool{}}}, true
		}
	case "xor":
		if a, ok := remove(e.a[0], e.a[1:]); ok {
			return a, true
		}
		return remove(e.a[1], e.a[:1])
	case "and":
		if pos, neg := e.andLeaves(); len(pos) == 1 && len(neg) > 0 {
			return remove(pos[0], neg)
		}
	case "phi":
		ph, ok := e.v.(*ssa.Phi)
		if !ok || ph.Parent() != m.fn {
			return nil, false
		}
		var out []c18OccAlt
		for i, ed := range ph.Edges {
			alts, ok := m.occEval(m.x(ed), depth+1)
			if !ok {
				return nil, false
			}
			g := m.edgeGuards(ph.Block().Preds[i], ph.Block())
			for _, a := range alts {
				a.guards = append(append([]c18Guard{}, a.guards...), g...)
				out = append(out, a)
			}
		}
		return out, true
	}
	return nil, false
}

func (m *c18Model) isPromoCall(e *c18E) bool {
	return e.op == "call" && e.name == "move.(Move).Promo" && len(e.a) == 1 && m.isParam(e.a[0], m.pM)
}

// lin adds sign*e to the linear form out (atoms: PV@role, PV[Kind], thr, promoVal, "1").
func (m *c18Model) lin(e *c18E, sign int, out map[string]int, depth int) {
	if depth > 12 {
		out["?deep"] += sign
		return
	}
	if m.swapE != nil && e == m.swapE {
		out["bal"] += sign
		return
	}
	switch e.op {
	case "const":
		out["1"] += sign * int(e.k)
		return
	case "add":
		m.lin(e.a[0], sign, out, depth+1)
		m.lin(e.a[1], sign, out, depth+1)
		return
	case "sub":
		m.lin(e.a[0], sign, out, depth+1)
		m.lin(e.a[1], -sign, out, depth+1)
		return
	case "neg":
		m.lin(e.a[0], -sign, out, depth+1)
		return
	case "param":
		if m.isParam(e, m.pThr) {
			out["thr"] += sign
			return
		}
	case "glob":
		if e.name != "heur.PieceValues" {
			break
		}
		switch idx := e.a[0]; {
		case idx.op == "const":
			out["PV["+m.pcs[idx.k]+"]"] += sign
		case m.isPromoCall(idx):
			out["PV@promo"] += sign
		case idx.op == "stp" && m.sqRole(idx.a[0]) != "":
			out["PV@"+m.sqRole(idx.a[0])] += sign
		default:
			out["PV@?"+idx.key()] += sign
		}
		return
	case "phi":
		if ph, ok := e.v.(*ssa.Phi); ok && ph.Parent() == m.fn {
			if is, note := m.promoPhi(ph); is {
				if note != "" {
					m.promoNote = note
				}
				out["promoVal"] += sign
				return
			}
		}
	case "call":
		if is, note := m.promoCall(e); is {
			if note != "" {
				m.promoNote = note
			}
			out["promoVal"] += sign
			return
		}
	}
	out["?"+e.key()] += sign
}

func c18LinStr(f map[string]int) string {
	var ks []string
	for k, n := range f {
		if n != 0 {
			ks = append(ks, k)
		}
	}
	sort.Strings(ks)
	var s []string
	for _, k := range ks {
		s = append(s, fmt.Sprintf("%+d*%s", f[k], k))
	}
	return strings.Join(s, " ")
}

// promoPhi: x merges 0 (not a promotion) with PieceValues[promo]-PieceValues[Pawn] (promotion).
// Returns whether x is such a merge at all, and a note describing what is wrong with it.
// c18Alt is one way a merged value comes about: the value and the branch conditions under which it is chosen.
type c18Alt struct {
	e      *c18E
	guards []c18Guard
}

// promoPhi: the alternatives merged by phi x (one per incoming edge).
func (m *c18Model) promoPhi(x *ssa.Phi) (bool, string) {
	var alts []c18Alt
	for i, e := range x.Edges {
		alts = append(alts, c18Alt{m.x(e), m.edgeGuards(x.Block().Preds[i], x.Block())})
	}
	return m.promoAlts(alts)
}

// promoCall: e is a call of a side-effect-free chess-3 function with several returns (a one-purpose
// helper such as PromoGain(promo)): the alternatives are its returned values, with parameters bound to the
// arguments, each under the conditions that lead to that return.
func (m *c18Model) promoCall(e *c18E) (bool, string) {
	call, ok := e.v.(*ssa.Call)
	if !ok || e.op != "call" {
		return false, ""
	}
	fn := call.Call.StaticCallee()
	if fn == nil || !isOwn(fn) || len(fn.Blocks) == 0 || len(fn.Blocks) > 8 || len(fn.Params) != len(e.a) {
		return false, ""
	}
	env := &c18Env{bind: map[*ssa.Parameter]*c18E{}}
	for i, pr := range fn.Params {
		env.bind[pr] = e.a[i]
	}
	var alts []c18Alt
	for _, b := range fn.Blocks {
		for _, in := range b.Instrs {
			switch x := in.(type) {
			case *ssa.BinOp, *ssa.UnOp, *ssa.FieldAddr, *ssa.IndexAddr, *ssa.Convert, *ssa.ChangeType, *ssa.Call, *ssa.DebugRef, *ssa.Field, *ssa.Index, *ssa.If, *ssa.Jump, *ssa.Phi:
			case *ssa.Return:
				if len(x.Results) != 1 {
					return false, ""
				}
				var gs []c18Guard
				for _, ce := range controllingConds(b) {
					gs = append(gs, c18Guard{m.b.e(ce.Cond, env), ce.True})
				}
				alts = append(alts, c18Alt{m.b.e(x.Results[0], env), gs})
			default:
				return false, "" // stores, panics, ...: not a pure value helper
			}
		}
	}
	return m.promoAlts(alts)
}

// promoAlts: the alternatives are 0 (not a promotion) and PieceValues[promo]-PieceValues[Pawn] (promotion).
// Returns whether they have that form at all, and a note describing what is wrong with it.
func (m *c18Model) promoAlts(alts []c18Alt) (bool, string) {
	if len(alts) != 2 {
		return false, ""
	}
	zi := -1
	for i, a := range alts {
		if a.e.isConst(0) {
			zi = i
		}
	}
	if zi < 0 {
		return false, ""
	}
	f := map[string]int{}
	m.lin(alts[1-zi].e, 1, f, 1)
	if f["PV@promo"] == 0 {
		return false, ""
	}
	if got := c18LinStr(f); got != "+1*PV@promo -1*PV[Pawn]" {
		return true, "promotion bonus is " + got + ", expected +1*PV@promo -1*PV[Pawn]"
	}
	// the zero alternative must be exactly the not-a-promotion one
	promoTest := func(g c18Guard) (isPromo, known bool) {
		if (g.cond.op != "eq" && g.cond.op != "ne") || len(g.cond.a) != 2 {
			return false, false
		}
		a, b := g.cond.a[0], g.cond.a[1]
		if !(m.isPromoCall(a) && b.isConst(0)) && !(m.isPromoCall(b) && a.isConst(0)) {
			return false, false
		}
		return (g.cond.op == "ne") == g.truth, true
	}
	zeroOK, bonusOK := false, false
	for _, g := range alts[zi].guards {
		if is, known := promoTest(g); known && !is {
			zeroOK = true
		}
	}
	for _, g := range alts[1-zi].guards {
		if is, known := promoTest(g); known && is {
			bonusOK = true
		}
	}
	if !zeroOK || !bonusOK {
		return true, "the promotion bonus is not selected exactly by `m.Promo() != NoPiece`"
	}
	return true, ""
}

// parEval evaluates an integer/boolean expression over the parity phi for res == r.
func (m *c18Model) parEval(e *c18E, r int64) (int64, bool) {
	if m.resE != nil && e == m.resE {
		return r, true
	}
	if m.kingE != nil && e == m.kingE {
		return m.kingV, true
	}
	b2i := func(b bool) int64 {
		if b {
			return 1
		}
		return 0
	}
	switch e.op {
	case "const":
		return e.k, true
	case "phi":
		if ph, ok := e.v.(*ssa.Phi); ok {
			if sel, ok := m.phiSel[ph]; ok && sel != e.v {
				return m.parEval(m.x(sel), r)
			}
		}
	case "xor", "add", "sub", "eq", "ne":
		a, ok1 := m.parEval(e.a[0], r)
		b, ok2 := m.parEval(e.a[1], r)
		if !ok1 || !ok2 {
			return 0, false
		}
		switch e.op {
		case "xor":
			return a ^ b, true
		case "add":
			return a + b, true
		case "sub":
			return a - b, true
		case "eq":
			return b2i(a == b), true
		}
		return b2i(a != b), true
	case "lnot", "neg":
		if a, ok := m.parEval(e.a[0], r); ok {
			if e.op == "lnot" {
				return 1 - a, true
			}
			return -a, true
		}
	}
	return 0, false
}

// retTable: block b returns a bool that depends only on the parity; value after an
// even / odd number of completed captures.
// Control leaves along from -> to; jumps are followed and phis on the way are resolved by the edge
// taken, so `return res == 1` in place and `break` to a shared `return res == 1` read the same.
func (m *c18Model) retTable(from, to *ssa.BasicBlock) (even, odd bool, ok bool) {
	if m.res == nil {
		return false, false, false
	}
	defer func() { m.phiSel = nil }()
	ret := m.leave(from, to)
	if ret == nil || len(ret.Results) != 1 {
		return false, false, false
	}
	e, ok1 := m.parEval(m.x(ret.Results[0]), m.resEntry)
	o, ok2 := m.parEval(m.x(ret.Results[0]), m.resEntry^1)
	return e != 0, o != 0, ok1 && ok2
}

// leave follows control from -> to (to == nil: from itself returns) through plain jumps to the Return
// that ends the function, recording in m.phiSel which value every phi on the way takes.
func (m *c18Model) leave(from, to *ssa.BasicBlock) *ssa.Return {
	m.phiSel = map[*ssa.Phi]ssa.Value{}
	if to == nil {
		ret, _ := c18Last(from).(*ssa.Return)
		return ret
	}
	for hops := 0; hops < 4; hops++ {
		idx := -1
		for i, p := range to.Preds {
			if p == from {
				idx = i
			}
		}
		if idx < 0 || to == m.H {
			return nil
		}
		for _, in := range to.Instrs {
			if ph, isp := in.(*ssa.Phi); isp {
				m.phiSel[ph] = ph.Edges[idx]
			}
		}
		switch last := c18Last(to).(type) {
		case *ssa.Return:
			return last
		case *ssa.Jump:
			from, to = to, to.Succs[0]
		default:
			return nil
		}
	}
	return nil
}

func (m *c18Model) kindsBelow(k int64) uint {
	var need uint
	for q := int64(1); q <= 5; q++ {
		if m.val[q] < m.val[k] {
			need |= 1 << uint(q)
		}
	}
	return need
}

func (m *c18Model) kindSet(bits uint) string {
	var s []string
	for q := int64(1); q <= 6; q++ {
		if bits&(1<<uint(q)) != 0 {
			s = append(s, m.pcs[q])
		}
	}
	return "{" + strings.Join(s, ",") + "}"
}

// ---------- R1.init ----------

func (m *c18Model) r1init(c *Ctx) {
	const rule = "C18.R1.init"
	found := map[string]bool{}
	opaque := 0
	for _, lf := range m.x(m.att.Edges[m.entryIx]).orLeaves() {
		pos, _ := lf.andLeaves()
		understood := false
		for _, q := range pos {
			F, ok := q.attackCall()
			if !ok {
				continue
			}
			understood = true
			if len(q.a) == 0 || (F == "PawnCapture" && len(q.a) != 2) {
				continue
			}
			if F == "PawnCapture" {
				rs, ok := m.bitRoles(q.a[0])
				if ok && len(rs) == 1 && rs[0] == "to" && q.a[1].op == "const" {
					found[fmt.Sprintf("PawnCapture(colour %d)", q.a[1].k)] = true
				}
			} else if m.sqRole(q.a[0]) == "to" {
				found[F] = true
			}
		}
		if !understood {
			opaque++
		}
	}
	n := 0
	for _, want := range []string{"PawnCapture(colour 0)", "PawnCapture(colour 1)", "Knight", "Bishop", "Rook", "King"} {
		if found[want] {
			n++
			c.Ok(rule, want, m.att.Pos(), "initial attacker set includes the %s pattern from the target square", want)
		} else if opaque > 0 {
			c.Undec(rule, want, m.att.Pos(), "no %s pattern from the move's To() square visible in the initial attacker set, but %d of its parts are not attack-pattern intersections this rule can read", want, opaque)
		} else {
			c.Fail(rule, want, m.att.Pos(), "the attacker set entering the capture loop has no %s pattern taken from the move's To() square: pieces attacking that way never take part in the exchange", want)
		}
	}
	c.Floor(rule, n, 6, "attack patterns in the initial attacker set")
}

// ---------- R2: order of tests, markers, king ----------

type c18MStore struct {
	c   int64
	in  ssa.Instruction // nil: initial value stored before the loop
	pos token.Pos
}

type c18Marker struct {
	alloc   *ssa.Alloc
	stores  []c18MStore
	problem string
	probPos token.Pos
	fail    bool
}

// isMarkerAddr: v addresses an element of the marker array; own = it is the element of the colour
// whose attackers are selected in this iteration.
func (m *c18Model) isMarkerAddr(mk *c18Marker, v ssa.Value) (is, own bool) {
	ia, ok := v.(*ssa.IndexAddr)
	if !ok || mk.alloc == nil || ia.X != ssa.Value(mk.alloc) {
		return false, false
	}
	return true, c18Same(m.x(ia.Index), m.stmE)
}

// findMarker: the per-side marker is the one local array of SEE that is indexed, inside the loop, by
// the colour whose attackers are selected (or the other colour). How its value steers the chain is not
// read off the syntax (switch, if-chain, a `phase` local fed from it, ...) but simulated, see simulate.
func (m *c18Model) findMarker() *c18Marker {
	mk := &c18Marker{}
	bad := func(fail bool, pos token.Pos, f string, a ...any) {
		if mk.problem == "" {
			mk.problem, mk.probPos, mk.fail = fmt.Sprintf(f, a...), pos, fail
		}
	}
	other, _ := c18FlipOf(m.stmE)
	for _, b := range m.fn.Blocks {
		if !m.H.Dominates(b) {
			continue
		}
		for _, in := range b.Instrs {
			ia, ok := in.(*ssa.IndexAddr)
			if !ok {
				continue
			}
			al, ok := ia.X.(*ssa.Alloc)
			if !ok {
				continue
			}
			if ix := m.x(ia.Index); !c18Same(ix, m.stmE) && !(other != nil && c18Same(ix, other)) {
				continue
			}
			if mk.alloc != nil && mk.alloc != al {
				bad(false, ia.Pos(), "two different local arrays are indexed by the side to move inside the capture loop")
				continue
			}
			mk.alloc = al
		}
	}
	if mk.alloc == nil {
		return nil
	}
	initFrom := func(src *ssa.Alloc, pos token.Pos) {
		n := 0
		for _, r := range *src.Referrers() {
			if ia, ok := r.(*ssa.IndexAddr); ok {
				for _, r2 := range *ia.Referrers() {
					if st, ok := r2.(*ssa.Store); ok && st.Addr == ssa.Value(ia) {
						if k, isc := constOf(st.Val); isc {
							mk.stores = append(mk.stores, c18MStore{c: k, pos: st.Pos()})
							n++
						} else {
							bad(false, st.Pos(), "non-constant initial marker value")
						}
					}
				}
			}
		}
		if n == 0 {
			bad(false, pos, "initial marker values not found")
		}
	}
	for _, r := range *mk.alloc.Referrers() {
		switch x := r.(type) {
		case *ssa.DebugRef:
		case *ssa.Store:
			src, ok := x.Val.(*ssa.UnOp)
			var sa *ssa.Alloc
			if ok && src.Op == token.MUL {
				sa, _ = src.X.(*ssa.Alloc)
			}
			if x.Addr != ssa.Value(mk.alloc) || sa == nil || m.H.Dominates(x.Block()) {
				bad(false, x.Pos(), "whole-array store to the marker that is not its initialisation from a literal")
				continue
			}
			initFrom(sa, x.Pos())
		case *ssa.IndexAddr:
			_, own := m.isMarkerAddr(mk, x)
			inLoop := m.H.Dominates(x.Block())
			for _, r2 := range *x.Referrers() {
				switch y := r2.(type) {
				case *ssa.DebugRef:
				case *ssa.UnOp:
					if inLoop && !own {
						bad(true, y.Pos(), "the marker is read for a colour other than the one whose attackers are selected")
					}
				case *ssa.Store:
					k, isc := constOf(y.Val)
					if y.Addr != ssa.Value(x) || !isc {
						bad(false, y.Pos(), "marker element receives a non-constant value")
						continue
					}
					if inLoop {
						if !own {
							bad(true, y.Pos(), "marker value %s is stored for a colour other than the one whose attackers were just examined: the other side's pieces of a cheaper kind are skipped although they were never looked at", m.pcs[k])
						}
						mk.stores = append(mk.stores, c18MStore{c: k, in: y, pos: y.Pos()})
					} else {
						mk.stores = append(mk.stores, c18MStore{c: k, pos: y.Pos()})
					}
				default:
					bad(false, x.Pos(), "marker element address used in a %T", r2)
				}
			}
		default:
			bad(false, r.Pos(), "marker array used in a %T", r)
		}
	}
	return mk
}

// c18Sim is the result of simulating one loop iteration for every value the marker can hold.
type c18Sim struct {
	in      map[*ssa.BasicBlock]uint // kinds exhausted for the side to move on EVERY arrival at the block (absent: never reached)
	store   map[ssa.Instruction]uint // the same at in-loop marker stores
	back    map[int]map[int64]bool   // H.Preds index -> marker values under which that back edge is taken
	decided map[*ssa.BasicBlock]bool // Ifs whose condition was computed from the marker value on every visit
	guessed map[*ssa.BasicBlock]bool // Ifs (other than tests) explored both ways at least once
	aborted bool                     // inner cycle or budget exceeded
	steps   int
}

const c18NoMarker = int64(-1 << 40)

// simulate walks every path of one iteration starting at the loop header, once per marker value k
// with the kinds exh[k] known exhausted. Loads of the marker, phis fed from them or from constants
// (a `phase` local), stores to the marker and every comparison among such values are evaluated
// concretely along the path, so a switch with fallthrough, a tagless switch, an if-chain over a local
// copy or range tests all give the same walk. Piece-kind tests fork: the empty edge adds the kind.
func (m *c18Model) simulate(mk *c18Marker, exh map[int64]uint, ks []int64) *c18Sim {
	s := &c18Sim{in: map[*ssa.BasicBlock]uint{}, store: map[ssa.Instruction]uint{}, back: map[int]map[int64]bool{},
		decided: map[*ssa.BasicBlock]bool{}, guessed: map[*ssa.BasicBlock]bool{}}
	testOf := map[*ssa.BasicBlock]*c18Test{}
	for _, t := range m.tests {
		testOf[t.iff.Block()] = t
	}
	meet := func(mp map[*ssa.BasicBlock]uint, b *ssa.BasicBlock, f uint) {
		if old, ok := mp[b]; ok {
			f &= old
		}
		mp[b] = f
	}
	type state struct {
		facts  uint
		cur    int64 // current marker value of the side to move, c18NoMarker when unknown
		vals   map[ssa.Value]int64
		onPath map[*ssa.BasicBlock]bool
	}
	val := func(st *state, v ssa.Value) (int64, bool) {
		v = stripConv(v)
		if k, ok := constOf(v); ok {
			return k, true
		}
		k, ok := st.vals[v]
		return k, ok
	}
	var cond func(st *state, v ssa.Value) (bool, bool)
	cond = func(st *state, v ssa.Value) (bool, bool) {
		switch x := v.(type) {
		case *ssa.UnOp:
			if x.Op == token.NOT {
				r, ok := cond(st, x.X)
				return !r, ok
			}
		case *ssa.BinOp:
			a, oka := val(st, x.X)
			b, okb := val(st, x.Y)
			if !oka || !okb {
				return false, false
			}
			switch x.Op {
			case token.EQL:
				return a == b, true
			case token.NEQ:
				return a != b, true
			case token.LSS:
				return a < b, true
			case token.LEQ:
				return a <= b, true
			case token.GTR:
				return a > b, true
			case token.GEQ:
				return a >= b, true
			}
		}
		return false, false
	}
	var k0 int64
	var walk func(b, from *ssa.BasicBlock, st state)
	walk = func(b, from *ssa.BasicBlock, st state) {
		if s.steps++; s.steps > 200000 {
			s.aborted = true
			return
		}
		if b == m.H && from != nil {
			for i, pr := range m.H.Preds {
				if pr == from {
					if s.back[i] == nil {
						s.back[i] = map[int64]bool{}
					}
					s.back[i][k0] = true
				}
			}
			return
		}
		if st.onPath[b] {
			s.aborted = true
			return
		}
		// private copies for this path
		nv := make(map[ssa.Value]int64, len(st.vals)+4)
		for k, v := range st.vals {
			nv[k] = v
		}
		np := make(map[*ssa.BasicBlock]bool, len(st.onPath)+1)
		for k := range st.onPath {
			np[k] = true
		}
		np[b] = true
		st.vals, st.onPath = nv, np
		meet(s.in, b, st.facts)
		// phis are evaluated simultaneously against the edge taken
		if from != nil {
			idx := -1
			for i, pr := range b.Preds {
				if pr == from {
					idx = i
				}
			}
			upd := map[ssa.Value]int64{}
			var phis []*ssa.Phi
			for _, in := range b.Instrs {
				if ph, ok := in.(*ssa.Phi); ok && idx >= 0 {
					phis = append(phis, ph)
					if k, ok := val(&st, ph.Edges[idx]); ok {
						upd[ph] = k
					}
				}
			}
			for _, ph := range phis {
				delete(st.vals, ph)
			}
			for ph, k := range upd {
				st.vals[ph] = k
			}
		}
		for _, in := range b.Instrs {
			switch x := in.(type) {
			case *ssa.UnOp:
				if is, own := m.isMarkerAddr(mk, x.X); is && x.Op == token.MUL {
					if own && st.cur != c18NoMarker {
						st.vals[x] = st.cur
					} else {
						delete(st.vals, x)
					}
				}
			case *ssa.Store:
				if is, own := m.isMarkerAddr(mk, x.Addr); is && own {
					if old, ok := s.store[x]; ok {
						s.store[x] = old & st.facts
					} else {
						s.store[x] = st.facts
					}
					if k, ok := constOf(x.Val); ok {
						st.cur = k
					} else {
						st.cur = c18NoMarker
					}
				}
			case *ssa.If:
				if t := testOf[b]; t != nil {
					walk(t.taken, b, st)
					st.facts |= 1 << uint(t.kind)
					walk(t.els, b, st)
					return
				}
				if r, ok := cond(&st, x.Cond); ok {
					if _, g := s.guessed[b]; !g {
						s.decided[b] = true
					}
					if r {
						walk(b.Succs[0], b, st)
					} else {
						walk(b.Succs[1], b, st)
					}
					return
				}
				s.guessed[b] = true
				delete(s.decided, b)
				walk(b.Succs[0], b, st)
				walk(b.Succs[1], b, st)
				return
			case *ssa.Jump:
				walk(b.Succs[0], b, st)
				return
			}
		}
	}
	for _, k := range ks {
		k0 = k
		walk(m.H, nil, state{facts: exh[k], cur: k, vals: map[ssa.Value]int64{}, onPath: map[*ssa.BasicBlock]bool{}})
	}
	return s
}

func (m *c18Model) r2(c *Ctx) {
	const rule = "C18.R2"
	mk := m.findMarker()
	if mk == nil {
		mk = &c18Marker{}
	}
	// kinds whose attacker set cannot grow while pieces leave the board (never refreshed by x-ray)
	nonGrowing := uint(0)
	for k, n := range m.pcs {
		if n == "Pawn" || n == "Knight" {
			nonGrowing |= 1 << uint(k)
		}
	}
	// the values the marker can hold at the top of an iteration: every constant ever stored into it
	var ks []int64
	seen := map[int64]bool{}
	for _, st := range mk.stores {
		if !seen[st.c] {
			ks = append(ks, st.c)
		}
		seen[st.c] = true
	}
	sort.Slice(ks, func(i, j int) bool { return ks[i] < ks[j] })
	if len(ks) == 0 {
		ks = []int64{c18NoMarker}
	}
	// greatest fixpoint: marker value c stands for the (non-growing) kinds exhausted at every store of c
	exh := map[int64]uint{}
	for _, st := range mk.stores {
		exh[st.c] = nonGrowing
	}
	var sim *c18Sim
	for iter := 0; iter < 16; iter++ {
		sim = m.simulate(mk, exh, ks)
		nw := map[int64]uint{}
		same := true
		for _, st := range mk.stores {
			v := uint(0)
			if st.in != nil {
				v = nonGrowing
				if f, ok := sim.store[st.in]; ok {
					v = f & nonGrowing
				}
			}
			if old, ok := nw[st.c]; ok {
				v &= old
			}
			nw[st.c] = v
		}
		for k, v := range nw {
			same = same && exh[k] == v
		}
		if exh = nw; same {
			break
		}
	}
	factsAt := func(b *ssa.BasicBlock) (uint, bool) { f, ok := sim.in[b]; return f, ok }
	// king tests: X &^ Colors[stm] != 0
	type kingTest struct {
		iff   *ssa.If // branch form: the comparison is an If condition ...
		pos   []*c18E
		nz, z *ssa.BasicBlock
		blk   *ssa.BasicBlock // ... value form: it is part of the expression returned when control leaves blk -> to
		to    *ssa.BasicBlock // nil: blk itself returns
		pred  *c18E
	}
	var kings []kingTest
	// isKingPred: e is `X != 0` / `X == 0` with Colors[stm] complemented out of X
	isKingPred := func(e *c18E) ([]*c18E, bool) {
		if (e.op != "ne" && e.op != "eq") || len(e.a) != 2 {
			return nil, false
		}
		x := e.a[0]
		if x.isConst(0) {
			x = e.a[1]
		} else if !e.a[1].isConst(0) {
			return nil, false
		}
		pos, neg := x.andLeaves()
		for _, q := range neg {
			if q.op == "colors" && c18Same(q.a[0], m.stmE) {
				return pos, true
			}
		}
		return nil, false
	}
	var findPred func(e *c18E, depth int) (*c18E, []*c18E)
	findPred = func(e *c18E, depth int) (*c18E, []*c18E) {
		if pos, ok := isKingPred(e); ok {
			return e, pos
		}
		if depth > 6 {
			return nil, nil
		}
		if ph, ok := e.v.(*ssa.Phi); ok && e.op == "phi" {
			if sel, ok := m.phiSel[ph]; ok && sel != e.v {
				return findPred(m.x(sel), depth+1)
			}
			return nil, nil
		}
		switch e.op {
		case "eq", "ne", "lnot", "xor":
			for _, a := range e.a {
				if p, pos := findPred(a, depth+1); p != nil {
					return p, pos
				}
			}
		}
		return nil, nil
	}
	understood := map[*ssa.BasicBlock]bool{m.H: true}
	for _, t := range m.tests {
		understood[t.iff.Block()] = true
	}
	for _, b := range m.fn.Blocks {
		iff, ok := c18Last(b).(*ssa.If)
		if !ok || !m.H.Dominates(b) || understood[b] {
			continue
		}
		if x, nz, z, ok := m.zeroTest(iff); ok {
			pos, neg := x.andLeaves()
			for _, q := range neg {
				if q.op == "colors" && c18Same(q.a[0], m.stmE) && !understood[b] {
					kings = append(kings, kingTest{iff: iff, pos: pos, nz: nz, z: z, blk: b})
					understood[b] = true
				}
			}
		}
	}
	// value form: the comparison's result is used in the returned expression instead of in a branch
	for _, b := range m.fn.Blocks {
		if !m.H.Dominates(b) || len(b.Succs) > 1 {
			continue
		}
		var to *ssa.BasicBlock
		if len(b.Succs) == 1 {
			if to = b.Succs[0]; m.H.Dominates(to) {
				continue // stays in the loop
			}
		}
		if ret := m.leave(b, to); ret != nil && len(ret.Results) == 1 {
			if p, pos := findPred(m.x(ret.Results[0]), 0); p != nil {
				kings = append(kings, kingTest{pos: pos, blk: b, to: to, pred: p})
			}
		}
		m.phiSel = nil
	}
	// branches of the chain this rule cannot read turn a would-be violation into "undecided":
	// an If reached by the simulation, outside every capture branch, that is neither a test, the king
	// test nor a dispatch computed from the marker value
	opaque := 0
	for _, b := range m.fn.Blocks {
		if _, ok := c18Last(b).(*ssa.If); !ok || !m.H.Dominates(b) || understood[b] || sim.decided[b] {
			continue
		}
		if _, reached := sim.in[b]; !reached {
			continue
		}
		inBranch := false
		for _, t := range m.tests {
			inBranch = inBranch || t.taken.Dominates(b)
		}
		if !inBranch {
			opaque++
		}
	}
	viol := func(key string, pos token.Pos, f string, a ...any) {
		if opaque > 0 || sim.aborted || (mk.problem != "" && !mk.fail) {
			c.Undec(rule, key, pos, "%s [not certain: the capture chain contains %d branch(es) / marker uses this rule cannot read]", fmt.Sprintf(f, a...), opaque)
		} else {
			c.Fail(rule, key, pos, f, a...)
		}
	}
	// (a) every kind is tried only after all strictly cheaper kinds are exhausted
	tested, all := uint(0), uint(0b111110)
	for _, t := range m.tests {
		need := m.kindsBelow(t.kind)
		have, reached := factsAt(t.iff.Block())
		switch {
		case t.kind < 1 || t.kind > 5:
			c.Undec(rule, "order:"+t.name, c18Pos(t.iff), "a %s test inside the capture chain is not part of the understood shape (the king is expected to be decided by the no-enemy-attacker test)", t.name)
		case !reached:
			c.OkTrivial(rule, "order:"+t.name, c18Pos(t.iff), "the %s test is not reachable for any value the marker can hold", t.name)
		case need&^have == 0:
			tested |= 1 << uint(t.kind)
			c.Ok(rule, "order:"+t.name, c18Pos(t.iff), "%s (value %d) is tried only where %s are exhausted for the side to move (cheaper kinds: %s)", t.name, m.val[t.kind], m.kindSet(have), m.kindSet(need))
		default:
			tested |= 1 << uint(t.kind)
			viol("order:"+t.name, c18Pos(t.iff), "%s (value %d) can be chosen as capturer although %s (cheaper) may still attack for the side to move — excluded neither by a failed test in this iteration nor by a `start` marker that is stored only where that kind is exhausted for good: the exchange is not played least-valuable-attacker first", t.name, m.val[t.kind], m.kindSet(need&^have))
		}
	}
	c.Floor(rule+".order", len(m.tests), 5, "piece-kind tests in the capture chain")
	if tested&all == all {
		c.Ok(rule, "covers", c18Pos(m.tests[0].iff), "capture chain tests Pawn, Knight, Bishop, Rook and Queen")
	} else {
		viol("covers", c18Pos(m.tests[0].iff), "capture chain never tests %s: such attackers are treated as the king", m.kindSet(all&^tested))
	}
	// (b) king last, masked, verdict
	for _, k := range kings {
		pos := c18BlockPos(k.blk)
		if k.iff != nil {
			pos = c18Pos(k.iff)
		} else if p := k.pred.pos(); p.IsValid() {
			pos = p
		}
		if have, reached := factsAt(k.blk); !reached || all&^have == 0 {
			c.Ok(rule, "king-last", pos, "the enemy-attackers-remain test is reached only when Pawn..Queen are exhausted for the side to move")
		} else {
			viol("king-last", pos, "the king decision is reachable while %s of the side to move may still attack", m.kindSet(all&^have))
		}
		hasA, hasO := false, false
		for _, q := range k.pos {
			hasA = hasA || q == m.attE
			hasO = hasO || q == m.occE
		}
		switch {
		case hasA && hasO:
			c.Ok("C18.R4", "mask:king", pos, "remaining enemy attackers are counted after masking with the current occupancy")
		case hasA && len(k.pos) == 1:
			c.Fail("C18.R4", "mask:king", pos, "the king test counts enemy attackers without masking the attacker set with the current occupancy: enemy pieces already traded off forbid the king's capture")
		default:
			c.Undec("C18.R4", "mask:king", pos, "the king test is not `attackers & occ &^ Colors[stm]` over the loop-carried sets")
		}
		var ez, oz, okz, en, on, okn bool
		if k.iff != nil {
			ez, oz, okz = m.retTable(k.blk, k.z)
			en, on, okn = m.retTable(k.blk, k.nz)
		} else {
			m.kingE, m.kingV = k.pred, 0
			if k.pred.op == "eq" { // the comparison is true when NO enemy attacker is left
				m.kingV = 1
			}
			ez, oz, okz = m.retTable(k.blk, k.to)
			m.kingV = 1 - m.kingV
			en, on, okn = m.retTable(k.blk, k.to)
			m.kingE = nil
		}
		switch {
		case !okz || !okn:
			c.Undec(rule, "king-verdict", pos, "both outcomes of the king test must return a function of the parity flag")
		case !ez && oz && en && !on:
			c.Ok(rule, "king-verdict", pos, "no enemy attacker left: the king captures and the side to move keeps the square; otherwise the capture is illegal and it loses it")
		default:
			c.Fail(rule, "king-verdict", pos, "king test returns (enemy left: %v/%v, none left: %v/%v) on the defender's/attacker's turn; the king may capture only when no enemy attacker is left, expected (true/false, false/true)", en, on, ez, oz)
		}
	}
	if len(kings) == 0 {
		c.Undec(rule, "king-last", c18BlockPos(m.H), "no `attackers &^ Colors[stm] != 0` test in the loop: how the king takes part is not recognisable")
	}
	// (c) markers
	switch {
	case mk.alloc == nil:
		c.OkTrivial(rule, "marker-side", c18BlockPos(m.H), "no per-side marker in the loop: every iteration runs the full chain")
	case mk.problem != "" && mk.fail:
		c.Fail(rule, "marker-side", mk.probPos, "%s", mk.problem)
	case mk.problem != "":
		c.Undec(rule, "marker-side", mk.probPos, "%s", mk.problem)
	default:
		c.Ok(rule, "marker-side", mk.alloc.Pos(), "the per-side marker is read and stored for the colour whose attackers are selected, with constants only")
	}
	// (d) an iteration that flips sides and parity must make a capture: a back edge not owned by a
	// capture branch may not be taken for any value the marker can hold
	owned := map[int]bool{}
	for _, t := range m.tests {
		for _, j := range t.backs {
			owned[j] = true
		}
	}
	idle := map[int64]token.Pos{}
	for _, i := range m.backIx {
		if owned[i] {
			continue
		}
		pos := c18BlockPos(m.H.Preds[i])
		if len(sim.back[i]) == 0 {
			c.Ok(rule, "no-capture-backedge", pos, "the only way round the loop without a capture is not taken for any value the marker can hold")
			continue
		}
		for k := range sim.back[i] {
			idle[k] = pos
		}
		viol("no-capture-backedge", pos, "the loop can continue with sides and parity flipped although no capture was made")
	}
	first := map[int64]bool{}
	for _, st := range mk.stores {
		if first[st.c] {
			continue
		}
		first[st.c] = true
		if _, bad := idle[st.c]; bad {
			viol("marker:"+m.pcs[st.c], st.pos, "marker value %s is stored but the dispatch has no capture chain for it: the iteration flips sides and parity without any capture", m.pcs[st.c])
		} else {
			c.Ok(rule, "marker:"+m.pcs[st.c], st.pos, "with marker value %s every iteration ends in a capture or a verdict; the value stands for exhaustion of %s", m.pcs[st.c], m.kindSet(exh[st.c]))
		}
	}
}

// ---------- R3 / R4: per-branch agreement, x-rays ----------

func (m *c18Model) r3(c *Ctx) {
	const rule = "C18.R3"
	for _, t := range m.oddTests {
		have := map[string]bool{}
		for _, q := range t.rest {
			have[q.key()] = true
		}
		var missing []string
		for _, q := range m.tests[0].rest {
			if !have[q.key()] {
				missing = append(missing, q.key())
			}
		}
		if len(missing) > 0 && len(t.rest) < len(m.tests[0].rest) {
			c.Fail(rule, "set:"+t.name, c18Pos(t.iff), "the %s test selects from a wider set than the other branches (attackers & occ & Colors[stm]); missing conjunct(s) %v: pieces of the wrong side or already traded pieces capture", t.name, missing)
		} else {
			c.Undec(rule, "set:"+t.name, c18Pos(t.iff), "the %s test selects from a set built differently from the other branches", t.name)
		}
	}
	if m.swap == nil || m.res == nil {
		c.Undec(rule, "loop-state", c18BlockPos(m.H), "running balance (phi with `value - balance` on a back edge) or parity flag (phi from a constant, flipped identically on every back edge) not recognised")
		return
	}
	// parity: loop exit when the side to move has no attacker
	if iff, ok := c18Last(m.H).(*ssa.If); ok {
		if x, _, z, ok := m.zeroTest(iff); ok {
			if pos, neg := x.andLeaves(); c18Keys(pos) == m.tests[0].restKey && len(neg) == 0 {
				e, o, okr := m.retTable(m.H, z)
				if !okr {
					c.Undec(rule, "parity:no-attacker", c18Pos(iff), "the exit taken when the side to move has no attacker does not return a function of the parity flag")
				} else {
					c.Check(e && !o, rule, "parity:no-attacker", c18Pos(iff), "when the side to move cannot recapture the verdict must be true on the defender's turn and false on the attacker's; found %v/%v", e, o)
				}
			}
		}
	}
	n := 0
	for _, t := range m.tests {
		if len(t.backs) == 0 {
			c.Undec(rule, "value:"+t.name, c18Pos(t.iff), "the %s branch never returns to the loop header", t.name)
			continue
		}
		n++
		for _, i := range t.backs {
			// value subtracted
			nsw := m.x(m.swap.Edges[i])
			pos := nsw.pos()
			if !pos.IsValid() {
				pos = c18Pos(t.iff)
			}
			f := map[string]int{}
			m.lin(nsw, 1, f, 0)
			booked, others := int64(-1), 0
			for k, n := range f {
				if n == 0 || k == "bal" {
					continue
				}
				others++
				for q, nm := range m.pcs {
					if k == "PV["+nm+"]" && n == 1 {
						booked = q
					}
				}
			}
			switch {
			case nsw == m.swapE:
				c.Fail(rule, "value:"+t.name, pos, "balance unchanged by a %s capture", t.name)
			case f["bal"] != -1 || others != 1 || booked < 0:
				c.Undec(rule, "value:"+t.name, pos, "new balance of the %s branch is [%s], not `PieceValues[K'] - balance` with a constant K'", t.name, c18LinStr(f))
			case m.val[booked] == m.val[t.kind]:
				c.Ok(rule, "value:"+t.name, pos, "%s branch puts PieceValues[%s] = %d at risk", t.name, m.pcs[booked], m.val[booked])
			default:
				c.Fail(rule, "value:"+t.name, pos, "the branch that captures with a %s (value %d) books PieceValues[%s] = %d as the piece at risk", t.name, m.val[t.kind], m.pcs[booked], m.val[booked])
			}
			m.oneBit(c, rule, t, i)
			m.earlyExit(c, rule, t, m.H.Preds[i], nsw)
		}
	}
	c.Floor(rule, n, 5, "capture branches with a back edge")
}

// oneBit: the occupancy sent round back edge i is occ minus exactly T & -T.
func (m *c18Model) oneBit(c *Ctx, rule string, t *c18Test, i int) {
	key := "one-bit:" + t.name
	nocc := m.x(m.occ.Edges[i])
	pos := c18Pos(t.iff)
	if p := nocc.pos(); p.IsValid() {
		pos = p
	}
	if nocc == m.occE {
		c.Fail(rule, key, pos, "the capturing %s stays in the occupancy: it captures again and x-rays behind it never open", t.name)
		return
	}
	var removed *c18E
	switch nocc.op {
	case "sub": // the bit is known to be set
		if nocc.a[0] == m.occE {
			removed = nocc.a[1]
		}
	case "xor":
		if nocc.a[0] == m.occE {
			removed = nocc.a[1]
		} else if nocc.a[1] == m.occE {
			removed = nocc.a[0]
		}
	case "and":
		if ps, ng := nocc.andLeaves(); len(ps) == 1 && ps[0] == m.occE && len(ng) == 1 {
			removed = ng[0]
		}
	}
	if removed == nil {
		c.Undec(rule, key, pos, "new occupancy of the %s branch is not `occ` minus a bit set", t.name)
		return
	}
	if c18Same(removed, t.T) {
		c.Fail(rule, key, pos, "all attacking %ss of the side to move leave the occupancy at once; exactly one (x & -x) makes the capture, a second one must still be able to recapture", t.name)
		return
	}
	// removed == X & -X  or  X &^ (X-1)
	var src *c18E
	if removed.op == "and" && len(removed.a) == 2 {
		x, y := removed.a[0], removed.a[1]
		isLow := func(x, y *c18E) bool {
			return y.op == "neg" && c18Same(y.a[0], x) || y.op == "not" && y.a[0].op == "sub" && c18Same(y.a[0].a[0], x) && y.a[0].a[1].isConst(1)
		}
		if isLow(x, y) {
			src = x
		} else if isLow(y, x) {
			src = y
		}
	}
	switch {
	case src == nil:
		c.Undec(rule, key, pos, "bits removed in the %s branch are not of the form x & -x", t.name)
	case c18Same(src, t.T):
		c.Ok(rule, key, pos, "exactly the lowest bit of the tested %s set leaves the occupancy", t.name)
	default:
		c.Fail(rule, key, pos, "the bit removed from the occupancy in the %s branch is the lowest bit of a different set than the one tested: the piece that leaves need not be a %s, value and x-ray refresh no longer match it", t.name, t.name)
	}
}

// cmpWith: the If compares `what` with a bound; normalised to "leave through exit iff what < bound+adj".
func (m *c18Model) cmpWith(iff *ssa.If, what *c18E) (bound *c18E, adj int64, exit *ssa.BasicBlock, ok bool) {
	ce := m.x(iff.Cond)
	if (ce.op != "lt" && ce.op != "le") || len(ce.a) != 2 {
		return nil, 0, nil, false
	}
	b := iff.Block()
	switch {
	case c18Same(ce.a[0], what) && ce.op == "lt": // what < r
		return ce.a[1], 0, b.Succs[0], true
	case c18Same(ce.a[0], what): // what <= r
		return ce.a[1], 1, b.Succs[0], true
	case c18Same(ce.a[1], what) && ce.op == "lt": // r < what: leaves through the else edge iff what <= r
		return ce.a[0], 1, b.Succs[1], true
	case c18Same(ce.a[1], what): // r <= what: else edge iff what < r
		return ce.a[0], 0, b.Succs[1], true
	}
	return nil, 0, nil, false
}

func (m *c18Model) earlyExit(c *Ctx, rule string, t *c18Test, pr *ssa.BasicBlock, nsw *c18E) {
	key := "exit:" + t.name
	found := 0
	for _, b := range m.fn.Blocks {
		iff, ok := c18Last(b).(*ssa.If)
		if !ok || !t.taken.Dominates(b) {
			continue
		}
		bound, adj, exit, ok := m.cmpWith(iff, nsw)
		if !ok {
			continue
		}
		found++
		be, ok1 := m.parEval(bound, m.resEntry)
		bod, ok2 := m.parEval(bound, m.resEntry^1)
		re, ro, ok3 := m.retTable(b, exit)
		switch {
		case !b.Dominates(pr):
			c.Fail(rule, key, c18Pos(iff), "the stand-pat test of the %s branch is not on every path to the next iteration", t.name)
		case !ok1 || !ok2 || !ok3:
			c.Undec(rule, key, c18Pos(iff), "early exit of the %s branch: bound or returned value is not a function of the parity flag", t.name)
		case be+adj == 0 && bod+adj == 1 && !re && ro:
			c.Ok(rule, key, c18Pos(iff), "%s branch stops iff balance < 0 (defender's turn) / < 1 (attacker's turn) and returns false / true, as in every sibling branch", t.name)
		default:
			c.Fail(rule, key, c18Pos(iff), "early exit of the %s branch: stops iff balance < %d on the defender's turn and < %d on the attacker's, returning %v / %v; the swap algorithm (and the sibling branches) require < 0 / < 1 returning false / true — the side to move may not decline (or is forced to decline) a capture exactly at the threshold", t.name, be+adj, bod+adj, re, ro)
		}
	}
	if found == 0 {
		c.Undec(rule, key, c18Pos(t.iff), "no comparison of the new balance with the parity flag in the %s branch: the side to move can never stand pat, or the test has a shape this rule does not understand", t.name)
	}
}

func (m *c18Model) r4(c *Ctx) {
	const rule = "C18.R4"
	c.Ok(rule, "mask:selection", c18Pos(m.tests[0].iff), "all %d tests select from attackers(phi) & occ(phi) & Colors[stm]; occ(phi) receives each branch's updated occupancy (R3 one-bit)", len(m.tests))
	n := 0
	rayName := map[string]string{"Bishop": "diag", "Rook": "orth"}
	for _, t := range m.tests {
		var need []string
		switch t.name {
		case "Pawn", "Bishop":
			need = []string{"Bishop"}
		case "Rook":
			need = []string{"Rook"}
		case "Queen":
			need = []string{"Bishop", "Rook"}
		}
		for _, i := range t.backs {
			nocc := m.x(m.occ.Edges[i])
			carry, opaque := false, 0
			state := map[string]string{}
			at := c18Pos(t.iff)
			for _, lf := range m.x(m.att.Edges[i]).orLeaves() {
				pos, _ := lf.andLeaves()
				var call *c18E
				pieces, leafCarry := false, false
				for _, q := range pos {
					if q == m.attE {
						carry, leafCarry = true, true
					}
					if _, ok := q.attackCall(); ok {
						call = q
					}
					pieces = pieces || q.pieceSet()
				}
				if call == nil {
					if !leafCarry {
						opaque++
					}
					continue
				}
				F, _ := call.attackCall()
				if (F != "Bishop" && F != "Rook") || len(call.a) != 2 {
					continue
				}
				st := "ok"
				switch role := m.sqRole(call.a[0]); {
				case role == "from" || role == "capture":
					st = "is taken from the " + role + " square, not from the move's To() square"
				case role != "to" || !pieces:
					st = "?is not `pattern(To(), occ) & piece sets` in a form this rule can read"
				case call.a[1] == m.occE:
					st = "is computed with the occupancy from before this capture (the capturer still blocks the line it stood on)"
				case !c18Same(call.a[1], nocc):
					st = "?uses an occupancy value that is neither the old nor the updated loop occupancy"
				}
				if state[F] != "ok" {
					state[F] = st
					if p := call.pos(); p.IsValid() {
						at = p
					}
				}
			}
			if carry {
				c.Ok(rule, "carry:"+t.name, c18Pos(t.iff), "attackers found so far are carried into the next iteration")
			} else if opaque > 0 {
				c.Undec(rule, "carry:"+t.name, c18Pos(t.iff), "new attacker set of the %s branch has %d part(s) this rule cannot read", t.name, opaque)
			} else {
				c.Fail(rule, "carry:"+t.name, c18Pos(t.iff), "after a %s capture the attacker set is replaced instead of extended: attackers found earlier are forgotten", t.name)
			}
			for _, F := range need {
				key := "xray:" + t.name + ":" + rayName[F]
				n++
				switch st := state[F]; {
				case st == "ok":
					c.Ok(rule, key, at, "after a %s capture %s lines through the target are re-read with the updated occupancy", t.name, rayName[F])
				case st == "" && opaque > 0:
					c.Undec(rule, key, c18Pos(t.iff), "no %sMoves refresh visible after a %s capture, but the new attacker set has %d part(s) this rule cannot read", F, t.name, opaque)
				case st == "":
					c.Fail(rule, key, c18Pos(t.iff), "after a %s capture no %sMoves refresh is or-ed into the attacker set: a slider standing behind the capturer on that line never joins the exchange", t.name, F)
				case strings.HasPrefix(st, "?"):
					c.Undec(rule, key, at, "after a %s capture the %sMoves refresh %s", t.name, F, st[1:])
				default:
					c.Fail(rule, key, at, "after a %s capture the %sMoves refresh %s", t.name, F, st)
				}
			}
		}
	}
	c.Floor(rule, n, 5, "required x-ray refreshes (Pawn:diag, Bishop:diag, Rook:orth, Queen:diag+orth)")
}

// ---------- R5: entry bookkeeping ----------

func (m *c18Model) checkOcc(c *Ctx, rule, key string, e *c18E, pos token.Pos) {
	alts, ok := m.occEval(e, 0)
	if !ok {
		c.Undec(rule, key, pos, "occupancy is not `Colors[White]|Colors[Black]` minus square bits")
		return
	}
	for _, a := range alts {
		if !a.removed["from"] {
			c.Fail(rule, key, pos, "the moving piece is still in the occupancy used here: it is counted among the attackers of its own target square and blocks the x-ray behind it")
			return
		}
		if a.removed["capture"] {
			continue
		}
		notEP, other := false, 0
		for _, g := range a.guards {
			cd := g.cond
			switch {
			case cd.op == "call" && cd.name == "board.(*Board).IsEnPassant" && len(cd.a) == 2 && m.isParam(cd.a[0], m.pB) && m.isParam(cd.a[1], m.pM):
				notEP = notEP || !g.truth
			case (cd.op == "eq" || cd.op == "ne") && len(cd.a) == 2 && (m.sqRole(cd.a[0]) == "capture" && m.sqRole(cd.a[1]) == "to" || m.sqRole(cd.a[0]) == "to" && m.sqRole(cd.a[1]) == "capture"):
				notEP = notEP || (cd.op == "eq") == g.truth
			default:
				other++
			}
		}
		if !notEP && other > 0 {
			c.Undec(rule, key, pos, "a path keeps the piece on CaptureSq in the occupancy under a condition this rule cannot relate to IsEnPassant (removed there: %v)", sortedKeys(a.removed))
			return
		}
		if !notEP {
			c.Fail(rule, key, pos, "for an en-passant capture the captured pawn (on CaptureSq, not on To) stays in the occupancy (removed here: %v): it blocks rank/file x-rays through its square, e.g. rooks behind it", sortedKeys(a.removed))
			return
		}
	}
	c.Ok(rule, key, pos, "mover removed on every path; en-passant victim removed at CaptureSq whenever IsEnPassant may hold (%d path(s))", len(alts))
}

// c18Gate: an If before the loop one of whose successors returns a constant: "return ret iff form < 0".
type c18Gate struct {
	iff  *ssa.If
	form string
	ret  bool
	note string
}

func (m *c18Model) gates() []c18Gate {
	var out []c18Gate
	for _, b := range m.fn.Blocks {
		iff, ok := c18Last(b).(*ssa.If)
		if !ok || b == m.H || !b.Dominates(m.H) {
			continue
		}
		ce := m.x(iff.Cond)
		if (ce.op != "lt" && ce.op != "le") || len(ce.a) != 2 {
			continue
		}
		for si, s := range b.Succs {
			ret, isr := c18Last(s).(*ssa.Return)
			if !isr || len(ret.Results) != 1 {
				continue
			}
			rv := m.x(ret.Results[0])
			if rv.op != "const" {
				continue
			}
			// cond is a < b (lt) or a <= b (le); with f = a - b: true edge iff f < 0 resp. f - 1 < 0... in integers f <= 0 iff f-1 < 0;
			// false edge iff -f <= 0 (i.e. -f-1 < 0) resp. -f < 0
			f := map[string]int{}
			sign := 1
			if si == 1 {
				sign = -1
			}
			m.promoNote = ""
			m.lin(ce.a[0], sign, f, 0)
			m.lin(ce.a[1], -sign, f, 0)
			if (ce.op == "le") == (si == 0) {
				f["1"]--
			}
			out = append(out, c18Gate{iff, c18LinStr(f), rv.k != 0, m.promoNote})
		}
	}
	return out
}

func (m *c18Model) r5(c *Ctx) {
	const rule = "C18.R5"
	n := 0
	m.checkOcc(c, rule, "occ:loop-entry", m.x(m.occ.Edges[m.entryIx]), m.occ.Pos())
	n++
	// occupancy of the first attacker computation
	for _, lf := range m.x(m.att.Edges[m.entryIx]).orLeaves() {
		pos, _ := lf.andLeaves()
		for _, q := range pos {
			if F, ok := q.attackCall(); ok && (F == "Bishop" || F == "Rook") && len(q.a) == 2 {
				p := q.pos()
				if !p.IsValid() {
					p = m.att.Pos()
				}
				m.checkOcc(c, rule, "occ:first-attackers:"+F, q.a[1], p)
				n++
			}
		}
	}
	// the two gates before the loop: gain < 0 -> false; risk <= 0 -> true
	expect := map[string]struct {
		form map[string]int
		ret  bool
		why  string
	}{
		"gain": {map[string]int{"PV@capture": 1, "promoVal": 1, "thr": -1}, false, "SEE must give up exactly when the gain of the move itself — the piece standing on CaptureSq (not To(): en passant) plus the promotion bonus, minus the threshold — is negative"},
		"risk": {map[string]int{"PV@from": 1, "PV@capture": -1, "thr": 1, "1": -1}, true, "SEE must succeed at once exactly when losing the moved piece (a promoted pawn counts with its new value; the bonus cancels against the gain) still leaves gain - risk >= threshold, i.e. risk - gain + threshold <= 0; the loop relies on a positive balance on entry"},
	}
	gs := m.gates()
	for _, key := range []string{"gain", "risk"} {
		ex := expect[key]
		want := c18LinStr(ex.form)
		var same []c18Gate
		hit := false
		for _, g := range gs {
			if g.ret != ex.ret {
				continue
			}
			same = append(same, g)
			if g.form == want && !hit {
				hit = true
				n++
				if g.note != "" {
					c.Fail(rule, key, c18Pos(g.iff), "%s", g.note)
				} else {
					c.Ok(rule, key, c18Pos(g.iff), "returns %v before the loop iff [%s] < 0", ex.ret, want)
				}
			}
		}
		switch {
		case hit:
		case len(same) == 1 && !strings.Contains(same[0].form, "?"):
			c.Fail(rule, key, c18Pos(same[0].iff), "SEE returns %v before the loop iff [%s] < 0, expected iff [%s] < 0: %s", ex.ret, same[0].form, want, ex.why)
		default:
			c.Undec(rule, key, m.fn.Pos(), "no recognisable `return %v iff [%s] < 0` before the loop (%d candidate comparisons): %s", ex.ret, want, len(same), ex.why)
		}
	}
	// balance entering the loop
	if m.swap == nil {
		c.Undec(rule, "balance", m.fn.Pos(), "running balance not recognised")
	} else {
		f := map[string]int{}
		m.promoNote = ""
		m.lin(m.x(m.swap.Edges[m.entryIx]), 1, f, 0)
		got, want := c18LinStr(f), "-1*PV@capture +1*PV@from +1*thr"
		n++
		switch {
		case strings.Contains(got, "?"):
			c.Undec(rule, "balance", m.swap.Pos(), "balance entering the loop has a term this rule does not understand: %s", got)
		case got != want:
			c.Fail(rule, "balance", m.swap.Pos(), "balance entering the loop is [%s]; it must be value-at-risk minus gain = (PV[mover]+promoVal) - (PV[captured]+promoVal-threshold) = [%s]: a promoted pawn is at risk with the value of the new piece", got, want)
		case m.promoNote != "":
			c.Fail(rule, "balance", m.swap.Pos(), "%s", m.promoNote)
		default:
			c.Ok(rule, "balance", m.swap.Pos(), "balance entering the loop is [%s] (promotion bonus cancels: it is both gained and put at risk)", got)
		}
	}
	// first reply by the opponent, sides alternate
	ok, shape := false, false
	why := "the colour whose attackers are selected is not Flip(loop-carried colour)"
	if inner, isFlip := c18FlipOf(m.stmE); isFlip {
		e := m.stmE
		if ph, isp := inner.v.(*ssa.Phi); isp && inner.op == "phi" && ph.Block() == m.H {
			ok, shape = true, true
			if in := m.x(ph.Edges[m.entryIx]); in.op != "field" || in.name != "Board.STM" {
				ok, why = false, "the loop does not start from the mover's colour b.STM, so the first reply is not the opponent's"
			}
			for _, i := range m.backIx {
				if !c18Same(m.x(ph.Edges[i]), e) {
					ok, why = false, "the side to move is not handed over after a capture"
				}
			}
		}
	}
	n++
	switch {
	case ok:
		c.Ok(rule, "first-reply", c18BlockPos(m.H), "iteration k selects attackers of Flip^k(b.STM): opponent replies first, sides alternate")
	case shape:
		c.Fail(rule, "first-reply", c18BlockPos(m.H), "%s", why)
	default:
		c.Undec(rule, "first-reply", c18BlockPos(m.H), "%s", why)
	}
	c.Floor(rule, n, 6, "entry-bookkeeping obligations")
}

// ---------- R6: consumers ----------

// c18Sign: 1 = provably <= 0, -1 = positive for some input by construction, 0 = unknown.
func c18Sign(b *c18B, e *c18E) int {
	if e.op == "const" {
		if e.k <= 0 {
			return 1
		}
		return -1
	}
	if ph, ok := e.v.(*ssa.Phi); ok && e.op == "phi" {
		// every incoming value is <= 0: by itself, or as -Y on an edge guarded by Y > 0 / Y >= 0
		for i, ed := range ph.Edges {
			x := b.e(ed, nil)
			ok := c18Sign(b, x) == 1
			if x.op == "neg" {
				for _, g := range b.edgeGuards(ph.Block().Preds[i], ph.Block()) {
					cd := g.cond
					if (cd.op == "lt" || cd.op == "le") && (cd.a[0].op == "const" && cd.a[0].k >= 0 && c18Same(cd.a[1], x.a[0]) && g.truth ||
						cd.a[1].op == "const" && cd.a[1].k <= 0 && c18Same(cd.a[0], x.a[0]) && !g.truth) {
						ok = true // k <(=) Y with k >= 0 holds, or Y <(=) k with k <= 0 fails: Y >= 0
					}
				}
			}
			if !ok {
				return 0
			}
		}
		return 1
	}
	if e.op != "call" || (e.name != "builtin.min" && e.name != "builtin.max") || len(e.a) == 0 {
		return 0
	}
	lo, hi := 1, -1 // weakest / strongest claim among the arguments
	for _, a := range e.a {
		s := c18Sign(b, a)
		lo, hi = min(lo, s), max(hi, s)
	}
	if e.name == "builtin.min" { // min is <= 0 as soon as one argument is; positive only if all are
		return hi
	}
	return lo // max is <= 0 only if all arguments are; positive as soon as one is
}

func c18R6(c *Ctx, p *Prog) {
	const rule = "C18.R6"
	bld := &c18B{memo: map[c18MK]*c18E{}}
	rn := p.Func("heur.(*MoveRanker).RankNoisy")
	if rn == nil || p.FuncObj("heur.SEE") == nil {
		c.Anchor(rule, "heur.(*MoveRanker).RankNoisy / heur.SEE")
	} else {
		calls := callsIn(rn, "heur.SEE")
		for i, ci := range calls {
			key := fmt.Sprintf("threshold@heur.(*MoveRanker).RankNoisy#%d", i+1)
			if len(ci.Common().Args) != 3 {
				c.Undec(rule, key, ci.Pos(), "SEE is not called with (board, move, threshold)")
				continue
			}
			switch c18Sign(bld, bld.e(ci.Common().Args[2], nil)) {
			case 1:
				c.Ok(rule, key, ci.Pos(), "threshold passed to SEE is provably <= 0: every capture with SEE >= 0 is ranked into the good band")
			case -1:
				c.Fail(rule, key, ci.Pos(), "threshold passed to SEE can be positive: captures that do not lose material are ranked into the bad-capture band, which quiescence prunes")
			default:
				c.Undec(rule, key, ci.Pos(), "cannot show that the SEE threshold is <= 0 (expected a constant <= 0 or min(0, …))")
			}
		}
		c.Floor(rule+".threshold", len(calls), 1, "SEE calls in RankNoisy")
	}
	qs := p.Func("search.(*Search).quiescence")
	capt, okc := p.pkgConstInt("heur.Captures")
	if qs == nil || !okc {
		c.Anchor(rule, "search.(*Search).quiescence / heur.Captures")
		return
	}
	n := 0
	allInstrs(qs, func(in ssa.Instruction) {
		iff, ok := in.(*ssa.If)
		if !ok {
			return
		}
		ce := bld.e(iff.Cond, nil)
		if (ce.op != "lt" && ce.op != "le") || len(ce.a) != 2 {
			return
		}
		isW := func(e *c18E) bool { return e.op == "field" && e.name == "Weighted.Weight" }
		// split point s: moves with Weight < s leave through `low`, the others through the other successor
		var other *c18E
		var low *ssa.BasicBlock
		adj := int64(0)
		b := iff.Block()
		switch {
		case isW(ce.a[0]): // W < c / W <= c
			other, low = ce.a[1], b.Succs[0]
			if ce.op == "le" {
				adj = 1
			}
		case isW(ce.a[1]): // c < W / c <= W
			other, low = ce.a[0], b.Succs[1]
			if ce.op == "lt" {
				adj = 1
			}
		default:
			return
		}
		if c18ReachesMake(low) {
			return // the low side is still searched: not a prune by weight alone
		}
		n++
		key := fmt.Sprintf("qs-prune#%d", n)
		if other.op != "const" {
			c.Undec(rule, key, c18Pos(iff), "quiescence compares Weight with a non-constant")
			return
		}
		if s := other.k + adj; s <= capt {
			c.Ok(rule, key, c18Pos(iff), "quiescence splits its move list at Weight < %d <= heur.Captures (%d): no move ranked as a good capture (SEE >= threshold) falls on the pruned side", s, capt)
		} else {
			c.Fail(rule, key, c18Pos(iff), "quiescence splits its move list at Weight < %d, above heur.Captures (%d): captures that SEE judged good are cut together with the bad ones", s, capt)
		}
	})
	c.Floor(rule+".qs-prune", n, 1, "Weight tests in quiescence")
}

// c18ReachesMake: from the start of b a Board.MakeMove call is reachable before the next move is picked.
func c18ReachesMake(b *ssa.BasicBlock) bool {
	seen := map[*ssa.BasicBlock]bool{}
	var walk func(b *ssa.BasicBlock) bool
	walk = func(b *ssa.BasicBlock) bool {
		if seen[b] {
			return false
		}
		seen[b] = true
		for _, in := range b.Instrs {
			if isCallTo(in, "board.(*Board).MakeMove") {
				return true
			}
			if isCallTo(in, "search.getNextMove") {
				return false
			}
		}
		for _, s := range b.Succs {
			if walk(s) {
				return true
			}
		}
		return false
	}
	return walk(b)
}

// ---------- mutants ----------

// c18Blk renders the source text of one capture branch of SEE (three tabs deep).
func c18Blk(kind, refresh string) string {
	s := "\t\t\tfromBB = stmAttackers & b.Pieces[" + kind + "]\n\t\t\tif fromBB != 0 {\n\t\t\t\tswap = PieceValues[" + kind + "] - swap\n\t\t\t\tif swap < res {\n\t\t\t\t\treturn res == 1\n\t\t\t\t}\n\t\t\t\tocc &= ^(fromBB & -fromBB)\n"
	if refresh != "" {
		s += "\t\t\t\tattackers |= " + refresh + "\n"
	}
	return s + "\t\t\t\tbreak\n\t\t\t}\n"
}

const (
	c18Diag = "(attacks.BishopMoves(to, occ) & (b.Pieces[Bishop] | b.Pieces[Queen]))"
	c18Orth = "(attacks.RookMoves(to, occ) & (b.Pieces[Rook] | b.Pieces[Queen]))"
)

func init() {
	see := "heur/see.go"
	addMutants(
		// R1
		Mutant{Name: "C18.R1-rook-refresh-with-bishops", Prop: "C18", File: see, Quick: true,
			Old: "attackers |= (attacks.RookMoves(to, occ) & (b.Pieces[Rook] | b.Pieces[Queen]))", New: "attackers |= (attacks.RookMoves(to, occ) & (b.Pieces[Bishop] | b.Pieces[Queen]))",
			Expect: "C18.R1.PA1/heur.SEE#RookMoves@2"},
		Mutant{Name: "C18.R1-white-pawns-with-white-pattern", Prop: "C18", File: see,
			Old: "attacks.PawnCaptureMoves(toBB, Black) & b.Pieces[Pawn] & b.Colors[White]", New: "attacks.PawnCaptureMoves(toBB, White) & b.Pieces[Pawn] & b.Colors[White]",
			Expect: "C18.R1.PA4/heur.SEE#PawnCaptureMoves@1"},
		Mutant{Name: "C18.R1-initial-set-without-king", Prop: "C18", File: see,
			Old: c18Orth + " |\n\t\t\t(attacks.KingMoves(to) & b.Pieces[King])", New: c18Orth,
			Expect: "C18.R1.init/King"},
		Mutant{Name: "C18.R1-knights-from-origin-square", Prop: "C18", File: see,
			Old: "(attacks.KnightMoves(to) & b.Pieces[Knight])", New: "(attacks.KnightMoves(from) & b.Pieces[Knight])",
			Expect: "C18.R1.init/Knight"},
		// R2
		Mutant{Name: "C18.R2-rook-tested-before-bishop", Prop: "C18", File: see, Quick: true,
			Old: c18Blk("Bishop", c18Diag) + "\n" + c18Blk("Rook", c18Orth), New: c18Blk("Rook", c18Orth) + "\n" + c18Blk("Bishop", c18Diag),
			Expect: "C18.R2/order:Rook"},
		Mutant{Name: "C18.R2-marker-advanced-after-one-pawn", Prop: "C18", File: see,
			Old: "attackers |= " + c18Diag + "\n\t\t\t\tbreak\n\t\t\t}\n\t\t\tfallthrough\n\n\t\tcase Knight:", New: "attackers |= " + c18Diag + "\n\t\t\t\tstart[stm] = Knight\n\t\t\t\tbreak\n\t\t\t}\n\t\t\tfallthrough\n\n\t\tcase Knight:",
			Expect: "C18.R2/order:Knight"},
		Mutant{Name: "C18.R2-marker-past-bishop", Prop: "C18", File: see,
			Old: "\t\t\tfromBB = stmAttackers & b.Pieces[Rook]\n", New: "\t\t\tfallthrough\n\n\t\tcase Rook:\n\t\t\tstart[stm] = Rook // no more bishops for stm\n\n\t\t\tfromBB = stmAttackers & b.Pieces[Rook]\n",
			Expect: "C18.R2/order:Rook"},
		Mutant{Name: "C18.R2-marker-for-other-side", Prop: "C18", File: see,
			Old: "start[stm] = Knight // no more pawns for stm", New: "start[stm.Flip()] = Knight // no more pawns for stm",
			Expect: "C18.R2/marker-side"},
		Mutant{Name: "C18.R2-marker-without-case", Prop: "C18", File: see,
			Old: "start[stm] = Bishop\n", New: "start[stm] = Rook\n",
			Expect: "C18.R2/marker:Rook"},
		Mutant{Name: "C18.R2-king-verdict-value-form-inverted", Prop: "C18", File: see,
			Old: "if attackers & ^b.Colors[stm] != 0 {\n\t\t\t\treturn res == 0\n\t\t\t}\n\t\t\treturn res == 1", New: "return (attackers&^b.Colors[stm] != 0) == (res == 1)",
			Expect: "C18.R2/king-verdict"},
		Mutant{Name: "C18.R2-king-captures-into-attack", Prop: "C18", File: see,
			Old: "if attackers & ^b.Colors[stm] != 0 {\n\t\t\t\treturn res == 0\n\t\t\t}", New: "if attackers & ^b.Colors[stm] != 0 {\n\t\t\t\treturn res == 1\n\t\t\t}",
			Expect: "C18.R2/king-verdict"},
		// R3
		Mutant{Name: "C18.R3-rook-branch-books-queen-value", Prop: "C18", File: see, Quick: true,
			Old: "swap = PieceValues[Rook] - swap", New: "swap = PieceValues[Queen] - swap",
			Expect: "C18.R3/value:Rook"},
		Mutant{Name: "C18.R3-all-knights-leave-at-once", Prop: "C18", File: see,
			Old: "occ &= ^(fromBB & -fromBB)\n\t\t\t\tbreak\n\t\t\t}\n\t\t\tfallthrough\n\n\t\tcase Bishop:", New: "occ &= ^fromBB\n\t\t\t\tbreak\n\t\t\t}\n\t\t\tfallthrough\n\n\t\tcase Bishop:",
			Expect: "C18.R3/one-bit:Knight"},
		Mutant{Name: "C18.R3-queen-exit-at-equality", Prop: "C18", File: see,
			Old: "swap = PieceValues[Queen] - swap\n\t\t\t\tif swap < res {", New: "swap = PieceValues[Queen] - swap\n\t\t\t\tif swap <= res {",
			Expect: "C18.R3/exit:Queen"},
		Mutant{Name: "C18.R3-bishop-exit-wrong-verdict", Prop: "C18", File: see,
			Old: "swap = PieceValues[Bishop] - swap\n\t\t\t\tif swap < res {\n\t\t\t\t\treturn res == 1", New: "swap = PieceValues[Bishop] - swap\n\t\t\t\tif swap < res {\n\t\t\t\t\treturn res == 0",
			Expect: "C18.R3/exit:Bishop"},
		Mutant{Name: "C18.R3-rook-bit-from-all-attackers", Prop: "C18", File: see,
			Old: "occ &= ^(fromBB & -fromBB)\n\t\t\t\tattackers |= " + c18Orth + "\n\t\t\t\tbreak", New: "occ &= ^(stmAttackers & -stmAttackers)\n\t\t\t\tattackers |= " + c18Orth + "\n\t\t\t\tbreak",
			Expect: "C18.R3/one-bit:Rook"},
		Mutant{Name: "C18.R3-pawn-test-ignores-side", Prop: "C18", File: see,
			Old: "fromBB = stmAttackers & b.Pieces[Pawn]", New: "fromBB = attackers & b.Pieces[Pawn]",
			Expect: "C18.R3/set:Pawn"},
		// R4
		Mutant{Name: "C18.R4-no-diagonal-refresh-after-pawn", Prop: "C18", File: see, Quick: true,
			Old: "occ &= ^(fromBB & -fromBB)\n\t\t\t\tattackers |= " + c18Diag + "\n\t\t\t\tbreak\n\t\t\t}\n\t\t\tfallthrough", New: "occ &= ^(fromBB & -fromBB)\n\t\t\t\tbreak\n\t\t\t}\n\t\t\tfallthrough",
			Expect: "C18.R4/xray:Pawn:diag"},
		Mutant{Name: "C18.R4-queen-refreshes-diagonals-only", Prop: "C18", File: see,
			Old: "attackers |= " + c18Diag + " |\n\t\t\t\t\t" + c18Orth, New: "attackers |= " + c18Diag,
			Expect: "C18.R4/xray:Queen:orth"},
		Mutant{Name: "C18.R4-rook-refresh-with-stale-occupancy", Prop: "C18", File: see,
			Old: "occ &= ^(fromBB & -fromBB)\n\t\t\t\tattackers |= " + c18Orth + "\n", New: "attackers |= " + c18Orth + "\n\t\t\t\tocc &= ^(fromBB & -fromBB)\n",
			Expect: "C18.R4/xray:Rook:orth"},
		Mutant{Name: "C18.R4-king-test-counts-traded-pieces", Prop: "C18", File: see,
			Old: "attackers &= occ\n\t\tstmAttackers := attackers & b.Colors[stm]", New: "stmAttackers := attackers & occ & b.Colors[stm]",
			Expect: "C18.R4/mask:king"},
		Mutant{Name: "C18.R4-bishop-refresh-replaces-set", Prop: "C18", File: see,
			Old: "swap = PieceValues[Bishop] - swap\n\t\t\t\tif swap < res {\n\t\t\t\t\treturn res == 1\n\t\t\t\t}\n\t\t\t\tocc &= ^(fromBB & -fromBB)\n\t\t\t\tattackers |= ", New: "swap = PieceValues[Bishop] - swap\n\t\t\t\tif swap < res {\n\t\t\t\t\treturn res == 1\n\t\t\t\t}\n\t\t\t\tocc &= ^(fromBB & -fromBB)\n\t\t\t\tattackers = ",
			Expect: "C18.R4/carry:Bishop"},
		// R5
		Mutant{Name: "C18.R5-en-passant-victim-removed-at-to", Prop: "C18", File: see, Quick: true,
			Old: "captureBB := BitBoard(1) << captureSq", New: "captureBB := BitBoard(1) << to",
			Expect: "C18.R5/occ:"},
		Mutant{Name: "C18.R5-en-passant-removal-never-taken", Prop: "C18", File: see,
			Old: "if b.IsEnPassant(m) {\n\t\tocc &= ^(captureBB)", New: "if b.IsEnPassant(m) && captured == NoPiece {\n\t\tocc &= ^(captureBB)",
			Expect: "C18.R5/occ:"},
		Mutant{Name: "C18.R5-mover-stays-in-occupancy", Prop: "C18", File: see,
			Old: "occ := (b.Colors[White] | b.Colors[Black]) ^ fromBB", New: "occ := (b.Colors[White] | b.Colors[Black])",
			Expect: "C18.R5/occ:"},
		Mutant{Name: "C18.R5-captured-piece-read-at-to", Prop: "C18", File: see,
			Old: "captured := b.SquaresToPiece[captureSq]", New: "captured := b.SquaresToPiece[to]",
			Expect: "C18.R5/gain"},
		Mutant{Name: "C18.R5-promoted-piece-not-at-risk", Prop: "C18", File: see,
			Old: "swap = PieceValues[b.SquaresToPiece[m.From()]] + promoVal - swap", New: "swap = PieceValues[b.SquaresToPiece[m.From()]] - swap",
			Expect: "C18.R5/risk"},
		Mutant{Name: "C18.R5-promotion-bonus-unguarded", Prop: "C18", File: see,
			Old: "var promoVal Score\n\tif m.Promo() != NoPiece {\n\t\tpromoVal = PieceValues[m.Promo()] - PieceValues[Pawn]\n\t}", New: "promoVal := PieceValues[m.Promo()] - PieceValues[Pawn]",
			Expect: "C18.R5/gain"},
		Mutant{Name: "C18.R5-promotion-bonus-full-piece", Prop: "C18", File: see,
			Old: "promoVal = PieceValues[m.Promo()] - PieceValues[Pawn]", New: "promoVal = PieceValues[m.Promo()]",
			Expect: "C18.R5/gain"},
		Mutant{Name: "C18.R5-risk-gate-misses-equality", Prop: "C18", File: see,
			Old: "if swap <= 0 {\n\t\treturn true", New: "if swap < 0 {\n\t\treturn true",
			Expect: "C18.R5/risk"},
		Mutant{Name: "C18.R5-gain-gate-gives-up-at-equality", Prop: "C18", File: see,
			Old: "if swap < 0 {\n\t\treturn false", New: "if swap <= 0 {\n\t\treturn false",
			Expect: "C18.R5/gain"},
		Mutant{Name: "C18.R5-balance-without-threshold", Prop: "C18", File: see,
			Old: "+ promoVal - swap\n", New: "+ promoVal - (swap + threshold)\n",
			Expect: "C18.R5/"},
		Mutant{Name: "C18.R5-mover-replies-first", Prop: "C18", File: see,
			Old: "stm := b.STM\n", New: "stm := b.STM.Flip()\n",
			Expect: "C18.R5/first-reply"},
		// R6
		Mutant{Name: "C18.R6-threshold-max", Prop: "C18", File: "heur/heur.go", Quick: true,
			Old: "SEE(b, m, min(0, -captHist))", New: "SEE(b, m, max(0, -captHist))",
			Expect: "C18.R6/threshold"},
		Mutant{Name: "C18.R6-threshold-raw-history", Prop: "C18", File: "heur/heur.go",
			Old: "SEE(b, m, min(0, -captHist))", New: "SEE(b, m, -captHist)",
			Expect: "C18.R6/threshold"},
		Mutant{Name: "C18.R6-quiescence-cuts-below-hash-move", Prop: "C18", File: "search/search.go",
			Old: "if m.Weight < 0 {", New: "if m.Weight < heur.HashMove {",
			Expect: "C18.R6/qs-prune"},
	)
}
