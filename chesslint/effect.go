package main

// Engine B (EFFECT): per-function read/write/source sets and their transitive
// closure over the call graph (static callees + VTA edges), restricted to
// chess-3's own packages.

import (
	"go/token"
	"go/types"
	"sort"
	"strings"
	"sync"

	"golang.org/x/tools/go/ssa"
)

type site struct {
	Fn  *ssa.Function
	Pos token.Pos
	In  ssa.Instruction
	// What gives extra detail (e.g. callee name for nondeterminism sources).
	What string
}

type effects struct {
	FieldWrites  map[string][]site // "pkg.Type.field" (or "pkg.Type.*" for whole-struct stores)
	FieldReads   map[string][]site
	GlobalWrites map[string][]site // "pkg.name"
	GlobalReads  map[string][]site
	Escapes      map[string][]site // address of a field/global handed to a call or stored
	Nondet       []site
	Extern       map[string][]site // calls to functions outside chess-3: "pkg.Func"
	Unresolved   []site            // dynamic calls without any resolved target
}

func newEffects() *effects {
	return &effects{FieldWrites: map[string][]site{}, FieldReads: map[string][]site{}, GlobalWrites: map[string][]site{}, GlobalReads: map[string][]site{}, Escapes: map[string][]site{}, Extern: map[string][]site{}}
}

// rootOfAddr walks an address expression to its root, returning the field (if
// the storage belongs to a struct field) and/or the global it is rooted at.
func rootOfAddr(v ssa.Value) (field string, global string, whole string) {
	for {
		switch x := v.(type) {
		case *ssa.FieldAddr:
			n, s := structOf(x.X.Type())
			if s == nil {
				return "", "", ""
			}
			f := s.Field(x.Field)
			name := "?." + f.Name()
			if n != nil && n.Obj().Pkg() != nil {
				name = relPkg(n.Obj().Pkg().Path()) + "." + n.Obj().Name() + "." + f.Name()
			}
			// also record the global it is rooted at, if any
			_, g, _ := rootOfAddr(x.X)
			return name, g, ""
		case *ssa.IndexAddr:
			v = x.X
		case *ssa.Slice:
			v = x.X
		case *ssa.ChangeType:
			v = x.X
		case *ssa.Convert:
			v = x.X
		case *ssa.UnOp:
			if x.Op == token.MUL {
				// load of a slice/pointer stored in a field or global: the pointee
				// storage is attributed to that field/global as well
				if isRefType(x.Type()) {
					v = x.X
					continue
				}
			}
			return "", "", ""
		case *ssa.Global:
			if x.Pkg != nil {
				return "", relPkg(x.Pkg.Pkg.Path()) + "." + x.Name(), ""
			}
			return "", x.Name(), ""
		default:
			// pointer to a named struct (parameter, alloc, call result): whole-struct
			if p, ok := v.Type().Underlying().(*types.Pointer); ok {
				if n, ok := types.Unalias(p.Elem()).(*types.Named); ok {
					if _, ok := n.Underlying().(*types.Struct); ok && n.Obj().Pkg() != nil {
						return "", "", relPkg(n.Obj().Pkg().Path()) + "." + n.Obj().Name() + ".*"
					}
				}
			}
			return "", "", ""
		}
	}
}

func isRefType(t types.Type) bool {
	switch t.Underlying().(type) {
	case *types.Slice, *types.Pointer, *types.Map:
		return true
	}
	return false
}

var nondetPkgs = map[string]bool{"time": true, "math/rand": true, "math/rand/v2": true, "crypto/rand": true, "runtime": true}

// nondetAllowedFuncs: std functions in the nondeterministic packages that are pure.
var nondetPure = map[string]bool{
	"time.Duration.Milliseconds": true, "time.Duration.Seconds": true, "time.Duration.String": true,
	"time.Time.Sub": true, "time.Time.Before": true, "time.Time.After": true,
	"runtime.KeepAlive": true,
}

func externName(f *types.Func) string {
	if f == nil || f.Pkg() == nil {
		return f.Name()
	}
	sig, _ := f.Type().(*types.Signature)
	if sig != nil && sig.Recv() != nil {
		t := sig.Recv().Type()
		if p, ok := t.(*types.Pointer); ok {
			t = p.Elem()
		}
		if n, ok := types.Unalias(t).(*types.Named); ok {
			return f.Pkg().Path() + "." + n.Obj().Name() + "." + f.Name()
		}
	}
	return f.Pkg().Path() + "." + f.Name()
}

var (
	effMu    sync.Mutex
	effCache = map[*ssa.Function]*effects{}
)

// directEffects computes (and caches) the effects of fn's own instructions.
func directEffects(fn *ssa.Function) *effects {
	effMu.Lock()
	if e, ok := effCache[fn]; ok {
		effMu.Unlock()
		return e
	}
	effMu.Unlock()
	e := computeEffects(fn)
	effMu.Lock()
	effCache[fn] = e
	effMu.Unlock()
	return e
}

func computeEffects(fn *ssa.Function) *effects {
	e := newEffects()
	add := func(m map[string][]site, k string, in ssa.Instruction, what string) {
		m[k] = append(m[k], site{Fn: fn, Pos: in.Pos(), In: in, What: what})
	}
	for _, b := range fn.Blocks {
		for _, in := range b.Instrs {
			switch x := in.(type) {
			case *ssa.Store:
				f, g, w := rootOfAddr(x.Addr)
				if f != "" {
					add(e.FieldWrites, f, in, "")
				}
				if g != "" {
					add(e.GlobalWrites, g, in, "")
				}
				if _, isLocal := x.Addr.(*ssa.Alloc); w != "" && !isLocal {
					// (initialising a fresh local/heap copy is not a write to anybody's board)
					add(e.FieldWrites, w, in, "whole-struct store")
				}
				// storing an address of a field/global somewhere = escape
				if f2, g2, _ := rootOfAddrIfAddr(x.Val); (f2 != "" || g2 != "") && !(f2 == f && g2 == g) {
					if f2 != "" {
						add(e.Escapes, f2, in, "address stored")
					}
					if g2 != "" {
						add(e.Escapes, g2, in, "address stored")
					}
				}
			case *ssa.UnOp:
				switch x.Op {
				case token.MUL:
					f, g, w := rootOfAddr(x.X)
					if f != "" {
						add(e.FieldReads, f, in, "")
					}
					if g != "" {
						add(e.GlobalReads, g, in, "")
					}
					if w != "" {
						add(e.FieldReads, w, in, "whole-struct load")
					}
				case token.ARROW:
					e.Nondet = append(e.Nondet, site{fn, in.Pos(), in, "channel receive"})
				}
			case *ssa.Field:
				if n, s := structOf(x.X.Type()); s != nil && n != nil && n.Obj().Pkg() != nil {
					add(e.FieldReads, relPkg(n.Obj().Pkg().Path())+"."+n.Obj().Name()+"."+s.Field(x.Field).Name(), in, "")
				}
			case *ssa.Send:
				e.Nondet = append(e.Nondet, site{fn, in.Pos(), in, "channel send"})
			case *ssa.Select:
				e.Nondet = append(e.Nondet, site{fn, in.Pos(), in, "select"})
			case *ssa.Go:
				e.Nondet = append(e.Nondet, site{fn, in.Pos(), in, "go statement"})
			case *ssa.Range:
				if _, ok := x.X.Type().Underlying().(*types.Map); ok {
					e.Nondet = append(e.Nondet, site{fn, in.Pos(), in, "range over map"})
				}
			case *ssa.Convert:
				if b, ok := x.Type().Underlying().(*types.Basic); ok && b.Kind() == types.Uintptr {
					if sb, ok := x.X.Type().Underlying().(*types.Basic); ok && sb.Kind() == types.UnsafePointer {
						e.Nondet = append(e.Nondet, site{fn, in.Pos(), in, "unsafe.Pointer->uintptr"})
					}
				}
			}
			if ci, ok := in.(ssa.CallInstruction); ok {
				cc := ci.Common()
				// builtin copy/clear/append writes
				if bi, ok := cc.Value.(*ssa.Builtin); ok {
					switch bi.Name() {
					case "copy", "clear":
						if len(cc.Args) > 0 {
							f, g, _ := rootOfAddr(cc.Args[0])
							if f != "" {
								add(e.FieldWrites, f, in, "builtin "+bi.Name())
							}
							if g != "" {
								add(e.GlobalWrites, g, in, "builtin "+bi.Name())
							}
						}
					}
					continue
				}
				// address-of-field arguments escape into the callee
				for i, a := range cc.Args {
					if f, g, _ := rootOfAddrIfAddr(a); f != "" || g != "" {
						// a pointer receiver of a method declared on the field's own type is
						// tracked through the callee's own (type-qualified) effects
						if i == 0 && cc.Signature().Recv() != nil {
							continue
						}
						if f != "" {
							add(e.Escapes, f, in, "address passed to call")
						}
						if g != "" {
							add(e.Escapes, g, in, "address passed to call")
						}
					}
				}
				if obj := calleeObj(ci); obj != nil && obj.Pkg() != nil && !strings.HasPrefix(obj.Pkg().Path(), Mod) {
					n := externName(obj)
					add(e.Extern, n, in, "")
					if nondetPkgs[obj.Pkg().Path()] && !nondetPure[n] {
						e.Nondet = append(e.Nondet, site{fn, in.Pos(), in, "call " + n})
					}
					if n == "os.Getenv" || n == "os.Getpid" || n == "os.Hostname" {
						e.Nondet = append(e.Nondet, site{fn, in.Pos(), in, "call " + n})
					}
				}
			}
		}
	}
	return e
}

// rootOfAddrIfAddr: like rootOfAddr but only when v is itself a pointer into a field/global.
func rootOfAddrIfAddr(v ssa.Value) (string, string, string) {
	switch v.(type) {
	case *ssa.FieldAddr, *ssa.IndexAddr, *ssa.Global:
		return rootOfAddr(v)
	case *ssa.Slice:
		return rootOfAddr(v)
	}
	return "", "", ""
}

// closure computes the set of own functions reachable from roots through
// static calls, closures created inside reachable functions, and VTA edges.
func (p *Prog) closure(roots []*ssa.Function, stopAt func(*ssa.Function) bool) []*ssa.Function {
	cg := p.CallGraph()
	seen := map[*ssa.Function]bool{}
	var order []*ssa.Function
	var visit func(fn *ssa.Function)
	visit = func(fn *ssa.Function) {
		if fn == nil || seen[fn] || !isOwn(fn) || fn.Blocks == nil {
			return
		}
		seen[fn] = true
		order = append(order, fn)
		if stopAt != nil && stopAt(fn) {
			return
		}
		for _, a := range fn.AnonFuncs {
			visit(a)
		}
		if n := cg.Nodes[fn]; n != nil {
			for _, e := range n.Out {
				visit(e.Callee.Func)
			}
		}
		// static callees directly (robust if the call graph misses a node)
		allInstrs(fn, func(in ssa.Instruction) {
			if ci, ok := in.(ssa.CallInstruction); ok {
				if c := ci.Common().StaticCallee(); c != nil {
					visit(c)
				}
			}
		})
	}
	for _, r := range roots {
		visit(r)
	}
	sort.Slice(order, func(i, j int) bool { return fnName(order[i]) < fnName(order[j]) })
	return order
}

// unionEffects merges direct effects of all fns.
func unionEffects(fns []*ssa.Function) *effects {
	u := newEffects()
	for _, fn := range fns {
		e := directEffects(fn)
		merge := func(dst, src map[string][]site) {
			for k, v := range src {
				dst[k] = append(dst[k], v...)
			}
		}
		merge(u.FieldWrites, e.FieldWrites)
		merge(u.FieldReads, e.FieldReads)
		merge(u.GlobalWrites, e.GlobalWrites)
		merge(u.GlobalReads, e.GlobalReads)
		merge(u.Escapes, e.Escapes)
		merge(u.Extern, e.Extern)
		u.Nondet = append(u.Nondet, e.Nondet...)
		u.Unresolved = append(u.Unresolved, e.Unresolved...)
	}
	return u
}

// writersOf lists, over the whole program (own packages), every function that
// stores to the named field ("pkg.Type.field"), incl. whole-struct stores.
func (p *Prog) writersOf(field string) map[string][]site {
	out := map[string][]site{}
	whole := field[:strings.LastIndex(field, ".")] + ".*"
	for _, fn := range p.OwnFuncs() {
		e := directEffects(fn)
		for _, k := range []string{field, whole} {
			if s := e.FieldWrites[k]; len(s) > 0 {
				out[fnName(fn)] = append(out[fnName(fn)], s...)
			}
		}
		if s := e.Escapes[field]; len(s) > 0 {
			out[fnName(fn)+"#escape"] = append(out[fnName(fn)+"#escape"], s...)
		}
	}
	return out
}

// globalWriters lists functions storing to a package-level variable.
func (p *Prog) globalWriters(global string) map[string][]site {
	out := map[string][]site{}
	for _, fn := range p.OwnFuncs() {
		e := directEffects(fn)
		if s := e.GlobalWrites[global]; len(s) > 0 {
			out[fnName(fn)] = append(out[fnName(fn)], s...)
		}
		if s := e.Escapes[global]; len(s) > 0 {
			out[fnName(fn)+"#escape"] = append(out[fnName(fn)+"#escape"], s...)
		}
	}
	return out
}

func sortedKeys[V any](m map[string]V) []string {
	ks := make([]string, 0, len(m))
	for k := range m {
		ks = append(ks, k)
	}
	sort.Strings(ks)
	return ks
}

// initOnly reports whether fn runs only during package initialisation: it is a
// package init function, or every call-graph caller of it is initOnly (and it
// has at least one caller).
func (p *Prog) initOnly(fn *ssa.Function) bool {
	return p.initOnlyRec(fn, map[*ssa.Function]bool{})
}

func (p *Prog) initOnlyRec(fn *ssa.Function, visiting map[*ssa.Function]bool) bool {
	if fn == nil {
		return false
	}
	if fn.Parent() != nil {
		return p.initOnlyRec(fn.Parent(), visiting)
	}
	if isInitName(fnName(fn)) {
		return true
	}
	if visiting[fn] {
		return true // cycle: decided by the other members
	}
	visiting[fn] = true
	defer delete(visiting, fn)
	n := p.CallGraph().Nodes[fn]
	if n == nil || len(n.In) == 0 {
		return false
	}
	for _, e := range n.In {
		if !p.initOnlyRec(e.Caller.Func, visiting) {
			return false
		}
	}
	return true
}

// nonInitGlobalWriters lists writers (and escapes) of a package-level variable
// that can run after package initialisation.
func (p *Prog) nonInitGlobalWriters(global string) []string {
	var out []string
	for _, fn := range p.OwnFuncs() {
		e := directEffects(fn)
		if len(e.GlobalWrites[global]) > 0 || len(e.Escapes[global]) > 0 {
			if !p.initOnly(fn) {
				tag := ""
				if len(e.GlobalWrites[global]) == 0 {
					tag = "#escape"
				}
				out = append(out, fnName(fn)+tag)
			}
		}
	}
	sort.Strings(out)
	return out
}
