package main

// C20 — each training position is processed exactly once per tuning epoch.
// Targets live in the separate tuner module (config "tuner"): tuning.Batches /
// tuning.Chunks (range tiling), epd.shuffleIndex / feistel (permutation of
// [0,n)), epd.NewChunker / ByLines.Read (line manifest), Chunker.Open /
// Chunk.Read (shuffled window). Roles (fields, parameters, callees) are derived
// structurally from the code, only the five entry points are anchored by name.

import (
	"fmt"
	"go/token"
	"go/types"
	"sort"
	"strings"

	"golang.org/x/tools/go/ssa"
)

const (
	c20Epd = "tools/tuner/epd"
	c20Tun = "tools/tuner/tuning"
)

func init() {
	register(&Property{
		ID: "C20",
		Explain: "Static necessary conditions for 'each training position is processed exactly once per tuning epoch' (tuner module). " +
			"R1: every iter.Seq[Range] iterator of package tuning tiles its range: start begins at the range start, the constant added to start equals the width used for end, end is clipped by min to the (loop-invariant) range end, the loop runs while start < end-of-range, (start,end) is yielded on every iteration and the only exits are loop end and yield=false. " +
			"R2: the permutation called by shuffleIndex is a Feistel network whose round is (L,R) <- (R, L xor g) with g independent of L and masked to the narrower half, half widths sum to the bits parameter, shift of the split equals the low width, the round count is an even constant, the join mirrors the split. " +
			"R3 (over the execution paths of shuffleIndex, rejection loop unrolled twice, so the loop's syntactic form does not matter): the returned value is the last permutation output and y < n was established after that call (or 0 under a guard that holds only for n <= 1); every repeated permutation call takes the previous output (optionally masked to the domain) and otherwise unchanged arguments; domain 2^Len64(n-1) >= n; the call closure is free of mutable globals / nondeterminism. " +
			"R4 (over execution paths, helpers inlined): the reader feeding NewChunker's offsets exposes every byte it consumes from bufio.Reader — if offsets come from a reader-side counter, len(data) of every line read is added to that counter before the next read or a successful return; otherwise no read may be followed by another read without returning the line; the returned line is data[:len-K] with K the caller's per-line constant. " +
			"R5: manifest entry = [o, o+len+K) with consecutive o; on every execution path of Chunk.Read (helpers inlined, conditions evaluated path-sensitively) to the successful return: the result is buf[a.start-mapStart : a.end-mapStart-K] for a = chunkLines[ix], ix advances exactly once after a was taken, and either the path established mapStart<=a.start and a.end<=mapEnd or it executed ReadAt(buf, a.start) followed by mapStart=a.start, mapEnd=a.start+count; in Open the set of indices passed to shuffleIndex is exactly [start,end) (linear range reasoning over the counting loop), the size argument is len(manifest), other arguments do not depend on the index, and manifest[perm] is appended / stored into its own slot of a list of end-start slots. " +
			"Not decided: the server/client glue (not type-checkable offline), statistical quality of the shuffle, short reads, lines longer than the buffer, a final line without '\\n' (dropped consistently by all readers).",
		Assume: []string{"go/ssa and go/types model the program faithfully", "calls are deterministic functions of their arguments when their closure has no mutable global / nondeterminism source (checked for shuffleIndex)", "(*os.File).ReadAt and bufio.Reader behave as documented"},
		Run:    runC20,
	})
}

func runC20(c *Ctx) {
	p := c.need("tuner")
	if p == nil {
		return
	}
	c20R1(c, p)
	acc := c20Manifest(c, p)
	op := c20Open(c, p, acc)
	if op.si != nil {
		c20R3(c, p, &op)
		op.chunkLines = c20OpenArgs(c, p, op)
	}
	c20R4(c, p, acc)
	c20Read(c, p, acc, op)
	c20R6(c, p)
	c20R7(c, p)
}

// ---------------------------------------------------------------- helpers

// c20LoopPhi splits a two-edge loop-header phi into entry value, back-edge value and latch block.
func c20LoopPhi(v ssa.Value) (phi *ssa.Phi, init, back ssa.Value, latch *ssa.BasicBlock, ok bool) {
	phi, isPhi := v.(*ssa.Phi)
	if !isPhi || len(phi.Edges) != 2 {
		return nil, nil, nil, nil, false
	}
	b := phi.Block()
	for i, pred := range b.Preds {
		if b.Dominates(pred) {
			if back != nil {
				return nil, nil, nil, nil, false
			}
			back, latch = phi.Edges[i], pred
		} else {
			init = phi.Edges[i]
		}
	}
	return phi, init, back, latch, back != nil && init != nil
}

// c20Lin is an integer expression flattened over + and -: sum(pos) - sum(neg) + k.
type c20Lin struct {
	pos, neg []ssa.Value
	k        int64
}

func c20Linear(v ssa.Value) c20Lin {
	var l c20Lin
	var walk func(v ssa.Value, sign int64)
	walk = func(v ssa.Value, sign int64) {
		v = stripConv(v)
		if _, isC := v.(*ssa.Const); isC {
			if k, ok := constOf(v); ok {
				l.k += sign * k
				return
			}
		}
		if b, ok := v.(*ssa.BinOp); ok && (b.Op == token.ADD || b.Op == token.SUB) {
			walk(b.X, sign)
			if b.Op == token.ADD {
				walk(b.Y, sign)
			} else {
				walk(b.Y, -sign)
			}
			return
		}
		if sign > 0 {
			l.pos = append(l.pos, v)
		} else {
			l.neg = append(l.neg, v)
		}
	}
	if v != nil {
		walk(v, 1)
	}
	return l
}

// c20Take removes and returns the first value satisfying pred.
func c20Take(list *[]ssa.Value, pred func(ssa.Value) bool) ssa.Value {
	for i, v := range *list {
		if pred(v) {
			*list = append(append([]ssa.Value{}, (*list)[:i]...), (*list)[i+1:]...)
			return v
		}
	}
	return nil
}

// c20PlusConst: v == base + k ?
func c20PlusConst(v, base ssa.Value) (int64, bool) {
	l := c20Linear(v)
	if len(l.pos) == 1 && len(l.neg) == 0 && l.pos[0] == base {
		return l.k, true
	}
	return 0, false
}

func c20Builtin(v ssa.Value, name string) (*ssa.Call, bool) {
	call, ok := stripConv(v).(*ssa.Call)
	if !ok {
		return nil, false
	}
	b, ok := call.Call.Value.(*ssa.Builtin)
	return call, ok && b.Name() == name
}

// c20LenOf returns x when v is len(x) (through conversions).
func c20LenOf(v ssa.Value) ssa.Value {
	if call, ok := c20Builtin(v, "len"); ok && len(call.Call.Args) == 1 {
		return call.Call.Args[0]
	}
	return nil
}

// c20FieldLoad: v is a load of (or Field extraction from) a struct field.
func c20FieldLoad(v ssa.Value) (fld *types.Var, base ssa.Value, ok bool) {
	switch x := v.(type) {
	case *ssa.UnOp:
		if x.Op != token.MUL {
			return nil, nil, false
		}
		if fa, isFA := x.X.(*ssa.FieldAddr); isFA {
			if _, s := structOf(fa.X.Type()); s != nil {
				return s.Field(fa.Field), fa.X, true
			}
		}
	case *ssa.Field:
		if _, s := structOf(x.X.Type()); s != nil {
			return s.Field(x.Field), x.X, true
		}
	}
	return nil, nil, false
}

func c20IsLoadOf(v ssa.Value, fld *types.Var, base ssa.Value) bool {
	f, b, ok := c20FieldLoad(stripConv(v))
	return ok && fld != nil && f == fld && b == base
}

// c20FieldStoreAddr: addr is &base.fld.
func c20FieldOfAddr(addr ssa.Value) (fld *types.Var, base ssa.Value, ok bool) {
	fa, isFA := addr.(*ssa.FieldAddr)
	if !isFA {
		return nil, nil, false
	}
	if _, s := structOf(fa.X.Type()); s != nil {
		return s.Field(fa.Field), fa.X, true
	}
	return nil, nil, false
}

// c20MaskWidth: v == (1 << w) - 1  →  w.
func c20MaskWidth(v ssa.Value) (ssa.Value, bool) {
	sub, ok := stripConv(v).(*ssa.BinOp)
	if !ok || sub.Op != token.SUB {
		return nil, false
	}
	if k, isC := constOf(sub.Y); !isC || k != 1 {
		return nil, false
	}
	shl, ok := stripConv(sub.X).(*ssa.BinOp)
	if !ok || shl.Op != token.SHL {
		return nil, false
	}
	if k, isC := constOf(shl.X); !isC || k != 1 {
		return nil, false
	}
	return shl.Y, true
}

// c20Masked splits v == part & mask(w); ok=false when v is not an AND with a recognisable mask.
func c20Masked(v ssa.Value) (part, w ssa.Value, ok bool) {
	and, isB := stripConv(v).(*ssa.BinOp)
	if !isB || and.Op != token.AND {
		return nil, nil, false
	}
	if w, ok := c20MaskWidth(and.Y); ok {
		return and.X, w, true
	}
	if w, ok := c20MaskWidth(and.X); ok {
		return and.Y, w, true
	}
	return nil, nil, false
}

// c20Rel normalises a comparison taken with the given truth value to "a <= b" (strict: "a < b").
func c20Rel(cond ssa.Value, truth bool) (a, b ssa.Value, strict, ok bool) {
	if u, isU := cond.(*ssa.UnOp); isU && u.Op == token.NOT {
		return c20Rel(u.X, !truth)
	}
	bo, isB := cond.(*ssa.BinOp)
	if !isB {
		return nil, nil, false, false
	}
	x, y := stripConv(bo.X), stripConv(bo.Y)
	switch bo.Op {
	case token.LSS:
		if truth {
			return x, y, true, true
		}
		return y, x, false, true
	case token.GTR:
		if truth {
			return y, x, true, true
		}
		return x, y, false, true
	case token.LEQ:
		if truth {
			return x, y, false, true
		}
		return y, x, true, true
	case token.GEQ:
		if truth {
			return y, x, false, true
		}
		return x, y, true, true
	}
	return nil, nil, false, false
}

// c20Stay: for a block ending in If, which truth value keeps control on the way to target.
func c20Stay(b, target *ssa.BasicBlock) (iff *ssa.If, truth, ok bool) {
	if len(b.Instrs) == 0 {
		return nil, false, false
	}
	iff, isIf := b.Instrs[len(b.Instrs)-1].(*ssa.If)
	if !isIf || b.Succs[0] == b.Succs[1] {
		return nil, false, false
	}
	t := b.Succs[0] == target || b.Succs[0].Dominates(target) && b.Succs[0] != b
	f := b.Succs[1] == target || b.Succs[1].Dominates(target) && b.Succs[1] != b
	if t == f {
		return iff, false, false
	}
	return iff, t, true
}

// c20AppendOf follows a struct value into `acc = append(acc, elem)` with acc a loop phi.
func c20AppendOf(elem ssa.Value) (acc *ssa.Phi, app *ssa.Call) {
	if elem.Referrers() == nil {
		return nil, nil
	}
	for _, r := range *elem.Referrers() {
		st, ok := r.(*ssa.Store)
		if !ok || st.Val != elem {
			continue
		}
		ia, ok := st.Addr.(*ssa.IndexAddr)
		if !ok || ia.X.Referrers() == nil {
			continue
		}
		for _, r2 := range *ia.X.Referrers() {
			sl, ok := r2.(*ssa.Slice)
			if !ok || sl.Referrers() == nil {
				continue
			}
			for _, r3 := range *sl.Referrers() {
				call, ok := c20Builtin(valueOf(r3), "append")
				if !ok || len(call.Call.Args) != 2 || call.Call.Args[1] != sl {
					continue
				}
				if phi, _, back, _, ok := c20LoopPhi(call.Call.Args[0]); ok && back == call {
					return phi, call
				}
			}
		}
	}
	return nil, nil
}

func valueOf(in ssa.Instruction) ssa.Value {
	v, _ := in.(ssa.Value)
	return v
}

// c20StoredField: the struct field into which v is stored (first one found).
func c20StoredField(v ssa.Value) *types.Var {
	if v.Referrers() == nil {
		return nil
	}
	for _, r := range *v.Referrers() {
		if st, ok := r.(*ssa.Store); ok && st.Val == v {
			if f, _, ok := c20FieldOfAddr(st.Addr); ok {
				return f
			}
		}
	}
	return nil
}

func c20OwnCallee(v ssa.Value) (*ssa.Call, *ssa.Function) {
	call, ok := stripConv(v).(*ssa.Call)
	if !ok {
		return nil, nil
	}
	fn := call.Call.StaticCallee()
	if fn == nil || !isOwn(fn) || fn.Blocks == nil {
		return nil, nil
	}
	return call, fn
}

// c20Same: sameValue extended to structurally equal arithmetic (bits/2 recomputed, a+b vs b+a).
func c20Same(a, b ssa.Value, depth int) bool {
	if a == nil || b == nil {
		return false
	}
	if sameValue(a, b, 0) {
		return true
	}
	x, ok1 := stripConv(a).(*ssa.BinOp)
	y, ok2 := stripConv(b).(*ssa.BinOp)
	if !ok1 || !ok2 || x.Op != y.Op || depth > 4 {
		return false
	}
	if c20Same(x.X, y.X, depth+1) && c20Same(x.Y, y.Y, depth+1) {
		return true
	}
	switch x.Op {
	case token.ADD, token.MUL, token.AND, token.OR, token.XOR:
		return c20Same(x.X, y.Y, depth+1) && c20Same(x.Y, y.X, depth+1)
	}
	return false
}

func c20Blocks(path []int) string { return strings.Trim(fmt.Sprint(path), "[]") }

// ---------------------------------------------------------------- R1

func c20R1(c *Ctx, p *Prog) {
	const rule = "C20.R1"
	pk := p.SSAPkg(c20Tun)
	if pk == nil {
		c.Anchor(rule, c20Tun)
		return
	}
	var names []string
	for name, m := range pk.Members {
		fn, ok := m.(*ssa.Function)
		if !ok || fn.Signature.Results().Len() != 1 {
			continue
		}
		if n, ok := types.Unalias(fn.Signature.Results().At(0).Type()).(*types.Named); ok && n.Obj().Pkg() != nil &&
			n.Obj().Pkg().Path() == "iter" && n.Obj().Name() == "Seq" && n.TypeArgs().Len() == 1 {
			if s, ok := n.TypeArgs().At(0).Underlying().(*types.Struct); ok && s.NumFields() == 2 {
				names = append(names, name)
			}
		}
	}
	sort.Strings(names)
	n := 0
	for _, name := range names {
		fn := pk.Func(name)
		spec := c20Tun + "." + name
		if len(fn.AnonFuncs) == 0 && c20Delegates(c, rule, spec, fn) {
			n++
			continue
		}
		if len(fn.AnonFuncs) != 1 {
			c.Undec(rule, spec+"#shape", fn.Pos(), "%s does not consist of exactly one iterator closure", spec)
			continue
		}
		n++
		c20Tile(c, rule, spec, fn, fn.AnonFuncs[0])
	}
	c.Floor(rule, n, 2, "iter.Seq[Range] iterators in package tuning")
}

// c20Delegates: fn only forwards to another iterator constructor of the package (which is analysed itself):
// its Range argument must be fn's own Range parameter or the literal {0, <int parameter>}.
func c20Delegates(c *Ctx, rule, spec string, fn *ssa.Function) bool {
	if len(fn.Blocks) != 1 {
		return false
	}
	ret, ok := fn.Blocks[0].Instrs[len(fn.Blocks[0].Instrs)-1].(*ssa.Return)
	if !ok || len(ret.Results) != 1 {
		return false
	}
	call, g := c20OwnCallee(ret.Results[0])
	if g == nil || len(g.AnonFuncs) != 1 || g.Pkg != fn.Pkg {
		return false
	}
	good, seen := true, false
	for _, a := range call.Call.Args {
		if _, isStruct := a.Type().Underlying().(*types.Struct); !isStruct {
			continue
		}
		seen = true
		if prm, isP := a.(*ssa.Parameter); isP && prm.Parent() == fn {
			continue
		}
		ld, isLd := a.(*ssa.UnOp)
		var al *ssa.Alloc
		if isLd && ld.Op == token.MUL {
			al, _ = ld.X.(*ssa.Alloc)
		}
		vals := map[string]ssa.Value{}
		if al != nil && al.Referrers() != nil {
			for _, r := range *al.Referrers() {
				if fa, ok := r.(*ssa.FieldAddr); ok && fa.Referrers() != nil {
					f, _, _ := c20FieldOfAddr(fa)
					for _, r2 := range *fa.Referrers() {
						if st, ok := r2.(*ssa.Store); ok && st.Addr == ssa.Value(fa) {
							vals[f.Name()] = st.Val
						}
					}
				}
			}
		}
		k, isC := constOf(vals["Start"])
		_, endP := stripConv(vals["End"]).(*ssa.Parameter)
		if vals["Start"] == nil && al != nil && vals["End"] != nil {
			k, isC = 0, true // zero value of the literal
		}
		if !(isC && k == 0 && vals["End"] != nil && endP) {
			good = false
		}
	}
	if !seen || !good {
		c.Undec(rule, spec+"#delegates", fn.Pos(), "%s forwards to %s but its Range argument is neither its own Range parameter nor the literal {0, n}", spec, fnName(g))
		return true
	}
	c.Ok(rule, spec+"#delegates", fn.Pos(), "%s forwards its range ([0,n) or its own Range parameter) to the iterator %s, which is analysed itself", spec, fnName(g))
	return true
}

// c20PositiveAtCallers: the captured step/width `v` of iterator constructor outer must be a positive constant at every call.
func c20PositiveAtCallers(c *Ctx, rule, spec string, outer, cl *ssa.Function, v ssa.Value) {
	fv, _ := c20Invariant(outer, cl, v)
	idx := -1
	for i, f := range cl.FreeVars {
		if f == fv {
			idx = i
		}
	}
	var prm *ssa.Parameter
	allInstrs(outer, func(in ssa.Instruction) {
		if mc, ok := in.(*ssa.MakeClosure); ok && mc.Fn == cl && idx >= 0 {
			if al, ok := mc.Bindings[idx].(*ssa.Alloc); ok && al.Referrers() != nil {
				for _, r := range *al.Referrers() {
					if st, ok := r.(*ssa.Store); ok && st.Addr == ssa.Value(al) {
						prm, _ = st.Val.(*ssa.Parameter)
					}
				}
			}
		}
	})
	pi := -1
	for i, q := range outer.Params {
		if q == prm && prm != nil {
			pi = i
		}
	}
	exported := outer.Object() != nil && outer.Object().Exported()
	nCalls, bad := 0, ""
	if pi >= 0 && !exported && outer.Pkg != nil {
		for _, m := range outer.Pkg.Members {
			f, ok := m.(*ssa.Function)
			if !ok {
				continue
			}
			for _, g := range withClosures(f) {
				allInstrs(g, func(in ssa.Instruction) {
					ci, ok := in.(ssa.CallInstruction)
					if !ok || ci.Common().StaticCallee() != outer || pi >= len(ci.Common().Args) {
						return
					}
					nCalls++
					if k, isC := constOf(ci.Common().Args[pi]); !isC || k <= 0 {
						bad = fnName(g)
					}
				})
			}
		}
	}
	if pi < 0 || exported || nCalls == 0 || bad != "" {
		c.Undec(rule, spec+"#step-positive", outer.Pos(), "step/width of %s is a parameter; cannot show that every caller passes a positive constant (exported=%v, %d calls, offending caller %q)", spec, exported, nCalls, bad)
		return
	}
	c.Ok(rule, spec+"#step-positive", outer.Pos(), "step/width of %s is its parameter %s; all %d callers pass a positive constant", spec, prm.Name(), nCalls)
}

// c20Invariant: v is a load from a captured variable that nobody can modify while the iterator runs.
func c20Invariant(outer, cl *ssa.Function, v ssa.Value) (root *ssa.FreeVar, ok bool) {
	ld, isLd := v.(*ssa.UnOp)
	if !isLd || ld.Op != token.MUL {
		return nil, false
	}
	addr := ld.X
	if fa, isFA := addr.(*ssa.FieldAddr); isFA {
		addr = fa.X
	}
	fv, isFV := addr.(*ssa.FreeVar)
	if !isFV {
		return nil, false
	}
	bad := false
	allInstrs(cl, func(in ssa.Instruction) {
		if st, ok := in.(*ssa.Store); ok {
			a := st.Addr
			if fa, ok := a.(*ssa.FieldAddr); ok {
				a = fa.X
			}
			if a == fv {
				bad = true
			}
		}
	})
	idx := -1
	for i, f := range cl.FreeVars {
		if f == fv {
			idx = i
		}
	}
	found := false
	allInstrs(outer, func(in ssa.Instruction) {
		mc, ok := in.(*ssa.MakeClosure)
		if !ok || mc.Fn != cl || idx < 0 {
			return
		}
		found = true
		al, ok := mc.Bindings[idx].(*ssa.Alloc)
		if !ok || al.Referrers() == nil {
			bad = true
			return
		}
		stores := 0
		for _, r := range *al.Referrers() {
			switch x := r.(type) {
			case *ssa.MakeClosure, *ssa.DebugRef:
			case *ssa.Store:
				if x.Addr != al {
					bad = true
				}
				stores++
			default:
				bad = true
			}
		}
		if stores != 1 {
			bad = true
		}
	})
	return fv, found && !bad
}

func c20MinLeaves(v ssa.Value, out *[]ssa.Value) {
	if call, ok := c20Builtin(v, "min"); ok {
		for _, a := range call.Call.Args {
			c20MinLeaves(a, out)
		}
		return
	}
	*out = append(*out, stripConv(v))
}

func c20Tile(c *Ctx, rule, spec string, outer, cl *ssa.Function) {
	und := func(pos token.Pos, format string, args ...any) {
		c.Undec(rule, spec+"#shape", pos, "iterator shape not understood: "+format, args...)
	}
	if len(cl.Params) != 1 {
		und(cl.Pos(), "closure has %d parameters", len(cl.Params))
		return
	}
	yield := cl.Params[0]
	var ycall *ssa.Call
	ny := 0
	allInstrs(cl, func(in ssa.Instruction) {
		if call, ok := in.(*ssa.Call); ok && call.Call.Value == yield {
			ycall = call
			ny++
		}
	})
	if ny != 1 || len(ycall.Call.Args) != 1 {
		und(cl.Pos(), "%d calls of the yield parameter (want 1)", ny)
		return
	}
	ld, ok := ycall.Call.Args[0].(*ssa.UnOp)
	var alloc *ssa.Alloc
	if ok && ld.Op == token.MUL {
		alloc, _ = ld.X.(*ssa.Alloc)
	}
	if alloc == nil || alloc.Referrers() == nil {
		und(ycall.Pos(), "yield argument is not a freshly built Range value")
		return
	}
	vals := map[string]ssa.Value{}
	dup := false
	for _, r := range *alloc.Referrers() {
		fa, ok := r.(*ssa.FieldAddr)
		if !ok || fa.Referrers() == nil {
			continue
		}
		f, _, _ := c20FieldOfAddr(fa)
		for _, r2 := range *fa.Referrers() {
			if st, ok := r2.(*ssa.Store); ok && st.Addr == fa {
				if _, seen := vals[f.Name()]; seen {
					dup = true
				}
				vals[f.Name()] = st.Val
			}
		}
	}
	startV, endV := vals["Start"], vals["End"]
	if dup || startV == nil || endV == nil {
		und(ycall.Pos(), "Start/End of the yielded Range are not each stored exactly once")
		return
	}
	phi, init, back, latch, ok := c20LoopPhi(stripConv(startV))
	if !ok {
		und(ycall.Pos(), "yielded Start is not the loop variable")
		return
	}
	// loop condition
	iff, truth, ok := c20Stay(phi.Block(), latch)
	if !ok {
		und(phi.Pos(), "loop header does not end in the loop test")
		return
	}
	a, bound, strict, ok := c20Rel(iff.Cond, truth)
	if !ok || a != phi {
		und(iff.Pos(), "loop test is not a comparison start < bound")
		return
	}
	fv, inv := c20Invariant(outer, cl, bound)
	if !inv {
		und(iff.Pos(), "loop bound is not a load of a captured variable that stays unmodified")
		return
	}
	if strict {
		c.Ok(rule, spec+"#loop-cond", iff.Pos(), "loop runs while start < bound, bound is a captured, never re-assigned value")
	} else {
		c.Undec(rule, spec+"#loop-cond", iff.Pos(), "loop runs while start <= bound: an extra (empty or out-of-range) Range is yielded at start == bound; tiling of [start,bound) not proven")
	}
	// step and width: start += S and End = start + W with S, W a constant or a captured, never re-assigned value
	plus := func(v ssa.Value) (sym ssa.Value, k int64, ok bool) { // v == phi + sym | phi + k
		t, k := c20LinC(v)
		if t[phi] != 1 || len(t) > 2 {
			return nil, 0, false
		}
		for l := range t {
			if l != ssa.Value(phi) {
				if _, inv := c20Invariant(outer, cl, l); !inv || t[l] != 1 || k != 0 {
					return nil, 0, false
				}
				sym = l
			}
		}
		return sym, k, true
	}
	stepSym, step, ok := plus(back)
	toEnd := stripConv(back) == stripConv(endV) // start = end: adjacent by construction
	if !ok && !toEnd {
		und(back.Pos(), "loop variable is not advanced by start += constant/captured value (or start = end)")
		return
	}
	var leaves []ssa.Value
	c20MinLeaves(endV, &leaves)
	clips, nW, unknown := 0, 0, 0
	okW := toEnd || stepSym != nil || step > 0
	desc := ""
	var symW ssa.Value
	for _, l := range leaves {
		if sameValue(l, bound, 0) {
			clips++
		} else if ws, w, ok := plus(l); ok {
			nW++
			desc += fmt.Sprintf(" start+%d", w)
			switch {
			case toEnd:
				okW = okW && (ws != nil || w > 0)
			case ws != nil || stepSym != nil:
				okW = okW && ws != nil && stepSym != nil && sameValue(ws, stepSym, 0)
			default:
				okW = okW && w == step
			}
			if ws != nil {
				symW = ws
				desc += "(captured)"
			}
		} else {
			unknown++
		}
	}
	if unknown > 0 || nW == 0 {
		und(ycall.Pos(), "yielded End is not min(start+width, bound)")
		return
	}
	c.Check(okW, rule, spec+"#step-width", back.Pos(), "start advances by %d/captured=%v, End =%s (must be the same positive amount: a smaller width leaves positions unprocessed, a larger one processes positions twice)", step, stepSym != nil, desc)
	if symW != nil {
		c20PositiveAtCallers(c, rule, spec, outer, cl, symW)
	}
	c.Check(clips > 0, rule, spec+"#clip", ycall.Pos(), "yielded End clipped to the range end by min: %d clip term(s) (without it the last Range exceeds the range and Chunker.Open rejects it)", clips)
	// init
	if k, isC := constOf(init); isC {
		_, isF := bound.(*ssa.UnOp).X.(*ssa.FieldAddr)
		c.Check(k == 0 && !isF, rule, spec+"#init", phi.Pos(), "start begins at constant %d (range is [0,bound): must be 0)", k)
	} else if f, b, ok := c20FieldLoad(init); ok && b == fv && f.Name() == "Start" {
		bf, bb, bok := c20FieldLoad(bound)
		if !bok {
			c.Undec(rule, spec+"#init", phi.Pos(), "start begins at Start of the captured Range but the bound is not a field of it")
		} else {
			c.Check(bb == fv && bf.Name() == "End", rule, spec+"#init", phi.Pos(), "start begins at Start and runs to End of the same captured Range")
		}
	} else {
		c.Undec(rule, spec+"#init", phi.Pos(), "initial value of start is neither 0 nor the Start field of the captured Range")
	}
	// yield on every iteration; exits
	yb := ycall.Block()
	good := yb.Dominates(latch) && phi.Block().Dominates(yb)
	staySucc := phi.Block().Succs[0]
	if !truth {
		staySucc = phi.Block().Succs[1]
	}
	var stopSucc, yifBlock *ssa.BasicBlock
	if ycall.Referrers() != nil {
		for _, r := range *ycall.Referrers() {
			if yif, ok := r.(*ssa.If); ok {
				_, cont, ok := c20Stay(yif.Block(), latch)
				if !ok || !cont {
					good = false // continuing when yield returned false / not decidable
				} else {
					stopSucc, yifBlock = yif.Block().Succs[1], yif.Block()
				}
			} else if _, isDbg := r.(*ssa.DebugRef); !isDbg {
				good = false
			}
		}
	}
	// inside the loop body the only way out is the yield=false edge
	for _, b := range cl.Blocks {
		if !staySucc.Dominates(b) {
			continue
		}
		if len(b.Succs) == 0 && !(stopSucc != nil && stopSucc.Dominates(b)) {
			good = false
		}
		for _, sc := range b.Succs {
			if !staySucc.Dominates(sc) && sc != phi.Block() && !(b == yifBlock && sc == stopSucc) {
				good = false
			}
		}
	}
	if good {
		c.Ok(rule, spec+"#yield", ycall.Pos(), "yield(start,end) is executed on every iteration, iteration continues exactly when it returns true, no other exit from the loop")
	} else {
		c.Undec(rule, spec+"#yield", ycall.Pos(), "cannot prove that every iteration yields its Range and that the loop is left only at the end or on yield=false")
	}
}

// ---------------------------------------------------------------- R5a: NewChunker's manifest (writer side)

// c20LinearIn is c20Linear with the parameters of a helper replaced by the arguments of its call.
func c20LinearIn(v ssa.Value, env map[ssa.Value]ssa.Value) c20Lin {
	l := c20Linear(v)
	if env == nil {
		return l
	}
	out := c20Lin{k: l.k}
	for sign, list := range map[int64][]ssa.Value{1: l.pos, -1: l.neg} {
		for _, leaf := range list {
			sub := c20Lin{pos: []ssa.Value{leaf}}
			if arg, ok := env[leaf]; ok {
				sub = c20Linear(arg)
			}
			if sign < 0 {
				sub.pos, sub.neg, sub.k = sub.neg, sub.pos, -sub.k
			}
			out.pos, out.neg, out.k = append(out.pos, sub.pos...), append(out.neg, sub.neg...), out.k+sub.k
		}
	}
	return out
}

// c20ImpureIn lists what keeps a straight-line helper from being a pure function of its arguments.
func c20ImpureIn(h *ssa.Function) (why []string) {
	allInstrs(h, func(in ssa.Instruction) {
		switch x := in.(type) {
		case *ssa.Store:
			base := x.Addr
			if fa, ok := base.(*ssa.FieldAddr); ok {
				base = fa.X
			}
			if _, local := base.(*ssa.Alloc); !local {
				why = append(why, "store outside a local")
			}
		case *ssa.UnOp:
			if x.Op == token.MUL {
				base := x.X
				if fa, ok := base.(*ssa.FieldAddr); ok {
					base = fa.X
				}
				if _, local := base.(*ssa.Alloc); !local {
					why = append(why, "load from non-local memory")
				}
			}
		case ssa.CallInstruction:
			if _, isBuiltin := x.Common().Value.(*ssa.Builtin); !isBuiltin {
				why = append(why, "call")
			}
		}
	})
	return
}

// c20Acc describes how NewChunker derives file offsets.
type c20Acc struct {
	ok       bool
	mode     string // "acc": curr += len(line)+K ; "off": end = reader.Offset(), start = end-len(line)-K
	K        int64
	fn       *ssa.Function // NewChunker
	reader   *ssa.Function // callee that yields the lines
	rcall    *ssa.Call
	offField *types.Var // off mode: reader field returned by the offset accessor
	startF   *types.Var
	endF     *types.Var
	manifest *types.Var
}

func c20Manifest(c *Ctx, p *Prog) (acc c20Acc) {
	const rule = "C20.R5"
	spec := c20Epd + ".NewChunker"
	fn := p.Func(spec)
	if fn == nil {
		c.Anchor(rule, spec)
		return
	}
	acc.fn = fn
	key := spec + "#manifest-entry"
	und := func(pos token.Pos, format string, args ...any) {
		c.Undec(rule, key, pos, "offset bookkeeping not understood: "+format, args...)
	}
	// the line: extract #0 of a call to an own function, whose len() is used
	var line *ssa.Extract
	allInstrs(fn, func(in ssa.Instruction) {
		if call, ok := in.(*ssa.Call); ok {
			if x := c20LenOf(call); x != nil {
				if ex, ok := x.(*ssa.Extract); ok && ex.Index == 0 {
					if rc, callee := c20OwnCallee(ex.Tuple); callee != nil {
						if acc.reader != nil && acc.reader != callee {
							line = nil
							return
						}
						line, acc.reader, acc.rcall = ex, callee, rc
					}
				}
			}
		}
	})
	if line == nil || len(acc.rcall.Call.Args) == 0 {
		und(fn.Pos(), "no single line-reader call whose len(line) enters the offsets")
		return
	}
	isLen := func(v ssa.Value) bool { return c20LenOf(v) == line }
	// stores into the struct literal — built in NewChunker itself, or in a straight-line pure helper
	// whose parameters are then replaced by the arguments of its call (values of NewChunker)
	type fstore struct {
		f    *types.Var
		v    ssa.Value // stored value (in the helper's terms when built there)
		l    c20Lin    // its linear form in NewChunker's terms
		a    ssa.Value // identity of the struct being built: the local, or the helper's call
		elem ssa.Value // the struct value as it appears in NewChunker
	}
	var lenStore *fstore
	var stores []fstore
	collect := func(in ssa.Instruction, env map[ssa.Value]ssa.Value, only *ssa.Alloc, id, elem ssa.Value) {
		st, ok := in.(*ssa.Store)
		if !ok {
			return
		}
		f, base, ok := c20FieldOfAddr(st.Addr)
		if !ok {
			return
		}
		al, isAlloc := base.(*ssa.Alloc)
		if !isAlloc || (only != nil && al != only) {
			return
		}
		if id == nil {
			id = al
		}
		fs := fstore{f: f, v: st.Val, l: c20LinearIn(st.Val, env), a: id, elem: elem}
		stores = append(stores, fs)
		for _, v := range append(append([]ssa.Value{}, fs.l.pos...), fs.l.neg...) {
			if isLen(v) {
				lenStore = &fs
			}
		}
	}
	allInstrs(fn, func(in ssa.Instruction) {
		collect(in, nil, nil, nil, nil)
		hc, h := c20OwnCallee(valueOf(in))
		if h == nil || len(h.Blocks) != 1 || len(c20ImpureIn(h)) > 0 {
			return
		}
		ret, ok := h.Blocks[0].Instrs[len(h.Blocks[0].Instrs)-1].(*ssa.Return)
		if !ok || len(ret.Results) != 1 {
			return
		}
		ld, ok := ret.Results[0].(*ssa.UnOp)
		if !ok || ld.Op != token.MUL {
			return
		}
		al, ok := ld.X.(*ssa.Alloc)
		if !ok {
			return
		}
		env := map[ssa.Value]ssa.Value{}
		for i, prm := range h.Params {
			if i < len(hc.Call.Args) {
				env[prm] = hc.Call.Args[i]
			}
		}
		allInstrs(h, func(in2 ssa.Instruction) { collect(in2, env, al, hc, hc) })
	})
	if lenStore == nil {
		und(line.Pos(), "len(line) does not flow into a field of an appended struct")
		return
	}
	var other *fstore
	for i := range stores {
		if stores[i].a == lenStore.a && stores[i].f != lenStore.f {
			if other != nil {
				und(line.Pos(), "manifest entry has more than two stored fields")
				return
			}
			other = &stores[i]
		}
	}
	if other == nil {
		und(line.Pos(), "manifest entry has no second offset field")
		return
	}
	l := lenStore.l
	l.pos, l.neg = append([]ssa.Value{}, l.pos...), append([]ssa.Value{}, l.neg...)
	// otherIs: the second field is exactly the value v
	otherIs := func(v ssa.Value) bool {
		return len(other.l.pos) == 1 && len(other.l.neg) == 0 && other.l.k == 0 && other.l.pos[0] == v
	}
	switch {
	case c20Take(&l.pos, isLen) != nil && len(l.pos) == 1 && len(l.neg) == 0:
		// accumulate: end = curr + len(line) + K, start = curr, curr' = end
		phi, init, back, _, ok := c20LoopPhi(l.pos[0])
		if !ok {
			und(lenStore.v.Pos(), "end = v + len(line) + K where v is not a loop-carried offset")
			return
		}
		k0, isC := constOf(init)
		bl := c20Linear(back)
		sameBack := back == lenStore.v || (c20Take(&bl.pos, isLen) != nil && len(bl.pos) == 1 && bl.pos[0] == phi && len(bl.neg) == 0 && bl.k == l.k)
		if !(isC && k0 == 0) || !otherIs(phi) || !sameBack {
			c.Undec(rule, key, lenStore.v.Pos(), "manifest entry not recognised as {curr, curr+len(line)+K} with curr starting at 0 and advancing to that end")
			return
		}
		acc.mode, acc.K, acc.endF, acc.startF = "acc", l.k, lenStore.f, other.f
	case c20Take(&l.neg, isLen) != nil && len(l.neg) == 0 && len(l.pos) == 1:
		// reader-side offset: end = reader.Offset(), start = end - len(line) - K
		ocall, g := c20OwnCallee(l.pos[0])
		if g == nil || !otherIs(ocall) || len(ocall.Call.Args) != 1 || ocall.Call.Args[0] != acc.rcall.Call.Args[0] || !instrDominates(acc.rcall, ocall) {
			und(lenStore.v.Pos(), "start = e - len(line) - K where e is not an offset accessor called on the same reader after the read")
			return
		}
		var fld *types.Var
		if len(g.Blocks) == 1 {
			if ret, ok := g.Blocks[0].Instrs[len(g.Blocks[0].Instrs)-1].(*ssa.Return); ok && len(ret.Results) == 1 {
				if f, b, ok := c20FieldLoad(stripConv(ret.Results[0])); ok && b == g.Params[0] {
					fld = f
				}
			}
		}
		if fld == nil {
			und(ocall.Pos(), "%s is not a plain accessor of a reader field", fnName(g))
			return
		}
		acc.mode, acc.K, acc.startF, acc.endF, acc.offField = "off", -l.k, lenStore.f, other.f, fld
	default:
		und(lenStore.v.Pos(), "field value is neither curr+len(line)+K nor offset-len(line)-K")
		return
	}
	// the entry is appended on every iteration and the result becomes the manifest
	elem := lenStore.elem
	if elem == nil && lenStore.a.Referrers() != nil {
		for _, r := range *lenStore.a.Referrers() {
			if u, ok := r.(*ssa.UnOp); ok && u.Op == token.MUL {
				elem = u
			}
		}
	}
	if elem == nil {
		und(line.Pos(), "manifest entry is not appended")
		return
	}
	accPhi, app := c20AppendOf(elem)
	if accPhi == nil || !instrDominates(acc.rcall, app) {
		und(line.Pos(), "manifest entry is not appended to the loop-carried manifest")
		return
	}
	if acc.manifest = c20StoredField(accPhi); acc.manifest == nil {
		und(app.Pos(), "accumulated manifest is not stored into the Chunker")
		return
	}
	acc.ok = true
	if acc.K < 0 {
		c.Fail(rule, key, lenStore.v.Pos(), "per-line increment K=%d is negative", acc.K)
		return
	}
	c.Ok(rule, key, lenStore.v.Pos(), "mode %s: entry.%s/%s = [o, o+len(line)+%d) with consecutive o, line from %s, appended to Chunker.%s", acc.mode, acc.startF.Name(), acc.endF.Name(), acc.K, fnName(acc.reader), acc.manifest.Name())
	return
}

// ---------------------------------------------------------------- R5f: Chunker.Open

type c20OpenInfo struct {
	fn         *ssa.Function
	si         *ssa.Function  // the permutation shuffleIndex (callee whose result indexes the manifest)
	call       *ssa.Call      // its call in Open
	ia         *ssa.IndexAddr // manifest[perm]
	fldM       *types.Var
	baseM      ssa.Value
	xIdx, nIdx int       // parameter roles of si, derived inside si by c20R3 (-1 unknown)
	via        *ssa.Call // when manifest[perm] sits in a straight-line helper: the helper's call in Open
	chunkLines *types.Var
}

// c20LinC flattens an integer expression over + and - into coefficients of opaque leaves;
// len(make([]T, n)) is expanded to n.
func c20LinC(v ssa.Value) (t map[ssa.Value]int64, k int64) {
	t = map[ssa.Value]int64{}
	var walk func(v ssa.Value, sign int64)
	walk = func(v ssa.Value, sign int64) {
		v = stripConv(v)
		if cst, isC := v.(*ssa.Const); isC {
			if kk, ok := constOf(cst); ok {
				k += sign * kk
				return
			}
		}
		if b, ok := v.(*ssa.BinOp); ok && (b.Op == token.ADD || b.Op == token.SUB) {
			walk(b.X, sign)
			if b.Op == token.ADD {
				walk(b.Y, sign)
			} else {
				walk(b.Y, -sign)
			}
			return
		}
		if x := c20LenOf(v); x != nil {
			if mk, ok := x.(*ssa.MakeSlice); ok {
				walk(mk.Len, sign)
				return
			}
		}
		t[v] += sign
		if t[v] == 0 {
			delete(t, v)
		}
	}
	walk(v, 1)
	return
}

func c20AddLin(a map[ssa.Value]int64, ak int64, b map[ssa.Value]int64, bk int64, sign int64) (map[ssa.Value]int64, int64) {
	out := map[ssa.Value]int64{}
	for v, c := range a {
		out[v] = c
	}
	for v, c := range b {
		out[v] += sign * c
		if out[v] == 0 {
			delete(out, v)
		}
	}
	return out, ak + sign*bk
}

// c20OnlyParams: all leaves are parameters (the expression is fully understood).
func c20OnlyParams(t map[ssa.Value]int64) bool {
	for v := range t {
		if _, ok := v.(*ssa.Parameter); !ok {
			return false
		}
	}
	return true
}

func c20SingleParam(t map[ssa.Value]int64, k int64) *ssa.Parameter {
	if k != 0 || len(t) != 1 {
		return nil
	}
	for v, c := range t {
		if p, ok := v.(*ssa.Parameter); ok && c == 1 {
			return p
		}
	}
	return nil
}

func c20LinText(t map[ssa.Value]int64, k int64) string {
	var parts []string
	for v, c := range t {
		parts = append(parts, fmt.Sprintf("%+d*%s", c, v.Name()))
	}
	sort.Strings(parts)
	return fmt.Sprintf("%s%+d", strings.Join(parts, ""), k)
}

// c20Open locates manifest[perm(...)] in Open; the call-site obligations are checked by c20OpenArgs once
// the parameter roles of perm are known.
func c20Open(c *Ctx, p *Prog, acc c20Acc) (op c20OpenInfo) {
	const rule = "C20.R5"
	spec := c20Epd + ".(Chunker).Open"
	op.xIdx, op.nIdx = -1, -1
	fn := p.Func(spec)
	if fn == nil {
		c.Anchor(rule, spec)
		return
	}
	op.fn = fn
	key := spec + "#shuffle-map"
	n := 0
	allInstrs(fn, func(in ssa.Instruction) {
		if x, ok := in.(*ssa.IndexAddr); ok {
			if cl, callee := c20OwnCallee(x.Index); callee != nil {
				op.ia, op.call, op.si = x, cl, callee
				n++
			}
		}
	})
	if n == 0 {
		// manifest[perm(...)] extracted into a straight-line helper called from Open
		allInstrs(fn, func(in ssa.Instruction) {
			hc, h := c20OwnCallee(valueOf(in))
			if h == nil || len(h.Blocks) != 1 {
				return
			}
			allInstrs(h, func(in2 ssa.Instruction) {
				if x, ok := in2.(*ssa.IndexAddr); ok {
					if cl, callee := c20OwnCallee(x.Index); callee != nil {
						op.ia, op.call, op.si, op.via = x, cl, callee, hc
						n++
					}
				}
			})
		})
	}
	if n != 1 {
		op.si = nil
		c.Undec(rule, key, fn.Pos(), "Open not understood: %d index expressions manifest[f(...)] (want 1)", n)
		return
	}
	var ok bool
	op.fldM, op.baseM, ok = c20FieldLoad(op.ia.X)
	if !ok {
		op.si = nil
		c.Undec(rule, key, op.ia.Pos(), "Open not understood: indexed slice is not a field of the receiver")
		return
	}
	if acc.ok && op.fldM != acc.manifest {
		c.Fail(rule, key+"-field", op.ia.Pos(), "Open indexes Chunker.%s but NewChunker fills Chunker.%s", op.fldM.Name(), acc.manifest.Name())
	}
	return
}

func c20OpenArgs(c *Ctx, p *Prog, op c20OpenInfo) (chunkLines *types.Var) {
	const rule = "C20.R5"
	spec := c20Epd + ".(Chunker).Open"
	key := spec + "#shuffle-map"
	fn, call, ia := op.fn, op.call, op.ia
	und := func(pos token.Pos, format string, args ...any) {
		c.Undec(rule, key, pos, "Open not understood: "+format, args...)
	}
	if op.xIdx < 0 || op.nIdx < 0 || op.xIdx >= len(call.Call.Args) || op.nIdx >= len(call.Call.Args) {
		und(call.Pos(), "the roles (index, size) of the parameters of %s were not recognised", fnName(op.si))
		return
	}
	siName := fnName(op.si)
	// size argument = len(manifest)
	nArg := stripConv(call.Call.Args[op.nIdx])
	if x := c20LenOf(nArg); x == nil || !c20IsLoadOf(x, op.fldM, op.baseM) {
		t, k := c20LinC(nArg)
		hasLen := false
		for v := range t {
			if x := c20LenOf(v); x != nil && c20IsLoadOf(x, op.fldM, op.baseM) {
				hasLen = true
				delete(t, v)
			}
		}
		if c20OnlyParams(t) && (len(t) > 0 || k != 0 || !hasLen) {
			c.Fail(rule, key, call.Pos(), "size argument of %s is %s, not len(%s): the permutation is not over exactly the manifest's index set (lines beyond n are never processed / indices repeat)", siName, c20LinText(c20LinC(nArg)), op.fldM.Name())
		} else {
			und(call.Pos(), "size argument of %s is not recognisably len(%s)", siName, op.fldM.Name())
		}
		return
	}
	// when the call sits in a helper, its arguments are rewritten in Open's terms (helper parameters -> arguments)
	site := call // the instruction executed once per iteration in Open
	inOpen := func(t map[ssa.Value]int64, k int64) (map[ssa.Value]int64, int64) { return t, k }
	if op.via != nil {
		site = op.via
		h := call.Parent()
		inOpen = func(t map[ssa.Value]int64, k int64) (map[ssa.Value]int64, int64) {
			out := map[ssa.Value]int64{}
			for v, cf := range t {
				done := false
				for i, prm := range h.Params {
					if v == ssa.Value(prm) && i < len(op.via.Call.Args) {
						at, ak := c20LinC(op.via.Call.Args[i])
						out, k = c20AddLin(out, k, at, ak, cf)
						done = true
					}
				}
				if !done {
					out[v] += cf
				}
			}
			return out, k
		}
	}
	// index argument = p + dx for a counting loop variable p
	xt, xk := inOpen(c20LinC(call.Call.Args[op.xIdx]))
	var ph *ssa.Phi
	var init, back ssa.Value
	var latch *ssa.BasicBlock
	for v, cf := range xt {
		if q, i, b, l, ok := c20LoopPhi(v); ok && cf == 1 && ph == nil {
			ph, init, back, latch = q, i, b, l
		}
	}
	if ph == nil {
		if c20OnlyParams(xt) {
			c.Fail(rule, key, call.Pos(), "index argument of %s is %s and does not vary with a loop: the chunk does not enumerate its indices", siName, c20LinText(xt, xk))
		} else {
			und(call.Pos(), "index argument of %s is not <loop variable> + <invariant>", siName)
		}
		return
	}
	delete(xt, ssa.Value(ph)) // xt,xk is now dx
	phPos := ph.Pos()
	if !phPos.IsValid() { // range loops have synthetic induction variables
		phPos = site.Pos()
	}
	step, okStep := c20PlusConst(back, ph)
	iff, truth, okStay := c20Stay(ph.Block(), latch)
	if !okStep || !okStay {
		und(phPos, "loop of the index variable is not a counting loop tested in its header")
		return
	}
	ca, cb, strict, okRel := c20Rel(iff.Cond, truth)
	if !okRel {
		und(iff.Pos(), "loop test is not an order comparison")
		return
	}
	at, ak := c20LinC(ca)
	bt, bk := c20LinC(cb)
	if at[ph] != 1 || bt[ph] != 0 {
		und(iff.Pos(), "loop test is not <loop variable> + c < bound")
		return
	}
	delete(at, ssa.Value(ph))
	// body runs for p >= init with p + (at,ak) < (bt,bk): p in [init, bound - a); arguments x = p + dx
	it, ik := c20LinC(init)
	ut, uk := c20AddLin(bt, bk, at, ak, -1)
	if !strict {
		uk++
	}
	rng := func(dt map[ssa.Value]int64, dk int64) (lt map[ssa.Value]int64, lk int64, ht map[ssa.Value]int64, hk int64) {
		lt, lk = c20AddLin(it, ik, dt, dk, 1)
		ht, hk = c20AddLin(ut, uk, dt, dk, 1)
		return
	}
	lt, lk, ht, hk := rng(xt, xk)
	staySucc := ph.Block().Succs[0]
	if !truth {
		staySucc = ph.Block().Succs[1]
	}
	if !staySucc.Dominates(site.Block()) || !site.Block().Dominates(latch) {
		und(call.Pos(), "the permutation call is not executed exactly once per iteration")
		return
	}
	lo, hi := c20SingleParam(lt, lk), c20SingleParam(ht, hk)
	if step != 1 || lo == nil || hi == nil || lo == hi {
		if c20OnlyParams(lt) && c20OnlyParams(ht) {
			c.Fail(rule, key, phPos, "the indices passed to %s are [%s, %s) step %d, not exactly [start, end) of two parameters with step 1: the chunk ranges produced by Batches/Chunks are half-open and adjacent", siName, c20LinText(lt, lk), c20LinText(ht, hk), step)
		} else {
			und(phPos, "range of the indices passed to %s not understood: [%s, %s)", siName, c20LinText(lt, lk), c20LinText(ht, hk))
		}
		return
	}
	for i, o := range call.Call.Args {
		if i == op.xIdx || i == op.nIdx {
			continue
		}
		sl := backSlice(o, sliceOpts{ThroughCalls: true, ThroughLoads: true})
		if op.via != nil {
			for i, prm := range call.Parent().Params {
				if sl[prm] && i < len(op.via.Call.Args) {
					for v := range backSlice(op.via.Call.Args[i], sliceOpts{ThroughCalls: true, ThroughLoads: true}) {
						sl[v] = true
					}
				}
			}
		}
		if sl[ph] {
			c.Fail(rule, key, call.Pos(), "seed argument of %s depends on the loop index: different indices are mapped by different permutations", siName)
			return
		}
	}
	// manifest[perm] lands in the chunk's line list: appended, or stored into slot j of a list of exactly that many slots
	var elem ssa.Value
	if ia.Referrers() != nil {
		for _, r := range *ia.Referrers() {
			if u, ok := r.(*ssa.UnOp); ok && u.Op == token.MUL {
				elem = u
			}
		}
	}
	if elem != nil && op.via != nil {
		// the helper must hand the element back
		h := call.Parent()
		ret, isRet := h.Blocks[0].Instrs[len(h.Blocks[0].Instrs)-1].(*ssa.Return)
		if isRet && len(ret.Results) == 1 && ret.Results[0] == elem {
			elem = op.via
		} else {
			elem = nil
		}
	}
	if elem == nil {
		und(ia.Pos(), "manifest[perm(ix)] is not read (or not returned by the helper)")
		return
	}
	how := ""
	var list ssa.Value
	if accPhi, app := c20AppendOf(elem); accPhi != nil {
		if accPhi.Block() != ph.Block() || !app.Block().Dominates(latch) {
			und(ia.Pos(), "manifest[perm(ix)] is not appended to the chunk's line list on every iteration")
			return
		}
		how, list = "appended", accPhi
	} else if elem.Referrers() != nil {
		for _, r := range *elem.Referrers() {
			st, ok := r.(*ssa.Store)
			if !ok || st.Val != elem {
				continue
			}
			slot, ok := st.Addr.(*ssa.IndexAddr)
			if !ok {
				continue
			}
			mk, ok := slot.X.(*ssa.MakeSlice)
			if !ok || !st.Block().Dominates(latch) {
				continue
			}
			jt, jk := c20LinC(slot.Index)
			if jt[ph] != 1 {
				continue
			}
			delete(jt, ssa.Value(ph))
			slt, slk, sht, shk := rng(jt, jk)
			nt, nk := c20LinC(mk.Len)
			dt, dk := c20AddLin(sht, shk, nt, nk, -1)
			if len(slt) == 0 && slk == 0 && len(dt) == 0 && dk == 0 {
				how, list = "stored into slot ix-start of a list of end-start slots", mk
			} else if c20OnlyParams(slt) && c20OnlyParams(dt) {
				c.Fail(rule, key, st.Pos(), "slots [%s, %s) are filled but the list has %s slots: unfilled slots are zero line addresses / slots are overwritten", c20LinText(slt, slk), c20LinText(sht, shk), c20LinText(nt, nk))
				return
			}
		}
	}
	if list == nil {
		und(ia.Pos(), "manifest[perm(ix)] is neither appended to the chunk's line list nor stored into its own slot on every iteration")
		return
	}
	if chunkLines = c20StoredField(list); chunkLines == nil {
		und(ia.Pos(), "collected lines are not stored into the returned Chunk")
		return
	}
	_ = fn
	c.Ok(rule, key, call.Pos(), "indices passed to %s are exactly [%s, %s) step 1; size = len(%s); other arguments independent of the index; %s[perm] %s on every iteration, list stored in Chunk.%s", siName, lo.Name(), hi.Name(), op.fldM.Name(), op.fldM.Name(), how, chunkLines.Name())
	return
}

// ---------------------------------------------------------------- R3: cycle walking in shuffleIndex

// c20R3 checks cycle walking over the execution paths of shuffleIndex (rejection loop unrolled twice), so
// `for { y := perm(x); if y < n { return y }; x = y }` and `y := perm(x); for y >= n { y = perm(y) }; return y`
// are the same to it. The permutation pf (the one chess-3 function shuffleIndex calls) stays opaque.
type c20PermCall struct {
	call  *ssa.Call
	args  []ssa.Value // resolved at the time of the call (masks stripped)
	masks []ssa.Value // width of a mask (1<<w)-1 applied to the argument, nil if none
}

type c20WalkFact struct {
	a, b       ssa.Value
	strict     bool
	afterCalls int
}

type c20WalkPath struct {
	calls []c20PermCall
	facts []c20WalkFact
	ret   *ssa.Return
	val   ssa.Value // returned value, resolved
}

func c20R3(c *Ctx, p *Prog, op *c20OpenInfo) {
	const rule = "C20.R3"
	si := op.si
	spec := fnName(si)
	und := func(format string, args ...any) {
		c.Undec(rule, spec+"#shape", si.Pos(), "cycle walking not understood: "+format, args...)
	}
	// the permutation: the one chess-3 function called (statically) by shuffleIndex
	var pf *ssa.Function
	multi := false
	allInstrs(si, func(in ssa.Instruction) {
		if _, callee := c20OwnCallee(valueOf(in)); callee != nil {
			if pf != nil && pf != callee {
				multi = true
			}
			pf = callee
		}
	})
	if pf == nil || multi {
		und("shuffleIndex does not call exactly one chess-3 function (the permutation)")
		return
	}
	var paths []c20WalkPath
	w := &c20Walker{maxVisit: 2, noInline: func(f *ssa.Function) bool { return f == pf }}
	w.interest = func(in ssa.Instruction) bool {
		call, ok := in.(*ssa.Call)
		return ok && call.Call.StaticCallee() == pf
	}
	w.annot = func(st *c20Step) {
		switch x := st.in.(type) {
		case *ssa.Call:
			pc := c20PermCall{call: x}
			for _, a := range x.Call.Args {
				_, v := w.resolve(st.fr, a)
				var mw ssa.Value
				if part, mk, ok := c20Masked(v); ok {
					_, v = w.resolve(st.fr, part)
					mw = mk
				}
				pc.args, pc.masks = append(pc.args, v), append(pc.masks, mw)
			}
			st.note = pc
		case *ssa.If:
			fr, cond := w.resolve(st.fr, x.Cond)
			if a, b, strict, ok := c20Rel(cond, st.truth); ok {
				_, a = w.resolve(fr, a)
				_, b = w.resolve(fr, b)
				st.note = c20WalkFact{a: a, b: b, strict: strict}
			} else if eq, isB := cond.(*ssa.BinOp); isB && eq.Op == token.EQL && st.truth {
				// n == c is n <= c as far as the small-n guard is concerned
				_, a := w.resolve(fr, eq.X)
				_, b := w.resolve(fr, eq.Y)
				st.note = c20WalkFact{a: a, b: b}
			}
		case *ssa.Return:
			if len(x.Results) == 1 {
				_, v := w.resolve(st.fr, returnedValue(x, 0))
				st.note = v
			}
		}
	}
	w.done = func(path []c20Step, ret *ssa.Return, root *c20Frame) {
		wp := c20WalkPath{ret: ret}
		for _, st := range path {
			switch n := st.note.(type) {
			case c20PermCall:
				wp.calls = append(wp.calls, n)
			case c20WalkFact:
				n.afterCalls = len(wp.calls)
				wp.facts = append(wp.facts, n)
			case ssa.Value:
				if st.in == ssa.Instruction(ret) {
					wp.val = n
				}
			}
		}
		paths = append(paths, wp)
	}
	w.run(si)
	if w.aborted || len(paths) == 0 {
		und("%d paths, aborted=%v", len(paths), w.aborted)
		return
	}
	// the walked argument: the one that is the previous output in a repeated call
	pfX := -1
	for _, wp := range paths {
		for j := 1; j < len(wp.calls); j++ {
			for i, a := range wp.calls[j].args {
				if a == ssa.Value(wp.calls[j-1].call) {
					pfX = i
				}
			}
		}
	}
	var first *c20PermCall
	for i := range paths {
		if len(paths[i].calls) > 0 {
			first = &paths[i].calls[0]
		}
	}
	if first == nil {
		und("no path calls the permutation")
		return
	}
	refeedBad, refeedUnd := "", ""
	if pfX < 0 {
		// no repeated call feeds the previous output: broken re-feed, or no rejection loop at all
		for _, wp := range paths {
			for j := 1; j < len(wp.calls); j++ {
				dep := false
				for _, raw := range wp.calls[j].call.Call.Args {
					dep = dep || backSlice(raw, sliceOpts{ThroughCalls: true})[wp.calls[j-1].call]
				}
				if dep {
					refeedUnd = "a repeated permutation call derives its input from the previous output in a way that is not understood"
				} else {
					refeedBad = "on rejection the next permutation input does not derive from the previous output: cycle walking needs x <- perm(x); any other value makes two indices collide"
				}
			}
		}
		if refeedBad == "" && refeedUnd == "" {
			und("the permutation is never called a second time (no rejection loop found)")
			return
		}
		// find the walked argument by elimination for the remaining checks: the first argument that is a parameter
		for i, a := range first.args {
			if _, isP := a.(*ssa.Parameter); isP && pfX < 0 {
				pfX = i
			}
		}
		if pfX < 0 {
			pfX = 0
		}
	}
	x, _ := first.args[pfX].(*ssa.Parameter)
	bitsIdx, okF := c20Feistel(c, p, pf, pfX)
	var bitsArg ssa.Value
	if okF && bitsIdx < len(first.args) {
		bitsArg = first.args[bitsIdx]
	}
	var n *ssa.Parameter
	// per path: inputs of the calls, returned value
	type verdict struct{ bad, und string }
	inRange := map[token.Pos]verdict{}
	nret := map[token.Pos]bool{}
	for _, wp := range paths {
		for j, pc := range wp.calls {
			for i, a := range pc.args {
				switch {
				case i == pfX && j == 0:
					if a != ssa.Value(x) || x == nil {
						refeedUnd = "the first permutation input is not the index parameter"
					}
				case i == pfX:
					if a != ssa.Value(wp.calls[j-1].call) && refeedBad == "" && refeedUnd == "" {
						refeedUnd = "a repeated permutation call does not take the previous output as input on some path"
					}
					if mw := pc.masks[i]; mw != nil && bitsArg != nil && !c20Same(mw, bitsArg, 0) {
						refeedUnd = "the re-fed output is masked with a mask whose width is not the permutation's bit count"
					}
				case a != first.args[i] && !c20Same(a, first.args[i], 0):
					if backSlice(pc.call.Call.Args[i], sliceOpts{ThroughCalls: true})[wp.calls[0].call] || (x != nil && backSlice(pc.call.Call.Args[i], sliceOpts{ThroughCalls: true})[x]) {
						refeedBad = fmt.Sprintf("argument %d of %s depends on the walked index: not one permutation for all indices", i, fnName(pf))
					} else {
						refeedUnd = fmt.Sprintf("argument %d of %s is not the same value in every call", i, fnName(pf))
					}
				}
			}
		}
		if wp.val == nil {
			continue
		}
		nret[wp.ret.Pos()] = true
		if _, isC := wp.val.(*ssa.Const); isC {
			continue // judged below, once n is known
		}
		v := inRange[wp.ret.Pos()]
		if len(wp.calls) == 0 || wp.val != ssa.Value(wp.calls[len(wp.calls)-1].call) {
			v.und = "returned value is not the output of the last permutation call"
		} else {
			strict, loose := false, false
			for _, f := range wp.facts {
				if prm, isP := f.b.(*ssa.Parameter); isP && f.a == wp.val && f.afterCalls == len(wp.calls) {
					n = prm
					if f.strict {
						strict = true
					} else {
						loose = true
					}
				}
			}
			switch {
			case strict:
			case loose:
				v.bad = "permutation output is returned where only y <= n holds: the index n lies outside the manifest and another index is never produced"
			default:
				v.und = "no comparison y < n between the last permutation call and the return of its output"
			}
		}
		inRange[wp.ret.Pos()] = v
	}
	if x != nil && bitsArg != nil {
		for i, a := range first.args {
			if i != pfX && backSlice(first.call.Call.Args[i], sliceOpts{ThroughCalls: true})[x] {
				_ = a
				refeedBad = fmt.Sprintf("argument %d of %s depends on the index: not one permutation for all indices", i, fnName(pf))
			}
		}
	}
	var keys []token.Pos
	for k := range inRange {
		keys = append(keys, k)
	}
	sort.Slice(keys, func(i, j int) bool { return keys[i] < keys[j] })
	for _, k := range keys {
		switch v := inRange[k]; {
		case v.bad != "":
			c.Fail(rule, spec+"#returns-in-range", k, "%s", v.bad)
		case v.und != "":
			c.Undec(rule, spec+"#returns-in-range", k, "%s", v.und)
		default:
			c.Ok(rule, spec+"#returns-in-range", k, "on every path the returned value is the last permutation output y and y < n was established after that call")
		}
	}
	switch {
	case refeedBad != "":
		c.Fail(rule, spec+"#refeed", first.call.Pos(), "%s", refeedBad)
	case refeedUnd != "":
		c.Undec(rule, spec+"#refeed", first.call.Pos(), "%s", refeedUnd)
	default:
		c.Ok(rule, spec+"#refeed", first.call.Pos(), "on all %d paths the first input is the index parameter, every further input is the previous output (optionally masked to the full domain), the other arguments never change", len(paths))
	}
	if x == nil || n == nil || n == x {
		und("index/size parameters not identified (no return of a permutation output guarded by y < n)")
		return
	}
	for i, prm := range si.Params {
		if prm == x {
			op.xIdx = i
		}
		if prm == n {
			op.nIdx = i
		}
	}
	// constant returns: only under a guard that implies n <= 1
	for _, wp := range paths {
		cst, isC := wp.val.(*ssa.Const)
		if !isC {
			continue
		}
		k, _ := constOf(cst)
		guard, wide := false, false
		for _, f := range wp.facts {
			if f.a != ssa.Value(n) {
				continue
			}
			if lim, isK := constOf(f.b); isK {
				if f.strict && lim <= 2 || !f.strict && lim <= 1 {
					guard = true
				} else {
					wide = true
				}
			}
		}
		switch {
		case guard && k == 0:
			c.Ok(rule, spec+"#small-n", wp.ret.Pos(), "constant 0 is returned only under a guard that implies n <= 1")
		case guard || wide:
			c.Fail(rule, spec+"#small-n", wp.ret.Pos(), "constant %d is returned under a size guard that admits n >= 2 (or a non-zero constant for n = 1): several indices map to one line / an index outside [0,n) is produced", k)
		default:
			c.Undec(rule, spec+"#small-n", wp.ret.Pos(), "constant %d is returned under a condition that is not recognised as a guard n <= 1", k)
		}
	}
	y := first.call
	// domain size
	if bitsArg != nil {
		ok := false
		if lc, isCall := stripConv(bitsArg).(*ssa.Call); isCall {
			if obj := calleeObj(lc); obj != nil && obj.Pkg() != nil && obj.Pkg().Path() == "math/bits" && (obj.Name() == "Len64" || obj.Name() == "Len") && len(lc.Call.Args) == 1 {
				l := c20Linear(lc.Call.Args[0])
				ok = len(l.pos) == 1 && l.pos[0] == n && len(l.neg) == 0 && (l.k == -1 || l.k == 0)
			}
		}
		if ok {
			c.Ok(rule, spec+"#domain-size", bitsArg.Pos(), "bit count = bits.Len64(n-1) (or Len64(n)): domain 2^bits >= n for n >= 1")
		} else {
			c.Undec(rule, spec+"#domain-size", y.Pos(), "bit count passed to %s is not bits.Len64(n-1)/Len64(n): 2^bits >= n not proven (a smaller domain never produces the top indices)", fnName(pf))
		}
	}
	// purity of the closure
	fns := p.closure([]*ssa.Function{si}, nil)
	eff := unionEffects(fns)
	var bad []string
	for _, k := range sortedKeys(eff.GlobalWrites) {
		bad = append(bad, "writes "+k)
	}
	for _, k := range sortedKeys(eff.GlobalReads) {
		if len(p.nonInitGlobalWriters(k)) > 0 {
			bad = append(bad, "reads mutable "+k)
		}
	}
	for _, s := range eff.Nondet {
		bad = append(bad, s.What)
	}
	if len(bad) == 0 {
		c.Ok(rule, spec+"#pure", si.Pos(), "closure of %s (%d functions) has no mutable package state and no nondeterminism source: every client and every call sees the same permutation", spec, len(fns))
	} else {
		c.Undec(rule, spec+"#pure", si.Pos(), "closure of %s (%d functions) depends on mutable package state / nondeterminism %v: it is not proven that every call and every client process computes the same permutation for the same (n, seed)", spec, len(fns), bad)
	}
	c.Floor(rule, len(nret), 2, "return statements of "+spec)
}

// ---------------------------------------------------------------- R2: Feistel rounds

func c20ExitOf(v ssa.Value, phi *ssa.Phi, init, back ssa.Value) bool {
	v = stripConv(v)
	if v == ssa.Value(phi) {
		return true
	}
	m, ok := v.(*ssa.Phi)
	if !ok {
		return false
	}
	for _, e := range m.Edges {
		if e != ssa.Value(phi) && e != init && e != back {
			return false
		}
	}
	return true
}

func c20XorLeaves(v ssa.Value, out *[]ssa.Value) {
	if b, ok := v.(*ssa.BinOp); ok && b.Op == token.XOR {
		c20XorLeaves(b.X, out)
		c20XorLeaves(b.Y, out)
		return
	}
	*out = append(*out, v)
}

// c20Feistel analyses the permutation; returns the index of its bit-count parameter.
func c20Feistel(c *Ctx, p *Prog, pf *ssa.Function, xIdx int) (bitsIdx int, okBits bool) {
	const rule = "C20.R2"
	spec := fnName(pf)
	und := func(pos token.Pos, format string, args ...any) {
		c.Undec(rule, spec+"#shape", pos, "Feistel shape not understood: "+format, args...)
	}
	defer func() { c.Floor(rule, map[bool]int{true: 1}[okBits], 1, "Feistel networks fully analysed") }()
	x := pf.Params[xIdx]
	// the swapped pair: P.back == Q
	var P, Q *ssa.Phi
	var pInit, qInit, qBack ssa.Value
	var latch *ssa.BasicBlock
	pairs := 0
	for _, b := range pf.Blocks {
		for _, in := range b.Instrs {
			ph, i1, b1, l1, ok := c20LoopPhi(valueOf(in))
			if !ok {
				continue
			}
			if q, i2, b2, _, ok := c20LoopPhi(b1); ok && q.Block() == b && q != ph {
				P, Q, pInit, qInit, qBack, latch = ph, q, i1, i2, b2, l1
				pairs++
			}
		}
	}
	if pairs == 0 {
		// the old L may have become dead: new R = R xor g(R)
		for _, b := range pf.Blocks {
			for _, in := range b.Instrs {
				if ph, _, b1, _, ok := c20LoopPhi(valueOf(in)); ok {
					var ls []ssa.Value
					c20XorLeaves(b1, &ls)
					for _, l := range ls {
						if l == ssa.Value(ph) && len(ls) > 1 {
							c.Fail(rule, spec+"#round-shape", b1.Pos(), "the loop-carried half is xored with a function of itself and the other half never enters the round: the round is not (L,R) <- (R, L xor g), L is lost and the network is not injective")
							return
						}
					}
				}
			}
		}
	}
	if pairs != 1 {
		und(pf.Pos(), "%d loop-carried pairs with L' = R (want 1)", pairs)
		return
	}
	var leaves, gs []ssa.Value
	c20XorLeaves(qBack, &leaves)
	nP := 0
	for _, l := range leaves {
		if l == ssa.Value(P) {
			nP++
		} else {
			gs = append(gs, l)
		}
	}
	if _, isX := qBack.(*ssa.BinOp); !isX || qBack.(*ssa.BinOp).Op != token.XOR {
		und(qBack.Pos(), "new R is not an xor")
		return
	}
	if nP != 1 {
		for _, l := range gs {
			if backSlice(l, sliceOpts{ThroughCalls: true, Stop: func(v ssa.Value) bool { return v == ssa.Value(P) }})[P] {
				und(qBack.Pos(), "old L enters the new R %d times directly and also through another operand", nP)
				return
			}
		}
		if nP > 1 {
			und(qBack.Pos(), "old L is xored into the new R %d times", nP)
			return
		}
	}
	if !c.Check(nP == 1 && len(gs) > 0, rule, spec+"#round-shape", qBack.Pos(), "round is (L,R) <- (R, L xor g): old L occurs %d time(s) as xor operand of the new R (without it L is lost and the round is not injective)", nP) {
		return
	}
	hdr := P.Block()
	dep, mem := false, false
	for _, g := range gs {
		sl := backSlice(g, sliceOpts{ThroughCalls: true, Stop: func(v ssa.Value) bool {
			ph, ok := v.(*ssa.Phi)
			return ok && ph.Block() == hdr
		}})
		dep = dep || sl[P]
		mem = mem || sliceHas(sl, func(v ssa.Value) bool { u, ok := v.(*ssa.UnOp); return ok && u.Op == token.MUL })
	}
	if mem {
		c.Undec(rule, spec+"#g-independent-of-L", qBack.Pos(), "round function reads memory; independence of L not decided")
	} else {
		c.Check(!dep, rule, spec+"#g-independent-of-L", qBack.Pos(), "g is computed from R, the key and loop invariants, not from L (if g depends on L, (L,R) -> (R, L xor g) cannot be undone)")
	}
	// split: one half is x & mask(lowW), the other (x >> s) & mask(highW)
	type half struct {
		w, shift ssa.Value
		low      bool
	}
	split := func(init ssa.Value) (h half, ok bool) {
		part, w, ok := c20Masked(init)
		if !ok {
			return h, false
		}
		part = stripConv(part)
		if part == ssa.Value(x) {
			return half{w: w, low: true}, true
		}
		if sh, ok := part.(*ssa.BinOp); ok && sh.Op == token.SHR && stripConv(sh.X) == ssa.Value(x) {
			return half{w: w, shift: sh.Y}, true
		}
		return h, false
	}
	hp, ok1 := split(pInit)
	hq, ok2 := split(qInit)
	if !ok1 || !ok2 || hp.low == hq.low {
		und(P.Pos(), "initial halves are not x & mask and (x >> s) & mask")
		return
	}
	lo, hi := hp, hq
	if hq.low {
		lo, hi = hq, hp
	}
	// widths: one is total/c (narrow), the other total - narrow
	var total *ssa.Parameter
	var narrow, wide ssa.Value
	for _, pr := range [][2]ssa.Value{{lo.w, hi.w}, {hi.w, lo.w}} {
		a, b := stripConv(pr[0]), stripConv(pr[1])
		sub, ok := b.(*ssa.BinOp)
		if !ok || sub.Op != token.SUB || !sameValue(sub.Y, a, 0) {
			continue
		}
		t, ok := stripConv(sub.X).(*ssa.Parameter)
		if !ok {
			continue
		}
		if d, ok := a.(*ssa.BinOp); ok && stripConv(d.X) == ssa.Value(t) {
			k, isC := constOf(d.Y)
			if isC && (d.Op == token.QUO && k >= 2 || d.Op == token.SHR && k >= 1) {
				total, narrow, wide = t, a, b
			}
		}
	}
	if total == nil {
		und(P.Pos(), "half widths are not {bits/2, bits - bits/2}")
		return
	}
	for i, pr := range pf.Params {
		if pr == total {
			bitsIdx = i
		}
	}
	// class of a width expression: "n" narrow (bits/2), "w" wide (bits - bits/2), "" unknown
	class := func(v ssa.Value) string {
		switch {
		case c20Same(v, narrow, 0):
			return "n"
		case c20Same(v, wide, 0):
			return "w"
		}
		return ""
	}
	switch sc := class(hi.shift); {
	case hi.shift != nil && sc != "" && sc == class(lo.w):
		c.Ok(rule, spec+"#half-widths", P.Pos(), "low half = x & mask(w), high half = (x >> w) & mask(bits-w) with the same w: the halves partition the bits-wide input")
	case sc != "":
		c.Fail(rule, spec+"#half-widths", P.Pos(), "the high half is taken at x >> w' where w' is the other half's width, not the width of the low half: for odd bit counts one input bit is dropped and one is used twice")
	default:
		c.Undec(rule, spec+"#half-widths", P.Pos(), "shift of the high half is not recognisably the width of the low half")
	}
	// g mask
	gOK, gBad, gUnd := 0, "", ""
	for _, g := range gs {
		_, w, ok := c20Masked(g)
		switch {
		case !ok:
			gUnd = "g is xored in without a recognisable mask to the narrower half"
		case class(w) == "n":
			gOK++
		case class(w) == "w":
			gBad = "g is masked to the wider half (bits - bits/2): for odd bit counts the narrow half overflows and the final masks drop a bit"
		default:
			gUnd = "mask width of g is neither half width"
		}
	}
	switch {
	case gBad != "":
		c.Fail(rule, spec+"#g-mask", qBack.Pos(), "%s", gBad)
	case gUnd != "":
		c.Undec(rule, spec+"#g-mask", qBack.Pos(), "%s", gUnd)
	default:
		c.Ok(rule, spec+"#g-mask", qBack.Pos(), "g is masked to the narrower half width (%d term(s)): half widths alternate and return to their places every two rounds", gOK)
	}
	// round count
	rounds, okR := int64(0), false
	for _, in := range hdr.Instrs {
		cphi, ci, cb, _, ok := c20LoopPhi(valueOf(in))
		if !ok {
			continue
		}
		if k, isC := constOf(ci); !isC || k != 0 {
			continue
		}
		if st, ok := c20PlusConst(cb, cphi); !ok || st != 1 {
			continue
		}
		for _, blk := range []*ssa.BasicBlock{hdr, latch} {
			iff, truth, ok := c20Stay(blk, latch)
			if blk == latch {
				iff, truth, ok = c20Stay(blk, hdr)
			}
			if !ok {
				continue
			}
			a, b, strict, ok := c20Rel(iff.Cond, truth)
			if k, isC := constOf(b); ok && strict && isC {
				if (a == ssa.Value(cphi) && blk == hdr && hdr != latch) || (a == cb && blk == latch) {
					rounds, okR = k, true
				}
			}
		}
	}
	if !okR {
		c.Undec(rule, spec+"#rounds-even", hdr.Instrs[0].Pos(), "round count is not a constant-bounded counting loop")
	} else {
		c.Check(rounds > 0 && rounds%2 == 0, rule, spec+"#rounds-even", hdr.Instrs[0].Pos(), "%d rounds: must be even — after an odd number of rounds the halves are exchanged and, for odd bit counts, the wider half is cut by the narrower mask (2^bits inputs, 2^(bits-1) outputs)", rounds)
	}
	// join
	var ret *ssa.Return
	for _, b := range pf.Blocks {
		if r, ok := b.Instrs[len(b.Instrs)-1].(*ssa.Return); ok {
			if ret != nil {
				und(r.Pos(), "more than one return")
				return
			}
			ret = r
		}
	}
	j, ok := stripConv(ret.Results[0]).(*ssa.BinOp)
	if !ok || (j.Op != token.OR && j.Op != token.ADD && j.Op != token.XOR) {
		und(ret.Pos(), "result is not (hi << s) | lo")
		return
	}
	unmask := func(v ssa.Value) (ssa.Value, ssa.Value) {
		if part, w, ok := c20Masked(v); ok {
			return stripConv(part), w
		}
		return stripConv(v), nil
	}
	var hiV, loV, hiM, loM, js ssa.Value
	for _, pr := range [][2]ssa.Value{{j.X, j.Y}, {j.Y, j.X}} {
		if sh, ok := stripConv(pr[0]).(*ssa.BinOp); ok && sh.Op == token.SHL {
			hiV, hiM = unmask(sh.X)
			loV, loM = unmask(pr[1])
			js = sh.Y
		}
	}
	if js == nil {
		und(ret.Pos(), "result has no shifted high half")
		return
	}
	pBack := ssa.Value(Q)
	var loW, hiW ssa.Value
	switch {
	case c20ExitOf(loV, P, pInit, pBack) && c20ExitOf(hiV, Q, qInit, qBack):
		loW, hiW = hp.w, hq.w
	case c20ExitOf(loV, Q, qInit, qBack) && c20ExitOf(hiV, P, pInit, pBack):
		loW, hiW = hq.w, hp.w
	default:
		und(ret.Pos(), "joined values are not the two halves after the last round")
		return
	}
	jBad, jUnd := false, false
	for _, pr := range [][2]ssa.Value{{js, loW}, {loM, loW}, {hiM, hiW}} {
		if pr[0] == nil {
			continue // optional mask absent
		}
		switch got, want := class(pr[0]), class(pr[1]); {
		case got == "" || want == "":
			jUnd = true
		case got != want:
			jBad = true
		}
	}
	switch {
	case jBad:
		c.Fail(rule, spec+"#join", ret.Pos(), "result is not (hi << w_lo) | lo with w_lo the width of the half placed low and masks of the halves' own widths: halves overlap or lose bits for odd bit counts")
	case jUnd:
		c.Undec(rule, spec+"#join", ret.Pos(), "shift/mask widths of the join are not recognisably the half widths")
	default:
		c.Ok(rule, spec+"#join", ret.Pos(), "result = (hi << w_lo) | lo where w_lo is the width of the half placed low and optional masks have the halves' own widths")
	}
	okBits = true
	return
}

// ---------------------------------------------------------------- interprocedural path walker
//
// Rules about Chunk.Read and the line reader are stated over execution paths
// ("on every path that reaches the successful return ..."), not over one
// syntactic arrangement. The walker enumerates the paths of a root function,
// stepping INTO static calls of chess-3 functions (parameters bound to
// arguments, call results bound to the callee's returned values on that path),
// resolving bool phis against the edge taken and pruning branches whose
// condition is already decided on the path (constants, nil tests of a value
// whose nil-ness was tested before, results of inlined helpers).

type c20Frame struct {
	fn     *ssa.Function
	call   *ssa.Call
	parent *c20Frame
	rets   map[*ssa.Call]c20Ret
	depth  int
}

type c20Ret struct {
	fr  *c20Frame
	ret *ssa.Return
}

type c20Step struct {
	fr    *c20Frame
	in    ssa.Instruction
	truth bool // for *ssa.If steps: the branch taken
	note  any  // what the rule's annot callback computed when the step was executed
}

type c20PhiVal struct {
	fr  *c20Frame
	phi *ssa.Phi
	val ssa.Value
}

type c20Walker struct {
	interest func(in ssa.Instruction) bool
	noInline func(fn *ssa.Function) bool
	annot    func(st *c20Step) // evaluated in time: values (loop phis) denote what they hold at that moment
	done     func(path []c20Step, ret *ssa.Return, root *c20Frame)
	maxVisit int
	budget   int
	aborted  bool
	path     []c20Step
	phis     []c20PhiVal
}

func (w *c20Walker) run(fn *ssa.Function) {
	if w.maxVisit == 0 {
		w.maxVisit = 1
	}
	w.budget = 200000
	root := &c20Frame{fn: fn, rets: map[*ssa.Call]c20Ret{}}
	w.enter(root, fn.Blocks[0], nil, map[*ssa.BasicBlock]int{}, func(ret *ssa.Return) { w.done(w.path, ret, root) })
}

func (w *c20Walker) enter(fr *c20Frame, b, prev *ssa.BasicBlock, seen map[*ssa.BasicBlock]int, k func(*ssa.Return)) {
	w.budget--
	if w.budget < 0 {
		w.aborted = true
	}
	if w.aborted || seen[b] >= w.maxVisit {
		return
	}
	seen[b]++
	base := len(w.phis)
	defer func() { seen[b]--; w.phis = w.phis[:base] }()
	if prev != nil {
		for i, p := range b.Preds {
			if p != prev {
				continue
			}
			for _, in := range b.Instrs {
				ph, ok := in.(*ssa.Phi)
				if !ok {
					break
				}
				w.phis = append(w.phis, c20PhiVal{fr, ph, ph.Edges[i]})
			}
			break
		}
	}
	w.block(fr, b, 0, seen, k)
}

func (w *c20Walker) block(fr *c20Frame, b *ssa.BasicBlock, i int, seen map[*ssa.BasicBlock]int, k func(*ssa.Return)) {
	base := len(w.path)
	defer func() { w.path = w.path[:base] }()
	for ; i < len(b.Instrs); i++ {
		in := b.Instrs[i]
		switch x := in.(type) {
		case *ssa.Call:
			callee := x.Call.StaticCallee()
			if callee != nil && isOwn(callee) && callee.Blocks != nil && fr.depth < 4 && !fr.inChain(callee) && (w.noInline == nil || !w.noInline(callee)) {
				nf := &c20Frame{fn: callee, call: x, parent: fr, rets: map[*ssa.Call]c20Ret{}, depth: fr.depth + 1}
				next := i + 1
				w.enter(nf, callee.Blocks[0], nil, map[*ssa.BasicBlock]int{}, func(ret *ssa.Return) {
					old, had := fr.rets[x]
					fr.rets[x] = c20Ret{nf, ret}
					w.block(fr, b, next, seen, k)
					if had {
						fr.rets[x] = old
					} else {
						delete(fr.rets, x)
					}
				})
				return
			}
		case *ssa.If:
			kn, ok := w.known(fr, x.Cond)
			for t, s := range []*ssa.BasicBlock{b.Succs[1], b.Succs[0]} {
				truth := t == 1
				if ok && kn != truth {
					continue
				}
				w.push(c20Step{fr: fr, in: x, truth: truth})
				w.enter(fr, s, b, seen, k)
				w.path = w.path[:len(w.path)-1]
			}
			return
		case *ssa.Jump:
			w.enter(fr, b.Succs[0], b, seen, k)
			return
		case *ssa.Return:
			w.push(c20Step{fr: fr, in: x})
			k(x)
			return
		case *ssa.Panic:
			return
		}
		if w.interest != nil && w.interest(in) {
			w.push(c20Step{fr: fr, in: in})
		}
	}
}

func (w *c20Walker) push(st c20Step) {
	if w.annot != nil {
		w.annot(&st)
	}
	w.path = append(w.path, st)
}

func (fr *c20Frame) inChain(fn *ssa.Function) bool {
	for f := fr; f != nil; f = f.parent {
		if f.fn == fn {
			return true
		}
	}
	return false
}

// resolve follows v to where it comes from on the current path: parameters to the
// caller's arguments, results of inlined calls to the returned values, phis to the edge taken.
func (w *c20Walker) resolve(fr *c20Frame, v ssa.Value) (*c20Frame, ssa.Value) {
	for n := 0; n < 64; n++ {
		switch x := v.(type) {
		case *ssa.Convert:
			v = x.X
			continue
		case *ssa.ChangeType:
			v = x.X
			continue
		case *ssa.Parameter:
			if fr.parent != nil {
				for i, p := range fr.fn.Params {
					if p == x && i < len(fr.call.Call.Args) {
						v, fr = fr.call.Call.Args[i], fr.parent
						break
					}
				}
				if v != ssa.Value(x) {
					continue
				}
			}
		case *ssa.Call:
			if r, ok := fr.rets[x]; ok && len(r.ret.Results) == 1 {
				v, fr = returnedValue(r.ret, 0), r.fr
				continue
			}
		case *ssa.Extract:
			if call, ok := x.Tuple.(*ssa.Call); ok {
				if r, ok := fr.rets[call]; ok && x.Index < len(r.ret.Results) {
					v, fr = returnedValue(r.ret, x.Index), r.fr
					continue
				}
			}
		case *ssa.Phi:
			// the value the phi holds now: the edge taken when its block was entered last
			// (rules that unroll loops evaluate in time through annot; at done time only
			// values that are current at the return are meaningful)
			found := false
			for i := len(w.phis) - 1; i >= 0; i-- {
				if w.phis[i].fr == fr && w.phis[i].phi == x {
					v, found = w.phis[i].val, true
					break
				}
			}
			if found {
				continue
			}
		}
		break
	}
	return fr, v
}

// nilTest: cond is `v == nil` / `v != nil`; returns the tested value and whether "true" means non-nil.
func c20NilTest(cond ssa.Value) (v ssa.Value, nonNil, ok bool) {
	bo, isB := cond.(*ssa.BinOp)
	if !isB || (bo.Op != token.EQL && bo.Op != token.NEQ) {
		return nil, false, false
	}
	switch {
	case c20IsNilConst(bo.Y):
		v = bo.X
	case c20IsNilConst(bo.X):
		v = bo.Y
	default:
		return nil, false, false
	}
	return v, bo.Op == token.NEQ, true
}

// known: is the truth value of cond already decided on the current path?
func (w *c20Walker) known(fr *c20Frame, cond ssa.Value) (bool, bool) {
	fr, cond = w.resolve(fr, cond)
	switch x := cond.(type) {
	case *ssa.Const:
		k, ok := constOf(x)
		return k != 0, ok
	case *ssa.UnOp:
		if x.Op == token.NOT {
			v, ok := w.known(fr, x.X)
			return !v, ok
		}
	case *ssa.BinOp:
		if v, nonNil, ok := c20NilTest(x); ok {
			rf, rv := w.resolve(fr, v)
			if c20IsNilConst(rv) {
				return !nonNil, true
			}
			for i := len(w.path) - 1; i >= 0; i-- {
				iff, isIf := w.path[i].in.(*ssa.If)
				if !isIf {
					continue
				}
				sf, sc := w.resolve(w.path[i].fr, iff.Cond)
				if v2, nn2, ok := c20NilTest(sc); ok {
					if f2, r2 := w.resolve(sf, v2); f2 == rf && r2 == rv {
						return (w.path[i].truth == nn2) == nonNil, true
					}
				}
			}
		}
	}
	return false, false
}

// sym names the value v symbolically in terms of the root function's parameters:
// "p0.mapStart", "elem(p0.chunkLines,p0.chunkLinesIx).start", "len(ret0@ReadSlice)"; "" when unknown.
func (w *c20Walker) sym(fr *c20Frame, v ssa.Value) string {
	fr, v = w.resolve(fr, v)
	switch x := v.(type) {
	case *ssa.Parameter:
		for i, p := range fr.fn.Params {
			if p == x {
				return fmt.Sprintf("p%d", i)
			}
		}
	case *ssa.UnOp:
		if x.Op == token.MUL {
			return w.loc(fr, x.X)
		}
	case *ssa.Field:
		if _, s := structOf(x.X.Type()); s != nil {
			if b := w.sym(fr, x.X); b != "" {
				return b + "." + s.Field(x.Field).Name()
			}
		}
	case *ssa.Extract:
		if call, ok := x.Tuple.(*ssa.Call); ok {
			if obj := calleeObj(call); obj != nil {
				return fmt.Sprintf("ret%d@%s", x.Index, obj.Name())
			}
		}
	case *ssa.Call:
		if arg := c20LenOf(x); arg != nil {
			if s := w.sym(fr, arg); s != "" {
				return "len(" + s + ")"
			}
		}
	case *ssa.Global:
		return "&" + x.Name()
	case *ssa.IndexAddr, *ssa.FieldAddr:
		// a pointer into a structure names what it points to (used as the base of field selections)
		return w.loc(fr, v)
	}
	return ""
}

// loc names the content of the storage addressed by addr.
func (w *c20Walker) loc(fr *c20Frame, addr ssa.Value) string {
	switch x := addr.(type) {
	case *ssa.FieldAddr:
		_, s := structOf(x.X.Type())
		if s == nil {
			return ""
		}
		base := ""
		if _, isAlloc := x.X.(*ssa.Alloc); isAlloc {
			base = w.loc(fr, x.X)
		} else {
			base = w.sym(fr, x.X)
		}
		if base == "" {
			return ""
		}
		return base + "." + s.Field(x.Field).Name()
	case *ssa.IndexAddr:
		xs := w.sym(fr, x.X)
		is := w.single(fr, x.Index)
		if is == "" {
			is = w.linKey(fr, x.Index)
		}
		if xs == "" || is == "" {
			return ""
		}
		return "elem(" + xs + "," + is + ")"
	case *ssa.Alloc:
		// a local that is assigned as a whole exactly once denotes the assigned value
		var val ssa.Value
		n := 0
		if x.Referrers() != nil {
			for _, r := range *x.Referrers() {
				if st, ok := r.(*ssa.Store); ok && st.Addr == ssa.Value(x) {
					val = st.Val
					n++
				}
			}
		}
		if n == 1 {
			return w.sym(fr, val)
		}
	case *ssa.Global:
		return x.Name()
	}
	return ""
}

// lin flattens an integer expression into symbolic terms with coefficients.
func (w *c20Walker) lin(fr *c20Frame, v ssa.Value) (terms map[string]int64, k int64, ok bool) {
	terms = map[string]int64{}
	ok = true
	var walk func(fr *c20Frame, v ssa.Value, sign int64)
	walk = func(fr *c20Frame, v ssa.Value, sign int64) {
		fr, v = w.resolve(fr, v)
		if cst, isC := v.(*ssa.Const); isC {
			if kk, isInt := constOf(cst); isInt {
				k += sign * kk
				return
			}
		}
		if b, isB := v.(*ssa.BinOp); isB && (b.Op == token.ADD || b.Op == token.SUB) {
			walk(fr, b.X, sign)
			if b.Op == token.ADD {
				walk(fr, b.Y, sign)
			} else {
				walk(fr, b.Y, -sign)
			}
			return
		}
		if arg := c20LenOf(v); arg != nil {
			// len(x[:h]) = h, len(x[:]) = len(x)
			af, a := w.resolve(fr, arg)
			for {
				sl, isSl := a.(*ssa.Slice)
				if !isSl || !c20ZeroOrNil(sl.Low) {
					break
				}
				if sl.High != nil {
					walk(af, sl.High, sign)
					return
				}
				af, a = w.resolve(af, sl.X)
			}
			if as := w.sym(af, a); as != "" {
				terms["len("+as+")"] += sign
				if terms["len("+as+")"] == 0 {
					delete(terms, "len("+as+")")
				}
				return
			}
		}
		s := w.sym(fr, v)
		if s == "" {
			ok = false
			return
		}
		terms[s] += sign
		if terms[s] == 0 {
			delete(terms, s)
		}
	}
	if v == nil {
		return terms, 0, false
	}
	walk(fr, v, 1)
	return
}

// storeParts describes a store as (location, value key) pairs. A store of a struct value is
// split into its fields: the value may be a composite literal built in a local (stores to the
// FieldAddrs of an Alloc, then load + store of the whole), the zero value, or a struct that has
// a symbolic name itself (parameter, copy of another location, result of an inlined call).
// An unknown field value is "" (location known, content not understood).
func (w *c20Walker) storeParts(fr *c20Frame, st *ssa.Store) [][2]string {
	t := w.loc(fr, st.Addr)
	if t == "" {
		return nil
	}
	styp, isStruct := st.Val.Type().Underlying().(*types.Struct)
	if !isStruct {
		return [][2]string{{t, w.linKey(fr, st.Val)}}
	}
	parts := [][2]string{{t, ""}}
	rf, rv := w.resolve(fr, st.Val)
	zero := c20Key(nil, 0)
	fieldVals := map[int]string{}
	known := false
	switch x := rv.(type) {
	case *ssa.Const:
		if x.Value == nil { // T{}
			known = true
			for i := 0; i < styp.NumFields(); i++ {
				fieldVals[i] = zero
			}
		}
	case *ssa.UnOp:
		if al, isAlloc := x.X.(*ssa.Alloc); x.Op == token.MUL && isAlloc && al.Referrers() != nil {
			whole := 0
			cnt := map[int]int{}
			for _, r := range *al.Referrers() {
				switch y := r.(type) {
				case *ssa.Store:
					if y.Addr == ssa.Value(al) {
						whole++
					}
				case *ssa.FieldAddr:
					if y.Referrers() == nil {
						continue
					}
					for _, r2 := range *y.Referrers() {
						if fs, ok := r2.(*ssa.Store); ok && fs.Addr == ssa.Value(y) {
							cnt[y.Field]++
							fieldVals[y.Field] = w.linKey(rf, fs.Val)
						}
					}
				}
			}
			if whole == 0 { // composite literal: every field stored at most once, the others are zero
				known = true
				for i := 0; i < styp.NumFields(); i++ {
					switch {
					case cnt[i] == 0:
						fieldVals[i] = zero
					case cnt[i] > 1:
						fieldVals[i] = ""
					}
				}
			} else {
				fieldVals = map[int]string{}
			}
		}
	}
	if !known {
		if base := w.sym(rf, rv); base != "" {
			for i := 0; i < styp.NumFields(); i++ {
				fieldVals[i] = c20One(base + "." + styp.Field(i).Name())
			}
		}
	}
	for i := 0; i < styp.NumFields(); i++ {
		v := fieldVals[i]
		if _, nested := styp.Field(i).Type().Underlying().(*types.Struct); nested {
			v = ""
		}
		parts = append(parts, [2]string{t + "." + styp.Field(i).Name(), v})
	}
	return parts
}

func c20Key(terms map[string]int64, k int64) string {
	var parts []string
	for s, c := range terms {
		parts = append(parts, fmt.Sprintf("%+d*%s", c, s))
	}
	sort.Strings(parts)
	return fmt.Sprintf("%s%+d", strings.Join(parts, ""), k)
}

// linKey is the canonical text of lin(v); "" when v is not understood.
func (w *c20Walker) linKey(fr *c20Frame, v ssa.Value) string {
	t, k, ok := w.lin(fr, v)
	if !ok {
		return ""
	}
	return c20Key(t, k)
}

func c20ZeroOrNil(v ssa.Value) bool {
	if v == nil {
		return true
	}
	k, ok := constOf(v)
	return ok && k == 0
}

func c20One(s string) string { return c20Key(map[string]int64{s: 1}, 0) }

// single: lin(v) is exactly one symbol.
func (w *c20Walker) single(fr *c20Frame, v ssa.Value) string {
	t, k, ok := w.lin(fr, v)
	if !ok || k != 0 || len(t) != 1 {
		return ""
	}
	for s, c := range t {
		if c == 1 {
			return s
		}
	}
	return ""
}

// fact turns the branch taken at an If into "a<=b" (lt: strictly); ok=false when the condition is not an order comparison of two symbols.
func (w *c20Walker) fact(st c20Step) (a, b string, lt, isCmp, ok bool) {
	iff := st.in.(*ssa.If)
	fr, cond := w.resolve(st.fr, iff.Cond)
	truth := st.truth
	for {
		u, isU := cond.(*ssa.UnOp)
		if !isU || u.Op != token.NOT {
			break
		}
		fr, cond = w.resolve(fr, u.X)
		truth = !truth
	}
	x, y, strict, isRel := c20Rel(cond, truth)
	if !isRel {
		return "", "", false, false, false
	}
	a, b = w.single(fr, x), w.single(fr, y)
	return a, b, strict, true, a != "" && b != ""
}

var c20LineReads = map[string]bool{"ReadSlice": true, "ReadBytes": true, "ReadString": true}
var c20Harmless = map[string]bool{"Buffered": true, "Size": true, "Peek": true}

func c20IsBufioReader(t types.Type) bool {
	if pt, ok := t.Underlying().(*types.Pointer); ok {
		t = pt.Elem()
	}
	n, ok := types.Unalias(t).(*types.Named)
	return ok && n.Obj().Pkg() != nil && n.Obj().Pkg().Path() == "bufio" && n.Obj().Name() == "Reader"
}

func c20IsNilConst(v ssa.Value) bool {
	k, ok := v.(*ssa.Const)
	return ok && k.Value == nil
}

// ---------------------------------------------------------------- R4: every consumed byte is visible to the offset bookkeeping (over execution paths)

func c20R4(c *Ctx, p *Prog, acc c20Acc) {
	const rule = "C20.R4"
	if !acc.ok {
		c.Undec(rule, c20Epd+".NewChunker#reader", token.NoPos, "NewChunker's offset bookkeeping was not recognised (see C20.R5), so the reader obligations cannot be instantiated")
		return
	}
	F := acc.reader
	name := fnName(F)
	leakKey := name + "#skipped-line"
	if acc.mode == "off" {
		leakKey = name + "#unaccounted-bytes"
	}
	bufioCall := func(in ssa.Instruction) (*ssa.Call, string) {
		call, ok := in.(*ssa.Call)
		if !ok {
			return nil, ""
		}
		obj := calleeObj(call)
		if obj == nil {
			return nil, ""
		}
		if sig := obj.Type().(*types.Signature); sig.Recv() != nil && c20IsBufioReader(sig.Recv().Type()) {
			return call, obj.Name()
		}
		return nil, ""
	}
	offLoc := ""
	if acc.offField != nil {
		offLoc = "p0." + acc.offField.Name()
	}
	var leak, unknown string
	var leakPos token.Pos
	type retInfo struct {
		pos  token.Pos
		und  string
		bad  string
		kr   int64
		meth string
	}
	rets := map[token.Pos]retInfo{}
	nPaths, nReads := 0, 0
	w := &c20Walker{maxVisit: 2}
	w.interest = func(in ssa.Instruction) bool {
		if _, ok := in.(*ssa.Store); ok {
			return true
		}
		call, _ := bufioCall(in)
		return call != nil
	}
	w.annot = func(st *c20Step) {
		if x, ok := st.in.(*ssa.Store); ok {
			st.note = [2]string{w.loc(st.fr, x.Addr), w.linKey(st.fr, x.Val)}
		}
	}
	w.done = func(path []c20Step, ret *ssa.Return, root *c20Frame) {
		nPaths++
		var pending *ssa.Call // last line read whose bytes are not yet visible to the caller
		var last *ssa.Call
		lastMeth := ""
		for _, st := range path {
			switch x := st.in.(type) {
			case *ssa.Call:
				call, meth := bufioCall(x)
				if call == nil {
					continue
				}
				if !c20LineReads[meth] {
					if !c20Harmless[meth] {
						unknown = "bufio.Reader." + meth
					}
					continue
				}
				nReads++
				if pending != nil && leak == "" {
					if acc.mode == "off" {
						leak = fmt.Sprintf("the data of bufio.Reader.%s at %s can be followed by the next read at %s without len(data) having been added to %s, which %s uses as the file offset: offsets drift by the unaccounted bytes", lastMeth, p.Rel(pending.Pos()), p.Rel(call.Pos()), acc.offField.Name(), fnName(acc.fn))
					} else {
						leak = fmt.Sprintf("the line read by bufio.Reader.%s at %s can be dropped (next read at %s without returning it): its bytes are consumed but invisible to %s, which advances its file offset only by len(line)+%d per returned line", lastMeth, p.Rel(pending.Pos()), p.Rel(call.Pos()), fnName(acc.fn), acc.K)
					}
					leakPos = pending.Pos()
				}
				pending, last, lastMeth = call, call, meth
			case *ssa.Store:
				nt, _ := st.note.([2]string) // location and value, evaluated when the store executed
				if acc.mode != "off" || pending == nil || nt[0] != offLoc {
					continue
				}
				want := c20Key(map[string]int64{offLoc: 1, "len(ret0@" + lastMeth + ")": 1}, 0)
				if nt[1] == want {
					pending = nil
				}
				_ = x
			}
		}
		if len(ret.Results) != 2 {
			return
		}
		_, e := w.resolve(root, returnedValue(ret, 1))
		df, d := w.resolve(root, returnedValue(ret, 0))
		if !c20IsNilConst(e) {
			if c20IsNilConst(d) && last != nil {
				c.Note("C20.R4: %s returns (nil, err) at %s: data delivered together with an error (a final line without '\\n') is dropped; the caller stops there, no later offset depends on it", name, p.Rel(ret.Pos()))
			}
			return
		}
		ri := retInfo{pos: ret.Pos(), meth: lastMeth}
		if acc.mode == "off" && pending != nil && leak == "" {
			leak = fmt.Sprintf("a successful return is reached after bufio.Reader.%s at %s without len(data) having been added to %s, which %s uses as the file offset", lastMeth, p.Rel(pending.Pos()), acc.offField.Name(), fnName(acc.fn))
			leakPos = pending.Pos()
		}
		data := "ret0@" + lastMeth
		// x[:a][:b] denotes x[:b]: descend to the sliced data, keep the outermost upper bound
		var hiF *c20Frame
		var hiV ssa.Value
		lowBad, lowUnd := false, false
		xf, xv := df, d
		for {
			cur, ok := xv.(*ssa.Slice)
			if !ok {
				break
			}
			if cur.Low != nil {
				if t, k, ok := w.lin(xf, cur.Low); !ok {
					lowUnd = true
				} else if len(t) != 0 || k != 0 {
					lowBad = true
				}
			}
			if hiV == nil && cur.High != nil {
				hiF, hiV = xf, cur.High
			}
			xf, xv = w.resolve(xf, cur.X)
		}
		switch {
		case last == nil:
			ri.und = "a successful return is reached without a line read"
		case w.sym(xf, xv) != data:
			ri.und = fmt.Sprintf("the successful return does not return a sub-slice of the data just read (returns %q, data %q)", w.sym(xf, xv), data)
		case lowUnd:
			ri.und = "lower bound of the returned line not understood"
		case lowBad:
			ri.bad = "returned line does not start at the first consumed byte: leading bytes are consumed but not counted"
		case hiV != nil:
			t, k, ok := w.lin(hiF, hiV)
			if !ok || len(t) != 1 || t["len("+data+")"] != 1 {
				ri.und = "upper bound of the returned line is not len(data)-K"
			}
			ri.kr = -k
		}
		if old, seen := rets[ret.Pos()]; seen && (old.bad != "" || old.und != "" || old.kr != acc.K) {
			return // keep the first problematic path through this return
		}
		rets[ret.Pos()] = ri
	}
	w.run(F)
	if w.aborted || unknown != "" || nReads == 0 {
		c.Undec(rule, name+"#shape", F.Pos(), "%s: consumption not understood (aborted=%v, other consuming call %q, %d line reads on %d paths)", name, w.aborted, unknown, nReads, nPaths)
		return
	}
	if leak != "" {
		c.Fail(rule, leakKey, leakPos, "%s — every later manifest entry is shifted", leak)
	} else if acc.mode == "off" {
		c.Ok(rule, leakKey, F.Pos(), "on all %d paths (helpers inlined, loops unrolled twice) len(data) of every line read is added to %s before the next read or a successful return", nPaths, acc.offField.Name())
	} else {
		c.Ok(rule, leakKey, F.Pos(), "on all %d paths every line read is returned (or an error) before the next read", nPaths)
	}
	var keys []token.Pos
	for k := range rets {
		keys = append(keys, k)
	}
	sort.Slice(keys, func(i, j int) bool { return keys[i] < keys[j] })
	for _, k := range keys {
		ri := rets[k]
		key := name + "#returned-line"
		switch {
		case ri.bad != "":
			c.Fail(rule, key, ri.pos, "%s", ri.bad)
		case ri.und != "":
			c.Undec(rule, key, ri.pos, "%s", ri.und)
		default:
			c.Check(ri.kr == acc.K, rule, key, ri.pos, "returned line = data[:len(data)-%d]; %s accounts len(line)+%d bytes per line (must agree, else each line shifts all later offsets)", ri.kr, fnName(acc.fn), acc.K)
		}
	}
	c.Floor(rule, len(rets), 1, "successful returns of "+name)
}

// ---------------------------------------------------------------- R5b-e: Chunk.Read (reader side), over execution paths

// c20ReadPath is what one path to the successful return of Chunk.Read did, in symbolic terms.
type c20ReadPath struct {
	slice            *ssa.Slice
	buf, lo, hi      string           // sliced buffer, lin keys of the bounds
	loT, hiT         map[string]int64 // terms of the bounds
	hiK              int64
	filled           int // ReadAt calls on the path
	fillBuf, fillOff string
	stores           map[string]string // last value (lin key) stored to each location after the last ReadAt ("" = not understood)
	storeCount       map[string]int    // stores per location on the whole path
	facts            map[string]bool   // "a<=b" established by branches and not invalidated by later stores
	unknownSides     []string          // symbols compared by branch conditions whose other side was not understood
	elemAfterStore   map[string]bool   // an element address was computed after a store to that location
	desc             string
}

func c20IsReadAt(in ssa.Instruction) (*ssa.Call, bool) {
	call, ok := in.(*ssa.Call)
	if !ok {
		return nil, false
	}
	obj := calleeObj(call)
	if obj == nil || obj.Name() != "ReadAt" || (obj.Pkg() != nil && strings.HasPrefix(obj.Pkg().Path(), Mod)) || len(call.Call.Args) < 2 {
		return nil, false
	}
	return call, true
}

func c20Read(c *Ctx, p *Prog, acc c20Acc, op c20OpenInfo) {
	const rule = "C20.R5"
	spec := c20Epd + ".(*Chunk).Read"
	fn := p.Func(spec)
	if fn == nil {
		c.Anchor(rule, spec)
		return
	}
	if !acc.ok {
		c.Undec(rule, spec+"#slice-bounds", fn.Pos(), "writer side (NewChunker) not recognised; reader/writer agreement cannot be decided")
		return
	}
	var paths []c20ReadPath
	w := &c20Walker{}
	w.interest = func(in ssa.Instruction) bool {
		switch in.(type) {
		case *ssa.Store, *ssa.IndexAddr:
			return true
		}
		_, isRd := c20IsReadAt(in)
		return isRd
	}
	w.done = func(path []c20Step, ret *ssa.Return, root *c20Frame) {
		if len(ret.Results) != 2 {
			return
		}
		if _, e := w.resolve(root, returnedValue(ret, 1)); !c20IsNilConst(e) {
			return // error / EOF return
		}
		rp := c20ReadPath{stores: map[string]string{}, storeCount: map[string]int{}, facts: map[string]bool{}, elemAfterStore: map[string]bool{}}
		sf, sv := w.resolve(root, returnedValue(ret, 0))
		if sl, ok := sv.(*ssa.Slice); ok && sl.Low != nil && sl.High != nil {
			rp.slice = sl
			rp.buf = w.sym(sf, sl.X)
			var ok1, ok2 bool
			var lk int64
			rp.loT, lk, ok1 = w.lin(sf, sl.Low)
			rp.hiT, rp.hiK, ok2 = w.lin(sf, sl.High)
			if ok1 && ok2 {
				rp.lo, rp.hi = c20Key(rp.loT, lk), c20Key(rp.hiT, rp.hiK)
			}
		}
		var blocks []string
		stored := map[string]bool{}
		for _, st := range path {
			switch x := st.in.(type) {
			case *ssa.If:
				if st.fr.parent == nil {
					blocks = append(blocks, fmt.Sprint(x.Block().Index))
				}
				a, b, _, isCmp, ok := w.fact(st)
				if ok {
					rp.facts[a+"<="+b] = true
				} else if isCmp {
					rp.unknownSides = append(rp.unknownSides, a+"|"+b)
				}
			case *ssa.Store:
				// a whole-struct store is the store of each of its fields
				for _, part := range w.storeParts(st.fr, x) {
					t := part[0]
					rp.stores[t] = part[1]
					rp.storeCount[t]++
					stored[t] = true
					for f := range rp.facts {
						if strings.HasPrefix(f, t+"<=") || strings.HasSuffix(f, "<="+t) || strings.HasPrefix(f, t+".") || strings.Contains(f, "<="+t+".") {
							delete(rp.facts, f)
						}
					}
				}
			case *ssa.IndexAddr:
				if l := w.loc(st.fr, x); l != "" {
					for t := range stored {
						if strings.Contains(l, t) {
							rp.elemAfterStore[t] = true
						}
					}
				}
			case *ssa.Call:
				if rd, ok := c20IsReadAt(x); ok {
					args := rd.Call.Args
					rp.filled++
					rp.fillBuf, rp.fillOff = w.sym(st.fr, args[len(args)-2]), w.linKey(st.fr, args[len(args)-1])
					rp.stores = map[string]string{}
				}
			}
		}
		rp.desc = "branches at blocks " + strings.Join(blocks, ",")
		paths = append(paths, rp)
	}
	w.run(fn)
	if w.aborted || len(paths) == 0 {
		c.Undec(rule, spec+"#slice-bounds", fn.Pos(), "no path to a successful return could be analysed (%d paths, aborted=%v)", len(paths), w.aborted)
		return
	}
	c.Floor(rule, len(paths), 1, "paths of "+spec+" (helpers inlined) to the successful return")
	// --- slice bounds: buf[E.start - p0.G : E.end - p0.G - K]
	first := paths[0]
	pos := fn.Pos()
	if first.slice != nil {
		pos = first.slice.Pos()
	}
	for _, rp := range paths {
		if rp.slice == nil || rp.lo == "" || rp.lo != first.lo || rp.hi != first.hi || rp.buf != first.buf || rp.buf == "" {
			c.Undec(rule, spec+"#slice-bounds", pos, "successful returns do not all return the same understood sub-slice buf[lo:hi]")
			return
		}
	}
	var E, G string
	sfxS, sfxE := "."+acc.startF.Name(), "."+acc.endF.Name()
	var loPos, hiPos string
	for s, cf := range first.loT {
		if cf == 1 {
			loPos = s
		} else if cf == -1 {
			G = s
		}
	}
	for s, cf := range first.hiT {
		if cf == 1 {
			hiPos = s
		}
	}
	if len(first.loT) != 2 || len(first.hiT) != 2 || first.hiT[G] != -1 || loPos == "" || hiPos == "" || !strings.HasPrefix(G, "p0.") || !strings.HasPrefix(loPos, "elem(p0.") {
		c.Undec(rule, spec+"#slice-bounds", pos, "slice bounds are not (line address field) - (chunk field) [- K]: lo=%s hi=%s", first.lo, first.hi)
		return
	}
	switch {
	case strings.HasSuffix(loPos, sfxS) && strings.HasSuffix(hiPos, sfxE) && strings.TrimSuffix(loPos, sfxS) == strings.TrimSuffix(hiPos, sfxE):
		E = strings.TrimSuffix(loPos, sfxS)
		lk := c20Key(first.loT, 0) == first.lo
		c.Check(lk && -first.hiK == acc.K, rule, spec+"#slice-bounds", pos, "returns buf[a.%s-%s : a.%s-%s-%d] (lo=%s); the manifest entry is [start, start+len+%d): the line without its terminator ends %d before a.%s", acc.startF.Name(), G, acc.endF.Name(), G, -first.hiK, first.lo, acc.K, acc.K, acc.endF.Name())
	case strings.HasSuffix(loPos, sfxE) || strings.HasSuffix(hiPos, sfxS):
		c.Fail(rule, spec+"#slice-bounds", pos, "slice bounds use the manifest fields in the wrong roles: lo=%s hi=%s, manifest entry is [%s,%s)", first.lo, first.hi, acc.startF.Name(), acc.endF.Name())
		return
	default:
		c.Undec(rule, spec+"#slice-bounds", pos, "slice bounds do not refer to the manifest fields of one line address: lo=%s hi=%s", first.lo, first.hi)
		return
	}
	aS, aE := E+sfxS, E+sfxE
	// --- the line address is chunkLines[ix]; ix advances by exactly one, after the address was taken
	ixSym := ""
	if i := strings.LastIndex(E, ","); i > 0 && strings.HasSuffix(E, ")") {
		ixSym = E[i+1 : len(E)-1]
	}
	wantList := ""
	if op.chunkLines != nil {
		wantList = "elem(p0." + op.chunkLines.Name() + ","
	}
	advBad, advUnd := "", ""
	for _, rp := range paths {
		switch {
		case ixSym == "" || !strings.HasPrefix(ixSym, "p0.") || (wantList != "" && !strings.HasPrefix(E, wantList)):
			advUnd = "line address " + E + " is not <list filled by Open>[<chunk field>]"
		case rp.elemAfterStore[ixSym]:
			advUnd = "the element address is computed after the index was advanced"
		case rp.storeCount[ixSym] == 1 && rp.stores[ixSym] == c20Key(map[string]int64{ixSym: 1}, 1):
		case rp.storeCount[ixSym] == 0:
			advBad = "a path (" + rp.desc + ") returns a line without advancing " + ixSym + ": the same line is delivered again"
		case rp.storeCount[ixSym] == 1 && rp.stores[ixSym] != "" && rp.filled == 0:
			advBad = fmt.Sprintf("%s is set to %s instead of %s+1", ixSym, rp.stores[ixSym], ixSym)
		default:
			advUnd = fmt.Sprintf("%d stores to %s on a path (%s)", rp.storeCount[ixSym], ixSym, rp.desc)
		}
	}
	switch {
	case advBad != "":
		c.Fail(rule, spec+"#advance", pos, "%s", advBad)
	case advUnd != "":
		c.Undec(rule, spec+"#advance", pos, "cannot show that every successful Read delivers chunkLines[ix] and advances ix by one: %s", advUnd)
	default:
		c.Ok(rule, spec+"#advance", pos, "on all %d paths the returned line is %s and %s is incremented exactly once, after the address was taken", len(paths), E, ixSym)
	}
	// --- refill paths: ReadAt(buf, a.start); G = a.start; H = a.start + count
	H := ""
	nFill := 0
	winUnd := ""
	wantOff := c20One(aS)
	for _, rp := range paths {
		if rp.filled == 0 {
			continue
		}
		nFill++
		h := ""
		for t, v := range rp.stores {
			if t != G && v == c20Key(map[string]int64{aS: 1, "ret0@ReadAt": 1}, 0) {
				h = t
			}
		}
		switch {
		case rp.filled > 1:
			winUnd = "more than one ReadAt on a path"
		case rp.fillBuf != rp.buf || rp.fillOff != wantOff:
			winUnd = fmt.Sprintf("ReadAt fills %s at offset %s, the slice is taken from %s relative to %s", rp.fillBuf, rp.fillOff, rp.buf, wantOff)
		case rp.stores[G] != wantOff:
			winUnd = fmt.Sprintf("after the ReadAt %s is %q, not the read offset %s", G, rp.stores[G], wantOff)
		case h == "" || (H != "" && h != H):
			winUnd = "after the ReadAt no chunk field is set to offset + bytes read"
		}
		if h != "" {
			H = h
		}
	}
	if nFill == 0 {
		winUnd = "no path refills the buffer"
	}
	if winUnd != "" {
		c.Undec(rule, spec+"#refill-window", pos, "refill is not ReadAt(buf, a.%s) followed on the way to the slice by window-start = a.%s and window-end = a.%s + count: %s", acc.startF.Name(), acc.startF.Name(), acc.startF.Name(), winUnd)
		return
	}
	c.Ok(rule, spec+"#refill-window", pos, "on all %d refill paths: ReadAt(%s, %s), then %s = a.%s and %s = a.%s + count before the slice is taken", nFill, first.buf, aS, G, acc.startF.Name(), H, acc.startF.Name())
	// --- paths without refill must have established G <= a.start and a.end <= H
	bad, und := "", ""
	nSkip := 0
	for _, rp := range paths {
		if rp.filled > 0 {
			continue
		}
		nSkip++
		covS, covE := rp.facts[G+"<="+aS], rp.facts[aE+"<="+H]
		if covS && covE {
			continue
		}
		msg := fmt.Sprintf("path (%s) reaches the slice without refill and without having established %s <= a.%s (%v) and a.%s <= %s (%v)", rp.desc, G, acc.startF.Name(), covS, acc.endF.Name(), H, covE)
		unk := false
		for _, u := range rp.unknownSides {
			for _, side := range strings.Split(u, "|") {
				unk = unk || side == G || side == H || side == aS || side == aE
			}
		}
		if unk {
			und = msg
		} else {
			bad = msg
		}
	}
	switch {
	case bad != "":
		c.Fail(rule, spec+"#refill-test", pos, "%s — bytes of another file region are returned as this line", bad)
	case und != "":
		c.Undec(rule, spec+"#refill-test", pos, "%s (a branch condition on the path was not understood)", und)
	default:
		c.Ok(rule, spec+"#refill-test", pos, "the buffer is reused only when it covers the whole [a.%s, a.%s): %d non-refill path(s) checked", acc.startF.Name(), acc.endF.Name(), nSkip)
	}
}

// ---------------------------------------------------------------- mutants

func init() {
	const chunker, bylines, batch = "tools/tuner/epd/chunker.go", "tools/tuner/epd/by_lines.go", "tools/tuner/tuning/batch.go"
	addMutants(
		// R1
		Mutant{Name: "C20.R1-batches-step-off-by-one", Prop: "C20", File: batch, Quick: true,
			Old: "start < numEntries; start += NumLinesInBatch {", New: "start < numEntries; start += NumLinesInBatch - 1 {",
			Expect: "C20.R1/tools/tuner/tuning.Batches#step-width"},
		Mutant{Name: "C20.R1-chunks-inclusive-end", Prop: "C20", File: batch,
			Old: "end := min(start+numLinesInChunk, batch.End)", New: "end := min(start+numLinesInChunk-1, batch.End)",
			Expect: "C20.R1/tools/tuner/tuning.Chunks#step-width"},
		Mutant{Name: "C20.R1-chunks-unclipped", Prop: "C20", File: batch,
			Old: "end := min(start+numLinesInChunk, batch.End)", New: "end := start + numLinesInChunk",
			Expect: "C20.R1/tools/tuner/tuning.Chunks#clip"},
		Mutant{Name: "C20.R1-chunks-start-at-zero", Prop: "C20", File: batch,
			Old: "for start := batch.Start; start < batch.End;", New: "for start := 0; start < batch.End;",
			Expect: "C20.R1/tools/tuner/tuning.Chunks#init"},
		Mutant{Name: "C20.R1-batches-skip-small-tail", Prop: "C20", File: batch,
			Old: "\t\t\tend := min(start+NumLinesInBatch, numEntries)\n", New: "\t\t\tend := min(start+NumLinesInBatch, numEntries)\n\t\t\tif end-start < NumChunksInBatch {\n\t\t\t\tcontinue\n\t\t\t}\n",
			Expect: "C20.R1/tools/tuner/tuning.Batches#yield"},
		// R2
		Mutant{Name: "C20.R2-xor-right-instead-of-left", Prop: "C20", File: chunker, Quick: true,
			Old: "left, right = right, left^f", New: "left, right = right, right^f",
			Expect: "C20.R2/tools/tuner/epd.feistel#round-shape"},
		Mutant{Name: "C20.R2-round-function-of-left", Prop: "C20", File: chunker,
			Old: "f := roundFunc(right, k) & leftMask", New: "f := roundFunc(left, k) & leftMask",
			Expect: "C20.R2/tools/tuner/epd.feistel#g-independent-of-L"},
		Mutant{Name: "C20.R2-odd-round-count", Prop: "C20", File: chunker, Quick: true,
			Old: "const rounds = 4", New: "const rounds = 3",
			Expect: "C20.R2/tools/tuner/epd.feistel#rounds-even"},
		Mutant{Name: "C20.R2-g-masked-to-wide-half", Prop: "C20", File: chunker,
			Old: "f := roundFunc(right, k) & leftMask", New: "f := roundFunc(right, k) & rightMask",
			Expect: "C20.R2/tools/tuner/epd.feistel#g-mask"},
		Mutant{Name: "C20.R2-join-shift-by-other-half", Prop: "C20", File: chunker,
			Old: "return ((right & rightMask) << half) | (left & leftMask)", New: "return ((right & rightMask) << (bits - half)) | (left & leftMask)",
			Expect: "C20.R2/tools/tuner/epd.feistel#join"},
		Mutant{Name: "C20.R2-split-shift-by-other-half", Prop: "C20", File: chunker,
			Old: "right := (x >> half) & rightMask", New: "right := (x >> (bits - half)) & rightMask",
			Expect: "C20.R2/tools/tuner/epd.feistel#half-widths"},
		// R3
		Mutant{Name: "C20.R3-refeed-next-input", Prop: "C20", File: chunker, Quick: true,
			Old: "x = y & mask", New: "x = (x + 1) & mask",
			Expect: "C20.R3/tools/tuner/epd.shuffleIndex#refeed"},
		Mutant{Name: "C20.R3-accept-y-equal-n", Prop: "C20", File: chunker,
			Old: "if y < n {", New: "if y <= n {",
			Expect: "C20.R3/tools/tuner/epd.shuffleIndex#returns-in-range"},
		Mutant{Name: "C20.R3-domain-too-small", Prop: "C20", File: chunker,
			Old: "bitsNeeded := bits.Len64(n - 1)", New: "bitsNeeded := bits.Len64(n >> 1)",
			Expect: "C20.R3/tools/tuner/epd.shuffleIndex#domain-size"},
		Mutant{Name: "C20.R3-guard-swallows-n2", Prop: "C20", File: chunker,
			Old: "if n <= 1 {", New: "if n <= 2 {",
			Expect: "C20.R3/tools/tuner/epd.shuffleIndex#small-n"},
		Mutant{Name: "C20.R3-seed-salted-by-global-counter", Prop: "C20", File: chunker,
			Old: "func roundFunc(x, k uint64) uint64 {\n\tz := x + k\n", New: "var salt uint64\n\nfunc roundFunc(x, k uint64) uint64 {\n\tsalt++\n\tz := x + k + salt\n",
			Expect: "C20.R3/tools/tuner/epd.shuffleIndex#pure"},
		// R4 (the #skipped-line obligation fires on the unchanged tree — defect F-4 — and is its own positive control)
		Mutant{Name: "C20.R4-strip-crlf", Prop: "C20", File: bylines, Quick: true,
			Old: "return bytes[:len(bytes)-1], nil", New: "return bytes[:len(bytes)-2], nil",
			Expect: "C20.R4/tools/tuner/epd.(*ByLines).Read#returned-line"},
		// F-4 (fixed in /repo 2ce1af3): the two ways the defect can come back
		Mutant{Name: "C20.R4-F4-counter-only-on-returned-lines", Prop: "C20", File: bylines, Quick: true,
			Old: "\t\tb.pos += int64(len(bytes))\n\t\tif err != nil {\n\t\t\treturn nil, err\n\t\t}\n\n\t\tif len(bytes) > 1 {\n", New: "\t\tif err != nil {\n\t\t\treturn nil, err\n\t\t}\n\n\t\tif len(bytes) > 1 {\n\t\t\tb.pos += int64(len(bytes))\n",
			Expect: "C20.R4/tools/tuner/epd.(*ByLines).Read#unaccounted-bytes"},
		Mutant{Name: "C20.R4-F4-reverted-accumulate-in-chunker", Prop: "C20", File: chunker,
			Old: "\t\tend := byLines.Offset()\n\t\tstart := end - int64(len(line)) - 1 // -1 for '\\n'\n\t\tlineManifest = append(lineManifest, lineAddr{start, end})\n", New: "\t\tend := curr + int64(len(line)) + 1\n\t\tlineManifest = append(lineManifest, lineAddr{curr, end})\n\t\tcurr = end\n",
			File2: chunker, Old2: "\tlineManifest := make([]lineAddr, 0)\n\tfor {", New2: "\tlineManifest := make([]lineAddr, 0)\n\tcurr := int64(0)\n\tfor {",
			Expect: "C20.R4/tools/tuner/epd.(*ByLines).Read#skipped-line"},
		// R5
		Mutant{Name: "C20.R5-read-keeps-newline", Prop: "C20", File: chunker, Quick: true,
			Old: "addr.end-c.mapStart-1]", New: "addr.end-c.mapStart]",
			Expect: "C20.R5/tools/tuner/epd.(*Chunk).Read#slice-bounds"},
		Mutant{Name: "C20.R5-manifest-forgets-newline", Prop: "C20", File: chunker,
			Old: "start := end - int64(len(line)) - 1 // -1", New: "start := end - int64(len(line)) // -1",
			Expect: "C20.R5/tools/tuner/epd.(*Chunk).Read#slice-bounds"},
		Mutant{Name: "C20.R5-refill-test-covers-start-only", Prop: "C20", File: chunker,
			Old: "c.mapEnd < addr.end {", New: "c.mapEnd < addr.start {",
			Expect: "C20.R5/tools/tuner/epd.(*Chunk).Read#refill-test"},
		Mutant{Name: "C20.R5-window-end-assumes-full-read", Prop: "C20", File: chunker,
			Old: "c.mapEnd = addr.start + int64(cnt)", New: "_ = cnt\n\t\tc.mapEnd = addr.start + backingBytes",
			Expect: "C20.R5/tools/tuner/epd.(*Chunk).Read#refill-window"},
		Mutant{Name: "C20.R5-open-permutes-over-chunk-end", Prop: "C20", File: chunker,
			Old: "shuffleIndex(uint64(ix), uint64(len(c.lineManifest)), uint64(epoch))", New: "shuffleIndex(uint64(ix), uint64(end), uint64(epoch))",
			Expect: "C20.R5/tools/tuner/epd.(Chunker).Open#shuffle-map"},
		Mutant{Name: "C20.R5-open-inclusive-end", Prop: "C20", File: chunker,
			Old: "for ix := start; ix < end; ix++ {", New: "for ix := start; ix <= end && ix < len(c.lineManifest); ix++ {",
			Expect: "C20.R5/tools/tuner/epd.(Chunker).Open#shuffle-map"},
		Mutant{Name: "C20.R5-read-does-not-advance-on-refill", Prop: "C20", File: chunker,
			Old: "\tc.chunkLinesIx++\n\treturn c.mapBytes", New: "\tif c.mapStart != addr.start {\n\t\tc.chunkLinesIx++\n\t}\n\treturn c.mapBytes",
			Expect: "C20.R5/tools/tuner/epd.(*Chunk).Read#advance"},
	)
}
