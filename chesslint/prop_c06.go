package main

import (
	"fmt"
	"go/ast"
	"go/constant"
	"go/token"
	"go/types"

	"golang.org/x/tools/go/ssa"
)

// Shared PAIR specs (used by C03.R6, C06.R1, C16.R6).
var makeUndoExempt = map[string]string{
	"uci.(*Driver).applyMoves": "position set-up: moves of a UCI move list are made and intentionally never undone",
}

func pairSpecs(rule string) []pairSpec {
	return []pairSpec{
		{Rule: rule + ".make", Open: "board.(*Board).MakeMove", Close: "board.(*Board).UndoMove", ArgPairs: [][2]int{{0, 0}, {1, 1}}, TokenArg: 2, Exempt: makeUndoExempt},
		{Rule: rule + ".null", Open: "board.(*Board).MakeNullMove", Close: "board.(*Board).UndoNullMove", ArgPairs: [][2]int{{0, 0}}, TokenArg: 1},
		{Rule: rule + ".frame", Open: "move.(*Store).Push", Close: "move.(*Store).Pop", ArgPairs: [][2]int{{0, 0}}, TokenArg: -1},
		{Rule: rule + ".hstack", Open: "stack.(*Stack).Push", Close: "stack.(*Stack).Pop", ArgPairs: [][2]int{{0, 0}}, TokenArg: -1},
	}
}

// rulePairs runs the four make/undo, frame and stack pairings; floors are the
// counts confirmed by hand on the pinned tree.
func rulePairs(c *Ctx, p *Prog, rule string) {
	floors := []int{4, 1, 4, 1}
	names := []string{"MakeMove sites", "MakeNullMove sites", "move.Store.Push sites", "stack.Push sites"}
	for i, sp := range pairSpecs(rule) {
		if p.FuncObj(sp.Open) == nil {
			c.Anchor(rule, sp.Open)
			continue
		}
		if p.FuncObj(sp.Close) == nil {
			c.Anchor(rule, sp.Close)
			continue
		}
		n := checkPair(c, p, sp)
		c.Floor(sp.Rule, n, floors[i], names[i])
	}
}

func init() {
	register(&Property{
		ID: "C06",
		Explain: "Static necessary conditions for 'search returns a legal move unless the game is over; board left untouched': " +
			"(R1) every MakeMove/MakeNullMove/move-store frame/history-stack push in search, perft and the abort fallback is closed on every CFG path with the matching token; " +
			"(R2) Search.Go clears the sticky abort flag, move store and history stack before iterating; (R3) the abort fallback adopts only moves that passed the in-check filter and generates both halves; " +
			"(R4) externally supplied integers are range-checked before narrowing conversions in uci; (R5) spsa parameters agree with the constants and keep divisors/shift counts in range. " +
			"Decided over all paths of the SSA control-flow graphs; not decided: legality of the returned move for concrete positions, abort-point behaviour.",
		Assume: []string{"go/ssa and go/types model the program faithfully", "panicking exits are ignored by the pairing rule"},
		Run:    runC06,
	})
}

func c06Premises(c *Ctx, p *Prog) {
	// "unless the game is over": whether the root counts as drawn by repetition is Threefold's answer
	c.As("C10.R", "C06.R7.repetition:R", func() { c10R1R2(c, p) })
	// the search must return at all: the PV buffer's row index stays inside the buffer for every ply (an index past
	// the end panics in the middle of a deep search and no move is ever returned)
	c.As("C07.R2", "C06.R8.pv-rows", func() { c07Rows(c, p) })
}

func runC06(c *Ctx) {
	p := c.need("default")
	if p == nil {
		return
	}
	rulePairs(c, p, "C06.R1")
	c06R2(c, p)
	c06R3(c, p)
	c06R4(c, p)
	c06R6(c, p)
	c06Premises(c, p)
	// the tunable build: divisors and shift counts stay valid over the advertised ranges (cheap: data tables only)
	if sp := c.need("spsa"); sp != nil {
		c06R5(c, p, sp)
		if c.Tier == "thorough" {
			rulePairs(c, sp, "C06.R1[spsa]")
		}
	}
	c.Use(p)
}

// C06.R3: the result `move` of iterativeDeepen is assigned only from the PV
// (C07.R3 checks when) or, on the abort path, from a generated move that passed
// the legality filter; both generator halves feed that fallback.
func c06R3(c *Ctx, p *Prog) {
	const rule = "C06.R3"
	fn := p.Func("search.(*Search).iterativeDeepen")
	if fn == nil {
		c.Anchor(rule, "search.(*Search).iterativeDeepen")
		return
	}
	asgs := resultAssignments(fn, 1)
	if len(asgs) == 0 {
		c.Undec(rule, "iterativeDeepen#result", fn.Pos(), "cannot enumerate the values assigned to the returned move")
		return
	}
	mv := namedResult(fn, 1)
	nFallback := 0
	for _, as := range asgs {
		if k, isc := constOf(as.Val); isc && k == 0 {
			continue
		}
		if moveOrigin(as.Val, []string{"search.(*pv).active"}, map[ssa.Value]bool{}, 0) == nil {
			c.Ok(rule, "iterativeDeepen#result-from-pv", as.Pos, "result move taken from the principal variation")
			continue
		}
		// the fallback: inline, or a helper of package search returning the move
		fbFn, fbVals, fbPos := fn, []ssa.Value{as.Val}, []token.Pos{as.Pos}
		fbBlocks := []*ssa.BasicBlock{as.Block}
		if call, ok := stripConv(as.Val).(*ssa.Call); ok {
			if h := call.Call.StaticCallee(); h != nil && isOwn(h) && h.Blocks != nil && relPkg(fnPkgPath(h)) == "search" {
				fbFn, fbVals, fbPos, fbBlocks = h, nil, nil, nil
				for _, ha := range resultAssignments(h, 0) {
					if k, isc := constOf(ha.Val); isc && k == 0 {
						continue
					}
					fbVals = append(fbVals, ha.Val)
					fbPos = append(fbPos, ha.Pos)
					fbBlocks = append(fbBlocks, ha.Block)
				}
			}
		}
		okAll := len(fbVals) > 0
		for i, v := range fbVals {
			if bad := moveOrigin(v, []string{"move.(*Store).Frame"}, map[ssa.Value]bool{}, 0); bad != nil {
				c.Fail(rule, "iterativeDeepen#result-origin", fbPos[i], "the returned move can come from %s, which is neither the PV nor a generated move", bad.Name())
				okAll = false
				continue
			}
			// adopted only on the not-in-check edge of a legality branch of a make of the same move
			okLegal := false
			for _, mk := range callsIn(fbFn, "board.(*Board).MakeMove") {
				if !sameValue(mk.Common().Args[1], v, 0) {
					continue
				}
				lb, _ := findLegalityBranch(fbFn, mk)
				if lb != nil && len(lb.LegalTo.Preds) == 1 && (lb.LegalTo == fbBlocks[i] || lb.LegalTo.Dominates(fbBlocks[i])) {
					okLegal = true
				}
			}
			c.Check(okLegal, rule, "iterativeDeepen#fallback-legal", fbPos[i], "on abort without a completed iteration the adopted move was made and found not to leave the mover in check")
		}
		if !okAll {
			continue
		}
		nFallback++
		// reached only under abort && move == 0
		var underAbort, underNoMove bool
		for _, ce := range controllingConds(as.Block) {
			if call, ok := ce.Cond.(*ssa.Call); ok && ce.True && objName(calleeObj(call)) == "search.(*Search).abort" {
				underAbort = true
			}
			if bo, ok := ce.Cond.(*ssa.BinOp); ok {
				if k, isc := constOf(bo.Y); isc && k == 0 && ((bo.Op == token.EQL && ce.True) || (bo.Op == token.NEQ && !ce.True)) {
					x := stripConv(bo.X)
					if l, ok := x.(*ssa.UnOp); ok && l.Op == token.MUL && mv != nil && l.X == ssa.Value(mv) {
						underNoMove = true
					} else if isResultWeb(x, asgs) {
						underNoMove = true
					}
				}
			}
		}
		c.Check(underAbort && underNoMove, rule, "iterativeDeepen#fallback-only-without-result", as.Pos, "the fallback replaces the result only after an abort and only while no iteration has produced a move")
		c.Check(bothHalvesTogether(fbFn), rule, "iterativeDeepen#fallback-generates-all", as.Pos, "the fallback generates both the noisy and the quiet half (a position whose only legal moves are quiet still gets a move)")
	}
	c.Floor(rule, nFallback, 1, "fallback adoptions")
}

// resultAssign is one value that can become the i-th result of a function, with the block it is chosen in.
type resultAssign struct {
	Val   ssa.Value
	Block *ssa.BasicBlock
	Pos   token.Pos
}

// resultAssignments enumerates what can be returned as result i: the stores to the
// named-result local (functions with defers) or the leaves of the phi web feeding the returns.
func resultAssignments(fn *ssa.Function, i int) []resultAssign {
	out, _, _ := resultWeb(fn, i)
	return out
}

// resultWeb: the assignments, the phis merging them, and the local holding the result (when there is one).
func resultWeb(fn *ssa.Function, i int) ([]resultAssign, map[*ssa.Phi]bool, *ssa.Alloc) {
	var out []resultAssign
	phis := map[*ssa.Phi]bool{}
	var alloc *ssa.Alloc
	seen := map[ssa.Value]bool{}
	var walk func(v ssa.Value, blk *ssa.BasicBlock, pos token.Pos)
	walk = func(v ssa.Value, blk *ssa.BasicBlock, pos token.Pos) {
		if ph, ok := v.(*ssa.Phi); ok {
			if seen[ph] {
				return
			}
			seen[ph] = true
			phis[ph] = true
			for k, e := range ph.Edges {
				pred := ph.Block().Preds[k]
				pp := pos
				if len(pred.Instrs) > 0 {
					pp = pred.Instrs[len(pred.Instrs)-1].Pos()
					if !pp.IsValid() {
						pp = ph.Pos()
					}
				}
				walk(e, pred, pp)
			}
			return
		}
		// result kept in a local (named results, or any result of a function with defers)
		if ld, ok := v.(*ssa.UnOp); ok && ld.Op == token.MUL {
			if al, ok := ld.X.(*ssa.Alloc); ok && !al.Heap {
				if seen[al] {
					return
				}
				seen[al] = true
				onlyStores := true
				for _, r := range *al.Referrers() {
					switch x := r.(type) {
					case *ssa.Store:
						if x.Addr != ssa.Value(al) {
							onlyStores = false
						}
					case *ssa.UnOp, *ssa.DebugRef:
					default:
						onlyStores = false
					}
				}
				if onlyStores {
					alloc = al
					for _, r := range *al.Referrers() {
						if st, ok := r.(*ssa.Store); ok {
							walk(st.Val, st.Block(), st.Pos())
						}
					}
					return
				}
			}
		}
		out = append(out, resultAssign{v, blk, pos})
	}
	allInstrs(fn, func(in ssa.Instruction) {
		if ret, ok := in.(*ssa.Return); ok && i < len(ret.Results) && ret.Block() != fn.Recover {
			walk(returnedValue(ret, i), ret.Block(), ret.Pos())
		}
	})
	return out, phis, alloc
}

// isResultWeb: x is (a phi over) values that are themselves result assignments — "the move so far".
func isResultWeb(x ssa.Value, asgs []resultAssign) bool {
	leaves := map[ssa.Value]bool{}
	for _, a := range asgs {
		leaves[a.Val] = true
	}
	seen := map[ssa.Value]bool{}
	ok := true
	var walk func(v ssa.Value)
	walk = func(v ssa.Value) {
		if seen[v] {
			return
		}
		seen[v] = true
		if ph, isPhi := v.(*ssa.Phi); isPhi {
			for _, e := range ph.Edges {
				walk(e)
			}
			return
		}
		if !leaves[v] {
			ok = false
		}
	}
	walk(x)
	return ok && len(seen) > 0
}

// C06.R4: integers parsed from external text are range-checked before a narrowing conversion.
func c06R4(c *Ctx, p *Prog) {
	const rule = "C06.R4"
	// functions returning strconv results (wrappers like parseInt)
	tainted := map[*ssa.Function]bool{}
	isStrconv := func(v ssa.Value) bool {
		ex, ok := v.(*ssa.Extract)
		if !ok {
			return false
		}
		call, ok := ex.Tuple.(*ssa.Call)
		if !ok {
			return false
		}
		f := calleeObj(call)
		return f != nil && f.Pkg() != nil && f.Pkg().Path() == "strconv" && (f.Name() == "Atoi" || f.Name() == "ParseInt" || f.Name() == "ParseUint")
	}
	var fromText func(v ssa.Value, depth int) bool
	fromText = func(v ssa.Value, depth int) bool {
		if depth > 6 {
			return false
		}
		for x := range backSlice(v, sliceOpts{ThroughCalls: true, Stop: func(s ssa.Value) bool {
			// only value-preserving helpers are followed through their arguments
			if call, ok := s.(*ssa.Call); ok {
				if bi, ok := call.Call.Value.(*ssa.Builtin); ok && (bi.Name() == "min" || bi.Name() == "max") {
					return false
				}
				if objName(calleeObj(call)) == "chess.Clamp" {
					return false
				}
				return true
			}
			return false
		}}) {
			if isStrconv(x) {
				return true
			}
			if call, ok := x.(*ssa.Call); ok {
				if callee := call.Call.StaticCallee(); callee != nil && tainted[callee] {
					return true
				}
			}
		}
		return false
	}
	for round := 0; round < 3; round++ {
		for _, fn := range p.OwnFuncs() {
			if tainted[fn] {
				continue
			}
			allInstrs(fn, func(in ssa.Instruction) {
				if ret, ok := in.(*ssa.Return); ok {
					for _, r := range ret.Results {
						if fromText(r, 0) {
							tainted[fn] = true
						}
					}
				}
			})
		}
	}
	n := 0
	for _, fn := range p.OwnFuncs() {
		pkg := relPkg(fnPkgPath(fn))
		if pkg != "uci" && pkg != "main" {
			continue
		}
		ord := 0
		allInstrs(fn, func(in ssa.Instruction) {
			cv, ok := in.(*ssa.Convert)
			if !ok {
				return
			}
			src, ok1 := cv.X.Type().Underlying().(*types.Basic)
			dst, ok2 := cv.Type().Underlying().(*types.Basic)
			if !ok1 || !ok2 || src.Info()&types.IsInteger == 0 || dst.Info()&types.IsInteger == 0 {
				return
			}
			sz := types.SizesFor("gc", "amd64")
			if sz.Sizeof(dst) >= sz.Sizeof(src) {
				return
			}
			if !fromText(cv.X, 0) {
				return
			}
			n++
			ord++
			key := fmt.Sprintf("%s#narrowing@%d->%s", fnName(fn), ord, types.TypeString(cv.Type(), func(*types.Package) string { return "" }))
			// dominated by both-sided bounds on the operand
			lo, hi := false, false
			max := int64(1)<<(uint(sz.Sizeof(dst))*8-1) - 1
			min := -max - 1
			if dst.Info()&types.IsUnsigned != 0 {
				max, min = int64(1)<<(uint(sz.Sizeof(dst))*8)-1, 0
			}
			for _, ce := range controllingConds(cv.Block()) {
				bo, ok := ce.Cond.(*ssa.BinOp)
				if !ok || !sameValue(stripConv(bo.X), stripConv(cv.X), 0) {
					continue
				}
				k, isc := constOf(bo.Y)
				if !isc {
					continue
				}
				switch {
				case bo.Op == token.LSS && !ce.True && k >= min: // !(x < k) => x >= k
					lo = true
				case bo.Op == token.GEQ && ce.True && k >= min:
					lo = true
				case bo.Op == token.GTR && !ce.True && k <= max: // !(x > k) => x <= k
					hi = true
				case bo.Op == token.LEQ && ce.True && k <= max:
					hi = true
				case bo.Op == token.LSS && ce.True && k-1 <= max:
					hi = true
				case bo.Op == token.GTR && ce.True && k+1 >= min:
					lo = true
				}
			}
			// Clamp(x, a, b) with constant bounds inside the target range
			if call, ok := stripConv(cv.X).(*ssa.Call); ok && objName(calleeObj(call)) == "chess.Clamp" && len(call.Call.Args) == 3 {
				a, okA := constOf(call.Call.Args[1])
				b, okB := constOf(call.Call.Args[2])
				if okA && okB && a >= min && b <= max && a <= b {
					lo, hi = true, true
				}
			}
			if lo && hi {
				c.Ok(rule, key, cv.Pos(), "externally supplied number is bounded on both sides within %s before the conversion", dst.Name())
			} else {
				c.Fail(rule, key, cv.Pos(), "a number parsed from UCI text is converted to %s without a range check (lower bound: %v, upper bound: %v): e.g. `go depth 200` becomes depth -56 and the search answers bestmove 0000 from a non-final position", dst.Name(), lo, hi)
			}
		})
	}
	c.Floor(rule, n, 1, "narrowing conversions of parsed numbers in uci/main")
}

// C06.R5 (spsa configuration): tunables agree with the constants, stay in
// their ranges, and keep divisors/shift counts/depth addends valid.
func c06R5(c *Ctx, def *Prog, sp *Prog) {
	const rule = "C06.R5"
	c.Use(sp)
	pkD, pkS := def.Pkg("params"), sp.Pkg("params")
	if pkD == nil || pkS == nil {
		c.Anchor(rule, "package params")
		return
	}
	// constants of the default build
	consts := map[string]int64{}
	for _, n := range pkD.Types.Scope().Names() {
		if k, ok := pkD.Types.Scope().Lookup(n).(*types.Const); ok && k.Exported() {
			if v, ok := constant.Int64Val(constant.ToInt(k.Val())); ok {
				consts[n] = v
			}
		}
	}
	// variables and their defaults in the spsa build
	info := pkS.TypesInfo
	vars := map[string]int64{}
	for _, n := range pkS.Types.Scope().Names() {
		if v, ok := pkS.Types.Scope().Lookup(n).(*types.Var); ok && v.Exported() {
			if e, _ := sp.pkgVarInit("params." + n); e != nil {
				if k, ok := constInt(info, e); ok {
					vars[n] = k
				}
			}
		}
	}
	for _, n := range sortedKeys(consts) {
		v, ok := vars[n]
		c.Check(ok && v == consts[n], rule, "param:"+n+"#default", token.NoPos, "constant %s = %d has an spsa variable with the same default (%d, present: %v)", n, consts[n], v, ok)
	}
	for _, n := range sortedKeys(vars) {
		if _, ok := consts[n]; !ok {
			c.Fail(rule, "param:"+n+"#default", token.NoPos, "spsa variable %s has no constant in the default build", n)
		}
	}
	// tunables table: {&Var, "name", min, max}
	tun, _ := sp.pkgVarInit("params.tunables")
	type rng struct{ min, max int64 }
	ranges := map[string]rng{}
	if cl, ok := tun.(*ast.CompositeLit); ok {
		for _, el := range cl.Elts {
			row, ok := el.(*ast.CompositeLit)
			if !ok || len(row.Elts) != 4 {
				c.Undec(rule, "tunables#row", el.Pos(), "unrecognised tunables row")
				continue
			}
			var vname string
			if u, ok := row.Elts[0].(*ast.UnaryExpr); ok && u.Op == token.AND {
				if id, ok := u.X.(*ast.Ident); ok {
					vname = id.Name
				}
			}
			sname := ""
			if tv, ok := info.Types[row.Elts[1]]; ok && tv.Value != nil {
				sname = constant.StringVal(tv.Value)
			}
			mn, ok1 := constInt(info, row.Elts[2])
			mx, ok2 := constInt(info, row.Elts[3])
			if vname == "" || !ok1 || !ok2 {
				c.Undec(rule, "tunables#row", el.Pos(), "unrecognised tunables row")
				continue
			}
			c.Check(vname == sname, rule, "tunable:"+vname+"#name", el.Pos(), "tunable row for variable %s is published under the name %q", vname, sname)
			d := vars[vname]
			c.Check(mn <= d && d <= mx, rule, "tunable:"+vname+"#range", el.Pos(), "default %d of %s lies in [%d,%d]", d, vname, mn, mx)
			ranges[vname] = rng{mn, mx}
		}
	} else {
		c.Undec(rule, "tunables", token.NoPos, "params.tunables is not a composite literal")
	}
	for _, n := range sortedKeys(vars) {
		if _, ok := ranges[n]; !ok {
			c.Fail(rule, "tunable:"+n+"#listed", token.NoPos, "spsa variable %s is not listed in tunables: it cannot be set, or is set without bounds", n)
		}
	}
	c.Floor(rule+".params", len(ranges), 13, "tunable parameters")
	// uses as divisor / shift count / depth addend in the spsa program
	nUse := 0
	for _, fn := range sp.OwnFuncs() {
		allInstrs(fn, func(in ssa.Instruction) {
			bo, ok := in.(*ssa.BinOp)
			if !ok {
				return
			}
			paramOf := func(v ssa.Value) string {
				l, ok := stripConv(v).(*ssa.UnOp)
				if !ok || l.Op != token.MUL {
					return ""
				}
				g, ok := l.X.(*ssa.Global)
				if !ok || g.Pkg == nil || relPkg(g.Pkg.Pkg.Path()) != "params" {
					return ""
				}
				return g.Name()
			}
			switch bo.Op {
			case token.QUO, token.REM:
				if n := paramOf(bo.Y); n != "" {
					nUse++
					r := ranges[n]
					c.Check(r.min > 0, rule, fnName(fn)+"#divisor:"+n, bo.Pos(), "%s is used as a divisor; its tunable minimum %d must be > 0", n, r.min)
				}
			case token.SHL, token.SHR:
				if n := paramOf(bo.Y); n != "" {
					nUse++
					r := ranges[n]
					width := int64(types.SizesFor("gc", "amd64").Sizeof(bo.X.Type())) * 8
					signed := false
					if b, ok := bo.X.Type().Underlying().(*types.Basic); ok && b.Info()&types.IsUnsigned == 0 {
						signed = true
					}
					lim := width
					if signed && bo.Op == token.SHL {
						lim = width - 1 // 1<<15 in an int16 is negative
					}
					c.Check(r.min >= 0 && r.max < lim, rule, fnName(fn)+"#shift:"+n, bo.Pos(), "%s is used as a shift count of a %d-bit value; its range [%d,%d] must stay below %d", n, width, r.min, r.max, lim)
				}
			}
		})
	}
	c.Floor(rule+".uses", nUse, 3, "divisor/shift uses of tunables")
}

// C06.R2: in Search.Go the call to iterativeDeepen is dominated by clearing of
// aborted, ms and hstack (directly or in callees that always execute them).
func c06R2(c *Ctx, p *Prog) {
	const rule = "C06.R2"
	goFn := p.Func("search.(*Search).Go")
	if goFn == nil {
		c.Anchor(rule, "search.(*Search).Go")
		return
	}
	ids := callsIn(goFn, "search.(*Search).iterativeDeepen")
	if len(ids) == 0 {
		c.Anchor(rule, "call to iterativeDeepen in Search.Go")
		return
	}
	for _, id := range ids {
		type need struct {
			name string
			pred func(ssa.Instruction) bool
		}
		needs := []need{
			{"aborted=false", func(in ssa.Instruction) bool {
				st, ok := in.(*ssa.Store)
				if !ok {
					return false
				}
				fr, ok := asFieldAddr(st.Addr)
				if !ok || fr.QName() != "search.Search.aborted" {
					return false
				}
				v, isc := constOf(st.Val)
				return isc && v == 0
			}},
			{"ms.Clear()", func(in ssa.Instruction) bool { return isCallTo(in, "move.(*Store).Clear") }},
			{"hstack.Reset()", func(in ssa.Instruction) bool { return isCallTo(in, "stack.(*Stack).Reset") }},
		}
		for _, nd := range needs {
			if mustExecuteBefore(p, goFn, id.(ssa.Instruction), nd.pred, 3) {
				c.Ok(rule, "search.(*Search).Go#"+nd.name, id.Pos(), "%s dominates the call to iterativeDeepen", nd.name)
			} else {
				c.Fail(rule, "search.(*Search).Go#"+nd.name, id.Pos(), "iterativeDeepen is reachable in Search.Go without %s having been executed: sticky state of an aborted search survives into the next one", nd.name)
			}
		}
	}
}

// mustExecuteBefore: on every path from fn's entry to target, an instruction
// satisfying pred is executed — either directly in fn (dominating target) or
// inside a callee (own package functions, static calls) that executes it on
// every path from its entry to each return (depth-bounded).
func mustExecuteBefore(p *Prog, fn *ssa.Function, target ssa.Instruction, pred func(ssa.Instruction) bool, depth int) bool {
	for _, b := range fn.Blocks {
		for _, in := range b.Instrs {
			if in == target {
				continue
			}
			if !instrDominates(in, target) {
				continue
			}
			if pred(in) {
				return true
			}
			if call, ok := in.(*ssa.Call); ok && depth > 0 {
				if callee := call.Call.StaticCallee(); callee != nil && isOwn(callee) && callee.Blocks != nil {
					if mustExecuteInside(p, callee, pred, depth-1) {
						return true
					}
				}
			}
		}
	}
	return false
}

// mustExecuteInside: every path from entry to any return of fn executes pred.
func mustExecuteInside(p *Prog, fn *ssa.Function, pred func(ssa.Instruction) bool, depth int) bool {
	pd := newPostDom(fn)
	entry := fn.Blocks[0]
	for _, b := range fn.Blocks {
		if !pd.PostDominates(b, entry) {
			continue
		}
		for _, in := range b.Instrs {
			if pred(in) {
				return true
			}
			if call, ok := in.(*ssa.Call); ok && depth > 0 {
				if callee := call.Call.StaticCallee(); callee != nil && isOwn(callee) && callee.Blocks != nil {
					if mustExecuteInside(p, callee, pred, depth-1) {
						return true
					}
				}
			}
		}
	}
	return false
}

func init() {
	addMutants(
		Mutant{Name: "C06.R1-qs-delta-break-without-undo", Prop: "C06", File: "search/search.go", Quick: true,
			Old: "if gain+delta < alpha {\n\t\t\tb.UndoMove(m.Move, r)\n\t\t\tbreak", New: "if gain+delta < alpha {\n\t\t\tbreak",
			Expect: "C06.R1.make/search.(*Search).quiescence"},
		Mutant{Name: "C06.R1-ab-illegal-continue-without-undo", Prop: "C06", File: "search/search.go", Quick: true,
			Old: "if b.InCheck(b.STM.Flip()) {\n\t\t\tb.UndoMove(m, r)\n\t\t\tcontinue", New: "if b.InCheck(b.STM.Flip()) {\n\t\t\tcontinue",
			Expect: "C06.R1.make/search.(*Search).alphaBeta"},
		Mutant{Name: "C06.R1-qs-frame-pop-removed", Prop: "C06", File: "search/search.go",
			Old: "\ts.ms.Push()\n\tdefer s.ms.Pop()\n\n\tmovegen.GenNoisy(s.ms, b)\n\n\tdelta", New: "\ts.ms.Push()\n\n\tmovegen.GenNoisy(s.ms, b)\n\n\tdelta",
			Expect: "C06.R1.frame/search.(*Search).quiescence"},
		Mutant{Name: "C06.R1-nullmove-early-return", Prop: "C06", File: "search/search.go",
			Old: "value := -s.alphaBeta(b, -beta, -beta+1, max(d-red, 0), ply+1, CutNode, opts)\n", New: "value := -s.alphaBeta(b, -beta, -beta+1, max(d-red, 0), ply+1, CutNode, opts)\n\t\t\tif s.aborted {\n\t\t\t\treturn Inv\n\t\t\t}\n",
			Expect: "C06.R1.null/search.(*Search).alphaBeta"},
		Mutant{Name: "C06.R1-undo-wrong-token", Prop: "C06", File: "debug/perft.go",
			Old: "b.UndoMove(m.Move, r)", New: "b.UndoMove(m.Move, r&^0xff)",
			Expect: "C06.R1.make/debug.perft"},
		Mutant{Name: "C06.R1-hstack-pop-skipped-on-goto", Prop: "C06", File: "search/search.go",
			Old: "\t\tb.UndoMove(m, r)\n\t\ts.hstack.Pop()\n", New: "\t\tb.UndoMove(m, r)\n\t\tif value > alpha {\n\t\t\ts.hstack.Pop()\n\t\t}\n",
			Expect: "C06.R1.hstack/search.(*Search).alphaBeta"},
		Mutant{Name: "C06.R2-aborted-not-cleared", Prop: "C06", File: "search/state.go", Quick: true,
			Old: "\ts.hstack.Reset()\n\ts.aborted = false\n", New: "\ts.hstack.Reset()\n",
			Expect: "C06.R2/search.(*Search).Go#aborted=false"},
		Mutant{Name: "C06.R2-refresh-conditional", Prop: "C06", File: "search/search.go",
			Old: "\ts.refresh()\n\tdefer func() {", New: "\tif s.aborted {\n\t\ts.refresh()\n\t}\n\tdefer func() {",
			Expect: "C06.R2/search.(*Search).Go#ms.Clear()"},
	)
}

func init() {
	addMutants(
		Mutant{Name: "C06.R3-fallback-only-noisy-moves", Prop: "C06", File: "search/search.go",
			Old: "\t\t\t\t\tmovegen.GenNoisy(s.ms, b)\n\t\t\t\t\tmovegen.GenNotNoisy(s.ms, b)\n\t\t\t\t\tmoves := s.ms.Frame()\n", New: "\t\t\t\t\tmovegen.GenNoisy(s.ms, b)\n\t\t\t\t\tmoves := s.ms.Frame()\n",
			Expect: "C06.R3/iterativeDeepen#fallback-generates-all"},
		Mutant{Name: "C06.R3-fallback-adopts-before-filter", Prop: "C06", File: "search/search.go", Quick: true,
			Old: "\t\t\t\t\t\tr := b.MakeMove(pseudo.Move)\n\t\t\t\t\t\tif !b.InCheck(b.STM.Flip()) { // legal\n\t\t\t\t\t\t\tmove = pseudo.Move\n", New: "\t\t\t\t\t\tmove = pseudo.Move\n\t\t\t\t\t\tr := b.MakeMove(pseudo.Move)\n\t\t\t\t\t\tif !b.InCheck(b.STM.Flip()) { // legal\n",
			Expect: "C06.R3/iterativeDeepen#fallback-legal"},
		Mutant{Name: "C06.R3-fallback-overrides-completed-iteration", Prop: "C06", File: "search/search.go",
			Old: "\t\t\t\tif move == 0 {\n\t\t\t\t\ts.ms.Push()", New: "\t\t\t\tif move == 0 || idD < 2 {\n\t\t\t\t\ts.ms.Push()",
			Expect: "C06.R3/iterativeDeepen#fallback-only-without-result"},
		Mutant{Name: "C06.R4-F3-reverted-depth-unclamped", Prop: "C06", File: "uci/uci.go", Quick: true,
			Old: "depth := Depth(Clamp(parseInt(args[i+1]), 1, MaxPlies))", New: "depth := Depth(parseInt(args[i+1]))",
			Expect: "C06.R4/uci.(*Driver).handleGo#narrowing"},
		Mutant{Name: "C06.R4-clamp-wider-than-type", Prop: "C06", File: "uci/uci.go",
			Old: "depth := Depth(Clamp(parseInt(args[i+1]), 1, MaxPlies))", New: "depth := Depth(Clamp(parseInt(args[i+1]), 1, 4*MaxPlies))",
			Expect: "C06.R4/uci.(*Driver).handleGo#narrowing"},
		Mutant{Name: "C06.R4-perft-depth-unchecked", Prop: "C06", File: "uci/uci.go",
			Old: "\tif depth < 0 || depth > 30 {\n\t\tfmt.Fprintln(d.err, \"unsupported depth\")\n\t\treturn\n\t}\n", New: "\tif depth < 0 {\n\t\tfmt.Fprintln(d.err, \"unsupported depth\")\n\t\treturn\n\t}\n",
			Expect: "C06.R4/uci.(*Driver).handlePerft#narrowing"},
		Mutant{Tier: "thorough", Name: "C06.R5-divisor-minimum-zero", Prop: "C06", File: "params/spsa.go",
			Old: "{&NMPDiffFactor, \"NMPDiffFactor\", 30, 70},", New: "{&NMPDiffFactor, \"NMPDiffFactor\", 0, 70},",
			Expect: "C06.R5/"},
		Mutant{Tier: "thorough", Name: "C06.R5-shift-count-too-large", Prop: "C06", File: "params/spsa.go",
			Old: "{&HistAdjRange, \"HistAdjRange\", 4, 10},", New: "{&HistAdjRange, \"HistAdjRange\", 4, 16},",
			Expect: "C06.R5/heur.(*MoveRanker).FailHigh#shift:HistAdjRange"},
		Mutant{Tier: "thorough", Name: "C06.R5-default-drifted", Prop: "C06", File: "params/spsa.go",
			Old: "\tWindowSize       = 44\n", New: "\tWindowSize       = 45\n",
			Expect: "C06.R5/param:WindowSize#default"},
		Mutant{Tier: "thorough", Name: "C06.R5-row-published-under-sibling-name", Prop: "C06", File: "params/spsa.go",
			Old: "{&HistAdjReduction, \"HistAdjReduction\", 4, 10},", New: "{&HistAdjRange, \"HistAdjReduction\", 4, 10},",
			Expect: "C06.R5/tunable:"},
	)
}

// namedResult returns the local that holds the i-th named result of fn.
func namedResult(fn *ssa.Function, i int) *ssa.Alloc {
	res := fn.Signature.Results()
	if res == nil || i >= res.Len() || res.At(i).Name() == "" {
		return nil
	}
	for _, l := range fn.Locals {
		if l.Comment == res.At(i).Name() {
			return l
		}
	}
	return nil
}

// C06.R6: a value read from the transposition table is returned by alphaBeta
// only in non-PV nodes. The root is a PV node: a table cutoff there returns
// without searching a move, the PV stays empty and the search answers with the
// null move (or a stale one) on a non-final root.
func c06R6(c *Ctx, p *Prog) {
	const rule = "C06.R6"
	fn := p.Func("search.(*Search).alphaBeta")
	if fn == nil {
		c.Anchor(rule, "search.(*Search).alphaBeta")
		return
	}
	// the node-type parameter: the one compared against constants in the TT block; identify by type name Node (alias of byte): last byte-typed param
	var nt *ssa.Parameter
	for _, pr := range fn.Params {
		if b, ok := pr.Type().Underlying().(*types.Basic); ok && b.Kind() == types.Uint8 {
			nt = pr
		}
	}
	pvConst, okc := p.pkgConstInt("search.PVNode")
	if nt == nil || !okc {
		c.Undec(rule, "alphaBeta#node-type", fn.Pos(), "node-type parameter or PVNode constant not found")
		return
	}
	n := 0
	allInstrs(fn, func(in ssa.Instruction) {
		ret, ok := in.(*ssa.Return)
		if !ok || len(ret.Results) != 1 {
			return
		}
		fromTT := false
		// (through pure helpers: `if v, ok := ttCutoff(e.Type(), e.Value(ply), alpha, beta); ok { return v }`)
		for v := range backSlice(returnedValue(ret, 0), sliceOpts{ThroughCalls: true, Stop: func(x ssa.Value) bool {
			if call, ok := x.(*ssa.Call); ok {
				switch objName(calleeObj(call)) {
				case "search.(*Search).alphaBeta", "search.(*Search).quiescence":
					return true // a searched value, not a table value
				}
			}
			return false
		}}) {
			if isCallValueTo(v, "transp.(*entry).Value") {
				fromTT = true
			}
		}
		if !fromTT {
			return
		}
		n++
		guarded := false
		for _, ce := range controllingConds(ret.Block()) {
			bo, ok := ce.Cond.(*ssa.BinOp)
			if !ok || stripConv(bo.X) != ssa.Value(nt) {
				continue
			}
			k, isc := constOf(bo.Y)
			if isc && k == pvConst && ((bo.Op == token.NEQ && ce.True) || (bo.Op == token.EQL && !ce.True)) {
				guarded = true
			}
		}
		c.Check(guarded, rule, fmt.Sprintf("alphaBeta#tt-cutoff@%d", n), ret.Pos(), "a transposition-table value is returned only in non-PV nodes (the root always searches its moves)")
	})
	c.Floor(rule, n, 1, "transposition-table cutoffs in alphaBeta")
}

func init() {
	addMutants(
		Mutant{Name: "C06.R6-exact-tt-cutoff-in-pv-nodes", Prop: "C06", File: "search/search.go",
			Old:    "\t\tif nType != PVNode && transpE.Depth() >= d {\n\t\t\ttpVal := transpE.Value(ply)\n\n\t\t\tswitch transpE.Type() {\n\n\t\t\tcase transp.Exact:\n\t\t\t\treturn tpVal\n\n\t\t\tcase transp.LowerBound:\n\t\t\t\tif tpVal >= beta {",
			New:    "\t\tif transpE.Depth() >= d {\n\t\t\ttpVal := transpE.Value(ply)\n\n\t\t\tswitch transpE.Type() {\n\n\t\t\tcase transp.Exact:\n\t\t\t\treturn tpVal\n\n\t\t\tcase transp.LowerBound:\n\t\t\t\tif nType != PVNode && tpVal >= beta {",
			Expect: "C06.R6/alphaBeta#tt-cutoff"},
		Mutant{Name: "C06.R3-fallback-quiets-only-without-captures", Prop: "C06", File: "search/search.go",
			Old: "\t\t\t\t\tmovegen.GenNotNoisy(s.ms, b)\n\t\t\t\t\tmoves := s.ms.Frame()\n", New: "\t\t\t\t\tif len(s.ms.Frame()) == 0 {\n\t\t\t\t\t\tmovegen.GenNotNoisy(s.ms, b)\n\t\t\t\t\t}\n\t\t\t\t\tmoves := s.ms.Frame()\n",
			Expect: "C06.R3/iterativeDeepen#fallback-generates-all"},
	)
}
