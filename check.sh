#!/bin/sh
# usage: ./check.sh <ID> quick|thorough
# Decides the structural rules filed under property <ID> from /repo's current
# working tree (type-checked AST + SSA, nothing is executed).
cd "$(dirname "$0")"
. ./env.sh
if [ ! -x bin/chesslint ] || [ -n "$(find chesslint -newer bin/chesslint -name '*.go' 2>/dev/null | head -1)" ]; then
  ./build.sh >&2 || { echo "VIOLATION property=$1 replay=/verif/build.sh (checker does not build)"; exit 1; }
fi
exec ./bin/chesslint check "$1" --tier "${2:-${VERIF_TIER:-quick}}"
